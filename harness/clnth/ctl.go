package clnth

import (
	"encoding/binary"
	"fmt"
	"io"
	"log"
	"sort"
	"sync"
	"testing/synctest"

	"verif/harness/wire"

	"github.com/rminnich/go9p"
)

func init() { log.SetOutput(io.Discard) }

const (
	Msize      = 512
	BufSize    = 8 * Msize // the client's receive buffer
	FidBase    = 1000      // caller k issues its calls on fid FidBase+k; the call index is the offset
	RdCount    = 24
	UnknownTag = 0xF00D
)

// Result is what a call returned, in the vocabulary of Clnt9P: st in ok|rerror|badtype|error and
// the call id the returned payload was derived from (0 none, -1 nobody's).
type Result struct {
	St     string
	Pay    int
	Detail string
}

type parked struct {
	point  string
	caller int
	call   int
	req    *go9p.Req
	ch     chan struct{}
}

type callerH struct {
	id       int
	cmd      chan int // call index to start
	started  int
	returned int
	busy     bool
	istag    bool
	tag      *go9p.Tag
	rch      chan *go9p.Req
}

// Ctl is the gate controller and, in gated mode, also the scripted peer.
type Ctl struct {
	mu      sync.Mutex
	parked  []*parked
	Gated   bool
	Clnt    *go9p.Clnt
	Conn    *SConn
	Dotu    bool
	K       int
	NCalls  int
	callers []*callerH
	Res     []Result      // per call id (index call-1); St "" = not returned
	Comp    map[int][]int // Tag callers: call ids in completion order

	// peer state
	fr           wire.Framer
	Seen         []*PReq       // requests in arrival order
	byCall       map[int]*PReq // by call id
	fromPeer     []pframe      // frames not yet read by the client
	sent         int           // bytes handed to the client's Read so far
	peerGone     bool
	halfClosed   bool // the peer ended its sending direction and stopped reading
	wrFailed     bool // the client's writes fail; the peer neither reads nor sends any more (no EOF)
	nfault       int
	recvExited   bool
	senderExited bool
	doneClosed   bool
	Notes        []string
	TagsOut      map[uint16]int // tags of requests received by the peer and not answered -> call (non-Tag callers)
	DupTag       []string
}

type pframe struct {
	kind string
	call int
	b    []byte
	req  *PReq
}

func NewCtl(k, ncalls int) *Ctl {
	return &Ctl{Gated: true, K: k, NCalls: ncalls, byCall: map[int]*PReq{},
		Res: make([]Result, k*ncalls), Comp: map[int][]int{}, TagsOut: map[uint16]int{}}
}

var gatePoints = map[string]bool{"rpcnb_enq": true, "rpcnb_handoff": true, "crecv_deliver": true,
	"crecv_closed": true, "crecv_fanout": true, "crecv_fanned": true, "csend_got": true}

func (c *Ctl) hook(point string, clnt *go9p.Clnt, r *go9p.Req, nums []int) {
	if clnt != c.Clnt || !gatePoints[point] {
		return
	}
	c.mu.Lock()
	if !c.Gated {
		c.mu.Unlock()
		return
	}
	p := &parked{point: point, req: r, ch: make(chan struct{})}
	if r != nil && r.Tc != nil {
		p.call = c.callOfTc(r.Tc)
		if p.call > 0 {
			p.caller = (p.call-1)/c.NCalls + 1
		}
	}
	c.parked = append(c.parked, p)
	c.mu.Unlock()
	<-p.ch
}

func (c *Ctl) Wait() { synctest.Wait() }

func (c *Ctl) findParked(point string, caller int) *parked {
	c.mu.Lock()
	defer c.mu.Unlock()
	for _, p := range c.parked {
		if p.point == point && (caller == 0 || p.caller == caller) {
			return p
		}
	}
	return nil
}

func (c *Ctl) ParkedKeys() []string {
	c.mu.Lock()
	defer c.mu.Unlock()
	var ks []string
	for _, p := range c.parked {
		ks = append(ks, fmt.Sprintf("%s:%d", p.point, p.caller))
	}
	sort.Strings(ks)
	return ks
}

// Grant releases the goroutine parked at (point, caller) and waits for quiescence.
func (c *Ctl) Grant(point string, caller int) error {
	p := c.findParked(point, caller)
	if p == nil {
		return fmt.Errorf("nothing parked at %s:%d (parked %v)", point, caller, c.ParkedKeys())
	}
	c.mu.Lock()
	for i, q := range c.parked {
		if q == p {
			c.parked = append(c.parked[:i], c.parked[i+1:]...)
			break
		}
	}
	c.mu.Unlock()
	p.ch <- struct{}{}
	c.Wait()
	return nil
}

// ReleaseAll opens all gates for good: what is still blocked afterwards is genuinely stuck.
func (c *Ctl) ReleaseAll() {
	c.mu.Lock()
	c.Gated = false
	ps := c.parked
	c.parked = nil
	c.mu.Unlock()
	for _, p := range ps {
		close(p.ch)
	}
	c.Wait()
}

// ---------------------------------------------------------------- callers

// callOfTc identifies a call by the content of its request (fid = FidBase+caller, offset = index).
func (c *Ctl) callOfTc(tc *go9p.Fcall) int {
	if tc == nil {
		return 0
	}
	if n := c.identToCall(Ident{tc.Fid, tc.Offset}); n > 0 {
		return n
	}
	return 0
}

func callID(k, i, ncalls int) int { return (k-1)*ncalls + i }

// identToCall maps the identity found in a payload back to a call id (0 if it is nobody's).
func (c *Ctl) identToCall(id Ident) int {
	k := int(id.Fid) - FidBase
	i := int(id.Offset)
	if k < 1 || k > c.K || i < 1 || i > c.NCalls {
		return -1
	}
	return callID(k, i, c.NCalls)
}

// Classify turns (rc, err) of a Tread call into a Result. It looks only at the returned values.
func (c *Ctl) Classify(rc *go9p.Fcall, err error) Result {
	if err == nil {
		if rc == nil {
			return Result{St: "weird", Detail: "nil reply and nil error"}
		}
		if rc.Type != go9p.Rread {
			return Result{St: "weird", Pay: -1, Detail: fmt.Sprintf("success with reply type %d", rc.Type)}
		}
		d := rc.Data
		if len(d) != RdCount || uint32(len(d)) != rc.Count {
			return Result{St: "ok", Pay: -1, Detail: fmt.Sprintf("data length %d count %d", len(d), rc.Count)}
		}
		id := Ident{binary.LittleEndian.Uint32(d[0:]), binary.LittleEndian.Uint64(d[4:])}
		want := ReadPayload(id.Fid, id.Offset, RdCount)
		if string(want) != string(d) {
			return Result{St: "ok", Pay: -1, Detail: "data is not any call's payload"}
		}
		return Result{St: "ok", Pay: c.identToCall(id)}
	}
	if rc == nil {
		if err == io.EOF {
			// the library's own File helpers (Read, Readn, Readdir) take this very value for the end of the file and
			// return success: a failed connection must not be reported with it
			return Result{St: "weird", Detail: "the failure of the connection is reported as the bare io.EOF value, which File.Read/Readn/Readdir take for end of file (success without a reply)"}
		}
		return Result{St: "error", Detail: err.Error()}
	}
	e, _ := err.(*go9p.Error)
	if rc.Type == go9p.Rerror {
		if e == nil {
			return Result{St: "rerror", Pay: -1, Detail: "error is not *go9p.Error: " + err.Error()}
		}
		var id Ident
		if n, _ := fmt.Sscanf(e.Err, "E-%d-%d", &id.Fid, &id.Offset); n != 2 {
			return Result{St: "rerror", Pay: -1, Detail: "text " + e.Err}
		}
		if c.Dotu && e.Errornum != ErrCode(id) {
			return Result{St: "rerror", Pay: -1, Detail: fmt.Sprintf("text %s number %d", e.Err, e.Errornum)}
		}
		return Result{St: "rerror", Pay: c.identToCall(id)}
	}
	// an error together with a reply that is not Rerror: mismatched type
	if rc.Type == go9p.Rwrite {
		for call := 1; call <= c.K*c.NCalls; call++ {
			id := Ident{uint32(FidBase + (call-1)/c.NCalls + 1), uint64((call-1)%c.NCalls + 1)}
			if WrongCount(id) == rc.Count {
				return Result{St: "badtype", Pay: call}
			}
		}
	}
	return Result{St: "badtype", Pay: -1, Detail: fmt.Sprintf("reply type %d", rc.Type)}
}

func (c *Ctl) startCallers(tagCallers map[int]bool) {
	for k := 1; k <= c.K; k++ {
		h := &callerH{id: k, cmd: make(chan int), istag: tagCallers[k]}
		if h.istag {
			h.rch = make(chan *go9p.Req, 64)
			h.tag = c.Clnt.TagAlloc(h.rch)
			go c.collector(h)
		}
		c.callers = append(c.callers, h)
		go c.callerLoop(h)
	}
}

func (c *Ctl) callerLoop(h *callerH) {
	fid := &go9p.Fid{Clnt: c.Clnt, Fid: uint32(FidBase + h.id), Iounit: Msize}
	for i := range h.cmd {
		call := callID(h.id, i, c.NCalls)
		if h.istag {
			c.mu.Lock()
			h.busy = true
			c.mu.Unlock()
			err := h.tag.Read(fid, uint64(i), RdCount)
			c.mu.Lock()
			if err != nil {
				c.Res[call-1] = Result{St: "error", Detail: err.Error()}
			}
			h.busy = false
			h.returned++
			c.mu.Unlock()
			continue
		}
		tc := c.Clnt.NewFcall()
		if err := go9p.PackTread(tc, fid.Fid, uint64(i), RdCount); err != nil {
			panic(err)
		}
		c.mu.Lock()
		h.busy = true
		c.mu.Unlock()
		rc, err := c.Clnt.Rpc(tc)
		res := c.Classify(rc, err)
		c.mu.Lock()
		c.Res[call-1] = res
		h.busy = false
		h.returned++
		c.mu.Unlock()
	}
}

func (c *Ctl) collector(h *callerH) {
	for r := range h.rch {
		res := c.Classify(r.Rc, r.Err)
		c.mu.Lock()
		call := c.callOfTc(r.Tc)
		if call > 0 {
			c.Res[call-1] = res
			c.Comp[h.id] = append(c.Comp[h.id], call)
		} else {
			c.Notes = append(c.Notes, "completion of an unknown Tag request")
		}
		c.mu.Unlock()
	}
}
