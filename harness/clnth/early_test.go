package clnth

import (
	"bytes"
	"fmt"
	"math/rand"
	"os"
	"strconv"
	"testing"
	"time"

	"verif/harness/wire"

	"github.com/rminnich/go9p"
)

// TestEarlyReply (C09): a server may answer a request as soon as it has seen enough of it -- its header, say --
// and read the rest afterwards; a transport may take a request in several pieces.  The call returns with that
// reply, its request slot and buffer are recycled, and the caller packs its next request.  The bytes of the
// earlier request that the peer receives afterwards must still be the request the caller issued: a call gets the
// reply to its OWN request only if the request that reached the server is the one it made.
func TestEarlyReply(t *testing.T) {
	seed, _ := strconv.Atoi(os.Getenv("VERIF_SEED"))
	sessions, _ := strconv.Atoi(os.Getenv("VERIF_SESSIONS"))
	if sessions == 0 {
		sessions = 40
	}
	rng := rand.New(rand.NewSource(int64(seed)*7919 + 17))
	rep := &Report{Engine: "clnt-early-reply", Stats: map[string]any{}}
	calls := 0
	for s := 0; s < sessions; s++ {
		seg := []int{7, 11, 24, 64, 100, 499}[s%6]
		if s >= 12 {
			seg = 7 + rng.Intn(300)
		}
		dotu := s%2 == 1
		ncalls := 3 + rng.Intn(5)
		cfg := map[string]any{"engine": "early", "session": s, "segment": seg, "dotu": dotu, "calls": ncalls, "seed": seed}
		conn := NewSConn()
		conn.MaxWrite = func(n int) int { return seg }
		clnt := go9p.NewClnt(conn, Msize, dotu)
		type issued struct {
			fid  uint32
			off  uint64
			data []byte
		}
		reqs := make([]issued, ncalls)
		for i := range reqs {
			d := make([]byte, rng.Intn(Msize-24-8))
			for j := range d {
				d[j] = byte('A' + i)
			}
			reqs[i] = issued{fid: uint32(100 + i), off: uint64(i) * 1000003, data: d}
		}
		packed := make(chan int, ncalls+1)
		results := make(chan error, ncalls)
		go func() {
			for i, q := range reqs {
				tc := clnt.NewFcall()
				if err := go9p.PackTwrite(tc, q.fid, q.off, uint32(len(q.data)), q.data); err != nil {
					results <- err
					return
				}
				packed <- i
				rc, err := clnt.Rpc(tc)
				switch {
				case err != nil:
					results <- fmt.Errorf("call %d: %v", i, err)
				case rc.Type != go9p.Rwrite || rc.Count != uint32(len(q.data)):
					results <- fmt.Errorf("call %d: reply type %d count %d for a write of %d bytes", i, rc.Type, rc.Count, len(q.data))
				default:
					results <- nil
				}
			}
			packed <- ncalls
		}()
		take := func() []byte {
			ch := make(chan []byte, 1)
			go func() { ch <- conn.Take() }()
			select {
			case b := <-ch:
				return b
			case <-time.After(10 * time.Second):
				return nil
			}
		}
		ok := true
		<-packed // the first request has been packed
		for i := 0; i < ncalls && ok; i++ {
			early := []int{7, 11, 23}[rng.Intn(3)] // bytes of the request seen before the reply is sent
			var frame []byte
			size := -1
			replied := false
			for size < 0 || len(frame) < size || !replied {
				if !replied && len(frame) >= 7 && (len(frame) >= early || len(frame) >= size) {
					tag := uint16(frame[5]) | uint16(frame[6])<<8
					r := wire.Encode(&wire.Msg{Type: wire.Rwrite, Tag: tag, Count: uint32(len(reqs[i].data))}, dotu)
					if !conn.Deliver(r) {
						ok = false
						break
					}
					replied = true
					// the call returns and the caller packs its next request (or finishes)
					select {
					case e := <-results:
						if e != nil {
							rep.AddViolation("early-reply:call-failed", e.Error(), cfg)
						}
					case <-time.After(10 * time.Second):
						rep.Inconclusive = append(rep.Inconclusive, fmt.Sprintf("session %d: call %d did not return after its reply", s, i))
						ok = false
					}
					if !ok {
						break
					}
					select {
					case <-packed:
					case <-time.After(10 * time.Second):
						rep.Inconclusive = append(rep.Inconclusive, fmt.Sprintf("session %d: caller did not go on after call %d", s, i))
						ok = false
					}
					if !ok {
						break
					}
					continue
				}
				b := take()
				if b == nil {
					rep.Inconclusive = append(rep.Inconclusive, fmt.Sprintf("session %d: request %d never completed (%d of %d bytes)", s, i, len(frame), size))
					ok = false
					break
				}
				frame = append(frame, b...)
				if size < 0 && len(frame) >= 4 {
					size = int(uint32(frame[0]) | uint32(frame[1])<<8 | uint32(frame[2])<<16 | uint32(frame[3])<<24)
				}
			}
			if !ok {
				break
			}
			calls++
			m, err := wire.Decode(frame, dotu)
			want := reqs[i]
			switch {
			case len(frame) != size:
				rep.AddViolation("early-reply:request-framing", fmt.Sprintf("request %d: %d bytes received for a frame announcing %d", i, len(frame), size), cfg)
			case err != nil:
				rep.AddViolation("early-reply:request-undecodable", fmt.Sprintf("request %d as received by the peer: %v", i, err), cfg)
			case m.Type != wire.Twrite || m.Fid != want.fid || m.Offset != want.off || !bytes.Equal(m.Data, want.data):
				rep.AddViolation("early-reply:request-bytes-changed", fmt.Sprintf("request %d reached the peer as %s fid %d offset %d with %d bytes of data beginning %q; the caller issued Twrite fid %d offset %d with %d bytes of %q (segments of %d bytes, reply sent after %d bytes)",
					i, wire.TypeName(m.Type), m.Fid, m.Offset, len(m.Data), head(m.Data), want.fid, want.off, len(want.data), head(want.data), seg, early), cfg)
			}
		}
		conn.Close()
		clnt.Unmount()
		rep.Cases++
		if len(rep.Samples) < 2 {
			rep.Samples = append(rep.Samples, cfg)
		}
	}
	rep.Distinct = rep.Cases
	rep.Stats["calls"] = calls
	if err := rep.Write(); err != nil {
		t.Fatal(err)
	}
}

func head(b []byte) string {
	if len(b) > 6 {
		b = b[:6]
	}
	return string(b)
}
