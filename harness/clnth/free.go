package clnth

import (
	"fmt"
	"math/rand"
	"sync"
	"testing"
	"testing/synctest"

	"verif/harness/wire"

	"github.com/rminnich/go9p"
)

// Free-running executions: no gates, the callers, the client's send and receive goroutines run
// under the Go scheduler; the test goroutine is the scripted peer. It acts either eagerly or at
// quiescence (synctest.Wait), so a call that can never return is seen exactly: the system is
// quiescent, the peer owes nothing, and the call has not returned.

// Op is one client call made through the public API.
type Op struct {
	Caller, Index int
	Kind          string // read | write | stat
	Fid           uint32
	Offset        uint64
	Count         uint32
	Data          []byte
	// outcome
	Returned bool
	Class    string // ok | rerror | othererr | bad:<why>
	ErrText  string
}

func (o *Op) Ident() Ident {
	if o.Kind == "stat" {
		return Ident{o.Fid, 0}
	}
	return Ident{o.Fid, o.Offset}
}

type FreeCfg struct {
	Callers    int
	CallsPer   int
	Seed       int64
	Dotu       bool
	Window     int  // the peer answers when it holds this many requests (or at quiescence)
	Mix        bool // read/write/stat mix (else reads only)
	ErrPct     int  // percentage of Rerror answers
	WrongPct   int  // percentage of mismatched answers
	PartialWr  bool // the transport accepts partial writes
	Order      []int // if set: wait for len(Order) requests, answer them in this order (by arrival rank)
	CutAt      int   // >= 0: deliver exactly this many reply-stream bytes, then the connection dies
	Fault      string // "", cut, close, garbage:<class>, unknown, oversize, unmount  (applied once all first-round requests are in)
	Answered   int   // with Fault: number of requests answered completely before the fault
	LateCalls  int   // calls made after the failure by caller 1
	TagMode    bool  // callers use the pipelined Tag interface (one Tag each)
	FullyRead  int   // Fault "halfclose": requests the peer reads completely; the next one is left mid-write
	Coalesce   bool  // replies are queued and handed to the client in chunks that span frame boundaries
	BigReads   bool  // read counts up to nearly msize (so that the 8*msize receive buffer wraps mid-frame)
}

type Free struct {
	cfg     FreeCfg
	rng     *rand.Rand
	conn    *SConn
	clnt    *go9p.Clnt
	fr      wire.Framer
	mu      sync.Mutex
	ops     []*Op
	byIdent map[Ident]*Op
	pending []*PReq
	seen    []*PReq
	reqOf   map[Ident]*PReq
	sent    int
	out     map[uint16]Ident // tags outstanding at the peer
	Viol    map[string]string
	Hang    string
	nAnswered int
	failed  bool
	tagOrder map[int][]int // TagMode: completion order of indices per caller
	outq     []byte // Coalesce: reply bytes not yet handed to the client
	queued   int    // Coalesce: reply-stream bytes produced so far
	flushAt  int
}

func (f *Free) viol(key, msg string) {
	f.mu.Lock()
	if _, ok := f.Viol[key]; !ok {
		f.Viol[key] = msg
	}
	f.mu.Unlock()
}

func (f *Free) kindFor(id Ident) string {
	h := uint64(f.cfg.Seed)*0x9E3779B97F4A7C15 ^ uint64(id.Fid)*0xC2B2AE3D27D4EB4F ^ id.Offset*0x165667B19E3779F9
	h ^= h >> 29
	h *= 0xBF58476D1CE4E5B9
	h ^= h >> 32
	p := int(h % 100)
	switch {
	case p < f.cfg.ErrPct:
		return "rerror"
	case p < f.cfg.ErrPct+f.cfg.WrongPct:
		return "wrongtype"
	}
	return "ok"
}

func (f *Free) mkOp(k, i int) *Op {
	o := &Op{Caller: k, Index: i, Kind: "read", Fid: uint32(FidBase + k), Offset: uint64(i), Count: RdCount}
	if f.cfg.Mix {
		r := rand.New(rand.NewSource(f.cfg.Seed ^ int64(k)<<20 ^ int64(i)))
		switch r.Intn(4) {
		case 0:
			o.Kind = "write"
			o.Data = make([]byte, 1+r.Intn(120))
			r.Read(o.Data)
		case 1:
			o.Kind = "stat"
			o.Fid = uint32(1<<20 + k*100000 + i)
		default:
			o.Count = uint32(12 + r.Intn(200))
			if f.cfg.BigReads {
				o.Count = uint32(12 + r.Intn(Msize-40))
			}
		}
	}
	return o
}

func (f *Free) reqKind(id Ident) string {
	f.mu.Lock()
	defer f.mu.Unlock()
	if q := f.reqOf[id]; q != nil {
		if q.Kind == "" {
			return "unanswered"
		}
		return q.Kind
	}
	return "none"
}

// check compares what a call returned with what its own request content demands.
func (f *Free) check(o *Op, val any, err error) {
	id := o.Ident()
	answered := f.reqKind(id)
	f.mu.Lock()
	failed := f.failed
	f.mu.Unlock()
	class := ""
	defer func() {
		f.mu.Lock()
		o.Class = class
		o.Returned = true
		f.mu.Unlock()
	}()
	bad := func(why, msg string) {
		class = "bad:" + why
		f.viol(why, fmt.Sprintf("%s call of caller %d (fid %d offset %d): %s", o.Kind, o.Caller, o.Fid, o.Offset, msg))
	}
	if err == nil {
		class = "ok"
		if answered != "ok" {
			bad("false-success", fmt.Sprintf("returned success but the peer's answer was %q", answered))
			return
		}
		switch o.Kind {
		case "read":
			d, _ := val.([]byte)
			if string(d) != string(ReadPayload(o.Fid, o.Offset, o.Count)) {
				bad("foreign-reply:ok", fmt.Sprintf("data (%d bytes) is not the payload of this request", len(d)))
			}
		case "write":
			if uint32(val.(int)) != WriteCount(o.Fid, o.Offset, o.Data) {
				bad("foreign-reply:ok", fmt.Sprintf("count %d is not the one derived from this request", val.(int)))
			}
		case "stat":
			d := val.(*go9p.Dir)
			if d == nil || d.Length != StatLength(o.Fid) || d.Name != fmt.Sprintf("f%d", o.Fid) {
				bad("foreign-reply:ok", "stat is not the one derived from this request")
			}
		}
		return
	}
	f.mu.Lock()
	o.ErrText = err.Error()
	f.mu.Unlock()
	e, isE := err.(*go9p.Error)
	if isE && len(e.Err) > 2 && e.Err[:2] == "E-" {
		class = "rerror"
		if e.Err != ErrText(id) || (f.cfg.Dotu && e.Errornum != ErrCode(id)) {
			bad("foreign-reply:rerror", fmt.Sprintf("error %q/%d is not the one the peer derived from this request (%q/%d)", e.Err, e.Errornum, ErrText(id), ErrCode(id)))
		} else if answered != "rerror" {
			bad("wrong-class", "Rerror text returned although the peer did not answer this request with Rerror")
		}
		return
	}
	class = "othererr"
	if !failed {
		if answered == "ok" {
			bad("wrong-class:ok->error", "the peer answered with the matching R-message, the call returned error "+err.Error())
		} else if answered == "rerror" {
			bad("wrong-class:rerror->error", "the peer answered Rerror, the call returned a different error "+err.Error())
		}
	}
}

func (f *Free) do(o *Op) {
	fid := &go9p.Fid{Clnt: f.clnt, Fid: o.Fid, Iounit: Msize}
	switch o.Kind {
	case "read":
		d, err := f.clnt.Read(fid, o.Offset, o.Count)
		f.check(o, d, err)
	case "write":
		n, err := f.clnt.Write(fid, o.Data, o.Offset)
		f.check(o, n, err)
	case "stat":
		d, err := f.clnt.Stat(fid)
		f.check(o, d, err)
	}
}

// ingest feeds bytes the client wrote to the framer and decodes complete requests.
func (f *Free) ingest(b []byte) {
	f.fr.Feed(b)
	for {
		fr, err := f.fr.Next()
		if err != nil {
			f.viol("peer-bad-frame", "the client sent an unframeable byte stream: "+err.Error())
			return
		}
		if fr == nil {
			return
		}
		m, derr := wire.Decode(fr, f.cfg.Dotu)
		if derr != nil {
			f.viol("peer-bad-request", "independent decoder rejects a request: "+derr.Error())
			continue
		}
		q := &PReq{Seq: len(f.seen) + 1, Msg: m}
		id := IdentOf(m)
		f.mu.Lock()
		f.seen = append(f.seen, q)
		f.pending = append(f.pending, q)
		f.reqOf[id] = q
		dup := ""
		if !f.cfg.TagMode {
			if other, ok := f.out[m.Tag]; ok {
				dup = fmt.Sprintf("tag %d arrives with request %v while request %v is outstanding with it", m.Tag, id, other)
			}
			f.out[m.Tag] = id
		}
		f.mu.Unlock()
		if dup != "" {
			f.viol("duplicate-tag", dup)
		}
	}
}

// takeAll drains what the sender is writing and decodes complete requests.
func (f *Free) takeAll() {
	for f.conn.Writing() {
		b := f.conn.Take()
		if b == nil {
			return
		}
		f.ingest(b)
		synctest.Wait()
	}
}

// flush hands queued reply bytes to the client in chunks of arbitrary size (a chunk may hold
// several replies and end in the middle of one; a chunk larger than the room left in the client's
// buffer is consumed by consecutive Reads). Unless all is set it may stop early.
func (f *Free) flush(all bool) {
	for len(f.outq) > 0 {
		n := 1 + f.rng.Intn(len(f.outq))
		if f.rng.Intn(2) == 0 && n > 700 {
			n = 1 + f.rng.Intn(700)
		}
		if !f.conn.Deliver(f.outq[:n]) {
			f.outq = nil
			return
		}
		f.sent += n
		f.outq = f.outq[n:]
		if !all && f.rng.Intn(3) == 0 {
			return
		}
	}
}

// deliver writes bytes of the reply stream to the client in random segments, up to limit bytes
// of the whole stream if limit >= 0. Returns false when the limit was hit or the client is gone.
func (f *Free) deliver(b []byte, limit int) bool {
	for len(b) > 0 {
		if limit >= 0 && f.sent >= limit {
			return false
		}
		n := len(b)
		if n > 1 && f.rng.Intn(3) > 0 {
			n = 1 + f.rng.Intn(n)
		}
		if limit >= 0 && f.sent+n > limit {
			n = limit - f.sent
		}
		if !f.conn.Deliver(b[:n]) {
			return false
		}
		f.sent += n
		b = b[n:]
	}
	return true
}

func (f *Free) answer(q *PReq, kind string, limit int) bool {
	f.mu.Lock()
	q.Answered, q.Kind = true, kind
	delete(f.out, q.Msg.Tag)
	f.mu.Unlock()
	b := Answer(q.Msg, kind, f.cfg.Dotu)
	if f.cfg.Coalesce {
		f.outq = append(f.outq, b...)
		f.queued += len(b)
		f.mu.Lock()
		q.End = f.queued
		f.mu.Unlock()
		f.nAnswered++
		return true
	}
	end := f.sent + len(b)
	ok := f.deliver(b, limit)
	if ok {
		f.mu.Lock()
		q.End = end
		f.mu.Unlock()
		f.nAnswered++
	} else {
		f.mu.Lock()
		q.Kind = "partial"
		f.mu.Unlock()
	}
	return ok
}

func (f *Free) pickPending() *PReq {
	// same-tag requests are answered in arrival order (a server does that); otherwise any order
	i := f.rng.Intn(len(f.pending))
	q := f.pending[i]
	for j, o := range f.pending {
		if o.Msg.Tag == q.Msg.Tag && o.Seq < q.Seq {
			q, i = o, j
		}
	}
	f.pending = append(f.pending[:i], f.pending[i+1:]...)
	return q
}

func (f *Free) allReturned() bool {
	f.mu.Lock()
	defer f.mu.Unlock()
	for _, o := range f.ops {
		if !o.Returned {
			return false
		}
	}
	return true
}

func (f *Free) die() {
	f.mu.Lock()
	f.failed = true
	f.mu.Unlock()
	f.conn.Gone()
	f.conn.EOF()
}

// RunFree executes one free-running session in its own bubble.
func RunFree(t *testing.T, cfg FreeCfg) (ff *Free) {
	f := &Free{cfg: cfg, rng: rand.New(rand.NewSource(cfg.Seed)), byIdent: map[Ident]*Op{}, reqOf: map[Ident]*PReq{},
		out: map[uint16]Ident{}, Viol: map[string]string{}, tagOrder: map[int][]int{}}
	ff = f
	f.flushAt = f.rng.Intn(3 * BufSize / 2)
	Progress()
	defer func() {
		if r := recover(); r != nil {
			if f.Hang == "" {
				f.Hang = fmt.Sprint(r)
			}
		}
	}()
	synctest.Test(t, func(t *testing.T) {
		f.conn = NewSConn()
		if cfg.Fault == "halfclose" || cfg.Fault == "wfail" {
			f.conn.MaxWrite = func(n int) int { return min(n, 9) }
		} else if cfg.PartialWr {
			var pm sync.Mutex
			prng := rand.New(rand.NewSource(cfg.Seed + 99))
			f.conn.MaxWrite = func(n int) int { pm.Lock(); defer pm.Unlock(); return 1 + prng.Intn(n) }
		}
		f.clnt = go9p.NewClnt(f.conn, Msize, cfg.Dotu)
		start := make(chan struct{})
		late := make(chan struct{})
		var wg sync.WaitGroup
		for k := 1; k <= cfg.Callers; k++ {
			var mine []*Op
			for i := 1; i <= cfg.CallsPer; i++ {
				o := f.mkOp(k, i)
				f.ops = append(f.ops, o)
				mine = append(mine, o)
			}
			wg.Add(1)
			if cfg.TagMode {
				go f.tagCaller(k, mine, start, &wg)
				continue
			}
			go func() {
				defer wg.Done()
				<-start
				for _, o := range mine {
					f.do(o)
				}
			}()
		}
		if cfg.LateCalls > 0 {
			var lateOps []*Op
			for i := 1; i <= cfg.LateCalls; i++ {
				o := &Op{Caller: cfg.Callers + 1, Index: i, Kind: "read", Fid: uint32(FidBase + cfg.Callers + 1), Offset: uint64(i), Count: RdCount}
				f.ops = append(f.ops, o)
				lateOps = append(lateOps, o)
			}
			wg.Add(1)
			go func() {
				defer wg.Done()
				<-late
				for _, o := range lateOps {
					f.do(o)
				}
			}()
		}
		close(start)
		f.peerLoop(late)
		if cfg.LateCalls > 0 && cfg.Order == nil && cfg.Fault == "" {
			close(late)
		}
		// teardown
		if f.Hang == "" {
			wg.Wait()
		}
		f.snapshotCheck()
		f.clnt.Unmount()
		synctest.Wait()
		for i := 0; i < 100 && f.conn.Writing(); i++ {
			f.conn.Take()
			synctest.Wait()
		}
	})
	return f
}

// settle waits for quiescence, taking every request the client writes meanwhile.
func (f *Free) settle() {
	for {
		synctest.Wait()
		if !f.conn.Writing() {
			return
		}
		f.takeAll()
	}
}

// peerLoop is the scripted peer, run by the test goroutine.
func (f *Free) peerLoop(late chan struct{}) {
	cfg := f.cfg
	if cfg.Fault == "halfclose" || cfg.Fault == "wfail" {
		f.halfClose(late)
		return
	}
	if cfg.Order != nil || cfg.Fault != "" {
		// scripted session: collect the first round, answer, inject the fault, release late calls
		f.settle()
		if len(f.seen) < cfg.Callers {
			f.Hang = fmt.Sprintf("quiescent with %d of %d requests at the peer", len(f.seen), cfg.Callers)
			return
		}
		limit := -1
		if cfg.Fault == "cut" {
			limit = cfg.CutAt
		}
		f.scriptedRound(limit)
		if cfg.LateCalls > 0 {
			close(late)
		}
		f.settle()
		if !f.allReturned() {
			f.Hang = "quiescent after the scripted session with calls that have not returned"
		}
		return
	}
	for {
		quiet := false
		if !f.conn.Writing() || f.rng.Intn(4) == 0 {
			synctest.Wait()
			quiet = true
		}
		if f.conn.Writing() {
			f.takeAll()
			continue
		}
		if len(f.pending) > 0 && (quiet || len(f.pending) >= cfg.Window) {
			q := f.pickPending()
			f.answer(q, f.kindFor(IdentOf(q.Msg)), -1)
			if len(f.outq) > f.flushAt {
				f.flush(false)
			}
			continue
		}
		if quiet && len(f.outq) > 0 {
			f.flush(true)
			continue
		}
		if !quiet {
			continue
		}
		if f.allReturned() {
			return
		}
		f.Hang = "quiescent, the peer owes no answer, and calls have not returned"
		return
	}
}

// halfClose: the peer reads FullyRead requests completely and a first piece of the next one,
// answers Answered of them, then ends its sending direction and reads nothing more: the client's
// Read reports EOF while its writer is blocked in Write. Every call must still return.
func (f *Free) halfClose(late chan struct{}) {
	cfg := f.cfg
	for len(f.seen) < cfg.FullyRead {
		synctest.Wait()
		if !f.conn.Writing() {
			f.Hang = fmt.Sprintf("quiescent with %d of %d requests at the peer", len(f.seen), cfg.FullyRead)
			return
		}
		f.ingest(f.conn.Take())
	}
	synctest.Wait()
	if cfg.FullyRead < cfg.Callers && f.conn.Writing() {
		f.ingest(f.conn.Take()) // a first piece only: the writer stays blocked with the rest
		synctest.Wait()
	}
	reqs := append([]*PReq(nil), f.pending...)
	f.pending = nil
	for i, j := range f.rng.Perm(len(reqs)) {
		if i >= cfg.Answered {
			break
		}
		f.answer(reqs[j], f.kindFor(IdentOf(reqs[j].Msg)), -1)
	}
	f.mu.Lock()
	f.failed = true
	f.mu.Unlock()
	if cfg.Fault == "wfail" {
		// only the client's writes fail (now and later); nothing more arrives, but the read side is not ended
		f.conn.Gone()
	} else {
		f.conn.EOF()
	}
	if cfg.LateCalls > 0 {
		close(late)
	}
	synctest.Wait()
	if !f.allReturned() {
		f.Hang = "quiescent after the peer ended its sending direction and stopped reading, with calls that have not returned"
		if cfg.Fault == "wfail" {
			f.Hang = "quiescent after the client's writes started to fail (the peer sends nothing more), with calls that have not returned"
		}
	}
}

// scriptedRound: all first-round requests are at the peer. Answer per Order / Answered, then fault.
func (f *Free) scriptedRound(limit int) {
	cfg := f.cfg
	order := cfg.Order
	if order == nil {
		order = f.rng.Perm(len(f.pending))
		if cfg.TagMode {
			// a server answers requests that share a tag in arrival order
			for i := range order {
				order[i] = i
			}
		}
	}
	reqs := append([]*PReq(nil), f.pending...)
	f.pending = nil
	n := len(order)
	if cfg.Fault != "" && cfg.Fault != "cut" {
		n = cfg.Answered
	}
	for i := 0; i < n && i < len(order); i++ {
		q := reqs[order[i]]
		if !f.answer(q, f.kindFor(IdentOf(q.Msg)), limit) {
			break
		}
	}
	if cfg.Coalesce {
		// everything answered so far goes out in one piece (the client's Reads cut it where its buffer ends)
		if len(f.outq) > 0 && f.conn.Deliver(f.outq) {
			f.sent += len(f.outq)
		}
		f.outq = nil
	}
	switch {
	case cfg.Fault == "":
	case cfg.Fault == "cut" || cfg.Fault == "close":
		f.die()
	case cfg.Fault == "unmount":
		f.mu.Lock()
		f.failed = true
		f.mu.Unlock()
		f.clnt.Unmount()
	case cfg.Fault == "unknown":
		f.mu.Lock()
		f.failed = true
		f.mu.Unlock()
		f.deliver(UnknownTagFrame(UnknownTag, cfg.Dotu), -1)
	case cfg.Fault == "oversize":
		f.mu.Lock()
		f.failed = true
		f.mu.Unlock()
		f.deliver(OversizeFrame(BufSize, 1+f.rng.Intn(200)), -1)
	default:
		var class int
		fmt.Sscanf(cfg.Fault, "garbage:%d", &class)
		f.mu.Lock()
		f.failed = true
		f.mu.Unlock()
		f.deliver(GarbageFrame(class), -1)
	}
}

// snapshotCheck: tags are conserved (free + cached + outstanding = 65535 minus Tags in use).
func (f *Free) snapshotCheck() {
	if f.Hang != "" || f.failed {
		return
	}
	si, corrupt := SafeSnapshot(f.clnt)
	if corrupt {
		f.viol("request-list-corrupt", "a completed (recycled) request is still linked in the client's outstanding-request list; recv's tag search dereferences its nil Tc")
		return
	}
	ntag := 0 // Tag callers have returned their tag (TagFree) by now
	if got := si.FreeTags + si.CachedReqs + len(si.Outstanding); got != 65535-ntag {
		f.viol("tag-leak", fmt.Sprintf("after %d calls: free %d + cached %d + outstanding %d = %d tags, want %d",
			len(f.ops), si.FreeTags, si.CachedReqs, len(si.Outstanding), got, 65535-ntag))
	}
	seen := map[uint16]bool{}
	for _, t := range si.CachedTags {
		if seen[t] {
			f.viol("tag-duplicated", fmt.Sprintf("tag %d is cached twice", t))
		}
		seen[t] = true
	}
}

// ---------------------------------------------------------------- Tag interface

func (f *Free) tagCaller(k int, mine []*Op, start chan struct{}, wg *sync.WaitGroup) {
	defer wg.Done()
	rch := make(chan *go9p.Req, len(mine)+1)
	tag := f.clnt.TagAlloc(rch)
	fid := &go9p.Fid{Clnt: f.clnt, Fid: uint32(FidBase + k), Iounit: Msize}
	<-start
	issued := 0
	for _, o := range mine {
		if err := tag.Read(fid, o.Offset, o.Count); err != nil {
			f.check(o, nil, err)
			continue
		}
		issued++
	}
	for i := 0; i < issued; i++ {
		r := <-rch
		idx := int(r.Tc.Offset)
		f.mu.Lock()
		f.tagOrder[k] = append(f.tagOrder[k], idx)
		var o *Op
		for _, x := range mine {
			if x.Index == idx {
				o = x
			}
		}
		f.mu.Unlock()
		if o == nil {
			f.viol("tag-unknown-completion", "completion of a request nobody issued")
			continue
		}
		var val any
		if r.Err == nil && r.Rc != nil {
			val = r.Rc.Data
		}
		if r.Err == nil && r.Rc != nil && r.Rc.Type != go9p.Rread {
			f.viol("wrong-class", "Tag completion without error for a mismatched reply")
		}
		f.check(o, val, r.Err)
	}
	f.clnt.TagFree(tag)
	f.mu.Lock()
	ord := f.tagOrder[k]
	f.mu.Unlock()
	for i := 1; i < len(ord); i++ {
		if ord[i] < ord[i-1] {
			f.viol("tag-fifo", fmt.Sprintf("Tag of caller %d: request %d completed after request %d", k, ord[i], ord[i-1]))
			break
		}
	}
}
