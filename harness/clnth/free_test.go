package clnth

import (
	"encoding/json"
	"fmt"
	"math/rand"
	"os"
	"sort"
	"testing"
	"time"
)

func addFree(rep *Report, f *Free, prefix string, replay any) {
	keys := make([]string, 0, len(f.Viol))
	for k := range f.Viol {
		keys = append(keys, k)
	}
	sort.Strings(keys)
	for _, k := range keys {
		rep.AddViolation(prefix+k, f.Viol[k], replay)
	}
}

func freeReplay(cfg FreeCfg) map[string]any {
	return map[string]any{"engine": "free", "cfg": cfg}
}

// judgeFailure applies the C10 oracle to a scripted session that ended in a failure: every call
// has returned (else f.Hang), a call whose complete reply was received got it, no call succeeded
// without its complete reply.
func judgeFailure(f *Free) {
	f.mu.Lock()
	ops := append([]*Op(nil), f.ops...)
	f.mu.Unlock()
	for _, o := range ops {
		f.mu.Lock()
		q := f.reqOf[o.Ident()]
		ret, class := o.Returned, o.Class
		f.mu.Unlock()
		complete := q != nil && q.End > 0 && q.End <= f.sent
		if !ret {
			continue // reported as a hang
		}
		if complete && (q.Kind == "ok" || q.Kind == "rerror") && class == "othererr" {
			f.viol("reply-lost", fmt.Sprintf("caller %d call %d returned %q although its complete %s reply had been received", o.Caller, o.Index, o.ErrText, q.Kind))
		}
		if !complete && class == "ok" {
			f.viol("false-success", fmt.Sprintf("caller %d call %d returned success without a completely received reply", o.Caller, o.Index))
		}
		if o.Caller == f.cfg.Callers+1 && class != "othererr" && f.cfg.Fault != "" {
			f.viol("late-call-no-error", fmt.Sprintf("a call made after the failure returned %q", class))
		}
	}
}

func hangKeyFree(kind string, f *Free) string {
	f.mu.Lock()
	defer f.mu.Unlock()
	stuck := 0
	late := false
	for _, o := range f.ops {
		if !o.Returned {
			stuck++
			if o.Caller == f.cfg.Callers+1 {
				late = true
			}
		}
	}
	who := "outstanding"
	if late {
		who = "late"
	}
	return fmt.Sprintf("hang:%s:%s-calls", kind, who)
}

// TestStress: C09 free-running sessions, 1..64 callers, random reply orders, replies and requests
// cut into arbitrary segments, Rerror and mismatched replies; Tag-interface sessions; and the
// tag-space wrap (more than 65535 calls on one connection) with tag accounting.
func TestStress(t *testing.T) {
	StartWatchdog(60 * time.Second)
	seed := int64(envInt("VERIF_SEED", 1))
	thorough := os.Getenv("VERIF_TIER") == "thorough"
	rng := rand.New(rand.NewSource(seed))
	rep := &Report{Engine: "clnt-stress", Stats: map[string]any{}}
	sessions := envInt("VERIF_SESSIONS", 60)
	ncalls, nok, nerr, nwrong := 0, 0, 0, 0
	shapes := map[string]bool{}
	run := func(cfg FreeCfg, label string) {
		f := RunFree(t, cfg)
		rep.Cases++
		shapes[fmt.Sprintf("%s/%d/%d/%d/%v/%v", label, cfg.Callers, cfg.CallsPer, cfg.Window, cfg.PartialWr, cfg.Dotu)] = true
		if f.Hang != "" {
			rep.AddViolation(hangKeyFree("healthy-connection:"+label, f), f.Hang, freeReplay(cfg))
		}
		addFree(rep, f, "", freeReplay(cfg))
		for _, o := range f.ops {
			ncalls++
			switch o.Class {
			case "ok":
				nok++
			case "rerror":
				nerr++
			case "othererr":
				nwrong++
			}
		}
		if len(rep.Samples) < 3 {
			rep.Samples = append(rep.Samples, map[string]any{"cfg": cfg, "calls": len(f.ops), "requests_seen": len(f.seen), "reply_bytes": f.sent})
		}
	}
	callers := []int{1, 2, 3, 4, 5, 8, 13, 16, 24, 32, 48, 64}
	for i := 0; i < sessions; i++ {
		k := callers[rng.Intn(len(callers))]
		cfg := FreeCfg{Callers: k, CallsPer: 1 + rng.Intn(40), Seed: seed*1000 + int64(i), Dotu: rng.Intn(2) == 0, Window: 1 + rng.Intn(k),
			Mix: true, ErrPct: 12, WrongPct: 6, PartialWr: rng.Intn(2) == 0, CutAt: -1}
		if i%2 == 1 {
			// coalescing transport: replies queued and delivered in chunks spanning frame boundaries,
			// replies up to nearly msize, so the 8*msize receive buffer ends in the middle of a reply
			cfg.Coalesce, cfg.BigReads = true, true
			run(cfg, "coalesce")
			continue
		}
		run(cfg, "mix")
	}
	for i := 0; i < sessions/4+1; i++ {
		k := 1 + rng.Intn(4)
		cfg := FreeCfg{Callers: k, CallsPer: 1 + rng.Intn(14), Seed: seed*3000 + int64(i), Dotu: rng.Intn(2) == 0, Window: 1 + rng.Intn(8),
			ErrPct: 15, WrongPct: 0, TagMode: true, CutAt: -1}
		run(cfg, "tag")
	}
	// tag-space wrap
	seq, conc := 5000, 0
	if thorough {
		seq, conc = 70000, 1100
	}
	run(FreeCfg{Callers: 32, CallsPer: 60, Seed: seed + 6, Dotu: true, Window: 32, Mix: true, ErrPct: 5, WrongPct: 2, CutAt: -1, Coalesce: true, BigReads: true}, "coalesce-wide")
	run(FreeCfg{Callers: 1, CallsPer: seq, Seed: seed + 7, Dotu: true, Window: 1, ErrPct: 5, WrongPct: 2, CutAt: -1}, "wrap-seq")
	if conc > 0 {
		run(FreeCfg{Callers: 64, CallsPer: conc, Seed: seed + 8, Dotu: true, Window: 24, ErrPct: 5, WrongPct: 2, CutAt: -1}, "wrap-conc")
	} else {
		run(FreeCfg{Callers: 40, CallsPer: 120, Seed: seed + 8, Dotu: true, Window: 24, ErrPct: 5, WrongPct: 2, CutAt: -1}, "wrap-conc")
	}
	rep.Distinct = len(shapes)
	rep.Stats["calls"] = ncalls
	rep.Stats["ok"] = nok
	rep.Stats["rerror"] = nerr
	rep.Stats["mismatched_or_other_error"] = nwrong
	rep.Stats["max_sequential_calls_on_one_connection"] = seq
	if err := rep.Write(); err != nil {
		t.Fatal(err)
	}
}

func perms(n int) [][]int {
	if n == 0 {
		return [][]int{{}}
	}
	var out [][]int
	for _, p := range perms(n - 1) {
		for i := 0; i <= len(p); i++ {
			q := append(append(append([]int{}, p[:i]...), n-1), p[i:]...)
			out = append(out, q)
		}
	}
	return out
}

// TestOrders: every reply order for 1..5 outstanding calls, each reply cut into random segments,
// kinds drawn per request.
func TestOrders(t *testing.T) {
	StartWatchdog(60 * time.Second)
	seed := int64(envInt("VERIF_SEED", 1))
	rep := &Report{Engine: "clnt-orders", Stats: map[string]any{}}
	maxN := envInt("VERIF_MAXN", 5)
	for n := 1; n <= maxN; n++ {
		for pi, p := range perms(n) {
			cfg := FreeCfg{Callers: n, CallsPer: 1, Seed: seed*100 + int64(n*1000+pi), Dotu: pi%2 == 0, Order: p, ErrPct: 20, WrongPct: 10, CutAt: -1}
			f := RunFree(t, cfg)
			rep.Cases++
			if f.Hang != "" {
				rep.AddViolation(hangKeyFree("healthy-connection:orders", f), f.Hang, freeReplay(cfg))
			}
			addFree(rep, f, "", freeReplay(cfg))
			if len(rep.Samples) < 3 && n >= 3 {
				rep.Samples = append(rep.Samples, map[string]any{"outstanding": n, "order": p})
			}
			if n >= 2 { // the same order with all replies arriving in one piece
				cfg.Coalesce = true
				f = RunFree(t, cfg)
				rep.Cases++
				if f.Hang != "" {
					rep.AddViolation(hangKeyFree("healthy-connection:orders-coalesced", f), f.Hang, freeReplay(cfg))
				}
				addFree(rep, f, "", freeReplay(cfg))
			}
		}
	}
	rep.Distinct = rep.Cases
	if err := rep.Write(); err != nil {
		t.Fatal(err)
	}
}

// TestCut: C10 crash points. For sessions with 0..4 outstanding calls the reply stream is cut
// after every byte offset (then the connection dies); calls entering after the failure.
func TestCut(t *testing.T) {
	StartWatchdog(60 * time.Second)
	seed := int64(envInt("VERIF_SEED", 1))
	rep := &Report{Engine: "clnt-cut", Stats: map[string]any{}}
	variants := envInt("VERIF_VARIANTS", 2)
	points := 0
	for n := 0; n <= 4; n++ {
		for v := 0; v < variants; v++ {
			base := FreeCfg{Callers: n, CallsPer: 1, Seed: seed*977 + int64(n*31+v), Dotu: v%2 == 0, ErrPct: 25, WrongPct: 0, Fault: "cut", CutAt: 1 << 30, LateCalls: 1}
			full := RunFree(t, base)
			total := full.sent
			for cut := 0; cut <= total; cut++ {
				cfg := base
				cfg.CutAt = cut
				f := RunFree(t, cfg)
				rep.Cases++
				points++
				if f.Hang != "" {
					rep.AddViolation(hangKeyFree("cut", f), fmt.Sprintf("%d outstanding, stream cut after byte %d of %d: %s", n, cut, total, f.Hang), freeReplay(cfg))
				} else {
					judgeFailure(f)
				}
				addFree(rep, f, "cut:", freeReplay(cfg))
			}
			if len(rep.Samples) < 4 {
				rep.Samples = append(rep.Samples, map[string]any{"outstanding": n, "reply_stream_bytes": total, "cut_points": total + 1})
			}
		}
	}
	rep.Distinct = points
	rep.Stats["cut_points"] = points
	if err := rep.Write(); err != nil {
		t.Fatal(err)
	}
}

// TestFaults: C10 fault sequences in free-running sessions: with 0..4 outstanding calls and
// 0..n of them answered, the peer closes / sends garbage of every class / a reply to an unknown
// tag / (optionally) an oversize frame, or the application unmounts; two calls enter afterwards.
func TestFaults(t *testing.T) {
	StartWatchdog(60 * time.Second)
	seed := int64(envInt("VERIF_SEED", 1))
	rep := &Report{Engine: "clnt-faults", Stats: map[string]any{}}
	faults := []string{"close", "unmount", "unknown"}
	for c := range GarbageClasses {
		faults = append(faults, fmt.Sprintf("garbage:%d", c))
	}
	if os.Getenv("VERIF_OVERSIZE") == "1" {
		faults = append(faults, "oversize")
	}
	faults = append(faults, "halfclose", "wfail")
	only := os.Getenv("VERIF_ONLY_FAULT")
	for _, fault := range faults {
		if only != "" && fault != only {
			continue
		}
		for n := 0; n <= 4; n++ {
			for ans := 0; ans <= n; ans++ {
				if fault == "halfclose" || fault == "wfail" {
					// 1..4 calls outstanding, `fully` of them read by the peer, the next blocked mid-write
					for fully := ans; fully <= n && n > 0; fully++ {
						cfg := FreeCfg{Callers: n, CallsPer: 1, Seed: seed*137 + int64(n*25+ans*5+fully), Dotu: (n+fully)%2 == 0, ErrPct: 20,
							Fault: fault, Answered: ans, FullyRead: fully, LateCalls: 2, CutAt: -1}
						f := RunFree(t, cfg)
						rep.Cases++
						if f.Hang != "" {
							rep.AddViolation(hangKeyFree(fault, f), fmt.Sprintf("%d outstanding, %d read by the peer (next mid-write: %v), %d answered, then %s: %s",
								n, fully, fully < n, ans, map[string]string{"halfclose": "the peer ends its sending direction and stops reading", "wfail": "the client's writes fail while nothing more arrives"}[fault], f.Hang), freeReplay(cfg))
						} else {
							judgeFailure(f)
						}
						addFree(rep, f, fault+":", freeReplay(cfg))
					}
					continue
				}
				cfg := FreeCfg{Callers: n, CallsPer: 1, Seed: seed*131 + int64(n*7+ans), Dotu: (n+ans)%2 == 0, ErrPct: 20, Fault: fault, Answered: ans, LateCalls: 2, CutAt: -1}
				f := RunFree(t, cfg)
				rep.Cases++
				label := fault
				if len(fault) > 8 && fault[:8] == "garbage:" {
					var c int
					fmt.Sscanf(fault, "garbage:%d", &c)
					label = "garbage-" + GarbageClasses[c]
				}
				if f.Hang != "" {
					rep.AddViolation(hangKeyFree(label, f), fmt.Sprintf("%d outstanding, %d answered, then %s: %s", n, ans, fault, f.Hang), freeReplay(cfg))
				} else {
					judgeFailure(f)
				}
				addFree(rep, f, label+":", freeReplay(cfg))
				if len(rep.Samples) < 3 {
					rep.Samples = append(rep.Samples, map[string]any{"fault": fault, "outstanding": n, "answered_before": ans})
				}
			}
		}
	}
	rep.Distinct = rep.Cases
	if err := rep.Write(); err != nil {
		t.Fatal(err)
	}
}

// TestLateCalls: after the connection failed, more calls than there are tags must all return an
// error (a call that does not return is a hang).
func TestLateCalls(t *testing.T) {
	StartWatchdog(60 * time.Second)
	seed := int64(envInt("VERIF_SEED", 1))
	n := envInt("VERIF_N", 70000)
	rep := &Report{Engine: "clnt-latecalls", Stats: map[string]any{}}
	for _, fault := range []string{"close", "unmount"} {
		cfg := FreeCfg{Callers: 1, CallsPer: 1, Seed: seed, Dotu: true, Fault: fault, Answered: 0, LateCalls: n, CutAt: -1}
		f := RunFree(t, cfg)
		rep.Cases++
		returned := 0
		for _, o := range f.ops {
			if o.Returned {
				returned++
			}
		}
		if f.Hang != "" {
			rep.AddViolation("hang:many-late-calls", fmt.Sprintf("after %s, %d of %d later calls returned, then one blocked forever: %s", fault, max(returned-1, 0), n, f.Hang), freeReplay(cfg))
		} else {
			judgeFailure(f)
		}
		addFree(rep, f, "late:", freeReplay(cfg))
		rep.Samples = append(rep.Samples, map[string]any{"fault": fault, "late_calls": n, "returned": returned})
	}
	rep.Distinct = rep.Cases
	if err := rep.Write(); err != nil {
		t.Fatal(err)
	}
}

// TestTagFailure: Tag-interface requests outstanding when the connection fails must complete with
// an error. (Run in a child process: as coded the Tag's goroutine panics.)
func TestTagFailure(t *testing.T) {
	StartWatchdog(60 * time.Second)
	seed := int64(envInt("VERIF_SEED", 1))
	rep := &Report{Engine: "clnt-tagfailure", Stats: map[string]any{}}
	for _, fault := range []string{"close", "unknown", "unmount"} {
		for ans := 0; ans <= 2; ans++ {
			cfg := FreeCfg{Callers: 2, CallsPer: 3, Seed: seed + int64(ans), Dotu: true, Fault: fault, Answered: ans, TagMode: true, CutAt: -1}
			f := RunFree(t, cfg)
			rep.Cases++
			if f.Hang != "" {
				rep.AddViolation("hang:tag-requests:"+fault, f.Hang, freeReplay(cfg))
			} else {
				judgeFailure(f)
			}
			addFree(rep, f, "tag-"+fault+":", freeReplay(cfg))
		}
	}
	rep.Distinct = rep.Cases
	if err := rep.Write(); err != nil {
		t.Fatal(err)
	}
}

// TestOversize: a frame announcing more than the receive buffer, with calls outstanding. (Run in a
// child process: as coded the receive goroutine panics.)
func TestOversize(t *testing.T) {
	os.Setenv("VERIF_OVERSIZE", "1")
	os.Setenv("VERIF_ONLY_FAULT", "oversize")
	TestFaults(t)
}

// TestFreeReplay re-executes one free-running session from a replay file (VERIF_FREECFG).
func TestFreeReplay(t *testing.T) {
	var cfg FreeCfg
	if err := json.Unmarshal([]byte(os.Getenv("VERIF_FREECFG")), &cfg); err != nil {
		t.Skip("no VERIF_FREECFG")
	}
	StartWatchdog(60 * time.Second)
	rep := &Report{Engine: "clnt-free-replay", Stats: map[string]any{}}
	f := RunFree(t, cfg)
	rep.Cases, rep.Distinct = 1, 1
	if f.Hang != "" {
		rep.AddViolation(hangKeyFree("replay", f), f.Hang, freeReplay(cfg))
	} else if cfg.Fault != "" {
		judgeFailure(f)
	}
	addFree(rep, f, "", freeReplay(cfg))
	rep.Samples = append(rep.Samples, map[string]any{"cfg": cfg, "hang": f.Hang, "violations": len(f.Viol)})
	if err := rep.Write(); err != nil {
		t.Fatal(err)
	}
}
