package clnth

import (
	"encoding/binary"
	"fmt"

	"verif/harness/wire"
)

// The scripted peer derives every reply payload from the *content* of the request it decoded with
// the independent codec (never from the tag), so that a reply delivered to the wrong caller, or a
// reply assembled from another call's bytes, is visible in the caller's return value.

// PReq is a request as the peer saw it on the wire.
type PReq struct {
	Seq      int // arrival order at the peer, from 1
	Msg      *wire.Msg
	Raw      []byte
	Answered bool
	Kind     string // kind of the answer, once answered: ok | rerror | wrongtype | partial
	End      int    // stream offset (server-to-client) just after the last byte of the complete answer; 0 if none
}

// Ident is the identity of a call as derivable from request content: (fid, offset).
type Ident struct {
	Fid    uint32
	Offset uint64
}

func IdentOf(m *wire.Msg) Ident {
	switch m.Type {
	case wire.Tread, wire.Twrite:
		return Ident{m.Fid, m.Offset}
	}
	return Ident{m.Fid, 0}
}

// ReadPayload is the data of the Rread answering Tread(fid, offset, count).
func ReadPayload(fid uint32, offset uint64, count uint32) []byte {
	b := make([]byte, count)
	var h [12]byte
	binary.LittleEndian.PutUint32(h[0:], fid)
	binary.LittleEndian.PutUint64(h[4:], offset)
	for i := range b {
		if i < 12 {
			b[i] = h[i]
		} else {
			b[i] = byte(uint64(fid)*31 + offset*17 + uint64(i)*7)
		}
	}
	return b
}

// WriteCount is the count of the Rwrite answering Twrite(fid, offset, data): depends on every
// data byte, at most len(data).
func WriteCount(fid uint32, offset uint64, data []byte) uint32 {
	var s uint64 = uint64(fid)*1000003 + offset*7919
	for i, c := range data {
		s = s*131 + uint64(c) + uint64(i)
	}
	if len(data) == 0 {
		return 0
	}
	return uint32(s % uint64(len(data)+1))
}

// StatLength is the Length in the Rstat answering Tstat(fid).
func StatLength(fid uint32) uint64 { return uint64(fid)*2654435761 + 12345 }

func ErrText(id Ident) string   { return fmt.Sprintf("E-%d-%d", id.Fid, id.Offset) }
func ErrCode(id Ident) uint32   { return uint32(uint64(id.Fid)*13+id.Offset*3)%60000 + 1 }
func WrongCount(id Ident) uint32 { return uint32(uint64(id.Fid)*7+id.Offset*5) % 1000000 }

// Answer builds the reply frame of the given kind for a decoded request.
func Answer(m *wire.Msg, kind string, dotu bool) []byte {
	id := IdentOf(m)
	r := &wire.Msg{Tag: m.Tag}
	switch kind {
	case "ok":
		switch m.Type {
		case wire.Tread:
			r.Type = wire.Rread
			r.Data = ReadPayload(m.Fid, m.Offset, m.Count)
			r.Count = uint32(len(r.Data))
		case wire.Twrite:
			r.Type = wire.Rwrite
			r.Count = WriteCount(m.Fid, m.Offset, m.Data)
		case wire.Tstat:
			r.Type = wire.Rstat
			r.Stat = wire.Stat{Length: StatLength(m.Fid), Name: fmt.Sprintf("f%d", m.Fid), Uid: "u", Gid: "g", Muid: "m",
				Qid: wire.Qid{Path: uint64(m.Fid)}, Uidnum: 1, Gidnum: 1, Muidnum: 1}
		case wire.Tclunk:
			r.Type = wire.Rclunk
		case wire.Tversion:
			r.Type = wire.Rversion
			r.Msize = m.Msize
			r.Version = m.Version
		default:
			panic("peer: no ok answer for " + wire.TypeName(m.Type))
		}
	case "rerror":
		r.Type = wire.Rerror
		r.Ename = ErrText(id)
		r.Ecode = ErrCode(id)
	case "wrongtype":
		// a well-formed R-message of another type, carrying a value derived from the request
		if m.Type == wire.Twrite {
			r.Type = wire.Rread
			r.Data = ReadPayload(m.Fid, m.Offset, 16)
			r.Count = 16
		} else {
			r.Type = wire.Rwrite
			r.Count = WrongCount(id)
		}
	default:
		panic("peer: kind " + kind)
	}
	return wire.Encode(r, dotu)
}

// UnknownTagFrame is a well-formed Rread whose tag no request carries.
func UnknownTagFrame(tag uint16, dotu bool) []byte {
	return wire.Encode(&wire.Msg{Type: wire.Rread, Tag: tag, Data: []byte("nobody asked"), Count: 12}, dotu)
}

// GarbageFrame returns an unparseable frame of the given class.
func GarbageFrame(class int) []byte {
	put := func(sz uint32, typ uint8, tag uint16, body ...byte) []byte {
		b := make([]byte, 7, 7+len(body))
		binary.LittleEndian.PutUint32(b, sz)
		b[4] = typ
		binary.LittleEndian.PutUint16(b[5:], tag)
		return append(b, body...)
	}
	switch class % 9 {
	case 6: // a size no receive buffer can hold, with the top bit set (negative as int32)
		return put(0x80000000, wire.Rread, 1, 1, 2, 3, 4)
	case 7: // the largest size
		return put(0xFFFFFFFF, wire.Rread, 1, 1, 2, 3, 4)
	case 8: // the largest positive int32
		return put(0x7FFFFFFF, wire.Rread, 1, 1, 2, 3, 4)
	case 0: // message type outside the protocol
		return put(9, 250, 1, 0xde, 0xad)
	case 1: // declared size below the header size
		return put(4, wire.Rclunk, 1)
	case 2: // size zero
		return put(0, wire.Rclunk, 1)
	case 3: // trailing bytes after the last field
		return put(10, wire.Rclunk, 1, 1, 2, 3)
	case 4: // Rread whose count exceeds the frame
		return put(15, wire.Rread, 1, 0xff, 0xff, 0, 0, 1, 2, 3, 4)
	default: // T-message id 0
		return put(8, 0, 1, 0)
	}
}

var GarbageClasses = []string{"badtype", "size4", "size0", "trailing", "readcount", "type0", "size2g", "sizemax", "size2g-1"}

// OversizeFrame announces a frame larger than the client's receive buffer (8*msize) and then
// supplies that many bytes.
func OversizeFrame(bufsize int, extra int) []byte {
	n := bufsize + extra
	b := make([]byte, n)
	binary.LittleEndian.PutUint32(b, uint32(n))
	b[4] = wire.Rread
	binary.LittleEndian.PutUint16(b[5:], 1)
	binary.LittleEndian.PutUint32(b[7:], uint32(n-11))
	return b
}
