package clnth

import (
	"encoding/json"
	"fmt"
	"math/rand"
	"os"
	"sort"
	"strings"
	"testing"
	"time"
)

func loadCfg(t *testing.T) Cfg {
	var cfg Cfg
	if err := json.Unmarshal([]byte(os.Getenv("VERIF_CFG")), &cfg); err != nil {
		t.Fatalf("VERIF_CFG: %v", err)
	}
	return cfg
}

// hangKey describes a hang by where the stuck callers and the library goroutines stood at
// quiescence (before the gates were opened): stable across seeds, specific to the schedule class.
func hangKey(k *Case) string {
	pcs := map[string]bool{}
	if k.Quiet != nil {
		if ps, ok := k.Quiet["pc"].([]string); ok {
			for _, call := range k.Hung {
				pcs[ps[(call-1)/k.C.NCalls]] = true
			}
		}
	}
	var l []string
	for p := range pcs {
		l = append(l, p)
	}
	sort.Strings(l)
	return fmt.Sprintf("hang:caller@%s:recv@%v:send@%v", strings.Join(l, "+"), k.Quiet["rpc"], k.Quiet["spc"])
}

// collect turns the verdict material of a case into report violations.
func collect(rep *Report, k *Case, id any) {
	replay := map[string]any{"case": id, "cfg": k.Cfg, "steps": k.Done}
	if len(k.Hung) > 0 {
		rep.AddViolation(hangKey(k), fmt.Sprintf("calls %v never returned although the connection failed; at quiescence callers=%v recv=%v send=%v; bubble: %.200s",
			k.Hung, k.Quiet["pc"], k.Quiet["rpc"], k.Quiet["spc"], k.Leftover), replay)
	}
	for i, key := range k.Oracle {
		rep.AddViolation(key, k.OracleMsg[i], replay)
	}
}

// TestReplay replays TLC-generated behaviours of Clnt9P step by step on the real client, runs
// each to quiescence with seeded random steps, judges it with the external oracle and writes the
// internal trace for Clnt9PTrace.
func TestReplay(t *testing.T) {
	bpath := os.Getenv("VERIF_BEHAVIOURS")
	if bpath == "" {
		t.Skip("no behaviours")
	}
	cfg := loadCfg(t)
	bs, err := ReadBehaviours(bpath)
	if err != nil {
		t.Fatal(err)
	}
	seed := int64(envInt("VERIF_SEED", 1))
	var tw *NDWriter
	if p := os.Getenv("VERIF_TRACE_OUT"); p != "" {
		if tw, err = NewNDWriter(p); err != nil {
			t.Fatal(err)
		}
	}
	rep := &Report{Engine: "clnt-replay", Stats: map[string]any{}}
	StartWatchdog(15 * time.Second)
	aborted := 0
	drift, steps, hung, pending := 0, 0, 0, 0
	for _, b := range bs {
		executed := 0
		k := RunCase(t, cfg, seed*1000003+int64(b.ID), func(k *Case) {
			for _, st := range b.Steps {
				if err := k.Do(st); err != nil {
					k.Drift = fmt.Sprintf("step %d %v: %v", executed+1, st, err)
					break
				}
				executed++
			}
		})
		rep.Cases++
		if k == nil || k.C == nil {
			rep.Inconclusive = append(rep.Inconclusive, "case did not run: "+k.Leftover)
			continue
		}
		if k.Aborted != "" {
			if aborted++; aborted <= 2 {
				rep.Inconclusive = append(rep.Inconclusive, fmt.Sprintf("case %d abandoned, the harness faulted: %.200s", b.ID, k.Aborted))
			}
			continue
		}
		steps += len(k.Trace)
		if tw != nil {
			tw.Put(Event{"act": "Reset", "case": b.ID, "args": []any{}})
			for _, e := range k.Trace {
				tw.Put(e)
			}
		}
		collect(rep, k, b.ID)
		if len(k.Hung) > 0 {
			hung++
		}
		if len(k.Pending) > 0 {
			pending++
		}
		if k.Drift != "" {
			drift++
			if len(rep.Samples) < 4 {
				rep.Samples = append(rep.Samples, map[string]any{"case": b.ID, "drift": k.Drift})
			}
		}
		if rep.Cases <= 2 {
			rep.Samples = append(rep.Samples, map[string]any{"case": b.ID, "steps": b.Steps, "results": k.C.Res})
		}
	}
	if tw != nil {
		tw.Close()
	}
	rep.Distinct = len(bs)
	rep.Stats["steps"] = steps
	rep.Stats["drift_cases"] = drift
	rep.Stats["aborted_cases"] = aborted
	rep.Stats["hung_cases"] = hung
	rep.Stats["pending_cases"] = pending
	if err := rep.Write(); err != nil {
		t.Fatal(err)
	}
}

// TestRandom runs seeded random controlled schedules (faults included) on the real client, judges
// each with the external oracle and writes the internal traces for validation against Clnt9PTrace.
func TestRandom(t *testing.T) {
	cfg := loadCfg(t)
	n := envInt("VERIF_N", 200)
	seed := int64(envInt("VERIF_SEED", 1))
	var tw *NDWriter
	var err error
	if p := os.Getenv("VERIF_TRACE_OUT"); p != "" {
		if tw, err = NewNDWriter(p); err != nil {
			t.Fatal(err)
		}
	}
	rep := &Report{Engine: "clnt-random", Stats: map[string]any{}}
	StartWatchdog(15 * time.Second)
	aborted := 0
	steps, hung, failedRuns := 0, 0, 0
	shapes := map[string]bool{}
	rng := rand.New(rand.NewSource(seed))
	for i := 1; i <= n; i++ {
		fw := 2 + rng.Intn(30)
		k := RunCase(t, cfg, seed*7919+int64(i), func(k *Case) { k.Complete(4000, true, fw) })
		rep.Cases++
		if k == nil || k.C == nil {
			rep.Inconclusive = append(rep.Inconclusive, "case did not run: "+k.Leftover)
			continue
		}
		if k.Aborted != "" {
			if aborted++; aborted <= 2 {
				rep.Inconclusive = append(rep.Inconclusive, fmt.Sprintf("case %d abandoned, the harness faulted: %.200s", i, k.Aborted))
			}
			continue
		}
		steps += len(k.Trace)
		if tw != nil {
			tw.Put(Event{"act": "Reset", "case": i, "args": []any{}})
			for _, e := range k.Trace {
				tw.Put(e)
			}
		}
		collect(rep, k, i)
		if len(k.Hung) > 0 {
			hung++
		}
		if k.C.nfault > 0 {
			failedRuns++
		}
		var sh []string
		for _, s := range k.Done {
			sh = append(sh, fmt.Sprint(s))
		}
		shapes[strings.Join(sh, " ")] = true
		if rep.Cases <= 2 {
			rep.Samples = append(rep.Samples, map[string]any{"case": i, "steps": k.Done, "results": k.C.Res})
		}
	}
	if tw != nil {
		tw.Close()
	}
	rep.Distinct = len(shapes)
	rep.Stats["steps"] = steps
	rep.Stats["hung_cases"] = hung
	rep.Stats["runs_with_fault"] = failedRuns
	if err := rep.Write(); err != nil {
		t.Fatal(err)
	}
}
