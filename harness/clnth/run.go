package clnth

import (
	"bufio"
	"encoding/json"
	"fmt"
	"math/rand"
	"os"
	"runtime"
	"strings"
	"sync/atomic"
	"testing"
	"testing/synctest"
	"time"

	"verif/harness/wire"

	"github.com/rminnich/go9p"
)

// Cfg mirrors the constants of the Clnt9P configuration a behaviour was generated from.
type Cfg struct {
	K          int      `json:"K"`
	NCalls     int      `json:"NCalls"`
	NTags      int      `json:"NTags"`
	TagCallers []int    `json:"TagCallers"`
	Kinds      []string `json:"Kinds"`
	Faults     []string `json:"Faults"`
	MaxFaults  int      `json:"MaxFaults"`
	FixHandoff bool     `json:"FixHandoff"`
	Dotu       bool     `json:"Dotu"`
}

func (g Cfg) hasFault(f string) bool {
	for _, x := range g.Faults {
		if x == f {
			return true
		}
	}
	return false
}

type Behaviour struct {
	ID    int     `json:"id"`
	Steps [][]any `json:"steps"`
}

type Event map[string]any

// Case is one controlled execution of the real client.
type Case struct {
	C     *Ctl
	Cfg   Cfg
	Trace []Event
	rng   *rand.Rand
	Drift string
	Done  [][]any // steps executed (the replay file of a violation)
	// verdict material, filled by RunCase
	Hung      []int    // calls that never returned although the connection failed
	Pending   []int    // calls still waiting on a healthy connection
	Quiet     Event    // abstraction at quiescence, before the gates were opened
	Aborted   string   // the harness faulted inside the case (not a verdict)
	ListCorrupt bool
	Leftover  string   // bubble panic text
	Oracle    []string // violations of the external oracle, as stable keys
	OracleMsg []string
}

func toInt(v any) int {
	switch x := v.(type) {
	case float64:
		return int(x)
	case int:
		return x
	case json.Number:
		n, _ := x.Int64()
		return int(n)
	}
	return 0
}

// ---------------------------------------------------------------- abstraction

func (k *Case) callerState(h *callerH) string {
	c := k.C
	if p := c.findParked("rpcnb_enq", h.id); p != nil {
		return "enq"
	}
	if p := c.findParked("rpcnb_handoff", h.id); p != nil {
		return "handoff"
	}
	c.mu.Lock()
	defer c.mu.Unlock()
	if h.busy {
		return "wait"
	}
	if h.started >= c.NCalls {
		return "done"
	}
	return "idle"
}

func (k *Case) recvState() string {
	c := k.C
	switch {
	case c.findParked("crecv_deliver", 0) != nil:
		return "deliver"
	case c.findParked("crecv_closed", 0) != nil:
		return "closed1"
	case c.findParked("crecv_fanout", 0) != nil:
		return "fanout"
	case c.Conn.Reading():
		return "read"
	}
	return "exited"
}

func (k *Case) sendState() string {
	c := k.C
	if c.findParked("csend_got", 0) != nil {
		return "got"
	}
	if c.Conn.Writing() {
		return "writing"
	}
	return "idle"
}

func (k *Case) connState() string {
	if k.C.Conn.IsClosed() {
		return "clntclosed"
	}
	if k.C.peerGone {
		return "peerclosed"
	}
	if k.C.halfClosed {
		return "rdclosed"
	}
	if k.C.wrFailed {
		return "wrfailed"
	}
	return "open"
}

// SafeSnapshot reads the client's bookkeeping. The accessor walks the outstanding-request list the
// way recv's tag search does (r.Tc.Tag); if a completed, recycled request (Tc == nil) is still
// linked it faults while holding the client lock. That is reported (corrupt = true) and the lock
// is given back so that the process can go on.
func SafeSnapshot(clnt *go9p.Clnt) (si *go9p.VerifClntInfo, corrupt bool) {
	defer func() {
		if r := recover(); r != nil {
			clnt.TryLock()
			clnt.Unlock()
			si, corrupt = &go9p.VerifClntInfo{}, true
		}
	}()
	return go9p.VerifClntSnapshot(clnt), false
}

func (k *Case) snapshot() *go9p.VerifClntInfo {
	si, corrupt := SafeSnapshot(k.C.Clnt)
	if corrupt && !k.ListCorrupt {
		k.ListCorrupt = true
		k.viol("request-list-corrupt", "a completed (recycled) request is still linked in the client's outstanding-request list; recv's tag search dereferences its nil Tc")
	}
	return si
}

func (k *Case) post() Event {
	c := k.C
	si := k.snapshot()
	pcs := make([]string, c.K)
	for i, h := range c.callers {
		pcs[i] = k.callerState(h)
	}
	list := make([]int, len(si.Outstanding))
	for i, t := range si.Outstanding {
		list[i] = int(t)
	}
	cache := make([]int, len(si.CachedTags))
	for i, t := range si.CachedTags {
		cache[i] = int(t)
	}
	c.mu.Lock()
	res := make([][]any, len(c.Res))
	for i, r := range c.Res {
		st := r.St
		if st == "" {
			st = "none"
		}
		res[i] = []any{st, r.Pay}
	}
	comp := make([][]int, c.K)
	for i := range comp {
		comp[i] = append([]int{}, c.Comp[i+1]...)
	}
	nrecv := len(c.Seen)
	c.mu.Unlock()
	return Event{"pc": pcs, "rpc": k.recvState(), "spc": k.sendState(), "list": list, "cerr": si.Failed,
		"cache": cache, "used": 65535 - len(k.Cfg.TagCallers) - si.FreeTags, "res": res, "comp": comp,
		"nrecv": nrecv, "conn": k.connState(), "nq": len(c.fromPeer)}
}

func (k *Case) logStep(act string, args ...any) {
	if args == nil {
		args = []any{}
	}
	k.Trace = append(k.Trace, Event{"act": act, "args": args, "post": k.post()})
}

// ---------------------------------------------------------------- steps

func (k *Case) peerTake() error {
	c := k.C
	if !c.Conn.Writing() {
		return fmt.Errorf("PeerRead: the sender is not writing")
	}
	for {
		b := c.Conn.Take()
		if b == nil {
			return fmt.Errorf("PeerRead: connection closed")
		}
		c.fr.Feed(b)
		c.Wait()
		fr, err := c.fr.Next()
		if err != nil {
			return fmt.Errorf("PeerRead: client sent a bad frame: %v", err)
		}
		if fr != nil {
			return c.peerSaw(fr)
		}
		if !c.Conn.Writing() {
			return fmt.Errorf("PeerRead: incomplete frame and the sender stopped writing")
		}
	}
}

// peerSaw decodes one request with the independent codec and records it.
func (c *Ctl) peerSaw(fr []byte) error {
	m, err := wire.Decode(fr, c.Dotu)
	if err != nil {
		c.mu.Lock()
		c.Notes = append(c.Notes, "peer could not decode a request: "+err.Error())
		c.mu.Unlock()
		return fmt.Errorf("peer: undecodable request: %v", err)
	}
	c.mu.Lock()
	defer c.mu.Unlock()
	q := &PReq{Seq: len(c.Seen) + 1, Msg: m, Raw: fr}
	c.Seen = append(c.Seen, q)
	call := c.identToCall(IdentOf(m))
	if call > 0 {
		c.byCall[call] = q
		caller := (call-1)/c.NCalls + 1
		if !c.callers[caller-1].istag {
			if other, dup := c.TagsOut[m.Tag]; dup {
				c.DupTag = append(c.DupTag, fmt.Sprintf("tag %d carried by call %d while call %d is outstanding with it", m.Tag, call, other))
			}
			c.TagsOut[m.Tag] = call
		}
	}
	return nil
}

func (k *Case) fifoOK(q *PReq) bool {
	for _, o := range k.C.Seen {
		if !o.Answered && o.Msg.Tag == q.Msg.Tag && o.Seq < q.Seq {
			return false
		}
	}
	return true
}

func (k *Case) peerDies() {
	c := k.C
	c.peerGone = true
	c.Conn.Gone()
	c.Wait()
}

// feed hands one frame to the client's Read in seeded-random segments.
func (k *Case) feed(b []byte, lenient bool) error {
	c := k.C
	pos := 0
	for pos < len(b) {
		if !c.Conn.Reading() {
			if lenient && pos > 4 {
				return nil // the receiver has already rejected the frame
			}
			return fmt.Errorf("RRead: receiver not in Read after %d of %d bytes", pos, len(b))
		}
		n := len(b) - pos
		if n > 1 && k.rng.Intn(2) == 0 {
			n = 1 + k.rng.Intn(n)
		}
		if !c.Conn.Deliver(b[pos : pos+n]) {
			return fmt.Errorf("RRead: client closed the connection")
		}
		pos += n
		c.sent += n
		c.Wait()
	}
	return nil
}

// Do executes one Clnt9P action on the real client; an error means the action cannot be
// performed in the current implementation state (drift).
func (k *Case) Do(step []any) error {
	act := step[0].(string)
	a := func(i int) int { return toInt(step[i]) }
	c := k.C
	var err error
	var args []any
	for _, x := range step[1:] {
		switch v := x.(type) {
		case float64:
			args = append(args, int(v))
		default:
			args = append(args, v)
		}
	}
	switch act {
	case "Finished":
		return nil
	case "CAlloc":
		h := c.callers[a(1)-1]
		if st := k.callerState(h); st != "idle" {
			return fmt.Errorf("CAlloc(%d): caller is %s", a(1), st)
		}
		c.mu.Lock()
		h.started++
		i := h.started
		c.mu.Unlock()
		h.cmd <- i
		c.Wait()
	case "CEnq":
		err = c.Grant("rpcnb_enq", a(1))
	case "CHandoff", "CHandoffEscape":
		err = c.Grant("rpcnb_handoff", a(1))
		act = "CHandoff"
	case "SGrant":
		err = c.Grant("csend_got", 0)
	case "PeerRead":
		err = k.peerTake()
	case "PeerReply":
		q := c.byCall[a(1)]
		kind := step[2].(string)
		if q == nil || q.Answered {
			return fmt.Errorf("PeerReply(%d): the peer has no unanswered request of that call", a(1))
		}
		if !k.fifoOK(q) {
			return fmt.Errorf("PeerReply(%d): an older request with the same tag is unanswered", a(1))
		}
		q.Answered, q.Kind = true, kind
		delete(c.TagsOut, q.Msg.Tag)
		c.fromPeer = append(c.fromPeer, pframe{kind: kind, call: a(1), b: Answer(q.Msg, kind, c.Dotu), req: q})
	case "PeerFrame":
		kind := step[1].(string)
		var b []byte
		switch kind {
		case "garbage":
			b = GarbageFrame(k.rng.Intn(len(GarbageClasses)))
		case "unknown":
			b = UnknownTagFrame(UnknownTag, c.Dotu)
		case "oversize":
			b = OversizeFrame(BufSize, 1+k.rng.Intn(64))
		default:
			return fmt.Errorf("PeerFrame(%s)", kind)
		}
		c.nfault++
		c.fromPeer = append(c.fromPeer, pframe{kind: kind, b: b})
	case "PeerCut":
		q := c.byCall[a(1)]
		if q == nil || q.Answered {
			return fmt.Errorf("PeerCut(%d): no unanswered request", a(1))
		}
		q.Answered, q.Kind = true, "partial"
		delete(c.TagsOut, q.Msg.Tag)
		full := Answer(q.Msg, "ok", c.Dotu)
		cut := 1 + k.rng.Intn(len(full)-1)
		c.nfault++
		if !c.Conn.Writing() {
			c.fromPeer = append(c.fromPeer, pframe{kind: "partial", call: a(1), b: full[:cut], req: q})
		}
		k.peerDies()
	case "PeerClose":
		c.nfault++
		k.peerDies()
	case "PeerHalfClose":
		// the peer ends its sending direction (EOF once what is in flight has been read) and stops
		// reading: a Write the client is in, or starts, blocks
		c.nfault++
		c.halfClosed = true
	case "PeerWriteFail":
		// the client's writes fail from now on (a Write it is in fails now); the read side stays silent
		c.nfault++
		c.wrFailed = true
		c.Conn.Gone()
		c.Wait()
	case "PeerGivesUp":
		if !c.wrFailed {
			return fmt.Errorf("PeerGivesUp: the writes have not failed")
		}
		c.peerGone = true
		c.Wait()
	case "Unmount":
		c.nfault++
		c.Clnt.Unmount()
		c.Wait()
	case "RRead":
		if len(c.fromPeer) == 0 {
			return fmt.Errorf("RRead: nothing in flight")
		}
		f := c.fromPeer[0]
		c.fromPeer = c.fromPeer[1:]
		if err = k.feed(f.b, f.req == nil); err == nil && f.req != nil && f.kind != "partial" {
			f.req.End = c.sent
		}
	case "RReadEOF":
		if !c.Conn.Reading() {
			return fmt.Errorf("RReadEOF: receiver not in Read")
		}
		c.Conn.EOF()
		c.Wait()
	case "RDeliver":
		err = c.Grant("crecv_deliver", 0)
	case "RClosed1":
		idle := k.sendState() == "idle" && !c.senderExited
		if err = c.Grant("crecv_closed", 0); err == nil {
			if idle {
				c.senderExited = true // it took `done` (as coded) or saw it closed (repaired)
			}
			if k.Cfg.FixHandoff {
				c.doneClosed = true
			}
		}
	case "RFanout":
		// (the argument of RFanout(lost) names the outcome of a race in the as-coded fan-out loop;
		// it cannot be forced, the recorded abstraction shows which outcome the code took)
		err = c.Grant("crecv_fanout", 0)
		args = nil
		if err == nil && c.findParked("crecv_fanned", 0) != nil {
			err = c.Grant("crecv_fanned", 0) // optional hook after the Done send: the woken caller has finished
		}
	default:
		return fmt.Errorf("unknown action %s", act)
	}
	if err != nil {
		return err
	}
	if c.Conn.IsClosed() {
		c.fromPeer = nil // bytes still in flight are lost to a client that closed its socket
	}
	if c.doneClosed && k.sendState() == "idle" {
		c.senderExited = true // back in its select, the sender sees the closed `done`
	}
	k.Done = append(k.Done, step)
	k.logStep(act, args...)
	return nil
}

// enabledSteps lists the spec actions enabled in the current implementation state, with the
// enabling conditions of Clnt9P (rendezvous steps only when the partner is ready).
func (k *Case) enabledSteps(faults bool) [][]any {
	c := k.C
	var out [][]any
	spc, rpc, conn := k.sendState(), k.recvState(), k.connState()
	waiting := func(call int) bool {
		if call <= 0 {
			return true
		}
		h := c.callers[(call-1)/c.NCalls]
		return h.istag || k.callerState(h) == "wait"
	}
	senderIdle := spc == "idle" && !c.senderExited
	for _, h := range c.callers {
		switch k.callerState(h) {
		case "idle":
			out = append(out, []any{"CAlloc", h.id})
		case "enq":
			out = append(out, []any{"CEnq", h.id})
		case "handoff":
			if senderIdle {
				out = append(out, []any{"CHandoff", h.id})
			} else if k.Cfg.FixHandoff && c.doneClosed {
				out = append(out, []any{"CHandoffEscape", h.id})
			}
		}
	}
	switch spc {
	case "got":
		out = append(out, []any{"SGrant"})
	case "writing":
		if conn == "open" {
			out = append(out, []any{"PeerRead"})
		}
	}
	switch rpc {
	case "read":
		if len(c.fromPeer) > 0 && conn != "clntclosed" {
			out = append(out, []any{"RRead"})
		} else if len(c.fromPeer) == 0 && (conn == "peerclosed" || conn == "rdclosed") {
			out = append(out, []any{"RReadEOF"})
		}
	case "deliver":
		if p := c.findParked("crecv_deliver", 0); p != nil && waiting(p.call) {
			out = append(out, []any{"RDeliver"})
		}
	case "closed1":
		if k.Cfg.FixHandoff || senderIdle {
			out = append(out, []any{"RClosed1"})
		}
	case "fanout":
		if p := c.findParked("crecv_fanout", 0); p != nil && waiting(p.call) {
			out = append(out, []any{"RFanout"})
		}
	}
	if conn == "open" {
		for _, q := range c.Seen {
			call := c.identToCall(IdentOf(q.Msg))
			if q.Answered || call <= 0 || !k.fifoOK(q) {
				continue
			}
			for _, kind := range k.Cfg.Kinds {
				out = append(out, []any{"PeerReply", call, kind})
			}
			if faults && c.nfault < k.Cfg.MaxFaults && k.Cfg.hasFault("cut") {
				out = append(out, []any{"PeerCut", call})
			}
		}
		if faults && c.nfault < k.Cfg.MaxFaults {
			for _, f := range []string{"garbage", "unknown", "oversize"} {
				if k.Cfg.hasFault(f) {
					out = append(out, []any{"PeerFrame", f})
				}
			}
			if k.Cfg.hasFault("close") {
				out = append(out, []any{"PeerClose"})
			}
			if k.Cfg.hasFault("halfclose") {
				out = append(out, []any{"PeerHalfClose"})
			}
			if k.Cfg.hasFault("wfail") {
				out = append(out, []any{"PeerWriteFail"})
			}
		}
	}
	if conn == "wrfailed" {
		out = append(out, []any{"PeerGivesUp"})
	}
	if faults && conn != "clntclosed" && c.nfault < k.Cfg.MaxFaults && k.Cfg.hasFault("unmount") {
		out = append(out, []any{"Unmount"})
	}
	return out
}

// Complete runs seeded-random enabled steps (no new faults) until none is left.
func (k *Case) Complete(max int, faults bool, faultWeight int) {
	for i := 0; i < max; i++ {
		k.C.Wait()
		en := k.enabledSteps(faults)
		if len(en) == 0 {
			return
		}
		var st []any
		for tries := 0; ; tries++ {
			st = en[k.rng.Intn(len(en))]
			isFault := st[0] == "PeerClose" || st[0] == "PeerHalfClose" || st[0] == "PeerCut" || st[0] == "PeerFrame" || st[0] == "Unmount"
			if !isFault || tries > 8 || k.rng.Intn(faultWeight) == 0 {
				break
			}
		}
		if err := k.Do(st); err != nil {
			k.C.Notes = append(k.C.Notes, fmt.Sprintf("completion step %v failed: %v", st, err))
			return
		}
	}
}

// ---------------------------------------------------------------- running a case

func (g Cfg) tagSet() map[int]bool {
	m := map[int]bool{}
	for _, k := range g.TagCallers {
		m[k] = true
	}
	return m
}

// RunCase executes fn inside a fresh synctest bubble with a fresh client, runs the execution to
// quiescence, opens all gates, and judges it with the external oracle.
func RunCase(t *testing.T, cfg Cfg, seed int64, fn func(k *Case)) (kk *Case) {
	defer func() {
		if r := recover(); r != nil {
			if kk != nil {
				kk.Leftover = fmt.Sprint(r)
			} else {
				kk = &Case{Leftover: fmt.Sprint(r)}
			}
		}
	}()
	synctest.Test(t, func(t *testing.T) {
		c := NewCtl(cfg.K, cfg.NCalls)
		c.Dotu = cfg.Dotu
		c.Conn = NewSConn()
		go9p.VerifClntHook = c.hook
		defer func() { go9p.VerifClntHook = nil }()
		c.Gated = false
		c.Clnt = go9p.NewClnt(c.Conn, Msize, cfg.Dotu)
		c.startCallers(cfg.tagSet())
		c.Wait()
		c.Gated = true
		k := &Case{C: c, Cfg: cfg, rng: rand.New(rand.NewSource(seed))}
		kk = k
		Progress()
		func() {
			// A fault inside the harness' view of the client (the snapshot accessor walking a
			// corrupted request list faults while holding the client lock) must not wedge the
			// process: give the lock back, abandon the case, let the engine go on.
			defer func() {
				if r := recover(); r != nil {
					k.Aborted = fmt.Sprint(r)
					if !c.Clnt.TryLock() {
						c.Clnt.Unlock()
					} else {
						c.Clnt.Unlock()
					}
				}
			}()
			fn(k)
			k.Complete(4000, false, 1)
			c.Wait()
			k.finish()
		}()
		if k.Aborted != "" {
			func() {
				defer func() { recover() }()
				c.ReleaseAll()
				for _, h := range c.callers {
					close(h.cmd)
				}
				c.Clnt.Unmount()
				c.Conn.Gone()
				c.Conn.EOF()
			}()
		}
	})
	return kk
}

// ---------------------------------------------------------------- watchdog (real time, outside the bubbles)

var progress atomic.Int64

// Progress is called at the start of every case.
func Progress() { progress.Add(1) }

// StartWatchdog ends the process with a goroutine dump if no case starts for `stall`: a change that
// introduces a mutex deadlock or a spinning goroutine makes synctest.Wait wait forever.
func StartWatchdog(stall time.Duration) {
	go func() {
		last, since := progress.Load(), time.Now()
		for {
			time.Sleep(500 * time.Millisecond)
			if p := progress.Load(); p != last {
				last, since = p, time.Now()
				continue
			}
			if time.Since(since) > stall {
				buf := make([]byte, 1<<20)
				n := runtime.Stack(buf, true)
				fmt.Fprintf(os.Stderr, "WATCHDOG: no progress for %v\n%s\n", stall, buf[:n])
				os.Exit(3)
			}
		}
	}()
}

// finish: open all gates, see who is stuck, judge, tear down.
func (k *Case) finish() {
	c := k.C
	quiet := k.post()
	c.ReleaseAll()
	// the peer keeps behaving: it takes what the client still writes (unanswered) and, if its end
	// is dead, the client sees EOF
	for i := 0; i < 1000 && c.Conn.Writing() && !c.peerGone && !c.halfClosed && !c.wrFailed; i++ {
		if b := c.Conn.Take(); b == nil {
			break
		}
		c.Wait()
	}
	// (a client whose Write has failed closes the socket itself: if it has not, the peer stays silent and the calls
	// that are stuck show)
	ignoredWriteError := c.wrFailed && !c.peerGone && c.Conn.FailedWrites() > 0 && !c.Conn.IsClosed()
	if (c.peerGone || c.halfClosed || c.wrFailed) && !ignoredWriteError {
		c.Conn.EOF()
		c.Wait()
	}
	k.judge(quiet)
	// teardown: stop the callers, end the client
	for _, h := range c.callers {
		close(h.cmd)
	}
	c.Clnt.Unmount()
	c.Wait()
	for i := 0; i < 1000 && c.Conn.Writing(); i++ {
		c.Conn.Take()
		c.Wait()
	}
	for _, h := range c.callers {
		if h.istag {
			c.mu.Lock()
			busy := h.busy
			c.mu.Unlock()
			if !busy {
				c.Clnt.TagFree(h.tag)
				close(h.rch)
			}
		}
	}
	c.Wait()
}

func (k *Case) viol(key, msg string) {
	k.Oracle = append(k.Oracle, key)
	k.OracleMsg = append(k.OracleMsg, msg)
}

// judge applies the external oracle of C09 and C10 to what the callers returned and what the
// peer saw and sent. It uses no specification state.
func (k *Case) judge(quiet Event) {
	c := k.C
	k.Quiet = quiet
	c.mu.Lock()
	defer c.mu.Unlock()
	consumed := c.Conn.Consumed()
	failed := c.peerGone || c.halfClosed || c.wrFailed || c.Conn.IsClosed() || quiet["cerr"] == true
	for _, h := range c.callers {
		for i := 1; i <= h.started; i++ {
			call := callID(h.id, i, c.NCalls)
			r := c.Res[call-1]
			q := c.byCall[call]
			complete := q != nil && q.End > 0 && q.End <= consumed
			switch r.St {
			case "":
				if failed {
					k.Hung = append(k.Hung, call)
				} else {
					k.Pending = append(k.Pending, call)
				}
			case "weird":
				k.viol("weird-result", fmt.Sprintf("call %d: %s", call, r.Detail))
			case "ok", "rerror", "badtype":
				if r.Pay != call {
					k.viol("foreign-reply:"+r.St, fmt.Sprintf("call %d returned %s with the payload of call %d (%s)", call, r.St, r.Pay, r.Detail))
				}
				want := ""
				if q != nil {
					want = q.Kind
					if want == "wrongtype" {
						want = "badtype"
					}
				}
				if r.St != want {
					k.viol("wrong-class:"+want+"->"+r.St, fmt.Sprintf("call %d: peer answered %q, call returned %q", call, want, r.St))
				}
				if r.St == "ok" && !complete {
					k.viol("false-success", fmt.Sprintf("call %d returned success but its reply was not completely received (end %d, consumed %d)", call, endOf(q), consumed))
				}
			case "error":
				if complete {
					k.viol("reply-lost", fmt.Sprintf("call %d returned a connection error although its complete reply had been received", call))
				}
			}
		}
	}
	for _, d := range c.DupTag {
		k.viol("duplicate-tag", d)
	}
	for kk, order := range c.Comp {
		for i, call := range order {
			if call != callID(kk, i+1, c.NCalls) {
				k.viol("tag-fifo", fmt.Sprintf("Tag caller %d: completion %d is call %d", kk, i+1, call))
				break
			}
		}
	}
}

func endOf(q *PReq) int {
	if q == nil {
		return 0
	}
	return q.End
}

// ---------------------------------------------------------------- report helpers

type Violation struct {
	Key    string `json:"key"`
	What   string `json:"what"`
	Replay any    `json:"replay"`
}

type Report struct {
	Engine       string         `json:"engine"`
	Cases        int            `json:"cases"`
	Distinct     int            `json:"distinct"`
	Samples      []any          `json:"samples"`
	Violations   []Violation    `json:"violations"`
	Inconclusive []string       `json:"inconclusive"`
	Stats        map[string]any `json:"stats"`
	seen         map[string]bool
}

func (r *Report) AddViolation(key, what string, replay any) {
	if r.seen == nil {
		r.seen = map[string]bool{}
	}
	if r.seen[key] {
		return
	}
	r.seen[key] = true
	r.Violations = append(r.Violations, Violation{key, what, replay})
}

func (r *Report) Write() error {
	p := os.Getenv("VERIF_OUT")
	if p == "" {
		return nil
	}
	if r.Stats == nil {
		r.Stats = map[string]any{}
	}
	b, err := json.Marshal(r)
	if err != nil {
		return err
	}
	return os.WriteFile(p, b, 0o644)
}

func ReadBehaviours(path string) ([]Behaviour, error) {
	f, err := os.Open(path)
	if err != nil {
		return nil, err
	}
	defer f.Close()
	var out []Behaviour
	sc := bufio.NewScanner(f)
	sc.Buffer(make([]byte, 1<<20), 1<<26)
	for sc.Scan() {
		ln := strings.TrimSpace(sc.Text())
		if ln == "" {
			continue
		}
		var b Behaviour
		if err := json.Unmarshal([]byte(ln), &b); err != nil {
			return nil, err
		}
		out = append(out, b)
	}
	return out, sc.Err()
}

type NDWriter struct {
	f *os.File
	w *bufio.Writer
}

func NewNDWriter(path string) (*NDWriter, error) {
	f, err := os.Create(path)
	if err != nil {
		return nil, err
	}
	return &NDWriter{f: f, w: bufio.NewWriterSize(f, 1<<20)}, nil
}

func (n *NDWriter) Put(e any) {
	b, _ := json.Marshal(e)
	n.w.Write(b)
	n.w.WriteByte('\n')
}

func (n *NDWriter) Close() { n.w.Flush(); n.f.Close() }

func envInt(name string, def int) int {
	if s := os.Getenv(name); s != "" {
		if n, err := json.Number(s).Int64(); err == nil {
			return int(n)
		}
	}
	return def
}
