// Package clnth drives the real go9p client under a deterministic gate controller (see
// harness/srvh for the server-side twin) with a scripted 9P peer on a scripted transport.
package clnth

import (
	"errors"
	"io"
	"net"
	"sync"
	"time"
)

// SConn is the client's end of a scripted connection. It has the semantics of a stream socket:
// Read blocks until the peer delivers bytes, reports EOF after the peer's end is closed and all
// delivered bytes are consumed, returns (0, nil) for an empty buffer, and fails at once after a
// local Close; Write blocks until the peer takes the bytes and fails once the peer is gone or the
// socket is closed locally. All blocking is on channels, so it is durable for testing/synctest.
// It must be created inside the bubble.
type SConn struct {
	rd     chan []byte   // peer -> client chunks (unbuffered: the peer's send completes when Read takes it)
	eof    chan struct{} // closed: no more chunks will come
	wr     chan []byte   // client -> peer
	closed chan struct{} // closed locally (client)
	gone   chan struct{} // peer gone: writes fail

	mu       sync.Mutex
	left     []byte
	reading  bool
	writing  bool
	nread    int // bytes the client has taken out of Read
	isClosed bool
	isGone   bool
	isEOF    bool
	nfailed  int // Writes that failed because the peer is gone
	// MaxWrite, if > 0, makes Write accept at most MaxWrite(len) bytes (partial writes).
	MaxWrite func(n int) int
}

func NewSConn() *SConn {
	return &SConn{rd: make(chan []byte), eof: make(chan struct{}), wr: make(chan []byte),
		closed: make(chan struct{}), gone: make(chan struct{})}
}

var ErrPeerGone = errors.New("sconn: broken pipe")

func (c *SConn) set(rd *bool, v bool) { c.mu.Lock(); *rd = v; c.mu.Unlock() }

func (c *SConn) Read(b []byte) (int, error) {
	select {
	case <-c.closed:
		return 0, net.ErrClosed
	default:
	}
	c.mu.Lock()
	if len(c.left) > 0 {
		n := copy(b, c.left)
		c.left = c.left[n:]
		c.nread += n
		c.mu.Unlock()
		return n, nil
	}
	c.mu.Unlock()
	if len(b) == 0 {
		return 0, nil
	}
	c.set(&c.reading, true)
	defer c.set(&c.reading, false)
	select {
	case chunk := <-c.rd:
		n := copy(b, chunk)
		c.mu.Lock()
		c.left = chunk[n:]
		c.nread += n
		c.mu.Unlock()
		return n, nil
	case <-c.eof:
		return 0, io.EOF
	case <-c.closed:
		return 0, net.ErrClosed
	}
}

func (c *SConn) Write(b []byte) (int, error) {
	select {
	case <-c.closed:
		return 0, net.ErrClosed
	case <-c.gone:
		c.mu.Lock()
		c.nfailed++
		c.mu.Unlock()
		return 0, ErrPeerGone
	default:
	}
	n := len(b)
	if c.MaxWrite != nil {
		if m := c.MaxWrite(n); m > 0 && m < n {
			n = m
		}
	}
	c.set(&c.writing, true)
	defer c.set(&c.writing, false)
	select {
	case c.wr <- append([]byte(nil), b[:n]...):
		return n, nil
	case <-c.closed:
		return 0, net.ErrClosed
	case <-c.gone:
		c.mu.Lock()
		c.nfailed++
		c.mu.Unlock()
		return 0, ErrPeerGone
	}
}

// FailedWrites: how many Writes of the client failed because the peer is gone.
func (c *SConn) FailedWrites() int { c.mu.Lock(); defer c.mu.Unlock(); return c.nfailed }

func (c *SConn) Close() error {
	c.mu.Lock()
	if !c.isClosed {
		c.isClosed = true
		close(c.closed)
	}
	c.mu.Unlock()
	return nil
}

// ---- peer side

// Deliver hands a chunk to the client's Read (blocks until a Read takes it; false if the client
// closed its end instead).
func (c *SConn) Deliver(b []byte) bool {
	if len(b) == 0 {
		return true
	}
	select {
	case c.rd <- append([]byte(nil), b...):
		return true
	case <-c.closed:
		return false
	}
}

// EOF ends the server-to-client stream (after everything delivered so far).
func (c *SConn) EOF() {
	c.mu.Lock()
	if !c.isEOF {
		c.isEOF = true
		close(c.eof)
	}
	c.mu.Unlock()
}

// Gone makes pending and later client writes fail.
func (c *SConn) Gone() {
	c.mu.Lock()
	if !c.isGone {
		c.isGone = true
		close(c.gone)
	}
	c.mu.Unlock()
}

// Take receives what the client is writing (blocks until a Write is pending; nil if the client
// closed its end).
func (c *SConn) Take() []byte {
	select {
	case b := <-c.wr:
		return b
	case <-c.closed:
		return nil
	}
}

func (c *SConn) Reading() bool  { c.mu.Lock(); defer c.mu.Unlock(); return c.reading }
func (c *SConn) Writing() bool  { c.mu.Lock(); defer c.mu.Unlock(); return c.writing }
func (c *SConn) IsClosed() bool { c.mu.Lock(); defer c.mu.Unlock(); return c.isClosed }
func (c *SConn) IsGone() bool   { c.mu.Lock(); defer c.mu.Unlock(); return c.isGone }

// Consumed returns the number of bytes the client has obtained from Read so far.
func (c *SConn) Consumed() int { c.mu.Lock(); defer c.mu.Unlock(); return c.nread }

type sAddr struct{}

func (sAddr) Network() string { return "sconn" }
func (sAddr) String() string  { return "scripted-peer" }

func (c *SConn) LocalAddr() net.Addr                { return sAddr{} }
func (c *SConn) RemoteAddr() net.Addr               { return sAddr{} }
func (c *SConn) SetDeadline(t time.Time) error      { return nil }
func (c *SConn) SetReadDeadline(t time.Time) error  { return nil }
func (c *SConn) SetWriteDeadline(t time.Time) error { return nil }
