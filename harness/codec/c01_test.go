package codec

import (
	"bytes"
	"encoding/json"
	"fmt"
	"hash/maphash"
	"math/rand"
	"os"
	"sort"
	"strings"
	"testing"

	"github.com/rminnich/go9p"
	"verif/harness/wire"
)

// C01 engine: every vector TLC evaluated from spec/Wire9P.tla (job "enc") is executed on go9p:
//   Pack*(values)            -> Fcall.Pkt must equal the specification's bytes (tag = NOTAG)
//   SetTag(tag)              -> bytes 5..6 change, nothing else: now equal to the spec's bytes
//   Unpack(bytes [+ tail])   -> same field values, consumed = size
//   InitRread+SetRreadCount  -> same bytes as the one-step form
//   PackDir / UnpackDir      -> bare stat records
// and the harness's own codec (harness/wire) must agree with every vector (else inconclusive).
// Then VERIF_RANDOM seeded random messages are checked the same way against wire.Encode.

type c01 struct {
	rep     *Report
	scratch []byte
	seed    maphash.Seed
	hashes  map[uint64]struct{}
	n       int
	xfail   int
}

func (c *c01) buf(n int) []byte {
	if n > len(c.scratch) {
		c.scratch = make([]byte, n+4096)
	}
	b := c.scratch[:n:n]
	for i := range b {
		b[i] = 0xA5
	}
	return b
}

func firstDiff(a, b []byte) int {
	n := len(a)
	if len(b) < n {
		n = len(b)
	}
	for i := 0; i < n; i++ {
		if a[i] != b[i] {
			return i
		}
	}
	if len(a) != len(b) {
		return n
	}
	return -1
}

func replayOf(typ string, dotu bool, exp []byte, src string) map[string]any {
	return map[string]any{"engine": "codec-c01", "type": typ, "dotu": dotu, "source": src, "size": len(exp), "expected_head": hexHead(exp)}
}

// checkMsg runs all go9p checks of one message against the expected bytes.
func (c *c01) checkMsg(m *wire.Msg, dotu bool, exp []byte, src string) {
	name := wire.TypeName(m.Type)
	grp := func(class string) string { return fmt.Sprintf("c01:%s:type=%s:dotu=%d", class, name, b2i(dotu)) }
	rp := replayOf(name, dotu, exp, src)
	c.n++
	slack := []int{0, 5, 64}[c.n%3]

	// --- constructor
	fc := &go9p.Fcall{Buf: c.buf(len(exp) + slack)}
	var perr error
	var pp any
	func() {
		defer func() { pp = recover() }()
		perr = packGo(fc, m, dotu)
	}()
	packed := false
	switch {
	case pp != nil:
		c.rep.violation(grp("pack-panic"), "", fmt.Sprintf("%s constructor panicked: %v", name, pp), rp)
	case perr != nil:
		c.rep.violation(grp("pack-error"), "", fmt.Sprintf("%s constructor failed on representable values with a buffer of size+%d: %v", name, slack, perr), rp)
	default:
		want := append([]byte(nil), exp...)
		want[5], want[6] = 0xFF, 0xFF // constructors set NOTAG
		if d := firstDiff(fc.Pkt, want); d >= 0 {
			c.rep.violation(grp("pack-bytes"), "", fmt.Sprintf("%s: Fcall.Pkt differs from the protocol layout at offset %d (len %d, want %d): got %s want %s",
				name, d, len(fc.Pkt), len(want), hexHead(fc.Pkt), hexHead(want)), rp)
		} else {
			packed = true
		}
	}
	// --- SetTag
	if packed {
		var sp any
		func() {
			defer func() { sp = recover() }()
			go9p.SetTag(fc, m.Tag)
		}()
		if sp != nil {
			c.rep.violation(grp("settag-panic"), "", fmt.Sprintf("SetTag panicked: %v", sp), rp)
		} else if d := firstDiff(fc.Pkt, exp); d >= 0 {
			c.rep.violation(grp("settag"), "", fmt.Sprintf("%s: after SetTag(%#x) the packet differs from the layout at offset %d", name, m.Tag, d), rp)
		}
	}
	// --- two-step Rread
	if m.Type == wire.Rread {
		// the initial count may exceed the final one by a little or by more than 16 and 20 bits (a short read at a large msize)
		extra := []int{0, 1, 100, 65525, 70000, 1 << 20}[c.n%6]
		fc2 := &go9p.Fcall{Buf: c.buf(len(exp) + extra)}
		var rp2 any
		var ierr error
		func() {
			defer func() { rp2 = recover() }()
			ierr = go9p.InitRread(fc2, uint32(len(m.Data)+extra))
			if ierr == nil {
				copy(fc2.Data, m.Data)
				go9p.SetRreadCount(fc2, uint32(len(m.Data)))
			}
		}()
		want := append([]byte(nil), exp...)
		want[5], want[6] = 0xFF, 0xFF
		switch {
		case rp2 != nil:
			c.rep.violation(grp("rread-twostep-panic"), "", fmt.Sprintf("InitRread/SetRreadCount panicked: %v", rp2), rp)
		case ierr != nil:
			c.rep.violation(grp("rread-twostep-error"), "", fmt.Sprintf("InitRread(%d) failed with an exactly fitting buffer: %v", len(m.Data)+extra, ierr), rp)
		default:
			if d := firstDiff(fc2.Pkt, want); d >= 0 {
				c.rep.violation(grp("rread-twostep-bytes"), "", fmt.Sprintf("InitRread(%d)+SetRreadCount(%d): packet differs from the layout at offset %d (len %d want %d)",
					len(m.Data)+extra, len(m.Data), d, len(fc2.Pkt), len(want)), rp)
			} else if int(fc2.Size) != len(exp) || int(fc2.Count) != len(m.Data) || len(fc2.Data) != len(m.Data) {
				c.rep.violation(grp("rread-twostep-fields"), "", "InitRread+SetRreadCount: Size/Count/Data of the Fcall disagree with the packet", rp)
			}
		}
	}
	// --- decoder
	in := exp
	tail := 0
	if c.n%2 == 1 {
		tail = 9
		in = append(append([]byte(nil), exp...), 0x13, 0, 0, 0, 0x78, 1, 0, 2, 0)
	}
	r := guardedUnpack(in, dotu, false)
	switch {
	case r.panicked != nil:
		c.rep.violation(grp("unpack-panic"), "", fmt.Sprintf("Unpack panicked on a well-formed %s: %v", name, r.panicked), rp)
	case r.err != nil:
		c.rep.violation(grp("unpack-reject"), "", fmt.Sprintf("Unpack rejected a well-formed %s (%d bytes, %d trailing): %v", name, len(exp), tail, r.err), rp)
	case r.consumed != len(exp):
		c.rep.violation(grp("unpack-consumed"), "", fmt.Sprintf("Unpack consumed %d bytes of a %d-byte %s", r.consumed, len(exp), name), rp)
	default:
		if d := msgDiff(fromFcall(r.fc), m, dotu); d != "" {
			c.rep.violation(grp("unpack-field"), "field="+d, fmt.Sprintf("Unpack of a well-formed %s returned a different value for %s", name, d), rp)
		} else if int(r.fc.Size) != len(exp) || firstDiff(r.fc.Pkt, exp) >= 0 {
			// the raw packet of the decoded message is the message, not what follows it in the buffer
			c.rep.violation(grp("unpack-pkt"), "", fmt.Sprintf("Unpack of a well-formed %d-byte %s followed by %d bytes: Size=%d, len(Pkt)=%d", len(exp), name, tail, r.fc.Size, len(r.fc.Pkt)), rp)
		}
	}
	h := maphash.Bytes(c.seed, exp)
	if dotu {
		h ^= 0x9e3779b97f4a7c15
	}
	c.hashes[h] = struct{}{}
}

func (c *c01) checkStat(s *wire.Stat, dotu bool, exp []byte, src string) {
	grp := func(class string) string { return fmt.Sprintf("c01:%s:type=stat:dotu=%d", class, b2i(dotu)) }
	rp := replayOf("stat", dotu, exp, src)
	c.n++
	var pd []byte
	var pp any
	func() {
		defer func() { pp = recover() }()
		pd = go9p.PackDir(toDir(s), dotu)
	}()
	if pp != nil {
		c.rep.violation(grp("packdir-panic"), "", fmt.Sprintf("PackDir panicked: %v", pp), rp)
	} else if d := firstDiff(pd, exp); d >= 0 {
		c.rep.violation(grp("packdir-bytes"), "", fmt.Sprintf("PackDir differs from the stat layout at offset %d (len %d want %d)", d, len(pd), len(exp)), rp)
	}
	in := exp
	tail := 0
	if c.n%2 == 1 {
		tail = 5
		in = append(append([]byte(nil), exp...), 1, 2, 3, 4, 5)
	}
	r := guardedUnpackDir(in, dotu, false)
	switch {
	case r.panicked != nil:
		c.rep.violation(grp("unpackdir-panic"), "", fmt.Sprintf("UnpackDir panicked on a well-formed record: %v", r.panicked), rp)
	case r.err != nil:
		c.rep.violation(grp("unpackdir-reject"), "", fmt.Sprintf("UnpackDir rejected a well-formed %d-byte record: %v", len(exp), r.err), rp)
	case r.amt != len(exp) || len(r.rest) != tail:
		c.rep.violation(grp("unpackdir-consumed"), "", fmt.Sprintf("UnpackDir consumed %d (rest %d) of a %d-byte record followed by %d bytes", r.amt, len(r.rest), len(exp), tail), rp)
	default:
		got := fromDir(r.d)
		if d := statEq(&got, s, dotu); d != "" {
			c.rep.violation(grp("unpackdir-field"), "field="+d, "UnpackDir returned a different value for "+d, rp)
		}
	}
	h := maphash.Bytes(c.seed, exp)
	if dotu {
		h ^= 0x9e3779b97f4a7c15
	}
	c.hashes[h] = struct{}{}
}

// crossCheck: the independent codec against the specification's vector (a harness/spec problem
// if it fails: inconclusive, never a violation).
func (c *c01) crossCheck(typ string, m *wire.Msg, dotu bool, exp []byte) bool {
	fail := func(s string) bool {
		c.xfail++
		c.rep.inconclusive(fmt.Sprintf("harness/wire disagrees with spec/Wire9P.tla on %s dotu=%v: %s", typ, dotu, s))
		return false
	}
	if typ == "stat" {
		if d := firstDiff(wire.EncodeStat(&m.Stat, dotu), exp); d >= 0 {
			return fail(fmt.Sprintf("EncodeStat differs at %d", d))
		}
		s, n, err := wire.DecodeStat(exp, dotu)
		if err != nil || n != len(exp) || statEq(s, &m.Stat, dotu) != "" {
			return fail(fmt.Sprintf("DecodeStat: %v", err))
		}
		return true
	}
	if d := firstDiff(wire.Encode(m, dotu), exp); d >= 0 {
		return fail(fmt.Sprintf("Encode differs at offset %d", d))
	}
	w, err := wire.Decode(exp, dotu)
	if err != nil {
		return fail("Decode: " + err.Error())
	}
	if d := msgDiff(w, m, dotu); d != "" {
		return fail("Decode field " + d)
	}
	return true
}

// ---------------------------------------------------------------- random values

var strEdges = []int{0, 1, 2, 3, 127, 128, 254, 255, 256, 257, 1023, 1024, 4095, 4096, 32767, 32768, 65534, 65535}

func rndLen(r *rand.Rand, max int) int {
	var n int
	switch x := r.Intn(100); {
	case x < 55:
		n = r.Intn(48)
	case x < 80:
		n = strEdges[r.Intn(len(strEdges))]
	case x < 92:
		n = r.Intn(2048)
	default:
		n = r.Intn(65536)
	}
	if n > max {
		n = max
	}
	return n
}

func rndStr(r *rand.Rand, max int) string {
	b := make([]byte, rndLen(r, max))
	switch r.Intn(3) {
	case 0: // arbitrary bytes
		r.Read(b)
	case 1: // printable
		for i := range b {
			b[i] = byte('a' + r.Intn(26))
		}
	default: // position dependent
		k := r.Intn(256)
		for i := range b {
			b[i] = byte(k + i)
		}
	}
	return string(b)
}

func rndU(r *rand.Rand, bits uint) uint64 {
	max := uint64(1)<<bits - 1
	if bits == 64 {
		max = ^uint64(0)
	}
	switch r.Intn(8) {
	case 0:
		return 0
	case 1:
		return 1
	case 2:
		return max
	case 3:
		return max - 1
	case 4:
		return (uint64(1) << uint(r.Intn(int(bits)))) & max
	case 5:
		return ((uint64(1) << uint(r.Intn(int(bits)))) - 1) & max
	default:
		return r.Uint64() & max
	}
}

func rndQid(r *rand.Rand) wire.Qid {
	return wire.Qid{Type: uint8(rndU(r, 8)), Vers: uint32(rndU(r, 32)), Path: rndU(r, 64)}
}

func rndStat(r *rand.Rand, dotu bool) wire.Stat {
	s := wire.Stat{Type: uint16(rndU(r, 16)), Dev: uint32(rndU(r, 32)), Qid: rndQid(r), Mode: uint32(rndU(r, 32)),
		Atime: uint32(rndU(r, 32)), Mtime: uint32(rndU(r, 32)), Length: rndU(r, 64)}
	budget := 65533 - 47
	if dotu {
		budget = 65533 - 61
	}
	ps := []*string{&s.Name, &s.Uid, &s.Gid, &s.Muid}
	if dotu {
		ps = append(ps, &s.Ext)
		s.Uidnum, s.Gidnum, s.Muidnum = uint32(rndU(r, 32)), uint32(rndU(r, 32)), uint32(rndU(r, 32))
	}
	r.Shuffle(len(ps), func(i, j int) { ps[i], ps[j] = ps[j], ps[i] })
	for _, p := range ps {
		*p = rndStr(r, budget)
		budget -= len(*p)
	}
	return s
}

func rndMsg(r *rand.Rand, t uint8, dotu bool) *wire.Msg {
	m := &wire.Msg{Type: t, Tag: uint16(rndU(r, 16))}
	for _, f := range fields(t, dotu) {
		switch f.kind {
		case "u8":
			m.Mode = uint8(rndU(r, 8))
		case "u16":
			m.Oldtag = uint16(rndU(r, 16))
		case "u32":
			*u32p(m, f.name) = uint32(rndU(r, 32))
		case "u64":
			m.Offset = rndU(r, 64)
		case "str":
			*strp(m, f.name) = rndStr(r, 65535)
		case "qid":
			m.Qid = rndQid(r)
		case "names":
			n := []int{0, 1, 2, 3, 5, 15, 16, 17, 40, 300}[r.Intn(10)]
			m.Wname = make([]string, n)
			for i := range m.Wname {
				max := 65535
				if n > 16 {
					max = 64
				}
				m.Wname[i] = rndStr(r, max)
			}
		case "qids":
			n := []int{0, 1, 2, 3, 5, 15, 16, 17, 40, 300}[r.Intn(10)]
			m.Wqid = make([]wire.Qid, n)
			for i := range m.Wqid {
				m.Wqid[i] = rndQid(r)
			}
		case "data":
			var n int
			switch x := r.Intn(100); {
			case x < 50:
				n = r.Intn(64)
			case x < 80:
				n = strEdges[r.Intn(len(strEdges))]
			case x < 97:
				n = r.Intn(70000)
			default:
				n = []int{65536, 1 << 20, 1<<20 + 1, 3 << 20}[r.Intn(4)]
			}
			m.Data = make([]byte, n)
			r.Read(m.Data)
			m.Count = uint32(n)
		case "statn":
			m.Stat = rndStat(r, dotu)
		}
	}
	return m
}

func TestEncVectors(t *testing.T) {
	paths := strings.Split(os.Getenv("VERIF_VECTORS"), ":")
	if os.Getenv("VERIF_VECTORS") == "" {
		t.Skip("VERIF_VECTORS not set")
	}
	rep := newReport("codec-c01")
	c := &c01{rep: rep, seed: maphash.MakeSeed(), hashes: map[uint64]struct{}{}}
	perType := map[string]int{}
	vectors := 0
	err := readLines(paths, func(line []byte) error {
		var v encVec
		if err := json.Unmarshal(line, &v); err != nil {
			return err
		}
		vectors++
		perType[fmt.Sprintf("%s/%d", v.Type, b2i(v.Dotu))]++
		exp := expandSegs(v.Segs, v.Size)
		if len(exp) != v.Size {
			rep.inconclusive(fmt.Sprintf("vector %s: segments have %d bytes, size says %d", v.Type, len(exp), v.Size))
			return nil
		}
		m, err := buildMsg(v.Type, v.Tag, v.Msg, v.Dotu)
		if err != nil {
			rep.inconclusive("cannot interpret vector: " + err.Error())
			return nil
		}
		if !c.crossCheck(v.Type, m, v.Dotu, exp) {
			return nil
		}
		if len(rep.Samples) < 6 && (vectors%977 == 1) {
			rep.Samples = append(rep.Samples, map[string]any{"type": v.Type, "dotu": v.Dotu, "size": v.Size, "bytes": hexHead(exp)})
		}
		if v.Type == "stat" {
			c.checkStat(&m.Stat, v.Dotu, exp, "spec-vector")
		} else {
			c.checkMsg(m, v.Dotu, exp, "spec-vector")
		}
		return nil
	})
	if err != nil {
		rep.inconclusive("reading vectors: " + err.Error())
	}
	// seeded random values, expected bytes from the (just cross-checked) independent encoder
	nrand := envInt("VERIF_RANDOM", 0)
	seed := int64(envInt("VERIF_SEED", 1))
	rng := rand.New(rand.NewSource(seed))
	var types []int
	for tcode := range layouts {
		types = append(types, int(tcode))
	}
	sort.Ints(types)
	done := 0
	if c.xfail == 0 {
		for done < nrand {
			for _, tc := range types {
				for _, dotu := range []bool{false, true} {
					m := rndMsg(rng, uint8(tc), dotu)
					exp := wire.Encode(m, dotu)
					c.checkMsg(m, dotu, exp, fmt.Sprintf("random seed=%d #%d", seed, done))
					done++
				}
			}
			for _, dotu := range []bool{false, true} {
				s := rndStat(rng, dotu)
				c.checkStat(&s, dotu, wire.EncodeStat(&s, dotu), fmt.Sprintf("random seed=%d #%d", seed, done))
				done++
			}
		}
	}
	rep.Cases = vectors + done
	rep.Distinct = len(c.hashes)
	rep.Stats["spec_vectors"] = vectors
	rep.Stats["random_cases"] = done
	rep.Stats["per_type"] = perType
	rep.Stats["wire_crosscheck_failures"] = c.xfail
	if err := rep.write(); err != nil {
		t.Fatal(err)
	}
	_ = bytes.Equal
}
