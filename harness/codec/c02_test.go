package codec

import (
	"encoding/binary"
	"encoding/json"
	"fmt"
	"os"
	"runtime/debug"
	"strings"
	"testing"

	"github.com/rminnich/go9p"
	"verif/harness/wire"
)

// C02 engine.  Oracle, exactly the property's clauses, for an arbitrary byte string `in`:
//   (a) Unpack / UnpackDir never panics;
//   (b) the result does not depend on bytes beyond the declared size: in[:D], in[:D]+tailA and
//       in[:D]+tailB give the same outcome (D = size prefix; for stat records 2 + size[2]);
//   (c) bytes allocated by the call <= 64*len(in) + 64 KiB;
//   (d) on success: consumed = D, 7 <= D <= len(in), the type is a defined message type, the layout
//       size of the decoded fields is <= D (every variable-length field lies inside the packet), and
//       re-encoding the decoded fields with the Pack* constructors gives a packet that decodes to
//       the same fields;
//   (e) where spec/Wire9P.tla says well-formed, the call succeeds with the spec's fields.
// Where the spec says malformed the code may reject, or accept if (d) holds.

const allocSlope = 64
const allocConst = 64 << 10

type finding struct {
	class string // stable class name
	what  string
}

func allocBound(n int) uint64 { return uint64(allocSlope*n + allocConst) }

func describe(fc *go9p.Fcall) string {
	if fc == nil {
		return "nil"
	}
	return fmt.Sprintf("%s tag=%d size=%d", wire.TypeName(fc.Type), fc.Tag, fc.Size)
}

// sameOutcome compares two decode results (error vs success, consumed, fields).
func sameOutcome(a, b unpackResult, dotu bool) string {
	if (a.panicked != nil) != (b.panicked != nil) {
		return "one panics, the other does not"
	}
	if a.panicked != nil {
		return ""
	}
	if (a.err != nil) != (b.err != nil) {
		return fmt.Sprintf("error %v vs %v", a.err, b.err)
	}
	if a.err != nil {
		return ""
	}
	if a.consumed != b.consumed {
		return fmt.Sprintf("consumed %d vs %d", a.consumed, b.consumed)
	}
	if a.fc.Type != b.fc.Type {
		return "type differs"
	}
	if _, ok := layouts[a.fc.Type]; !ok {
		return ""
	}
	if d := msgDiff(fromFcall(a.fc), fromFcall(b.fc), dotu); d != "" {
		return "field " + d + " differs"
	}
	return ""
}

var tailA = []byte{0xFF, 0xFF, 0xFF, 0xFF, 0xFF, 0xFF, 0xFF, 0xFF, 0xFF, 0xFF, 0xFF, 0xFF, 0xFF, 0xFF, 0xFF, 0xFF, 0xFF, 0xFF, 0xFF, 0xFF}
var tailB = []byte{0, 0, 0, 0, 0, 0, 0, 0, 0, 0, 0, 0, 0, 0, 0, 0, 0, 0, 0, 0}

// measureUnpack repeats the measured call when the bound is exceeded (another goroutine of the
// test binary may have allocated in between); the minimum counts.
func measureUnpack(in []byte, dotu bool) unpackResult {
	r := guardedUnpack(in, dotu, true)
	for i := 0; i < 2 && r.alloc > allocBound(len(in)) && r.alloc < allocBound(len(in))+(4<<20); i++ {
		r2 := guardedUnpack(in, dotu, true)
		if r2.alloc < r.alloc {
			r = r2
		}
	}
	return r
}

// checkUnpack applies clauses (a)-(d) to one input.  It returns the first decode result and the
// findings.
func checkUnpack(in []byte, dotu bool) (unpackResult, []finding) {
	var fs []finding
	r := measureUnpack(in, dotu)
	if r.panicked != nil {
		fs = append(fs, finding{"unpack-panic", fmt.Sprintf("Unpack panicked on %d bytes %s: %v", len(in), hexHead(in), r.panicked)})
		return r, fs
	}
	if r.alloc > allocBound(len(in)) {
		fs = append(fs, finding{"unpack-alloc", fmt.Sprintf("Unpack allocated %d bytes for a %d-byte input %s (bound %d)", r.alloc, len(in), hexHead(in), allocBound(len(in)))})
		if r.alloc > 64<<20 { // do not repeat gigabyte allocations for the remaining clauses
			r.fc = nil
			debug.FreeOSMemory()
			return r, fs
		}
	}
	// (b) tail independence
	if len(in) >= 4 {
		D := uint64(binary.LittleEndian.Uint32(in))
		if D <= uint64(len(in)) {
			base := in[:D]
			r0 := guardedUnpack(base, dotu, false)
			ra := guardedUnpack(append(append([]byte(nil), base...), tailA...), dotu, false)
			rb := guardedUnpack(append(append([]byte(nil), base...), tailB...), dotu, false)
			for _, x := range []struct {
				n string
				r unpackResult
			}{{"no tail", r0}, {"0xFF tail", ra}, {"zero tail", rb}} {
				if x.r.panicked != nil {
					fs = append(fs, finding{"unpack-panic", fmt.Sprintf("Unpack panicked on %s (%s): %v", hexHead(base), x.n, x.r.panicked)})
					return r, fs
				}
				if d := sameOutcome(r, x.r, dotu); d != "" {
					fs = append(fs, finding{"unpack-tail-dependent", fmt.Sprintf("decoding %s gives a different result with %s after the declared size %d: %s", hexHead(in), x.n, D, d)})
					break
				}
			}
		}
	}
	// (b') ... nor on what the backing array holds beyond the input (a partial message at the start of a larger buffer)
	for _, fill := range []byte{0, 1, 0xFF} {
		rr := guardedUnpackIn(roomy(in, fill), dotu)
		if rr.panicked != nil {
			fs = append(fs, finding{"unpack-panic", fmt.Sprintf("Unpack panicked on %s given as a prefix of a larger buffer: %v", hexHead(in), rr.panicked)})
			return r, fs
		}
		if d := sameOutcome(r, rr, dotu); d != "" {
			fs = append(fs, finding{"unpack-capacity-dependent", fmt.Sprintf("decoding the %d bytes %s gives a different result when the slice has spare capacity filled with 0x%02X: %s", len(in), hexHead(in), fill, d)})
			break
		}
	}
	if r.err != nil {
		return r, fs
	}
	// (d) success conditions
	fc := r.fc
	if fc == nil {
		fs = append(fs, finding{"unpack-nil", "Unpack returned neither an error nor a message"})
		return r, fs
	}
	D := -1
	if len(in) >= 4 {
		D = int(binary.LittleEndian.Uint32(in))
	}
	if r.consumed != D || D < 7 || D > len(in) {
		fs = append(fs, finding{"unpack-consumed", fmt.Sprintf("Unpack succeeded on %s with consumed=%d, size prefix %d, input length %d", hexHead(in), r.consumed, D, len(in))})
		return r, fs
	}
	if _, ok := layouts[fc.Type]; !ok {
		fs = append(fs, finding{"unpack-undefined-type", fmt.Sprintf("Unpack accepted type %d", fc.Type)})
		return r, fs
	}
	m := fromFcall(fc)
	ls := layoutSize(m, dotu)
	if ve := varEnd(m, dotu); ve > int64(D) {
		fs = append(fs, finding{"unpack-field-outside", fmt.Sprintf("Unpack accepted %s (%s): the last variable-length field of the decoded message ends at offset %d, the packet has %d bytes", hexHead(in), describe(fc), ve, D)})
		return r, fs
	}
	if ls > 1<<26 {
		return r, fs
	}
	// re-encode with the constructors, decode again
	fc2 := go9p.NewFcall(uint32(ls) + 16)
	var perr error
	var pp any
	func() {
		defer func() { pp = recover() }()
		perr = packGo(fc2, m, dotu)
		if perr == nil {
			go9p.SetTag(fc2, m.Tag)
		}
	}()
	if pp != nil || perr != nil {
		fs = append(fs, finding{"unpack-reencode", fmt.Sprintf("the fields decoded from %s cannot be re-encoded: %v %v", hexHead(in), pp, perr)})
		return r, fs
	}
	r2 := guardedUnpack(fc2.Pkt, dotu, false)
	if r2.panicked != nil || r2.err != nil {
		fs = append(fs, finding{"unpack-reencode", fmt.Sprintf("re-encoding the fields decoded from %s gives %s which does not decode: %v %v", hexHead(in), hexHead(fc2.Pkt), r2.panicked, r2.err)})
		return r, fs
	}
	if d := msgDiff(fromFcall(r2.fc), m, dotu); d != "" {
		fs = append(fs, finding{"unpack-reencode", fmt.Sprintf("re-encoding the fields decoded from %s and decoding again changes field %s", hexHead(in), d)})
	}
	return r, fs
}

func measureUnpackDir(in []byte, dotu bool) unpackDirResult {
	r := guardedUnpackDir(in, dotu, true)
	for i := 0; i < 2 && r.alloc > allocBound(len(in)); i++ {
		r2 := guardedUnpackDir(in, dotu, true)
		if r2.alloc < r.alloc {
			r = r2
		}
	}
	return r
}

func sameDirOutcome(a, b unpackDirResult, dotu bool) string {
	if (a.err != nil) != (b.err != nil) {
		return fmt.Sprintf("error %v vs %v", a.err, b.err)
	}
	if a.err != nil {
		return ""
	}
	if a.amt != b.amt {
		return fmt.Sprintf("consumed %d vs %d", a.amt, b.amt)
	}
	x, y := fromDir(a.d), fromDir(b.d)
	if d := statEq(&x, &y, dotu); d != "" {
		return "field " + d + " differs"
	}
	return ""
}

func checkUnpackDir(in []byte, dotu bool) (unpackDirResult, []finding) {
	var fs []finding
	r := measureUnpackDir(in, dotu)
	if r.panicked != nil {
		fs = append(fs, finding{"unpackdir-panic", fmt.Sprintf("UnpackDir panicked on %d bytes %s: %v", len(in), hexHead(in), r.panicked)})
		return r, fs
	}
	if r.alloc > allocBound(len(in)) {
		fs = append(fs, finding{"unpackdir-alloc", fmt.Sprintf("UnpackDir allocated %d bytes for a %d-byte input", r.alloc, len(in))})
	}
	D := -1
	if len(in) >= 2 {
		D = 2 + int(binary.LittleEndian.Uint16(in))
	}
	if D >= 0 && D <= len(in) {
		base := in[:D]
		for _, tl := range [][]byte{nil, tailA, tailB} {
			x := guardedUnpackDir(append(append([]byte(nil), base...), tl...), dotu, false)
			if x.panicked != nil {
				fs = append(fs, finding{"unpackdir-panic", fmt.Sprintf("UnpackDir panicked on %s + %d tail bytes: %v", hexHead(base), len(tl), x.panicked)})
				return r, fs
			}
			if d := sameDirOutcome(r, x, dotu); d != "" {
				fs = append(fs, finding{"unpackdir-tail-dependent", fmt.Sprintf("decoding the stat record %s gives a different result with other bytes after its declared size %d: %s", hexHead(in), D, d)})
				break
			}
		}
	}
	if r.err != nil {
		return r, fs
	}
	if r.d == nil {
		fs = append(fs, finding{"unpackdir-nil", "UnpackDir returned neither an error nor a record"})
		return r, fs
	}
	if r.amt != D || D > len(in) || len(r.rest) != len(in)-r.amt {
		fs = append(fs, finding{"unpackdir-consumed", fmt.Sprintf("UnpackDir succeeded on %s with consumed=%d rest=%d, declared record size %d, input length %d", hexHead(in), r.amt, len(r.rest), D, len(in))})
		return r, fs
	}
	s := fromDir(r.d)
	if ve := 2 + statVarEnd(&s, dotu); ve > int64(D) {
		fs = append(fs, finding{"unpackdir-field-outside", fmt.Sprintf("UnpackDir accepted %s: the last string ends at offset %d, the record has %d bytes", hexHead(in), ve, D)})
		return r, fs
	}
	var pd []byte
	var pp any
	func() {
		defer func() { pp = recover() }()
		pd = go9p.PackDir(toDir(&s), dotu)
	}()
	if pp != nil {
		fs = append(fs, finding{"unpackdir-reencode", fmt.Sprintf("PackDir panics on the record decoded from %s: %v", hexHead(in), pp)})
		return r, fs
	}
	r2 := guardedUnpackDir(pd, dotu, false)
	if r2.panicked != nil || r2.err != nil {
		fs = append(fs, finding{"unpackdir-reencode", fmt.Sprintf("re-encoded record does not decode: %v %v", r2.panicked, r2.err)})
		return r, fs
	}
	s2 := fromDir(r2.d)
	if d := statEq(&s2, &s, dotu); d != "" {
		fs = append(fs, finding{"unpackdir-reencode", "re-encoding and decoding again changes field " + d})
	}
	return r, fs
}

func TestDecVectors(t *testing.T) {
	if os.Getenv("VERIF_VECTORS") == "" {
		t.Skip("VERIF_VECTORS not set")
	}
	paths := strings.Split(os.Getenv("VERIF_VECTORS"), ":")
	rep := newReport("codec-c02")
	distinct := map[string]struct{}{}
	n, specOK, codeOK, xfail := 0, 0, 0, 0
	maxAlloc := uint64(0)
	err := readLines(paths, func(line []byte) error {
		var v decVec
		if err := json.Unmarshal(line, &v); err != nil {
			return err
		}
		n++
		in := intsToBytes(v.Bytes)
		distinct[fmt.Sprintf("%v|%s|%x", v.Dotu, map[bool]string{true: "stat", false: "msg"}[v.Type == "stat"], in)] = struct{}{}
		grp := func(class string) string { return fmt.Sprintf("c02:%s:type=%s:dotu=%d", class, v.Type, b2i(v.Dotu)) }
		rp := map[string]any{"engine": "codec-c02", "type": v.Type, "dotu": v.Dotu, "mut": v.Mut, "bytes": hexHead(in), "spec_ok": v.OK}
		if v.OK {
			specOK++
		}
		if len(rep.Samples) < 6 && n%531 == 7 {
			rep.Samples = append(rep.Samples, map[string]any{"type": v.Type, "dotu": v.Dotu, "mut": v.Mut, "bytes": hexHead(in), "spec_ok": v.OK})
		}
		if v.Type == "stat" {
			// cross-check the harness decoder's verdict with the spec's
			if _, _, e := wire.DecodeStat(in, v.Dotu); (e == nil) != v.OK {
				xfail++
				rep.inconclusive(fmt.Sprintf("harness/wire DecodeStat verdict differs from spec on stat %s: %v vs spec ok=%v", v.Mut, e, v.OK))
				return nil
			}
			r, fs := checkUnpackDir(in, v.Dotu)
			if r.alloc > maxAlloc {
				maxAlloc = r.alloc
			}
			for _, f := range fs {
				rep.violation(grp(f.class), "mut="+v.Mut, f.what, rp)
			}
			if r.panicked == nil && r.err == nil {
				codeOK++
			}
			if v.OK && r.panicked == nil {
				if r.err != nil {
					rep.violation(grp("unpackdir-reject"), "mut="+v.Mut, fmt.Sprintf("UnpackDir rejected the well-formed record %s: %v", hexHead(in), r.err), rp)
				} else {
					want, e := buildMsg("stat", nil, v.Fields, v.Dotu)
					if e != nil {
						rep.inconclusive("cannot interpret vector fields: " + e.Error())
						return nil
					}
					got := fromDir(r.d)
					if d := statEq(&got, &want.Stat, v.Dotu); d != "" || r.amt != v.Size {
						rep.violation(grp("unpackdir-field"), "mut="+v.Mut, fmt.Sprintf("UnpackDir of the well-formed record %s: field %q differs or consumed %d != %d", hexHead(in), d, r.amt, v.Size), rp)
					}
				}
			}
			return nil
		}
		if len(in) >= 4 {
			D := uint64(binary.LittleEndian.Uint32(in))
			if D <= uint64(len(in)) && D >= 7 {
				if _, e := wire.Decode(in[:D], v.Dotu); (e == nil) != v.OK {
					xfail++
					rep.inconclusive(fmt.Sprintf("harness/wire Decode verdict differs from spec on %s %s: %v vs spec ok=%v", v.Type, v.Mut, e, v.OK))
					return nil
				}
			}
		}
		r, fs := checkUnpack(in, v.Dotu)
		if r.alloc > maxAlloc && r.alloc < 1<<40 {
			maxAlloc = r.alloc
		}
		for _, f := range fs {
			rep.violation(grp(f.class), "mut="+v.Mut, f.what, rp)
		}
		if r.panicked == nil && r.err == nil {
			codeOK++
		}
		if v.OK && r.panicked == nil {
			if r.err != nil {
				rep.violation(grp("unpack-reject"), "mut="+v.Mut, fmt.Sprintf("Unpack rejected the well-formed %s %s: %v", v.Ptype, hexHead(in), r.err), rp)
			} else if r.fc != nil {
				want, e := buildMsg(v.Ptype, v.Tag, v.Fields, v.Dotu)
				if e != nil {
					rep.inconclusive("cannot interpret vector fields: " + e.Error())
					return nil
				}
				if d := msgDiff(fromFcall(r.fc), want, v.Dotu); d != "" || r.consumed != v.Size {
					rep.violation(grp("unpack-field"), "mut="+v.Mut, fmt.Sprintf("Unpack of the well-formed %s %s: field %q differs or consumed %d != %d", v.Ptype, hexHead(in), d, r.consumed, v.Size), rp)
				}
			}
		}
		return nil
	})
	if err != nil {
		rep.inconclusive("reading vectors: " + err.Error())
	}
	nrand := 0
	if xfail == 0 {
		nrand = randomMutants(rep, int64(envInt("VERIF_SEED", 1)), envInt("VERIF_RANDOM", 0), distinct)
	}
	rep.Stats["spec_vectors"] = n
	rep.Stats["random_mutants"] = nrand
	rep.Cases = n + nrand
	rep.Distinct = len(distinct)
	rep.Stats["spec_wellformed"] = specOK
	rep.Stats["code_accepted"] = codeOK
	rep.Stats["max_alloc_per_call"] = maxAlloc
	rep.Stats["wire_crosscheck_failures"] = xfail
	if err := rep.write(); err != nil {
		t.Fatal(err)
	}
}

// FuzzDecode: Go native fuzzing with the same oracle (clauses a-d).  Random byte generation is
// outside the TLA+ specification; the corpus is seeded with the specification's vectors.
func FuzzDecode(f *testing.F) {
	if p := os.Getenv("VERIF_VECTORS"); p != "" {
		k := 0
		_ = readLines(strings.Split(p, ":"), func(line []byte) error {
			var v decVec
			if err := json.Unmarshal(line, &v); err != nil {
				return nil
			}
			k++
			if v.Kind == "canon" || v.Kind == "sub" || k%5 == 0 {
				f.Add(intsToBytes(v.Bytes), v.Dotu, v.Type == "stat")
			}
			return nil
		})
	}
	f.Add([]byte{7, 0, 0, 0, 120, 1, 0}, false, false)
	f.Fuzz(func(t *testing.T, in []byte, dotu bool, stat bool) {
		if len(in) > 1<<16 {
			return
		}
		if stat {
			_, fs := checkUnpackDir(in, dotu)
			for _, x := range fs {
				t.Fatalf("VERIF-VIOLATION c02:fuzz:%s:type=stat:dotu=%d :: %s", x.class, b2i(dotu), x.what)
			}
			return
		}
		_, fs := checkUnpack(in, dotu)
		for _, x := range fs {
			tn := "short"
			if len(in) >= 5 {
				tn = wire.TypeName(in[4])
			}
			t.Fatalf("VERIF-VIOLATION c02:fuzz:%s:type=%s:dotu=%d :: %s", x.class, tn, b2i(dotu), x.what)
		}
	})
}
