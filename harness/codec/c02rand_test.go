package codec

import (
	"encoding/binary"
	"encoding/hex"
	"fmt"
	"math/rand"
	"sort"

	"verif/harness/wire"
)

// Seeded random mutants for C02 (clauses a-d of the oracle only; the specification gives no
// verdict for them): a random small well-formed packet (or stat record) from the cross-checked
// independent encoder, then one or two random edits.

var mutKinds = []string{"flip", "trunc", "cut", "ff", "zero", "ins", "del", "lenfield", "splice", "grow"}

func smallMsg(r *rand.Rand, t uint8, dotu bool) *wire.Msg {
	m := rndMsg(r, t, dotu)
	short := func(s string) string {
		if len(s) > 24 {
			return s[:r.Intn(24)]
		}
		return s
	}
	m.Version, m.Uname, m.Aname, m.Ename, m.Name, m.Ext = short(m.Version), short(m.Uname), short(m.Aname), short(m.Ename), short(m.Name), short(m.Ext)
	if len(m.Wname) > 4 {
		m.Wname = m.Wname[:r.Intn(5)]
	}
	for i := range m.Wname {
		m.Wname[i] = short(m.Wname[i])
	}
	if len(m.Wqid) > 4 {
		m.Wqid = m.Wqid[:r.Intn(5)]
	}
	if len(m.Data) > 40 {
		m.Data = m.Data[:r.Intn(40)]
		m.Count = uint32(len(m.Data))
	}
	s := &m.Stat
	s.Name, s.Uid, s.Gid, s.Muid, s.Ext = short(s.Name), short(s.Uid), short(s.Gid), short(s.Muid), short(s.Ext)
	return m
}

func putSize(b []byte, stat bool) {
	if stat {
		if len(b) >= 2 {
			binary.LittleEndian.PutUint16(b, uint16(len(b)-2))
		}
	} else if len(b) >= 4 {
		binary.LittleEndian.PutUint32(b, uint32(len(b)))
	}
}

func mutate(r *rand.Rand, b []byte, kind string, stat bool, other []byte) []byte {
	b = append([]byte(nil), b...)
	hd := 7
	if stat {
		hd = 2
	}
	pos := func() int {
		if len(b) <= hd || r.Intn(4) == 0 {
			return r.Intn(len(b))
		}
		return hd + r.Intn(len(b)-hd)
	}
	switch kind {
	case "flip":
		for i := 0; i <= r.Intn(3); i++ {
			b[pos()] ^= byte(1 << uint(r.Intn(8)))
		}
	case "trunc":
		b = b[:r.Intn(len(b))]
	case "cut":
		b = b[:r.Intn(len(b))]
		putSize(b, stat)
	case "ff":
		p := pos()
		for i := p; i < len(b) && i < p+1+r.Intn(4); i++ {
			b[i] = 0xFF
		}
	case "zero":
		p := pos()
		for i := p; i < len(b) && i < p+1+r.Intn(4); i++ {
			b[i] = 0
		}
	case "ins":
		p := pos()
		b = append(b[:p], append([]byte{byte(r.Intn(256))}, b[p:]...)...)
		putSize(b, stat)
	case "del":
		p := pos()
		b = append(b[:p], b[p+1:]...)
		putSize(b, stat)
	case "lenfield": // a random 16-bit little-endian value at a random position
		if len(b) >= hd+2 {
			p := hd + r.Intn(len(b)-hd-1)
			binary.LittleEndian.PutUint16(b[p:], uint16([]int{0, 1, len(b), len(b) - p, len(b) - p - 2, len(b) - p - 1, 0xFFFF, 0x8000}[r.Intn(8)]))
		}
	case "splice":
		k := r.Intn(len(b))
		b = append(b[:k], other[minInt(k, len(other)):]...)
		putSize(b, stat)
	case "grow": // declared size larger than the frame, or frame extended with junk inside the declared size
		n := 1 + r.Intn(6)
		for i := 0; i < n; i++ {
			b = append(b, byte(r.Intn(256)))
		}
		if r.Intn(2) == 0 {
			putSize(b, stat)
		}
	}
	return b
}

func minInt(a, b int) int {
	if a < b {
		return a
	}
	return b
}

// randomMutants runs n seeded cases; returns the number executed.
func randomMutants(rep *Report, seed int64, n int, distinct map[string]struct{}) int {
	r := rand.New(rand.NewSource(seed))
	var types []int
	for tc := range layouts {
		types = append(types, int(tc))
	}
	sort.Ints(types)
	done := 0
	for done < n {
		dotu := r.Intn(2) == 1
		stat := r.Intn(8) == 0
		kind := mutKinds[r.Intn(len(mutKinds))]
		var base, other []byte
		tname := "stat"
		if stat {
			s := smallMsg(r, wire.Rstat, dotu).Stat
			s2 := smallMsg(r, wire.Rstat, dotu).Stat
			base, other = wire.EncodeStat(&s, dotu), wire.EncodeStat(&s2, dotu)
		} else {
			t := uint8(types[r.Intn(len(types))])
			tname = wire.TypeName(t)
			base = wire.Encode(smallMsg(r, t, dotu), dotu)
			other = wire.Encode(smallMsg(r, uint8(types[r.Intn(len(types))]), dotu), dotu)
		}
		in := mutate(r, base, kind, stat, other)
		if r.Intn(5) == 0 {
			k2 := mutKinds[r.Intn(len(mutKinds))]
			if len(in) > 0 {
				in = mutate(r, in, k2, stat, other)
				kind += "+" + k2
			}
		}
		done++
		distinct[fmt.Sprintf("%v|%v|%x", dotu, stat, in)] = struct{}{}
		rp := map[string]any{"engine": "codec-c02", "source": fmt.Sprintf("random seed=%d #%d", seed, done), "type": tname, "dotu": dotu,
			"stat_record": stat, "bytes_hex": hex.EncodeToString(in)}
		grp := func(class string) string { return fmt.Sprintf("c02:%s:type=%s:dotu=%d", class, tname, b2i(dotu)) }
		var fs []finding
		if stat {
			_, fs = checkUnpackDir(in, dotu)
		} else {
			_, fs = checkUnpack(in, dotu)
		}
		for _, f := range fs {
			rep.violation(grp(f.class), "mut=rnd-"+kind, f.what, rp)
		}
	}
	return done
}
