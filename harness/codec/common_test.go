package codec

import (
	"bufio"
	"bytes"
	"encoding/hex"
	"encoding/json"
	"fmt"
	"os"
	"regexp"
	"runtime"
	"sort"
	"strconv"

	"github.com/rminnich/go9p"
	"verif/harness/wire"
)

// ---------------------------------------------------------------- report

type Violation struct {
	Key    string `json:"key"`
	What   string `json:"what"`
	Replay any    `json:"replay"`
}

type Report struct {
	Engine       string         `json:"engine"`
	Cases        int            `json:"cases"`
	Distinct     int            `json:"distinct"`
	Samples      []any          `json:"samples"`
	Violations   []Violation    `json:"violations"`
	Inconclusive []string       `json:"inconclusive"`
	Stats        map[string]any `json:"stats"`

	seen     map[string]int // occurrences per key
	perGroup map[string]int // distinct keys per group
	known    []*regexp.Regexp
	knownHit map[int]bool
}

func newReport(engine string) *Report {
	r := newReport0(engine)
	// VERIF_KNOWN_RE: JSON list of the match patterns of open known findings.  A key matching one
	// is reported once per pattern and does not use up the per-group quota, so that an unlisted
	// violation in the same group is never hidden behind a listed one.
	if s := os.Getenv("VERIF_KNOWN_RE"); s != "" {
		var pats []string
		if json.Unmarshal([]byte(s), &pats) == nil {
			for _, p := range pats {
				if re, err := regexp.Compile(p); err == nil {
					r.known = append(r.known, re)
				}
			}
		}
	}
	return r
}

func newReport0(engine string) *Report {
	return &Report{knownHit: map[int]bool{}, Engine: engine, Stats: map[string]any{}, seen: map[string]int{}, perGroup: map[string]int{},
		Samples: []any{}, Violations: []Violation{}, Inconclusive: []string{}}
}

// maxPerGroup bounds how many distinct keys of one (class, type, dialect) group are listed
// individually; the rest is only counted (stats.suppressed).
const maxPerGroup = 2

// violation registers one violating case.  group = class:type:dotu ; detail = the mutation / field.
func (r *Report) violation(group, detail, what string, replay any) {
	key := group
	if detail != "" {
		key += ":" + detail
	}
	r.seen[key]++
	if r.seen[key] > 1 {
		return
	}
	for i, re := range r.known {
		if re.MatchString(key) {
			if !r.knownHit[i] {
				r.knownHit[i] = true
				r.Violations = append(r.Violations, Violation{Key: key, What: what, Replay: replay})
			}
			return
		}
	}
	r.perGroup[group]++
	if r.perGroup[group] > maxPerGroup {
		return
	}
	r.Violations = append(r.Violations, Violation{Key: key, What: what, Replay: replay})
}

func (r *Report) inconclusive(s string) {
	if len(r.Inconclusive) < 20 {
		r.Inconclusive = append(r.Inconclusive, s)
	}
}

func (r *Report) write() error {
	keys := make([]string, 0, len(r.seen))
	for k := range r.seen {
		keys = append(keys, k)
	}
	sort.Strings(keys)
	r.Stats["violating_keys"] = len(keys)
	r.Stats["violating_cases"] = func() int {
		n := 0
		for _, c := range r.seen {
			n += c
		}
		return n
	}()
	groups := map[string]int{}
	for g, n := range r.perGroup {
		groups[g] = n
	}
	r.Stats["violating_groups"] = groups
	p := os.Getenv("VERIF_OUT")
	if p == "" {
		return nil
	}
	b, err := json.Marshal(r)
	if err != nil {
		return err
	}
	return os.WriteFile(p, b, 0o644)
}

func envInt(name string, def int) int {
	if s := os.Getenv(name); s != "" {
		if n, err := strconv.Atoi(s); err == nil {
			return n
		}
	}
	return def
}

func b2i(b bool) int {
	if b {
		return 1
	}
	return 0
}

func hexHead(b []byte) string {
	if len(b) <= 96 {
		return hex.EncodeToString(b)
	}
	return hex.EncodeToString(b[:96]) + fmt.Sprintf("...(%d bytes)", len(b))
}

// ---------------------------------------------------------------- layout table (names only; the
// byte layout lives in spec/Wire9P.tla and, independently, in harness/wire)

type fld struct {
	name string
	kind string // u8 u16 u32 u64 str qid names qids data statn
	dotu bool
}

var layouts = map[uint8][]fld{
	wire.Tversion: {{"msize", "u32", false}, {"version", "str", false}},
	wire.Rversion: {{"msize", "u32", false}, {"version", "str", false}},
	wire.Tauth:    {{"afid", "u32", false}, {"uname", "str", false}, {"aname", "str", false}, {"unamenum", "u32", true}},
	wire.Rauth:    {{"qid", "qid", false}},
	wire.Tattach:  {{"fid", "u32", false}, {"afid", "u32", false}, {"uname", "str", false}, {"aname", "str", false}, {"unamenum", "u32", true}},
	wire.Rattach:  {{"qid", "qid", false}},
	wire.Rerror:   {{"ename", "str", false}, {"ecode", "u32", true}},
	wire.Tflush:   {{"oldtag", "u16", false}},
	wire.Rflush:   {},
	wire.Twalk:    {{"fid", "u32", false}, {"newfid", "u32", false}, {"wname", "names", false}},
	wire.Rwalk:    {{"wqid", "qids", false}},
	wire.Topen:    {{"fid", "u32", false}, {"mode", "u8", false}},
	wire.Ropen:    {{"qid", "qid", false}, {"iounit", "u32", false}},
	wire.Tcreate:  {{"fid", "u32", false}, {"name", "str", false}, {"perm", "u32", false}, {"mode", "u8", false}, {"ext", "str", true}},
	wire.Rcreate:  {{"qid", "qid", false}, {"iounit", "u32", false}},
	wire.Tread:    {{"fid", "u32", false}, {"offset", "u64", false}, {"count", "u32", false}},
	wire.Rread:    {{"data", "data", false}},
	wire.Twrite:   {{"fid", "u32", false}, {"offset", "u64", false}, {"data", "data", false}},
	wire.Rwrite:   {{"count", "u32", false}},
	wire.Tclunk:   {{"fid", "u32", false}},
	wire.Rclunk:   {},
	wire.Tremove:  {{"fid", "u32", false}},
	wire.Rremove:  {},
	wire.Tstat:    {{"fid", "u32", false}},
	wire.Rstat:    {{"stat", "statn", false}},
	wire.Twstat:   {{"fid", "u32", false}, {"stat", "statn", false}},
	wire.Rwstat:   {},
}

var typeByName = func() map[string]uint8 {
	m := map[string]uint8{}
	for c, n := range wire.TypeNames {
		m[n] = c
	}
	return m
}()

func fields(t uint8, dotu bool) []fld {
	var out []fld
	for _, f := range layouts[t] {
		if f.dotu && !dotu {
			continue
		}
		out = append(out, f)
	}
	return out
}

func statBodySize(s *wire.Stat, dotu bool) int {
	n := 2 + 4 + 13 + 4 + 4 + 4 + 8 + 2 + len(s.Name) + 2 + len(s.Uid) + 2 + len(s.Gid) + 2 + len(s.Muid)
	if dotu {
		n += 2 + len(s.Ext) + 12
	}
	return n
}

// layoutSize is the length of the packet the protocol layout gives to m's fields (no allocation).
func layoutSize(m *wire.Msg, dotu bool) int64 {
	n := int64(7)
	for _, f := range fields(m.Type, dotu) {
		switch f.kind {
		case "u8":
			n++
		case "u16":
			n += 2
		case "u32":
			n += 4
		case "u64":
			n += 8
		case "str":
			n += 2 + int64(len(*strp(m, f.name)))
		case "qid":
			n += 13
		case "names":
			n += 2
			for _, s := range m.Wname {
				n += 2 + int64(len(s))
			}
		case "qids":
			n += 2 + 13*int64(len(m.Wqid))
		case "data":
			n += 4 + int64(len(m.Data))
		case "statn":
			n += 4 + int64(statBodySize(&m.Stat, dotu))
		}
	}
	return n
}

// varEnd is the offset, in the protocol layout of m's fields, at which the last variable-length
// field (string, name list, qid list, data, the strings of a stat record) ends: the packet must be
// at least that long for every variable-length field to lie inside it.
func varEnd(m *wire.Msg, dotu bool) int64 {
	n, end := int64(7), int64(7)
	for _, f := range fields(m.Type, dotu) {
		switch f.kind {
		case "u8":
			n++
		case "u16":
			n += 2
		case "u32":
			n += 4
		case "u64":
			n += 8
		case "str":
			n += 2 + int64(len(*strp(m, f.name)))
			end = n
		case "qid":
			n += 13
		case "names":
			n += 2
			for _, s := range m.Wname {
				n += 2 + int64(len(s))
			}
			end = n
		case "qids":
			n += 2 + 13*int64(len(m.Wqid))
			end = n
		case "data":
			n += 4 + int64(len(m.Data))
			end = n
		case "statn":
			n += 4 + statVarEnd(&m.Stat, dotu)
			end = n
			if dotu {
				n += 12
			}
		}
	}
	return end
}

// statVarEnd: offset after the last string of a stat record body (size[2] not counted).
func statVarEnd(s *wire.Stat, dotu bool) int64 {
	n := int64(2 + 4 + 13 + 4 + 4 + 4 + 8 + 2 + len(s.Name) + 2 + len(s.Uid) + 2 + len(s.Gid) + 2 + len(s.Muid))
	if dotu {
		n += 2 + int64(len(s.Ext))
	}
	return n
}

func strp(m *wire.Msg, n string) *string {
	switch n {
	case "version":
		return &m.Version
	case "uname":
		return &m.Uname
	case "aname":
		return &m.Aname
	case "ename":
		return &m.Ename
	case "name":
		return &m.Name
	case "ext":
		return &m.Ext
	}
	panic("str " + n)
}

func u32p(m *wire.Msg, n string) *uint32 {
	switch n {
	case "msize":
		return &m.Msize
	case "afid":
		return &m.Afid
	case "unamenum":
		return &m.Unamenum
	case "ecode":
		return &m.Ecode
	case "fid":
		return &m.Fid
	case "newfid":
		return &m.Newfid
	case "iounit":
		return &m.Iounit
	case "perm":
		return &m.Perm
	case "count":
		return &m.Count
	}
	panic("u32 " + n)
}

func statEq(a, b *wire.Stat, dotu bool) string {
	switch {
	case a.Type != b.Type:
		return "stat.type"
	case a.Dev != b.Dev:
		return "stat.dev"
	case a.Qid != b.Qid:
		return "stat.qid"
	case a.Mode != b.Mode:
		return "stat.mode"
	case a.Atime != b.Atime:
		return "stat.atime"
	case a.Mtime != b.Mtime:
		return "stat.mtime"
	case a.Length != b.Length:
		return "stat.length"
	case a.Name != b.Name:
		return "stat.name"
	case a.Uid != b.Uid:
		return "stat.uid"
	case a.Gid != b.Gid:
		return "stat.gid"
	case a.Muid != b.Muid:
		return "stat.muid"
	}
	if dotu {
		switch {
		case a.Ext != b.Ext:
			return "stat.ext"
		case a.Uidnum != b.Uidnum:
			return "stat.uidnum"
		case a.Gidnum != b.Gidnum:
			return "stat.gidnum"
		case a.Muidnum != b.Muidnum:
			return "stat.muidnum"
		}
	}
	return ""
}

// msgDiff compares the fields the layout of (type, dialect) names (plus type and tag); it returns
// the name of the first field that differs, or "".  Length prefixes (stat size, n) are not fields.
func msgDiff(a, b *wire.Msg, dotu bool) string {
	if a.Type != b.Type {
		return "type"
	}
	if a.Tag != b.Tag {
		return "tag"
	}
	for _, f := range fields(a.Type, dotu) {
		bad := false
		switch f.kind {
		case "u8":
			bad = a.Mode != b.Mode
		case "u16":
			bad = a.Oldtag != b.Oldtag
		case "u32":
			bad = *u32p(a, f.name) != *u32p(b, f.name)
		case "u64":
			bad = a.Offset != b.Offset
		case "str":
			bad = *strp(a, f.name) != *strp(b, f.name)
		case "qid":
			bad = a.Qid != b.Qid
		case "names":
			bad = len(a.Wname) != len(b.Wname)
			for i := 0; !bad && i < len(a.Wname); i++ {
				bad = a.Wname[i] != b.Wname[i]
			}
		case "qids":
			bad = len(a.Wqid) != len(b.Wqid)
			for i := 0; !bad && i < len(a.Wqid); i++ {
				bad = a.Wqid[i] != b.Wqid[i]
			}
		case "data":
			bad = a.Count != b.Count || !bytes.Equal(a.Data, b.Data)
		case "statn":
			if d := statEq(&a.Stat, &b.Stat, dotu); d != "" {
				return d
			}
		}
		if bad {
			return f.name
		}
	}
	return ""
}

// ---------------------------------------------------------------- go9p <-> wire.Msg

func toDir(s *wire.Stat) *go9p.Dir {
	return &go9p.Dir{Type: s.Type, Dev: s.Dev, Qid: go9p.Qid{Type: s.Qid.Type, Version: s.Qid.Vers, Path: s.Qid.Path},
		Mode: s.Mode, Atime: s.Atime, Mtime: s.Mtime, Length: s.Length, Name: s.Name, Uid: s.Uid, Gid: s.Gid,
		Muid: s.Muid, Ext: s.Ext, Uidnum: s.Uidnum, Gidnum: s.Gidnum, Muidnum: s.Muidnum}
}

func fromDir(d *go9p.Dir) wire.Stat {
	return wire.Stat{Size: d.Size, Type: d.Type, Dev: d.Dev, Qid: wire.Qid{Type: d.Qid.Type, Vers: d.Qid.Version, Path: d.Qid.Path},
		Mode: d.Mode, Atime: d.Atime, Mtime: d.Mtime, Length: d.Length, Name: d.Name, Uid: d.Uid, Gid: d.Gid,
		Muid: d.Muid, Ext: d.Ext, Uidnum: d.Uidnum, Gidnum: d.Gidnum, Muidnum: d.Muidnum}
}

func toQid(q wire.Qid) go9p.Qid { return go9p.Qid{Type: q.Type, Version: q.Vers, Path: q.Path} }

// fromFcall copies what Unpack produced into a wire.Msg (all fields; msgDiff looks only at the
// ones of the type's layout).
func fromFcall(fc *go9p.Fcall) *wire.Msg {
	m := &wire.Msg{Size: fc.Size, Type: fc.Type, Tag: fc.Tag, Msize: fc.Msize, Version: fc.Version, Afid: fc.Afid,
		Uname: fc.Uname, Aname: fc.Aname, Unamenum: fc.Unamenum, Ename: fc.Error, Ecode: fc.Errornum, Oldtag: fc.Oldtag,
		Fid: fc.Fid, Newfid: fc.Newfid, Wname: fc.Wname, Mode: fc.Mode, Iounit: fc.Iounit, Name: fc.Name, Perm: fc.Perm,
		Ext: fc.Ext, Offset: fc.Offset, Count: fc.Count, Data: fc.Data,
		Qid: wire.Qid{Type: fc.Qid.Type, Vers: fc.Qid.Version, Path: fc.Qid.Path}}
	for _, q := range fc.Wqid {
		m.Wqid = append(m.Wqid, wire.Qid{Type: q.Type, Vers: q.Version, Path: q.Path})
	}
	m.Stat = fromDir(&fc.Dir)
	return m
}

// packGo calls the go9p constructor for m's type with m's field values.
func packGo(fc *go9p.Fcall, m *wire.Msg, dotu bool) error {
	q := toQid(m.Qid)
	switch m.Type {
	case wire.Tversion:
		return go9p.PackTversion(fc, m.Msize, m.Version)
	case wire.Rversion:
		return go9p.PackRversion(fc, m.Msize, m.Version)
	case wire.Tauth:
		return go9p.PackTauth(fc, m.Afid, m.Uname, m.Aname, m.Unamenum, dotu)
	case wire.Rauth:
		return go9p.PackRauth(fc, &q)
	case wire.Tattach:
		return go9p.PackTattach(fc, m.Fid, m.Afid, m.Uname, m.Aname, m.Unamenum, dotu)
	case wire.Rattach:
		return go9p.PackRattach(fc, &q)
	case wire.Rerror:
		return go9p.PackRerror(fc, m.Ename, m.Ecode, dotu)
	case wire.Tflush:
		return go9p.PackTflush(fc, m.Oldtag)
	case wire.Rflush:
		return go9p.PackRflush(fc)
	case wire.Twalk:
		return go9p.PackTwalk(fc, m.Fid, m.Newfid, m.Wname)
	case wire.Rwalk:
		qs := make([]go9p.Qid, len(m.Wqid))
		for i, x := range m.Wqid {
			qs[i] = toQid(x)
		}
		return go9p.PackRwalk(fc, qs)
	case wire.Topen:
		return go9p.PackTopen(fc, m.Fid, m.Mode)
	case wire.Ropen:
		return go9p.PackRopen(fc, &q, m.Iounit)
	case wire.Tcreate:
		return go9p.PackTcreate(fc, m.Fid, m.Name, m.Perm, m.Mode, m.Ext, dotu)
	case wire.Rcreate:
		return go9p.PackRcreate(fc, &q, m.Iounit)
	case wire.Tread:
		return go9p.PackTread(fc, m.Fid, m.Offset, m.Count)
	case wire.Rread:
		return go9p.PackRread(fc, m.Data)
	case wire.Twrite:
		return go9p.PackTwrite(fc, m.Fid, m.Offset, uint32(len(m.Data)), m.Data)
	case wire.Rwrite:
		return go9p.PackRwrite(fc, m.Count)
	case wire.Tclunk:
		return go9p.PackTclunk(fc, m.Fid)
	case wire.Rclunk:
		return go9p.PackRclunk(fc)
	case wire.Tremove:
		return go9p.PackTremove(fc, m.Fid)
	case wire.Rremove:
		return go9p.PackRremove(fc)
	case wire.Tstat:
		return go9p.PackTstat(fc, m.Fid)
	case wire.Rstat:
		return go9p.PackRstat(fc, toDir(&m.Stat), dotu)
	case wire.Twstat:
		return go9p.PackTwstat(fc, m.Fid, toDir(&m.Stat), dotu)
	case wire.Rwstat:
		return go9p.PackRwstat(fc)
	}
	return fmt.Errorf("no constructor for type %d", m.Type)
}

// ---------------------------------------------------------------- vectors (JSON written by TLC)

type fieldJ struct {
	N string          `json:"n"`
	K string          `json:"k"`
	V json.RawMessage `json:"v"`
}

type segJ struct {
	Lit  []int `json:"lit"`
	Fill []int `json:"fill"`
}

type encVec struct {
	Type string   `json:"type"`
	Dotu bool     `json:"dotu"`
	Tag  []int    `json:"tag"`
	Size int      `json:"size"`
	Msg  []fieldJ `json:"msg"`
	Segs []segJ   `json:"segs"`
}

type decVec struct {
	Type   string   `json:"type"`
	Dotu   bool     `json:"dotu"`
	Kind   string   `json:"kind"`
	Mut    string   `json:"mut"`
	Bytes  []int    `json:"bytes"`
	OK     bool     `json:"ok"`
	Size   int      `json:"size"`
	Ptype  string   `json:"ptype"`
	Tag    []int    `json:"tag"`
	Fields []fieldJ `json:"fields"`
}

func numeral(raw json.RawMessage) (uint64, error) {
	var ds []int
	if err := json.Unmarshal(raw, &ds); err != nil {
		return 0, err
	}
	return numeralOf(ds), nil
}

func numeralOf(ds []int) uint64 { // most significant byte first
	var v uint64
	for _, d := range ds {
		v = v<<8 | uint64(d&0xFF)
	}
	return v
}

func fillBytes(n, pat int) []byte {
	b := make([]byte, n)
	for i := range b {
		b[i] = byte(pat + i)
	}
	return b
}

// strVal: {"len":n,"pat":p} (symbolic: byte i = (p+i)%256) or [b0,b1,...] (concrete)
func strVal(raw json.RawMessage) ([]byte, error) {
	raw = bytes.TrimSpace(raw)
	if len(raw) > 0 && raw[0] == '{' {
		var s struct{ Len, Pat int }
		if err := json.Unmarshal(raw, &s); err != nil {
			return nil, err
		}
		return fillBytes(s.Len, s.Pat), nil
	}
	var ds []int
	if err := json.Unmarshal(raw, &ds); err != nil {
		return nil, err
	}
	b := make([]byte, len(ds))
	for i, d := range ds {
		b[i] = byte(d)
	}
	return b, nil
}

func qidVal(raw json.RawMessage) (wire.Qid, error) {
	var p [][]int
	if err := json.Unmarshal(raw, &p); err != nil || len(p) != 3 {
		return wire.Qid{}, fmt.Errorf("bad qid %s", raw)
	}
	return wire.Qid{Type: uint8(numeralOf(p[0])), Vers: uint32(numeralOf(p[1])), Path: numeralOf(p[2])}, nil
}

// statVal: positional, in the order of stat(5): type dev qid mode atime mtime length name uid gid
// muid, and in 9P2000.u: extension n_uid n_gid n_muid
func statVal(raw json.RawMessage, dotu bool) (wire.Stat, error) {
	var p []json.RawMessage
	var s wire.Stat
	if err := json.Unmarshal(raw, &p); err != nil {
		return s, err
	}
	want := 11
	if dotu {
		want = 15
	}
	if len(p) != want {
		return s, fmt.Errorf("stat with %d positions, want %d", len(p), want)
	}
	var err error
	num := func(i int) uint64 {
		v, e := numeral(p[i])
		if e != nil {
			err = e
		}
		return v
	}
	str := func(i int) string {
		b, e := strVal(p[i])
		if e != nil {
			err = e
		}
		return string(b)
	}
	s.Type = uint16(num(0))
	s.Dev = uint32(num(1))
	q, e := qidVal(p[2])
	if e != nil {
		return s, e
	}
	s.Qid = q
	s.Mode = uint32(num(3))
	s.Atime = uint32(num(4))
	s.Mtime = uint32(num(5))
	s.Length = num(6)
	s.Name, s.Uid, s.Gid, s.Muid = str(7), str(8), str(9), str(10)
	if dotu {
		s.Ext = str(11)
		s.Uidnum, s.Gidnum, s.Muidnum = uint32(num(12)), uint32(num(13)), uint32(num(14))
	}
	return s, err
}

// buildMsg turns the named field values of a vector into a wire.Msg.
func buildMsg(typ string, tag []int, fs []fieldJ, dotu bool) (*wire.Msg, error) {
	m := &wire.Msg{Tag: uint16(numeralOf(tag))}
	if typ != "stat" {
		c, ok := typeByName[typ]
		if !ok {
			return nil, fmt.Errorf("unknown type %q", typ)
		}
		m.Type = c
	}
	for _, f := range fs {
		switch f.K {
		case "u8":
			v, err := numeral(f.V)
			if err != nil {
				return nil, err
			}
			m.Mode = uint8(v)
		case "u16":
			v, err := numeral(f.V)
			if err != nil {
				return nil, err
			}
			m.Oldtag = uint16(v)
		case "u32":
			v, err := numeral(f.V)
			if err != nil {
				return nil, err
			}
			*u32p(m, f.N) = uint32(v)
		case "u64":
			v, err := numeral(f.V)
			if err != nil {
				return nil, err
			}
			m.Offset = v
		case "str":
			b, err := strVal(f.V)
			if err != nil {
				return nil, err
			}
			*strp(m, f.N) = string(b)
		case "qid":
			q, err := qidVal(f.V)
			if err != nil {
				return nil, err
			}
			m.Qid = q
		case "names":
			var p []json.RawMessage
			if err := json.Unmarshal(f.V, &p); err != nil {
				return nil, err
			}
			m.Wname = []string{}
			for _, x := range p {
				b, err := strVal(x)
				if err != nil {
					return nil, err
				}
				m.Wname = append(m.Wname, string(b))
			}
		case "qids":
			var p []json.RawMessage
			if err := json.Unmarshal(f.V, &p); err != nil {
				return nil, err
			}
			m.Wqid = []wire.Qid{}
			for _, x := range p {
				q, err := qidVal(x)
				if err != nil {
					return nil, err
				}
				m.Wqid = append(m.Wqid, q)
			}
		case "data":
			b, err := strVal(f.V)
			if err != nil {
				return nil, err
			}
			m.Data = b
			m.Count = uint32(len(b))
		case "statn", "stat":
			s, err := statVal(f.V, dotu)
			if err != nil {
				return nil, err
			}
			m.Stat = s
		default:
			return nil, fmt.Errorf("unknown field kind %q", f.K)
		}
	}
	return m, nil
}

func expandSegs(segs []segJ, size int) []byte {
	out := make([]byte, 0, size)
	for _, s := range segs {
		if s.Fill != nil {
			n, pat := s.Fill[0], s.Fill[1]
			for i := 0; i < n; i++ {
				out = append(out, byte(pat+i))
			}
			continue
		}
		for _, b := range s.Lit {
			out = append(out, byte(b))
		}
	}
	return out
}

func intsToBytes(ds []int) []byte {
	b := make([]byte, len(ds))
	for i, d := range ds {
		b[i] = byte(d)
	}
	return b
}

// readLines streams the ndjson files named in env (colon separated).
func readLines(paths []string, each func(line []byte) error) error {
	for _, p := range paths {
		f, err := os.Open(p)
		if err != nil {
			return err
		}
		sc := bufio.NewScanner(f)
		sc.Buffer(make([]byte, 1<<20), 64<<20)
		for sc.Scan() {
			if len(bytes.TrimSpace(sc.Bytes())) == 0 {
				continue
			}
			if err := each(sc.Bytes()); err != nil {
				f.Close()
				return err
			}
		}
		f.Close()
		if err := sc.Err(); err != nil {
			return err
		}
	}
	return nil
}

// ---------------------------------------------------------------- guarded calls

type unpackResult struct {
	fc       *go9p.Fcall
	consumed int
	err      error
	panicked any
	alloc    uint64
}

func totalAlloc() uint64 {
	var ms runtime.MemStats
	runtime.ReadMemStats(&ms)
	return ms.TotalAlloc
}

// exact returns a copy of b whose capacity equals its length (reslicing past the end panics).
func exact(b []byte) []byte {
	c := make([]byte, len(b))
	copy(c, b)
	return c[:len(c):len(c)]
}

// roomy returns a copy of b whose backing array goes on for 96 more bytes (all `fill`): the bytes a receive buffer
// holds after a partial message.  They are not part of the input.
func roomy(b []byte, fill byte) []byte {
	c := make([]byte, len(b)+96)
	copy(c, b)
	for i := len(b); i < len(c); i++ {
		c[i] = fill
	}
	return c[:len(b)]
}

// guardedUnpackIn decodes exactly the slice given (no copy).
func guardedUnpackIn(in []byte, dotu bool) (r unpackResult) {
	func() {
		defer func() {
			if p := recover(); p != nil {
				r.panicked = p
			}
		}()
		r.fc, r.consumed, r.err = go9p.Unpack(in, dotu)
	}()
	return
}

func guardedUnpack(buf []byte, dotu bool, measure bool) (r unpackResult) {
	in := exact(buf)
	var a0 uint64
	if measure {
		a0 = totalAlloc()
	}
	func() {
		defer func() {
			if p := recover(); p != nil {
				r.panicked = p
			}
		}()
		r.fc, r.consumed, r.err = go9p.Unpack(in, dotu)
	}()
	if measure {
		r.alloc = totalAlloc() - a0
	}
	return
}

type unpackDirResult struct {
	d        *go9p.Dir
	rest     []byte
	amt      int
	err      error
	panicked any
	alloc    uint64
}

func guardedUnpackDir(buf []byte, dotu bool, measure bool) (r unpackDirResult) {
	in := exact(buf)
	var a0 uint64
	if measure {
		a0 = totalAlloc()
	}
	func() {
		defer func() {
			if p := recover(); p != nil {
				r.panicked = p
			}
		}()
		r.d, r.rest, r.amt, r.err = go9p.UnpackDir(in, dotu)
	}()
	if measure {
		r.alloc = totalAlloc() - a0
	}
	return
}
