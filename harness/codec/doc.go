// Package codec holds the Go engines that bind spec/Wire9P.tla to go9p's message codec
// (properties C01 wire-format fidelity and C02 total, bounded decoding).  All code is in
// _test.go files; the engines are selected with -test.run and configured by env variables.
package codec
