package fsrvh

import (
	"bufio"
	"encoding/json"
	"fmt"
	"math/rand"
	"os"
	"strings"
	"testing"

	"verif/harness/wire"
)

type behaviour struct {
	ID    int     `json:"id"`
	Steps [][]any `json:"steps"`
}

func readCfg(t *testing.T) Cfg {
	var c Cfg
	if err := json.Unmarshal([]byte(os.Getenv("VERIF_FSCFG")), &c); err != nil {
		t.Fatalf("VERIF_FSCFG: %v", err)
	}
	return c
}

// actOf turns a tour / simulation step (["Do", [act...]] or ["DoRead", f, r, c]) into an action.
func actOf(st []any) []any {
	switch st[0] {
	case "Do":
		return st[1].([]any)
	case "DoRead":
		return []any{"dread", st[1], st[2], st[3]}
	}
	return st
}

type runner struct {
	cfg   Cfg
	rep   *Report
	tw    *NDWriter
	prog  string
	start int
	steps int
	drift int
}

func newRunner(t *testing.T, engine string) *runner {
	r := &runner{cfg: readCfg(t), rep: NewReport(engine), prog: os.Getenv("VERIF_PROGRESS"), start: envInt("VERIF_START", 0)}
	r.tw = OpenND(os.Getenv("VERIF_TRACE_OUT"), r.start > 0)
	return r
}

// run executes one history and writes its trace lines.  gen, if not nil, produces the next action
// from what happened so far (random engine); else acts is replayed.
func (r *runner) run(id int, acts [][]any, gen func(h *H, last []any, obs map[string]any) []any) {
	if id < r.start {
		return
	}
	if r.prog != "" {
		os.WriteFile(r.prog, []byte(fmt.Sprint(id)), 0o644)
	}
	h, err := NewH(r.cfg)
	if err != nil {
		r.rep.Inconc(fmt.Sprintf("case %d: cannot start the server: %v", id, err))
		return
	}
	defer h.Close()
	lines := []any{map[string]any{"act": []any{"Reset"}, "case": id}}
	var last []any
	var lobs map[string]any
	for i := 0; ; i++ {
		var a []any
		if gen != nil {
			a = gen(h, last, lobs)
			if a == nil {
				break
			}
		} else {
			if i >= len(acts) {
				break
			}
			a = acts[i]
		}
		if r.prog != "" {
			b, _ := json.Marshal(a)
			os.WriteFile(r.prog+".act", b, 0o644)
		}
		obs, err := h.Exec(a)
		if err == ErrDrift {
			r.drift++
			break
		}
		if err != nil {
			r.rep.Inconc(fmt.Sprintf("case %d step %d %v: %v", id, i, a, err))
			break
		}
		post, err := h.Post()
		if err != nil {
			r.rep.Inconc(fmt.Sprintf("case %d step %d %v: read-back failed: %v", id, i, a, err))
			break
		}
		lines = append(lines, map[string]any{"act": a, "obs": obs, "post": post})
		last, lobs = a, obs
		r.steps++
	}
	for _, l := range lines {
		r.tw.Put(l)
	}
	r.tw.Flush()
	r.rep.Cases++
	if len(r.rep.Samples) < 2 {
		n := len(lines)
		if n > 6 {
			n = 6
		}
		r.rep.Samples = append(r.rep.Samples, map[string]any{"case": id, "first_lines": lines[:n]})
	}
}

func (r *runner) finish(t *testing.T) {
	r.tw.Close()
	r.rep.Distinct = r.rep.Cases
	r.rep.Stats["steps"] = r.steps
	r.rep.Stats["histories_cut_after_divergence"] = r.drift
	if err := r.rep.Write(); err != nil {
		t.Fatal(err)
	}
}

// TestFsrvReplay executes TLC-generated histories (transition tours, simulated behaviours).
func TestFsrvReplay(t *testing.T) {
	bpath := os.Getenv("VERIF_BEHAVIOURS")
	if bpath == "" {
		t.Skip("no behaviours")
	}
	r := newRunner(t, "fsrv-replay")
	fh, err := os.Open(bpath)
	if err != nil {
		t.Fatal(err)
	}
	defer fh.Close()
	sc := bufio.NewScanner(fh)
	sc.Buffer(make([]byte, 1<<20), 1<<26)
	for sc.Scan() {
		if strings.TrimSpace(sc.Text()) == "" {
			continue
		}
		var b behaviour
		if err := json.Unmarshal(sc.Bytes(), &b); err != nil {
			t.Fatal(err)
		}
		acts := make([][]any, 0, len(b.Steps))
		for _, st := range b.Steps {
			acts = append(acts, actOf(st))
		}
		r.run(b.ID, acts, nil)
	}
	r.finish(t)
}

// ---------------------------------------------------------------- seeded random histories

type genState struct {
	rng    *rand.Rand
	cfg    Cfg
	names  []string
	users  []int
	groups []int
	left   int
	status []int // 0 free, 1 linked, 2 unlinked
	isdir  []bool
	hasops []bool
	fidAt  []int    // 0 invalid
	fidOp  []string // "no", "r", "w", "rw", "x"
	fidRd  []bool   // a listing was started
	par    []int    // parent of a linked node
	nm     []string // its name
}

var modePool = []int{0o777, 0o755, 0o750, 0o700, 0o070, 0o007, 0o000, 0o644, 0o640, 0o604, 0o222, 0o444, 0o111, 0o711, 0o177, 0o707, 0o770, 0o333, 0o555, 0o666}

func (g *genState) pick(xs []int) int { return xs[g.rng.Intn(len(xs))] }
func (g *genState) name() string      { return g.names[g.rng.Intn(len(g.names))] }
func (g *genState) mode() int {
	if g.rng.Intn(3) == 0 {
		return g.rng.Intn(512)
	}
	return modePool[g.rng.Intn(len(modePool))]
}

func (g *genState) nodesWith(f func(n int) bool) []int {
	var out []int
	for n := 1; n <= g.cfg.NNodes; n++ {
		if f(n) {
			out = append(out, n)
		}
	}
	return out
}

func (g *genState) fidsWith(f func(i int) bool) []int {
	var out []int
	for i := 1; i <= g.cfg.NFids; i++ {
		if f(i) {
			out = append(out, i)
		}
	}
	return out
}

func (g *genState) out() string {
	switch x := g.rng.Intn(10); {
	case x == 0:
		return "err"
	}
	return "ok"
}

// absorb updates the generator's view from the observation of the action it proposed.
func (g *genState) absorb(a []any, o map[string]any) {
	if a == nil || o == nil {
		return
	}
	ok := o["reply"] == "ok"
	q, _ := o["qids"].([]int)
	switch a[0] {
	case "add":
		if ok {
			n := toInt(a[1])
			g.status[n], g.isdir[n], g.hasops[n] = 1, toBool(a[4]), toBool(a[8])
			g.par[n], g.nm[n] = toInt(a[2]), a[3].(string)
		}
	case "rename":
		if ok {
			g.nm[toInt(a[1])] = a[2].(string)
		}
	case "wstat":
		if f := toInt(a[1]); ok && a[2].(string) != "" && g.fidAt[f] > 0 {
			g.nm[g.fidAt[f]] = a[2].(string)
		}
	case "rm":
		if n := toInt(a[1]); g.status[n] == 1 {
			g.status[n] = 2
		}
	case "attach":
		if ok {
			f := toInt(a[1])
			g.fidAt[f], g.fidOp[f], g.fidRd[f] = 1, "no", false
		}
	case "walk":
		names := a[3].([]any)
		if ok && len(q) == len(names) {
			nf := toInt(a[2])
			at := g.fidAt[toInt(a[1])]
			if len(q) > 0 {
				at = q[len(q)-1]
				if at < 0 {
					at = -at
				}
			}
			if at > 0 && at <= g.cfg.NNodes {
				g.fidAt[nf], g.fidOp[nf], g.fidRd[nf] = at, "no", false
			}
		}
	case "open":
		if ok {
			g.fidOp[toInt(a[1])] = []string{"r", "w", "rw", "x"}[toInt(a[2])%4]
		}
	case "create":
		if ok {
			f, n := toInt(a[1]), toInt(a[2])
			g.status[n], g.isdir[n], g.hasops[n] = 1, toBool(a[4]), true
			g.par[n], g.nm[n] = g.fidAt[f], a[3].(string)
			g.fidAt[f], g.fidOp[f] = n, []string{"r", "w", "rw", "x"}[toInt(a[6])%4]
		}
	case "dread":
		g.fidRd[toInt(a[1])] = toInt(o["n"]) > 0 || g.fidRd[toInt(a[1])] && !toBool(a[2])
		if toBool(a[2]) {
			g.fidRd[toInt(a[1])] = toInt(o["n"]) > 0
		}
	case "clunk":
		if ok {
			g.fidAt[toInt(a[1])] = 0
		}
	case "remove":
		f := toInt(a[1])
		if ok && g.fidAt[f] > 0 && g.status[g.fidAt[f]] == 1 {
			g.status[g.fidAt[f]] = 2
		}
		g.fidAt[f] = 0
	}
}

func (g *genState) next() []any {
	rng := g.rng
	maxEntry := 63 + 4
	for _, n := range g.names {
		if len(n)+67 > maxEntry {
			maxEntry = len(n) + 67
		}
	}
	for try := 0; try < 200; try++ {
		switch rng.Intn(22) {
		case 0, 1, 2:
			free := g.nodesWith(func(n int) bool { return g.status[n] == 0 })
			dirs := g.nodesWith(func(n int) bool { return g.status[n] != 0 && g.isdir[n] })
			if len(free) == 0 || len(dirs) == 0 {
				continue
			}
			d := g.pick(dirs)
			if g.status[d] == 2 && rng.Intn(4) != 0 {
				continue
			}
			return []any{"add", free[0], d, g.name(), rng.Intn(5) < 2, g.mode(), g.pick(g.users), g.pick(g.groups), rng.Intn(8) != 0}
		case 3:
			c := g.nodesWith(func(n int) bool { return n != 1 && g.status[n] != 0 })
			if len(c) == 0 || rng.Intn(3) != 0 {
				continue
			}
			return []any{"rm", g.pick(c)}
		case 4:
			c := g.nodesWith(func(n int) bool { return n != 1 && g.status[n] == 1 })
			if len(c) == 0 {
				continue
			}
			return []any{"rename", g.pick(c), g.name()}
		case 5:
			dirs := g.nodesWith(func(n int) bool { return g.status[n] != 0 && g.isdir[n] })
			return []any{"find", g.pick(dirs), g.name()}
		case 6:
			c := g.nodesWith(func(n int) bool { return g.status[n] == 1 })
			return []any{"chmod", g.pick(c), g.mode()}
		case 7:
			c := g.nodesWith(func(n int) bool { return g.status[n] == 1 })
			return []any{"checkperm", g.pick(c), g.pick(g.users), 1 + rng.Intn(7)}
		case 8:
			c := g.fidsWith(func(i int) bool { return g.fidAt[i] == 0 })
			if len(c) == 0 {
				continue
			}
			return []any{"attach", g.pick(c), g.pick(g.users)}
		case 9, 10, 11, 12:
			src := g.fidsWith(func(i int) bool { return g.fidAt[i] != 0 && g.fidOp[i] == "no" })
			if len(src) == 0 {
				continue
			}
			f := g.pick(src)
			nf := f
			if fr := g.fidsWith(func(i int) bool { return g.fidAt[i] == 0 }); len(fr) > 0 && rng.Intn(4) != 0 {
				nf = g.pick(fr)
			}
			k := 0
			if g.isdir[g.fidAt[f]] {
				k = rng.Intn(5)
			}
			names := []any{}
			cur := g.fidAt[f]
			for i := 0; i < k; i++ {
				kids := g.nodesWith(func(n int) bool { return g.status[n] == 1 && g.par[n] == cur && n != 1 })
				switch x := rng.Intn(10); {
				case x == 0:
					names = append(names, "..")
					cur = g.par[cur]
				case x < 8 && len(kids) > 0:
					c := g.pick(kids)
					names = append(names, g.nm[c])
					cur = c
				default:
					names = append(names, g.name())
				}
			}
			return []any{"walk", f, nf, names}
		case 13, 14:
			c := g.fidsWith(func(i int) bool { return g.fidAt[i] != 0 && g.fidOp[i] == "no" })
			if len(c) == 0 {
				continue
			}
			f := g.pick(c)
			m := 0
			if !g.isdir[g.fidAt[f]] {
				m = []int{0, 1, 2, 3, 16, 17, 18}[rng.Intn(7)]
			}
			return []any{"open", f, m, g.out()}
		case 15:
			c := g.fidsWith(func(i int) bool { return g.fidAt[i] != 0 && g.fidOp[i] == "no" && g.isdir[g.fidAt[i]] })
			free := g.nodesWith(func(n int) bool { return g.status[n] == 0 })
			if len(c) == 0 || len(free) == 0 {
				continue
			}
			isdir := rng.Intn(3) == 0
			m := 0
			if !isdir {
				m = rng.Intn(3)
			}
			return []any{"create", g.pick(c), free[0], g.name(), isdir, g.mode(), m, g.out()}
		case 16:
			c := g.fidsWith(func(i int) bool {
				return g.fidAt[i] != 0 && !g.isdir[g.fidAt[i]] && g.fidOp[i] != "no" && g.fidOp[i] != "x"
			})
			if len(c) == 0 {
				continue
			}
			f := g.pick(c)
			o := []string{"ok", "ok", "short", "err"}[rng.Intn(4)]
			if g.fidOp[f] == "r" || (g.fidOp[f] == "rw" && rng.Intn(2) == 0) {
				return []any{"read", f, rng.Intn(4), rng.Intn(3), o}
			}
			return []any{"write", f, rng.Intn(4), rng.Intn(3), o}
		case 17, 18:
			c := g.fidsWith(func(i int) bool { return g.fidAt[i] != 0 && g.isdir[g.fidAt[i]] && g.fidOp[i] == "r" })
			if len(c) == 0 {
				continue
			}
			f := g.pick(c)
			restart := !g.fidRd[f] || rng.Intn(4) == 0
			cnt := []int{maxEntry, maxEntry + 1, 2*maxEntry - 1, 2 * maxEntry, 3*maxEntry + 7, int(g.cfg.Msize) - 24, maxEntry + rng.Intn(3*maxEntry)}[rng.Intn(7)]
			if cnt > int(g.cfg.Msize)-24 {
				cnt = int(g.cfg.Msize) - 24
			}
			return []any{"dread", f, restart, cnt}
		case 19:
			c := g.fidsWith(func(i int) bool { return g.fidAt[i] != 0 })
			if len(c) == 0 {
				continue
			}
			f := g.pick(c)
			if rng.Intn(2) == 0 || g.fidAt[f] == 1 || g.status[g.fidAt[f]] != 1 {
				return []any{"stat", f, g.out()}
			}
			if rng.Intn(2) == 0 {
				return []any{"wstat", f, g.name(), -1, g.out()}
			}
			return []any{"wstat", f, "", g.mode(), g.out()}
		case 20:
			c := g.fidsWith(func(i int) bool { return g.fidAt[i] != 0 })
			if len(c) == 0 || rng.Intn(2) == 0 {
				continue
			}
			return []any{"clunk", g.pick(c), g.out()}
		case 21:
			c := g.fidsWith(func(i int) bool { return g.fidAt[i] > 1 })
			if len(c) == 0 || rng.Intn(3) != 0 {
				continue
			}
			return []any{"remove", g.pick(c), g.out()}
		}
	}
	return nil
}

type genCfg struct {
	Cases  int      `json:"cases"`
	Steps  int      `json:"steps"`
	Names  []string `json:"names"`
	Users  []int    `json:"users"`
	Groups []int    `json:"groups"`
}

// TestFsrvRandom: seeded random histories over larger trees; the generator only follows the
// rules under which the contract settles the outcome (see Fsrv!Enabled).
func TestFsrvRandom(t *testing.T) {
	if os.Getenv("VERIF_GEN") == "" {
		t.Skip("no generator configuration")
	}
	var gc genCfg
	if err := json.Unmarshal([]byte(os.Getenv("VERIF_GEN")), &gc); err != nil {
		t.Fatal(err)
	}
	r := newRunner(t, "fsrv-random")
	seed := int64(envInt("VERIF_SEED", 1))
	for id := 1; id <= gc.Cases; id++ {
		g := &genState{rng: rand.New(rand.NewSource(seed*1000003 + int64(id)*2 + int64(toInt(r.cfg.Dotu)))), cfg: r.cfg, names: gc.Names, users: gc.Users, groups: gc.Groups,
			left: gc.Steps, status: make([]int, r.cfg.NNodes+1), isdir: make([]bool, r.cfg.NNodes+1), hasops: make([]bool, r.cfg.NNodes+1),
			fidAt: make([]int, r.cfg.NFids+1), fidOp: make([]string, r.cfg.NFids+1), fidRd: make([]bool, r.cfg.NFids+1),
			par: make([]int, r.cfg.NNodes+1), nm: make([]string, r.cfg.NNodes+1)}
		g.status[1], g.isdir[1], g.hasops[1], g.par[1] = 1, true, true, 1
		r.run(id, nil, func(h *H, last []any, obs map[string]any) []any {
			g.absorb(last, obs)
			if g.left == 0 {
				return nil
			}
			g.left--
			return g.next()
		})
	}
	r.finish(t)
}

// TestFsrvPermGrid: CheckPerm for every permission word (or a seeded sample), every owner and
// group, every user and every request, directly on srvFile values.
func TestFsrvPermGrid(t *testing.T) {
	if os.Getenv("VERIF_GEN") == "" {
		t.Skip("no generator configuration")
	}
	var gc genCfg
	if err := json.Unmarshal([]byte(os.Getenv("VERIF_GEN")), &gc); err != nil {
		t.Fatal(err)
	}
	r := newRunner(t, "fsrv-permgrid")
	rng := rand.New(rand.NewSource(int64(envInt("VERIF_SEED", 1))))
	id := 0
	for _, uid := range gc.Users {
		for _, gid := range gc.Groups {
			id++
			acts := [][]any{{"add", 2, 1, "f", false, 0, uid, gid, true}}
			modes := rng.Perm(512)
			if gc.Cases > 0 && gc.Cases < 512 {
				modes = modes[:gc.Cases]
			}
			for _, m := range modes {
				if m != 0 || len(acts) > 1 {
					acts = append(acts, []any{"chmod", 2, m})
				}
				for _, u := range gc.Users {
					for need := 1; need <= 7; need++ {
						acts = append(acts, []any{"checkperm", 2, u, need})
					}
				}
			}
			r.run(id, acts, nil)
		}
	}
	r.finish(t)
}

// ---------------------------------------------------------------- requests outside the offset rule

// TestFsrvHostile: directory and file reads that do not follow the offset rule, or whose count is
// smaller than an entry.  The contract only demands an answer (Rread or Rerror) and a server that
// is still alive; a panic kills this process and is attributed by the check from the progress file.
func TestFsrvHostile(t *testing.T) {
	if os.Getenv("VERIF_FSCFG") == "" {
		t.Skip("no configuration")
	}
	r := newRunner(t, "fsrv-hostile")
	type probe struct {
		name    string
		entries int
		first   bool // read at offset 0 first
		off     uint64
		count   uint32
	}
	var probes []probe
	esz := uint64(49 + 2 + 4) // stat record of a file called "e<k>" owned by u1/g1
	if r.cfg.Dotu {
		esz += 14
	}
	for _, ne := range []int{0, 1, 3} {
		for _, first := range []bool{false, true} {
			for _, off := range []uint64{1, 23, esz - 1, esz, esz + 1, 3 * esz, 3*esz + 1, 4096, 1 << 33, 1<<64 - 1} {
				for _, cnt := range []uint32{0, 1, 22, 23, 24, uint32(esz), 4000} {
					probes = append(probes, probe{fmt.Sprintf("entries=%d:listed=%v:off=%s:count=%s", ne, first, offClass(off, ne, esz), cntClass(cnt, esz)), ne, first, off, cnt})
				}
			}
		}
	}
	for _, ne := range []int{0, 1, 3} {
		for _, cnt := range []uint32{0, 1, 22, 23, 24, uint32(esz) - 1} {
			probes = append(probes, probe{fmt.Sprintf("entries=%d:listed=false:off=0:count=%s", ne, cntClass(cnt, esz)), ne, false, 0, cnt})
		}
	}
	for i, p := range probes {
		id := i + 1
		if id < r.start {
			continue
		}
		if r.prog != "" {
			os.WriteFile(r.prog, []byte(fmt.Sprint(id)), 0o644)
			os.WriteFile(r.prog+".act", []byte(fmt.Sprintf("%q", "dirread:"+p.name)), 0o644)
		}
		h, err := NewH(r.cfg)
		if err != nil {
			r.rep.Inconc(err.Error())
			continue
		}
		bad := func(what string) {
			r.rep.Violations = append(r.rep.Violations, Violation{Key: "x01:hostile-read:" + what + ":" + strings.SplitN(p.name, ":count=", 2)[0],
				What: "directory read outside the offset rule: " + what, Replay: map[string]any{"engine": "TestFsrvHostile", "probe": p.name}})
		}
		func() {
			defer h.Close()
			for k := 0; k < p.entries; k++ {
				if _, err := h.Exec([]any{"add", 2 + k, 1, fmt.Sprintf("e%d", k), false, 0o644, 1, 1, true}); err != nil {
					r.rep.Inconc(err.Error())
					return
				}
			}
			h.Exec([]any{"attach", 1, 1})
			h.Exec([]any{"open", 1, 0, "ok"})
			if p.first {
				h.Exec([]any{"dread", 1, true, 4000})
			}
			h.tag++
			rp, err := h.rpc(&wire.Msg{Type: wire.Tread, Tag: h.tag, Fid: 1, Offset: p.off, Count: p.count}, h.cfg.Dotu)
			if err != nil {
				bad("no-answer")
				return
			}
			if rp.Type != wire.Rread && rp.Type != wire.Rerror {
				bad("answer-" + wire.TypeName(rp.Type))
				return
			}
			if rp.Type == wire.Rread && uint32(len(rp.Data)) > p.count {
				bad("more-than-count")
			}
			// still alive?
			o, err := h.Exec([]any{"stat", 1, "ok"})
			if err != nil || o["reply"] != "ok" {
				bad("dead-afterwards")
			}
		}()
		r.rep.Cases++
		r.steps++
	}
	r.finish(t)
}

func cntClass(c uint32, esz uint64) string {
	switch {
	case uint64(c) == esz:
		return "entry"
	case uint64(c) == esz-1:
		return "entry-1"
	}
	return fmt.Sprint(c)
}

func offClass(off uint64, entries int, esz uint64) string {
	total := uint64(entries) * esz
	switch {
	case off > 1<<32:
		return "huge"
	case off > total:
		return "past-end"
	case off == total:
		return "end"
	case off%esz == 0:
		return "boundary"
	}
	return "inside"
}
