// Package fsrvh binds spec/Fsrv.tla to the real go9p.Fsrv (srv_file.go).
//
// A history is a list of actions of the reference machine.  API actions (add, rm, rename, find,
// chmod, checkperm) are executed directly on srvFile values; the others are raw 9P requests sent
// over net.Pipe to a go9p.Srv started with the Fsrv as its implementation and decoded with the
// independent codec harness/wire.  Every file has an ops object that logs each call with its
// arguments and answers as scripted.  After every step the harness reads back what each fid number
// answers to Tstat and the tree links (cfirst/next, clast/prev, Parent) of every node.  Action,
// observation and read-back are written as one ndjson line; TLC validates the lines against
// Fsrv!Step (spec/FsrvTrace.tla).  The harness itself judges nothing.
//
// srvFile is not exported: values are obtained through type inference from FFid.F (newFile, cast)
// and the FCreateOp method, whose result type cannot be named here, is a method of a generic type.
package fsrvh

import (
	"bufio"
	"encoding/json"
	"fmt"
	"io"
	"log"
	"net"
	"os"
	"reflect"
	"strconv"
	"strings"
	"sync"
	"time"

	"verif/harness/wire"

	"github.com/rminnich/go9p"
)

// ---------------------------------------------------------------- report

type Violation struct {
	Key    string `json:"key"`
	What   string `json:"what"`
	Replay any    `json:"replay"`
}

type Report struct {
	Engine       string         `json:"engine"`
	Cases        int            `json:"cases"`
	Distinct     int            `json:"distinct"`
	Samples      []any          `json:"samples"`
	Violations   []Violation    `json:"violations"`
	Inconclusive []string       `json:"inconclusive"`
	Stats        map[string]any `json:"stats"`
}

func NewReport(engine string) *Report {
	return &Report{Engine: engine, Stats: map[string]any{}, Samples: []any{}, Violations: []Violation{}, Inconclusive: []string{}}
}

func (r *Report) Inconc(s string) {
	if len(r.Inconclusive) < 20 {
		r.Inconclusive = append(r.Inconclusive, s)
	}
}

func (r *Report) Write() error {
	p := os.Getenv("VERIF_OUT")
	if p == "" {
		return nil
	}
	b, err := json.Marshal(r)
	if err != nil {
		return err
	}
	return os.WriteFile(p, b, 0o644)
}

type NDWriter struct {
	f *os.File
	w *bufio.Writer
}

func OpenND(path string, app bool) *NDWriter {
	if path == "" {
		path = os.DevNull
	}
	flags := os.O_CREATE | os.O_WRONLY | os.O_TRUNC
	if app {
		flags = os.O_CREATE | os.O_WRONLY | os.O_APPEND
	}
	f, err := os.OpenFile(path, flags, 0o644)
	if err != nil {
		panic(err)
	}
	return &NDWriter{f: f, w: bufio.NewWriterSize(f, 1<<20)}
}

func (n *NDWriter) Put(v any) {
	b, err := json.Marshal(v)
	if err != nil {
		panic(err)
	}
	n.w.Write(b)
	n.w.WriteByte('\n')
}
func (n *NDWriter) Flush() { n.w.Flush() }
func (n *NDWriter) Close() { n.w.Flush(); n.f.Close() }

func envInt(name string, def int) int {
	if s := os.Getenv(name); s != "" {
		if v, err := strconv.Atoi(s); err == nil {
			return v
		}
	}
	return def
}

// ---------------------------------------------------------------- srvFile without its name

var proto = (&go9p.FFid{}).F // a nil *srvFile: carries the type

func newFile[T any](_ *T) *T     { return new(T) }
func cast[T any](_ *T, v any) *T { p, _ := v.(*T); return p }

// fops is the ops object of one file.  It is generic only because FCreateOp.Create returns *srvFile.
type fops[F any] struct {
	h  *H
	id int
}

func newFops[F any](_ *F, h *H, id int) *fops[F] { return &fops[F]{h: h, id: id} }

const ScriptedErr = "E-scripted-by-harness"

func (o *fops[F]) Open(fid *go9p.FFid, mode uint8) error {
	return o.h.opCall("open", o.id, fid, int(mode), 0, "")
}

func (o *fops[F]) Create(fid *go9p.FFid, name string, perm uint32) (*F, error) {
	h := o.h
	isdir := 0
	if perm&go9p.DMDIR != 0 {
		isdir = 1
	}
	if err := h.opCall("create", o.id, fid, int(perm&0o777), isdir, name); err != nil {
		return nil, err
	}
	n := h.createNode
	if h.added[n] {
		return nil, &go9p.Error{Err: "harness: node already in use (history has left the specification)", Errornum: 5}
	}
	f := cast(proto, h.nodes[n])
	dir := fid.F
	var grp go9p.Group
	if g, ok := parseID(dir.Gid, "g"); ok {
		grp = h.group(g)
	}
	if err := f.Add(dir, name, fid.Fid.User, grp, perm, h.opsFor(n)); err != nil {
		return nil, err
	}
	h.isdir[n], h.added[n] = isdir == 1, true
	h.byPath[f.Path] = n
	var r any = f
	return r.(*F), nil
}

func (o *fops[F]) Read(fid *go9p.FFid, buf []byte, offset uint64) (int, error) {
	h := o.h
	if err := h.opCall("read", o.id, fid, offIndex(offset), h.cntIndex(len(buf)), ""); err != nil {
		return 0, err
	}
	n := len(buf)
	if h.out == "short" {
		n = n / 2
	}
	for i := 0; i < n; i++ {
		buf[i] = pat(o.id, offset, i)
	}
	h.ioN = n
	return n, nil
}

func (o *fops[F]) Write(fid *go9p.FFid, data []byte, offset uint64) (int, error) {
	h := o.h
	ci := h.cntIndex(len(data))
	for i := range data {
		if data[i] != pat(0, offset, i) {
			ci = -1
			break
		}
	}
	if err := h.opCall("write", o.id, fid, offIndex(offset), ci, ""); err != nil {
		return 0, err
	}
	n := len(data)
	if h.out == "short" {
		n = n / 2
	}
	h.ioN = n
	return n, nil
}

func (o *fops[F]) Remove(fid *go9p.FFid) error { return o.h.opCall("remove", o.id, fid, 0, 0, "") }
func (o *fops[F]) Stat(fid *go9p.FFid) error   { return o.h.opCall("stat", o.id, fid, 0, 0, "") }
func (o *fops[F]) Clunk(fid *go9p.FFid) error  { return o.h.opCall("clunk", o.id, fid, 0, 0, "") }

func (o *fops[F]) Wstat(fid *go9p.FFid, d *go9p.Dir) error {
	mode := -1
	if d.Mode != 0xFFFFFFFF {
		mode = int(d.Mode & 0o777)
	}
	if err := o.h.opCall("wstat", o.id, fid, mode, 0, d.Name); err != nil {
		return err
	}
	if d.Name != "" {
		return fid.F.Rename(d.Name)
	}
	if mode >= 0 {
		fid.F.Mode = fid.F.Mode&^0o777 | uint32(mode)
	}
	return nil
}

func (o *fops[F]) FidDestroy(fid *go9p.FFid) {
	h := o.h
	h.mu.Lock()
	h.destroyed = append(h.destroyed, h.idOf(fid.F))
	h.mu.Unlock()
}

func pat(node int, off uint64, i int) byte {
	x := uint32(off)*2654435761 + uint32(off>>32)*40503 + uint32(node)*0x9E3779B1 + uint32(i)*0x85EBCA6B
	x ^= x >> 15
	return byte(x) ^ byte(i)
}

var OffTable = []uint64{0, 7, 1<<40 + 3, 1<<64 - 1}

func offIndex(o uint64) int {
	for i, v := range OffTable {
		if v == o {
			return i
		}
	}
	return -1
}

// ---------------------------------------------------------------- users

type usr struct {
	id     int
	groups []go9p.Group
}

func (u *usr) Name() string               { return "u" + strconv.Itoa(u.id) }
func (u *usr) Id() int                    { return u.id }
func (u *usr) Groups() []go9p.Group       { return u.groups }
func (u *usr) IsMember(g go9p.Group) bool { return false }

type grp struct{ id int }

func (g *grp) Name() string         { return "g" + strconv.Itoa(g.id) }
func (g *grp) Id() int              { return g.id }
func (g *grp) Members() []go9p.User { return nil }

func parseID(s, prefix string) (int, bool) {
	if !strings.HasPrefix(s, prefix) {
		return 0, false
	}
	v, err := strconv.Atoi(s[len(prefix):])
	return v, err == nil
}

// pool is the server's user pool.  A 9P2000 (not .u) Tattach reaches Uid2User(0) in this server
// (the absent n_uname field reads as 0), so id 0 stands for the user the harness attaches as.
type pool struct{ h *H }

func (p pool) Uid2User(uid int) go9p.User {
	if uid == 0 && !p.h.cfg.Dotu {
		return p.h.user(p.h.attachAs)
	}
	if uid < 1 || uid > 9 {
		return nil
	}
	return p.h.user(uid)
}
func (p pool) Uname2User(n string) go9p.User {
	if id, ok := parseID(n, "u"); ok {
		return p.h.user(id)
	}
	return nil
}
func (p pool) Gid2Group(gid int) go9p.Group { return p.h.group(gid) }
func (p pool) Gname2Group(n string) go9p.Group {
	if id, ok := parseID(n, "g"); ok {
		return p.h.group(id)
	}
	return nil
}

// ---------------------------------------------------------------- one history

type Cfg struct {
	Dotu    bool   `json:"dotu"`
	Msize   uint32 `json:"msize"`
	NNodes  int    `json:"nnodes"`
	NFids   int    `json:"nfids"`
	Member  []int  `json:"member"` // 10*user+group
	Maxpend int    `json:"maxpend"`
}

var (
	logOnce   sync.Once
	sharedLog *go9p.Logger
)

type H struct {
	cfg    Cfg
	nodes  []any // 1..NNodes: *srvFile
	byPtr  map[uintptr]int
	byPath map[uint64]int
	isdir  []bool
	added  []bool // Add succeeded for this node (the API is only used on such nodes)
	users  map[int]*usr
	groups map[int]*grp
	srv    *go9p.Fsrv
	sc, cc net.Conn
	fr     wire.Framer
	tag    uint16
	doff   map[int]uint64

	mu         sync.Mutex
	calls      [][]any
	destroyed  []int
	quiet      bool
	out        string
	createNode int
	ioN        int
	attachAs   int
	dead       string // set when the connection stopped answering
}

func (h *H) user(id int) *usr {
	if u, ok := h.users[id]; ok {
		return u
	}
	u := &usr{id: id}
	for _, m := range h.cfg.Member {
		if m/10 == id {
			u.groups = append(u.groups, h.group(m%10))
		}
	}
	h.users[id] = u
	return u
}

func (h *H) group(id int) *grp {
	if g, ok := h.groups[id]; ok {
		return g
	}
	g := &grp{id}
	h.groups[id] = g
	return g
}

func (h *H) opsFor(n int) any { return newFops(proto, h, n) }

func (h *H) idOf(f any) int {
	v := reflect.ValueOf(f)
	if v.Kind() != reflect.Ptr || v.IsNil() {
		return 0
	}
	if id, ok := h.byPtr[v.Pointer()]; ok {
		return id
	}
	return -1
}

func (h *H) cntTable() []int { return []int{0, 5, int(h.cfg.Msize) - 24} }
func (h *H) cntIndex(n int) int {
	for i, v := range h.cntTable() {
		if v == n {
			return i
		}
	}
	return -1
}

// opCall logs a call of a file op and returns the scripted error, if any.
func (h *H) opCall(op string, node int, fid *go9p.FFid, a, b int, s string) error {
	h.mu.Lock()
	defer h.mu.Unlock()
	if h.quiet {
		return nil
	}
	u := 0
	if fid != nil && fid.Fid != nil && fid.Fid.User != nil {
		u = fid.Fid.User.Id()
	}
	at := node
	if fid != nil {
		// the op must be the one of the file the fid points at
		if id := h.idOf(fid.F); id != node {
			at = -id
		}
	}
	h.calls = append(h.calls, []any{op, at, u, a, b, s})
	if h.out == "err" {
		return &go9p.Error{Err: ScriptedErr, Errornum: 5}
	}
	return nil
}

// NewH builds the root directory (node 1, mode 0777, owner u1, group g1, with ops), starts a
// server on it and negotiates the dialect.
func NewH(cfg Cfg) (*H, error) {
	log.SetOutput(io.Discard)
	logOnce.Do(func() { sharedLog = go9p.NewLogger(16) })
	h := &H{cfg: cfg, byPtr: map[uintptr]int{}, byPath: map[uint64]int{}, users: map[int]*usr{}, groups: map[int]*grp{},
		doff: map[int]uint64{}, out: "ok", attachAs: 1}
	h.nodes = make([]any, cfg.NNodes+1)
	h.isdir = make([]bool, cfg.NNodes+1)
	h.added = make([]bool, cfg.NNodes+1)
	for i := 1; i <= cfg.NNodes; i++ {
		f := newFile(proto)
		h.nodes[i] = f
		h.byPtr[reflect.ValueOf(f).Pointer()] = i
	}
	root := cast(proto, h.nodes[1])
	if err := root.Add(nil, "/", h.user(1), h.group(1), go9p.DMDIR|0o777, h.opsFor(1)); err != nil {
		return nil, err
	}
	h.isdir[1], h.added[1] = true, true
	h.byPath[root.Path] = 1
	h.srv = go9p.NewsrvFileSrv(root)
	h.srv.Dotu = cfg.Dotu
	h.srv.Msize = cfg.Msize
	h.srv.Upool = pool{h}
	h.srv.Log = sharedLog
	h.srv.Maxpend = cfg.Maxpend
	h.srv.Id = "fsrvh"
	if !h.srv.Start(h.srv) {
		return nil, fmt.Errorf("Fsrv.Start refused the Fsrv as its own implementation")
	}
	h.sc, h.cc = net.Pipe()
	h.srv.NewConn(h.sc)
	ver := "9P2000"
	if cfg.Dotu {
		ver = "9P2000.u"
	}
	r, err := h.rpc(&wire.Msg{Type: wire.Tversion, Tag: wire.NOTAG, Msize: cfg.Msize, Version: ver}, false)
	if err != nil {
		return nil, err
	}
	if r.Type != wire.Rversion || r.Version != ver || r.Msize != cfg.Msize {
		return nil, fmt.Errorf("negotiation: %+v", r)
	}
	return h, nil
}

func (h *H) Close() {
	h.cc.Close()
	h.sc.Close()
}

// rpc sends one request and returns the decoded reply.
func (h *H) rpc(m *wire.Msg, dotu bool) (*wire.Msg, error) {
	if h.dead != "" {
		return nil, fmt.Errorf("connection dead: %s", h.dead)
	}
	b := wire.Encode(m, dotu)
	h.cc.SetDeadline(time.Now().Add(20 * time.Second))
	if _, err := h.cc.Write(b); err != nil {
		h.dead = "write: " + err.Error()
		return nil, err
	}
	buf := make([]byte, 8192)
	for {
		fr, err := h.fr.Next()
		if err != nil {
			h.dead = err.Error()
			return nil, err
		}
		if fr != nil {
			r, derr := wire.Decode(fr, dotu)
			if derr != nil {
				return &wire.Msg{Type: 0, Ename: "undecodable: " + derr.Error()}, nil
			}
			return r, nil
		}
		n, err := h.cc.Read(buf)
		if n > 0 {
			h.fr.Feed(buf[:n])
			continue
		}
		if err != nil {
			h.dead = "read: " + err.Error()
			return nil, err
		}
	}
}

func toInt(v any) int {
	switch x := v.(type) {
	case float64:
		return int(x)
	case int:
		return x
	case bool:
		if x {
			return 1
		}
		return 0
	}
	return 0
}

func toBool(v any) bool {
	b, _ := v.(bool)
	return b
}

func toStrs(v any) []string {
	a, _ := v.([]any)
	out := make([]string, 0, len(a))
	for _, x := range a {
		out = append(out, x.(string))
	}
	return out
}

func (h *H) qidID(q wire.Qid) int {
	id, ok := h.byPath[q.Path]
	if !ok {
		return -1000
	}
	if (q.Type&go9p.QTDIR != 0) != h.isdir[id] {
		return -id // right file, wrong type bits
	}
	return id
}

func emptyObs() map[string]any {
	return map[string]any{"reply": "ok", "calls": [][]any{}, "qids": []int{}, "destroyed": []int{}, "data": "",
		"stat": []any{}, "ents": [][]any{}, "whole": true, "n": 0, "ret": 0}
}

func (h *H) statTuple(st *wire.Stat) []any {
	id, ok := h.byPath[st.Qid.Path]
	if !ok {
		id = -1000
	}
	uid, _ := parseID(st.Uid, "u")
	gid, _ := parseID(st.Gid, "g")
	dirbit := 0
	if st.Mode&go9p.DMDIR != 0 {
		dirbit = 1
	}
	if (st.Qid.Type&go9p.QTDIR != 0) != (dirbit == 1) {
		dirbit = -1
	}
	return []any{id, st.Name, int(st.Mode & 0o777), uid, gid, dirbit}
}

var ErrDrift = fmt.Errorf("the history has left the specification")

// Exec performs one action and returns the observation in the vocabulary of Fsrv.tla.
func (h *H) Exec(a []any) (map[string]any, error) {
	o := emptyObs()
	op := a[0].(string)
	h.mu.Lock()
	h.calls, h.destroyed, h.out, h.ioN = nil, nil, "ok", 0
	h.mu.Unlock()
	errReply := func(err error) {
		if err != nil {
			o["reply"] = "err"
		}
	}
	// the API is only used the way the specification uses it; if an earlier step diverged from the
	// specification (TLC reports that step) the rest of the history is meaningless
	switch op {
	case "add":
		if h.added[toInt(a[1])] || !h.added[toInt(a[2])] {
			return nil, ErrDrift
		}
	case "rm", "rename", "find", "chmod", "checkperm":
		if !h.added[toInt(a[1])] {
			return nil, ErrDrift
		}
	}
	switch op {
	case "add":
		n, d := toInt(a[1]), toInt(a[2])
		f, dir := cast(proto, h.nodes[n]), cast(proto, h.nodes[d])
		mode := uint32(toInt(a[5]))
		if toBool(a[4]) {
			mode |= go9p.DMDIR
		}
		var ops any
		if toBool(a[8]) {
			ops = h.opsFor(n)
		}
		err := f.Add(dir, a[3].(string), h.user(toInt(a[6])), h.group(toInt(a[7])), mode, ops)
		errReply(err)
		if err == nil {
			h.isdir[n], h.added[n] = toBool(a[4]), true
			h.byPath[f.Path] = n
		}
		return o, nil
	case "rm":
		cast(proto, h.nodes[toInt(a[1])]).Remove()
		return o, nil
	case "rename":
		errReply(cast(proto, h.nodes[toInt(a[1])]).Rename(a[2].(string)))
		return o, nil
	case "find":
		o["ret"] = h.idOf(cast(proto, h.nodes[toInt(a[1])]).Find(a[2].(string)))
		return o, nil
	case "chmod":
		f := cast(proto, h.nodes[toInt(a[1])])
		f.Mode = f.Mode&^0o777 | uint32(toInt(a[2]))
		return o, nil
	case "checkperm":
		if cast(proto, h.nodes[toInt(a[1])]).CheckPerm(h.user(toInt(a[2])), uint32(toInt(a[3]))) {
			o["ret"] = 1
		}
		return o, nil
	}
	// 9P
	h.tag++
	if h.tag > 60000 {
		h.tag = 1
	}
	m := &wire.Msg{Tag: h.tag, Fid: uint32(toInt(a[1]))}
	fidn := toInt(a[1])
	script := func(v any) {
		h.mu.Lock()
		h.out = v.(string)
		h.mu.Unlock()
	}
	var wdata []byte
	switch op {
	case "attach":
		m.Type, m.Afid, m.Uname, m.Unamenum = wire.Tattach, wire.NOFID, "u"+strconv.Itoa(toInt(a[2])), uint32(toInt(a[2]))
		h.attachAs = toInt(a[2])
	case "walk":
		m.Type, m.Newfid, m.Wname = wire.Twalk, uint32(toInt(a[2])), toStrs(a[3])
	case "open":
		m.Type, m.Mode = wire.Topen, uint8(toInt(a[2]))
		script(a[3])
	case "create":
		m.Type, m.Name, m.Perm, m.Mode = wire.Tcreate, a[3].(string), uint32(toInt(a[5])), uint8(toInt(a[6]))
		if toBool(a[4]) {
			m.Perm |= go9p.DMDIR
		}
		h.createNode = toInt(a[2])
		script(a[7])
	case "read":
		m.Type, m.Offset, m.Count = wire.Tread, OffTable[toInt(a[2])], uint32(h.cntTable()[toInt(a[3])])
		script(a[4])
	case "write":
		m.Type, m.Offset = wire.Twrite, OffTable[toInt(a[2])]
		wdata = make([]byte, h.cntTable()[toInt(a[3])])
		for i := range wdata {
			wdata[i] = pat(0, m.Offset, i)
		}
		m.Data = wdata
		script(a[4])
	case "dread":
		m.Type, m.Count = wire.Tread, uint32(toInt(a[3]))
		if !toBool(a[2]) {
			m.Offset = h.doff[fidn]
		}
	case "stat":
		m.Type = wire.Tstat
		script(a[2])
	case "wstat":
		m.Type = wire.Twstat
		m.Stat = wire.Stat{Type: 0xFFFF, Dev: 0xFFFFFFFF, Qid: wire.Qid{Type: 0xFF, Vers: 0xFFFFFFFF, Path: 1<<64 - 1},
			Mode: 0xFFFFFFFF, Atime: 0xFFFFFFFF, Mtime: 0xFFFFFFFF, Length: 1<<64 - 1, Uidnum: 0xFFFFFFFF, Gidnum: 0xFFFFFFFF, Muidnum: 0xFFFFFFFF}
		m.Stat.Name = a[2].(string)
		if md := toInt(a[3]); md >= 0 {
			m.Stat.Mode = uint32(md)
		}
		script(a[4])
	case "clunk":
		m.Type = wire.Tclunk
		script(a[2])
	case "remove":
		m.Type = wire.Tremove
		script(a[2])
	default:
		return nil, fmt.Errorf("unknown action %q", op)
	}
	r, err := h.rpc(m, h.cfg.Dotu)
	if err != nil {
		return nil, err
	}
	h.mu.Lock()
	calls := append([][]any{}, h.calls...)
	destroyed := append([]int{}, h.destroyed...)
	ioN := h.ioN
	out := h.out
	h.mu.Unlock()
	o["calls"], o["destroyed"] = calls, destroyed
	switch {
	case r.Type == wire.Rerror:
		if r.Ename == ScriptedErr {
			o["reply"] = "implerr"
		} else {
			o["reply"] = "err"
		}
		o["errtext"] = r.Ename
		return o, nil
	case r.Type == 0:
		o["reply"] = "garbled"
		o["errtext"] = r.Ename
		return o, nil
	case r.Tag != m.Tag:
		o["reply"] = fmt.Sprintf("wrongtag:%s", wire.TypeName(r.Type))
		return o, nil
	case r.Type != m.Type+1:
		o["reply"] = fmt.Sprintf("wrong:%s", wire.TypeName(r.Type))
		return o, nil
	}
	label := func() string {
		if out == "short" {
			return "half"
		}
		return "full"
	}
	switch op {
	case "attach", "open", "create":
		o["qids"] = []int{h.qidID(r.Qid)}
	case "walk":
		q := []int{}
		for _, x := range r.Wqid {
			q = append(q, h.qidID(x))
		}
		o["qids"] = q
	case "read":
		node := 0
		if len(calls) > 0 {
			node = toInt(calls[0][1])
		}
		ok := int(r.Count) == ioN && len(r.Data) == ioN
		for i := 0; ok && i < len(r.Data); i++ {
			ok = r.Data[i] == pat(node, m.Offset, i)
		}
		if ok {
			o["data"] = label()
		} else {
			o["data"] = fmt.Sprintf("bad:%d bytes for %d returned by the op", r.Count, ioN)
		}
	case "write":
		if int(r.Count) == ioN {
			o["data"] = label()
		} else {
			o["data"] = fmt.Sprintf("bad:count %d for %d returned by the op", r.Count, ioN)
		}
	case "dread":
		ents := [][]any{}
		rest := r.Data
		whole := true
		for len(rest) > 0 {
			st, n, err := wire.DecodeStat(rest, h.cfg.Dotu)
			if err != nil {
				whole = false
				break
			}
			id, ok := h.byPath[st.Qid.Path]
			if !ok {
				id = -1000
			}
			ents = append(ents, []any{id, st.Name})
			rest = rest[n:]
		}
		o["ents"], o["whole"], o["n"] = ents, whole, len(r.Data)
		if toBool(a[2]) {
			h.doff[fidn] = 0
		} else if _, ok := h.doff[fidn]; !ok {
			h.doff[fidn] = 0
		}
		if toBool(a[2]) {
			h.doff[fidn] = uint64(len(r.Data))
		} else {
			h.doff[fidn] += uint64(len(r.Data))
		}
	case "stat":
		o["stat"] = h.statTuple(&r.Stat)
	case "clunk", "remove":
		delete(h.doff, fidn)
	}
	return o, nil
}

// Post reads back what the fids answer and how the tree is linked.
func (h *H) Post() (map[string]any, error) {
	h.mu.Lock()
	h.quiet = true
	h.mu.Unlock()
	defer func() {
		h.mu.Lock()
		h.quiet = false
		h.mu.Unlock()
	}()
	probe := [][]any{}
	for f := 1; f <= h.cfg.NFids; f++ {
		h.tag++
		r, err := h.rpc(&wire.Msg{Type: wire.Tstat, Tag: h.tag, Fid: uint32(f)}, h.cfg.Dotu)
		if err != nil {
			return nil, err
		}
		if r.Type == wire.Rstat {
			t := h.statTuple(&r.Stat)
			probe = append(probe, t[:3])
		} else {
			probe = append(probe, []any{0, "", 0})
		}
	}
	kids, kidsb, par := [][]int{}, [][]int{}, []int{}
	for n := 1; n <= h.cfg.NNodes; n++ {
		v := reflect.ValueOf(h.nodes[n]).Elem()
		fw := []int{}
		for p, i := v.FieldByName("cfirst"), 0; !p.IsNil(); p, i = p.Elem().FieldByName("next"), i+1 {
			if i > h.cfg.NNodes+1 {
				fw = append(fw, -2) // cycle
				break
			}
			fw = append(fw, h.ptrID(p.Pointer()))
		}
		bw := []int{}
		for p, i := v.FieldByName("clast"), 0; !p.IsNil(); p, i = p.Elem().FieldByName("prev"), i+1 {
			if i > h.cfg.NNodes+1 {
				bw = append(bw, -2)
				break
			}
			bw = append(bw, h.ptrID(p.Pointer()))
		}
		for i, j := 0, len(bw)-1; i < j; i, j = i+1, j-1 {
			bw[i], bw[j] = bw[j], bw[i]
		}
		kids, kidsb = append(kids, fw), append(kidsb, bw)
		pp := v.FieldByName("Parent")
		if pp.IsNil() {
			par = append(par, 0)
		} else {
			par = append(par, h.ptrID(pp.Pointer()))
		}
	}
	return map[string]any{"probe": probe, "kids": kids, "kidsb": kidsb, "par": par}, nil
}

func (h *H) ptrID(p uintptr) int {
	if id, ok := h.byPtr[p]; ok {
		return id
	}
	return -1
}
