// Package logh binds spec/Logger.tla (property C20) to the real go9p.Logger.
//
// Engines (logh_test.go):
//
//	TestReplay      spec -> code: TLC behaviours (transition tour / simulation of the quiescent
//	                model, with the Filter answers predicted by TLC) executed on a real Logger inside
//	                a testing/synctest bubble, synctest.Wait() after every Log call.
//	TestTraces      code -> spec: seeded random Log/Filter(/Resize) sequences from one goroutine,
//	                without waiting, recorded as ndjson for validation by TLC (LoggerTrace) and
//	                judged here by the same property clauses.
//	TestConcurrent  several producers and filterers: membership, per-producer order, convergence.
//
// Verdicts come only from values returned by the real Logger (or from a call that never returns
// while the logger goroutine exists: the bubble deadlocks).
package logh

import (
	"encoding/json"
	"fmt"
	"os"
	"sort"
	"strings"
	"sync"
	"sync/atomic"
	"time"

	"github.com/rminnich/go9p"
)

type Violation struct {
	Key    string `json:"key"`
	What   string `json:"what"`
	Replay any    `json:"replay"`
}

type Report struct {
	Engine       string         `json:"engine"`
	Cases        int            `json:"cases"`
	Distinct     int            `json:"distinct"`
	Samples      []any          `json:"samples"`
	Violations   []Violation    `json:"violations"`
	Inconclusive []string       `json:"inconclusive"`
	Notes        []string       `json:"notes"` // observations outside the quantifier of C20 (Resize)
	Stats        map[string]any `json:"stats"`

	mu   sync.Mutex
	seen map[string]int
	nkey map[string]int
}

func (r *Report) Viol(key, what string, replay any) {
	r.mu.Lock()
	defer r.mu.Unlock()
	if r.seen == nil {
		r.seen = map[string]int{}
	}
	r.seen[key]++
	if r.seen[key] > 3 { // a few occurrences per key are enough
		return
	}
	r.Violations = append(r.Violations, Violation{key, what, replay})
}

func (r *Report) Note(key, what string) {
	r.mu.Lock()
	defer r.mu.Unlock()
	if r.nkey == nil {
		r.nkey = map[string]int{}
	}
	r.nkey[key]++
	if r.nkey[key] == 1 {
		r.Notes = append(r.Notes, key+": "+what)
	}
}

func (r *Report) Write() error {
	p := os.Getenv("VERIF_OUT")
	if p == "" {
		return nil
	}
	r.mu.Lock()
	defer r.mu.Unlock()
	if r.Stats == nil {
		r.Stats = map[string]any{}
	}
	r.Stats["violation_counts"] = r.seen
	r.Stats["note_counts"] = r.nkey
	if r.Samples == nil {
		r.Samples = []any{}
	}
	if r.Violations == nil {
		r.Violations = []Violation{}
	}
	if r.Notes == nil {
		r.Notes = []string{}
	}
	if r.Inconclusive == nil {
		r.Inconclusive = []string{}
	}
	b, err := json.Marshal(r)
	if err != nil {
		return err
	}
	return os.WriteFile(p, b, 0o644)
}

// ---------------------------------------------------------------- entries, owners

// Rec is the Data of every entry the harness logs: its identity.
type Rec struct {
	Case int // case number (entries of another Logger must never show up)
	ID   int // 1,2,3... in call order (sequential engines); 0 in the concurrent engine
	P    int // producer (concurrent engine)
	Seq  int // per-producer sequence number 1,2,3... (concurrent engine)
	O    int // owner number (index into owners; never 0)
	T    int // type (never 0)
}

type ownerObj struct{ n int }

// owner number -> owner value handed to Log/Filter.  0 is the nil owner (wildcard of Filter).
// Pointers (as the library itself uses: *Conn, *Clnt), a string and an integer.
var owners = []any{nil, &ownerObj{1}, &ownerObj{2}, "owner-3", 4}

// ---------------------------------------------------------------- the property, natively

func match(e Rec, o, t int) bool { return (o == 0 || e.O == o) && (t == 0 || e.T == t) }

// Judge evaluates the clauses of C20 (the same as Logger!Sound / Converges) on one observed
// result of Filter(o, t): ids are positions in hist (1-based, call order), -1 = not an entry
// that was logged.  cap = capacity; quiet = the channel is known to be empty.
func Judge(res []int, hist []Rec, cap, o, t int, quiet bool) []string {
	var f []string
	add := func(c string) {
		for _, x := range f {
			if x == c {
				return
			}
		}
		f = append(f, c)
	}
	n := len(hist)
	seen := map[int]bool{}
	for k, id := range res {
		if id < 1 || id > n {
			add("logged")
			continue
		}
		if !match(hist[id-1], o, t) {
			add("match")
		}
		if seen[id] {
			add("dup")
		}
		seen[id] = true
		if k+1 < len(res) {
			nx := res[k+1]
			if nx >= 1 && nx <= n {
				if id > nx {
					add("order")
				}
				for e := id + 1; e < nx; e++ {
					if match(hist[e-1], o, t) {
						add("skip")
						break
					}
				}
			}
		}
	}
	if len(res) > cap {
		add("cap")
	}
	if quiet {
		exp := Expected(hist, cap, o, t)
		if !eqInts(exp, res) {
			add("converge")
		}
	}
	sort.Strings(f)
	return f
}

// Expected: the matching entries among the cap most recently logged.
func Expected(hist []Rec, cap, o, t int) []int {
	n := len(hist)
	lo := n - cap + 1
	if lo < 1 {
		lo = 1
	}
	out := []int{}
	for id := lo; id <= n; id++ {
		if match(hist[id-1], o, t) {
			out = append(out, id)
		}
	}
	return out
}

func eqInts(a, b []int) bool {
	if len(a) != len(b) {
		return false
	}
	for i := range a {
		if a[i] != b[i] {
			return false
		}
	}
	return true
}

// IDs maps a Filter result to entry ids of case cs (-1: nil entry, foreign Data, another case, or
// an entry whose Owner/Type fields are not the ones it was logged with).
func IDs(res []*go9p.Log, cs int, hist []Rec) []int {
	out := make([]int, len(res))
	for i, e := range res {
		out[i] = -1
		if e == nil {
			continue
		}
		r, ok := e.Data.(*Rec)
		if !ok || r == nil || r.Case != cs || r.ID < 1 || r.ID > len(hist) {
			continue
		}
		if hist[r.ID-1] != *r || e.Owner != owners[r.O] || e.Type != r.T {
			continue
		}
		out[i] = r.ID
	}
	return out
}

// RefRing is what a ring of the current capacity ought to hold (Logger.tla: ref), used only for
// the observations about Resize, which are outside C20.
type RefRing struct {
	Cap int
	IDs []int
}

func (r *RefRing) Put(id int) {
	r.IDs = append(r.IDs, id)
	if len(r.IDs) > r.Cap {
		r.IDs = r.IDs[len(r.IDs)-r.Cap:]
	}
}

func (r *RefRing) Resize(sz int) {
	r.Cap = sz
	if len(r.IDs) > sz {
		r.IDs = r.IDs[len(r.IDs)-sz:]
	}
}

func (r *RefRing) Filter(hist []Rec, o, t int) []int {
	out := []int{}
	for _, id := range r.IDs {
		if match(hist[id-1], o, t) {
			out = append(out, id)
		}
	}
	return out
}

// ---------------------------------------------------------------- bubbles, hangs, watchdog

const (
	endPanic  = "main bubble goroutine has exited but blocked goroutines remain"
	hangPanic = "all goroutines in bubble are blocked"
)

// ClassifyBubblePanic: "" for the expected end of a bubble (the immortal doLog goroutines are the
// leftover), "hang" when a call into the Logger never returned, otherwise the panic text.
func ClassifyBubblePanic(r any) string {
	if r == nil {
		return ""
	}
	s := fmt.Sprint(r)
	switch {
	case strings.Contains(s, endPanic):
		return ""
	case strings.Contains(s, hangPanic):
		return "hang"
	}
	return s
}

// Progress is bumped by the engines; the watchdog (real time, outside every bubble) fires when it
// stops moving: a spinning logger goroutine makes synctest.Wait and every call wait forever.
var Progress atomic.Int64

// Current describes the case being executed (for hang / watchdog reports).
var Current atomic.Value

type progressFile struct{ f *os.File }

var pf progressFile

// Mark records the case about to run: in memory and in $VERIF_OUT.progress (a crash of the process,
// e.g. a panic in the logger goroutine, is attributed to it by lib/checks/c20.py).
func Mark(desc any) {
	Progress.Add(1)
	Current.Store(desc)
	if pf.f == nil {
		p := os.Getenv("VERIF_OUT")
		if p == "" {
			return
		}
		f, err := os.Create(p + ".progress")
		if err != nil {
			return
		}
		pf.f = f
	}
	b, _ := json.Marshal(desc)
	const w = 4096
	if len(b) > w-1 {
		b = b[:w-1]
	}
	buf := make([]byte, w)
	copy(buf, b)
	for i := len(b); i < w-1; i++ {
		buf[i] = ' '
	}
	buf[w-1] = '\n'
	pf.f.WriteAt(buf, 0)
}

// StartWatchdog: if Progress does not move for d, dump the goroutines, write the report and exit.
// A goroutine inside (*Logger).doLog that is not parked in its select is the logger spinning: for
// C20 ("neither call blocks indefinitely while the logger runs") that is a violation; anything
// else is inconclusive.
func StartWatchdog(rep *Report, d time.Duration, dump func() string) {
	go func() {
		last := Progress.Load()
		since := time.Now()
		for {
			time.Sleep(d / 20)
			cur := Progress.Load()
			if cur != last {
				last = cur
				since = time.Now()
				continue
			}
			if time.Since(since) < d {
				continue
			}
			// look twice, some time apart: the goroutine must be busy in doLog both times
			busy := func() bool {
				for _, g := range strings.Split(dump(), "\n\n") {
					if strings.Contains(g, "go9p.(*Logger).doLog") && !strings.Contains(strings.SplitN(g, "\n", 2)[0], "select") {
						return true
					}
				}
				return false
			}
			spinning := busy()
			time.Sleep(d / 3)
			if Progress.Load() != last {
				last = Progress.Load()
				since = time.Now()
				continue
			}
			spinning = spinning && busy()
			if spinning {
				rep.Viol("noblock:logger-goroutine-busy", fmt.Sprintf("no call returned for %v while the logger goroutine is busy inside doLog (not in its select)", d), Current.Load())
			} else {
				rep.Inconclusive = append(rep.Inconclusive, fmt.Sprintf("watchdog: no progress for %v; case %v", d, Current.Load()))
			}
			rep.Write()
			os.Exit(0)
		}
	}()
}
