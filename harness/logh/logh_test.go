package logh

import (
	"bufio"
	"encoding/json"
	"fmt"
	"io"
	"log"
	"math/rand"
	"os"
	"runtime"
	"sort"
	"strconv"
	"strings"
	"sync"
	"sync/atomic"
	"testing"
	"testing/synctest"
	"time"

	"github.com/rminnich/go9p"
)

func init() { log.SetOutput(io.Discard) }

func envInt(k string, def int) int {
	if v, err := strconv.Atoi(os.Getenv(k)); err == nil {
		return v
	}
	return def
}

func dumpAll() string {
	buf := make([]byte, 1<<22)
	return string(buf[:runtime.Stack(buf, true)])
}

// bubble runs fn in a fresh synctest bubble; Loggers created in it leave their goroutine behind,
// which is the expected way for the bubble to end.  Returns "" | "hang" | other panic text.
func bubble(t *testing.T, fn func()) (out string) {
	defer func() { out = ClassifyBubblePanic(recover()) }()
	synctest.Test(t, func(t *testing.T) { fn() })
	return ""
}

func cloneInts(a []int) []int { return append([]int{}, a...) }

// ---------------------------------------------------------------------------------------------
// spec -> code

type behaviour struct {
	ID    int     `json:"id"`
	Cap   int     `json:"cap"`
	Cls   string  `json:"cls"`
	Src   string  `json:"src"`
	Steps [][]any `json:"steps"`
}

// logger is what the replay engine drives: the real *go9p.Logger, or (binding self-test only,
// VERIF_HARNESS_MUTANT=dropoldest) a harness-side wrapper that spoils the answers.
type logger interface {
	Log(data, owner interface{}, itype int)
	Filter(owner interface{}, itype int) []*go9p.Log
	Resize(sz int)
}

type dropOldest struct{ *go9p.Logger }

func (d dropOldest) Filter(owner interface{}, itype int) []*go9p.Log {
	r := d.Logger.Filter(owner, itype)
	if len(r) > 1 {
		return r[1:]
	}
	return r
}

func num(v any) int { return int(v.(float64)) }

func ints(v any) []int {
	out := []int{}
	if v == nil {
		return out
	}
	for _, x := range v.([]any) {
		out = append(out, num(x))
	}
	return out
}

func TestReplay(t *testing.T) {
	rep := &Report{Engine: "logh.TestReplay"}
	StartWatchdog(rep, time.Duration(envInt("VERIF_WATCHDOG_S", 20))*time.Second, dumpAll)
	path := os.Getenv("VERIF_BEHAVIOURS")
	f, err := os.Open(path)
	if err != nil {
		rep.Inconclusive = append(rep.Inconclusive, "cannot read behaviours: "+err.Error())
		rep.Write()
		return
	}
	defer f.Close()
	var all []behaviour
	sc := bufio.NewScanner(f)
	sc.Buffer(make([]byte, 1<<20), 1<<26)
	for sc.Scan() {
		if strings.TrimSpace(sc.Text()) == "" {
			continue
		}
		var b behaviour
		if err := json.Unmarshal(sc.Bytes(), &b); err != nil {
			rep.Inconclusive = append(rep.Inconclusive, "bad behaviour line: "+err.Error())
			rep.Write()
			return
		}
		all = append(all, b)
	}
	var steps, filters, lfMismatch, rsBeh, rsPredDiff, rsRefDiff, hangs int
	mutant := os.Getenv("VERIF_HARNESS_MUTANT")
	distinct := map[string]bool{}
	const batch = 500
	for lo := 0; lo < len(all); lo += batch {
		hi := min(lo+batch, len(all))
		res := bubble(t, func() {
			for bi := lo; bi < hi; bi++ {
				b := &all[bi]
				Mark(map[string]any{"engine": "replay", "behaviour": b.ID, "cap": b.Cap, "cls": b.Cls, "src": b.Src, "steps": b.Steps})
				key, _ := json.Marshal([]any{b.Cap, b.Steps})
				distinct[string(key)] = true
				var l logger = go9p.NewLogger(b.Cap)
				if mutant == "dropoldest" {
					l = dropOldest{l.(*go9p.Logger)}
				}
				hist := []Rec{}
				ref := &RefRing{Cap: b.Cap}
				curcap := b.Cap
				predDiff, refDiff := false, false
				for si, st := range b.Steps {
					steps++
					switch st[0].(string) {
					case "LogSync":
						r := &Rec{Case: b.ID, ID: len(hist) + 1, O: num(st[1]), T: num(st[2])}
						hist = append(hist, *r)
						l.Log(r, owners[r.O], r.T)
						synctest.Wait()
						ref.Put(r.ID)
					case "Resize":
						synctest.Wait()
						l.Resize(num(st[1]))
						curcap = num(st[1])
						ref.Resize(curcap)
					case "FilterServe":
						o, ty := num(st[1]), num(st[2])
						want := ints(st[3])
						got := IDs(l.Filter(owners[o], ty), b.ID, hist)
						filters++
						replay := map[string]any{"engine": "replay", "cap": b.Cap, "steps": b.Steps[:si+1], "got": got, "predicted": want}
						if b.Cls == "lf" {
							if fc := Judge(got, hist, b.Cap, o, ty, true); len(fc) > 0 {
								rep.Viol(fmt.Sprintf("filter:%s:mode=quiescent:wrapped=%v", strings.Join(fc, "+"), len(hist) > b.Cap),
									fmt.Sprintf("NewLogger(%d), %d entries logged (queue drained), Filter(owner %d, type %d) returned ids %v; the matching entries among the %d most recent are %v",
										b.Cap, len(hist), o, ty, got, b.Cap, Expected(hist, b.Cap, o, ty)), replay)
							} else if !eqInts(got, want) {
								lfMismatch++
								rep.Inconclusive = append(rep.Inconclusive, fmt.Sprintf("drift: behaviour %d step %d: real %v, Logger.tla predicts %v, property clauses hold", b.ID, si, got, want))
							}
							if len(rep.Samples) < 4 && len(hist) > b.Cap && len(got) > 1 {
								rep.Samples = append(rep.Samples, map[string]any{"cap": b.Cap, "logged": len(hist), "filter": []int{o, ty}, "result": got, "predicted": want})
							}
						} else {
							if !eqInts(got, want) {
								predDiff = true
							}
							if fc := Judge(got, hist, curcap, o, ty, false); len(fc) > 0 {
								rep.Note("resize:"+strings.Join(fc, "+"), fmt.Sprintf("after Resize: cap %d steps %v -> Filter(%d,%d) = %v", b.Cap, b.Steps[:si+1], o, ty, got))
							}
							if !eqInts(got, ref.Filter(hist, o, ty)) {
								refDiff = true
								rep.Note("resize:window", fmt.Sprintf("cap %d steps %v -> Filter(%d,%d) = %v, a ring of the current capacity would hold %v", b.Cap, b.Steps[:si+1], o, ty, got, ref.Filter(hist, o, ty)))
							}
						}
					}
				}
				if b.Cls != "lf" {
					rsBeh++
					if predDiff {
						rsPredDiff++
					}
					if refDiff {
						rsRefDiff++
					}
				}
				rep.Cases++
			}
		})
		if res == "hang" {
			hangs++
			rep.Viol("noblock:hang:engine=replay", "a Log/Filter call never returned although the logger goroutine exists (every goroutine of the bubble is blocked)", Current.Load())
		} else if res != "" {
			rep.Inconclusive = append(rep.Inconclusive, "bubble panic: "+res)
		}
	}
	rep.Distinct = len(distinct)
	rep.Stats = map[string]any{"behaviours": len(all), "steps": steps, "filters_compared": filters, "lf_drift": lfMismatch,
		"rs_behaviours": rsBeh, "rs_differs_from_prediction": rsPredDiff, "rs_differs_from_reference_ring": rsRefDiff, "hangs": hangs}
	if err := rep.Write(); err != nil {
		t.Fatal(err)
	}
}

// ---------------------------------------------------------------------------------------------
// code -> spec

type op struct {
	K  string `json:"k"` // log | filter | quiet | resize | yield
	O  int    `json:"o,omitempty"`
	T  int    `json:"t,omitempty"`
	Sz int    `json:"sz,omitempty"`
}

type tcase struct {
	N    int    `json:"case"`
	Cap  int    `json:"cap"`
	Cls  string `json:"cls"`
	Len  string `json:"len"`
	NO   int    `json:"owners"`
	NT   int    `json:"types"`
	Ops  []op   `json:"ops,omitempty"`
	Seed int64  `json:"seed"`
}

func pickCap(rng *rand.Rand) int {
	switch x := rng.Intn(10); {
	case x < 3:
		return 1 + rng.Intn(3)
	case x < 5:
		return 15 + rng.Intn(4)
	case x < 6:
		return 64
	}
	return 1 + rng.Intn(64)
}

func pickLen(rng *rand.Rand, cap int) (string, int) {
	switch rng.Intn(4) {
	case 0:
		return "below", rng.Intn(cap)
	case 1:
		return "at", cap
	case 2:
		return "above", cap + 1 + rng.Intn(2*cap)
	}
	n := cap * (8 + rng.Intn(5))
	if n < cap+20 {
		n = cap + 20 + rng.Intn(20)
	}
	if n > 700 {
		n = 600 + rng.Intn(100)
	}
	return "far", n
}

func genCase(n int, seed int64, rsShare int) *tcase {
	rng := rand.New(rand.NewSource(seed))
	c := &tcase{N: n, Seed: seed, Cap: pickCap(rng), Cls: "lf", NO: 1 + rng.Intn(4), NT: 1 + rng.Intn(3)}
	if rng.Intn(100) < rsShare {
		c.Cls = "rs"
	}
	var nlog int
	c.Len, nlog = pickLen(rng, c.Cap)
	pf := []float64{0.05, 0.2, 0.5}[rng.Intn(3)]
	pq := []float64{0, 0.02, 0.1}[rng.Intn(3)]
	py := []float64{0, 0.1, 0.5}[rng.Intn(3)]
	logged := 0
	for logged < nlog {
		x := rng.Float64()
		switch {
		case x < pf:
			c.Ops = append(c.Ops, op{K: "filter", O: rng.Intn(c.NO + 1), T: rng.Intn(c.NT + 1)})
		case x < pf+pq:
			c.Ops = append(c.Ops, op{K: "quiet"})
		case x < pf+pq+py*0.2:
			c.Ops = append(c.Ops, op{K: "yield"})
		case c.Cls == "rs" && x < pf+pq+py*0.2+0.04:
			c.Ops = append(c.Ops, op{K: "resize", Sz: 1 + rng.Intn(min(64, 2*c.Cap+1))})
		default:
			c.Ops = append(c.Ops, op{K: "log", O: 1 + rng.Intn(c.NO), T: 1 + rng.Intn(c.NT)})
			logged++
		}
	}
	if c.Cls == "rs" { // at least one Resize, then some more logging
		c.Ops = append(c.Ops, op{K: "resize", Sz: 1 + rng.Intn(min(64, 2*c.Cap+1))})
		for i := rng.Intn(c.Cap + 3); i > 0; i-- {
			c.Ops = append(c.Ops, op{K: "log", O: 1 + rng.Intn(c.NO), T: 1 + rng.Intn(c.NT)})
		}
	}
	// logging stops: quiescence, then every filter
	c.Ops = append(c.Ops, op{K: "quiet"})
	for o := 0; o <= c.NO; o++ {
		for t := 0; t <= c.NT; t++ {
			c.Ops = append(c.Ops, op{K: "filter", O: o, T: t})
		}
	}
	return c
}

type ndw struct {
	f     *os.File
	w     *bufio.Writer
	lines int
	cases int
	max   int
}

func newNDW(path string, max int) *ndw {
	if path == "" {
		return &ndw{}
	}
	f, err := os.Create(path)
	if err != nil {
		return &ndw{}
	}
	return &ndw{f: f, w: bufio.NewWriterSize(f, 1<<20), max: max}
}

func (n *ndw) put(lines []any) {
	if n.f == nil || n.lines+len(lines) > n.max {
		return
	}
	for _, e := range lines {
		b, _ := json.Marshal(e)
		n.w.Write(b)
		n.w.WriteByte('\n')
	}
	n.lines += len(lines)
	n.cases++
}

func (n *ndw) close() {
	if n.f != nil {
		n.w.Flush()
		n.f.Close()
	}
}

func TestTraces(t *testing.T) {
	rep := &Report{Engine: "logh.TestTraces"}
	StartWatchdog(rep, time.Duration(envInt("VERIF_WATCHDOG_S", 20))*time.Second, dumpAll)
	seed := int64(envInt("VERIF_SEED", 1))
	ncases := envInt("VERIF_CASES", 300)
	rsShare := envInt("VERIF_RS_SHARE", 15)
	out := os.Getenv("VERIF_TRACE_OUT")
	var wlf, wrs *ndw
	if out != "" {
		wlf = newNDW(out+".lf.ndjson", envInt("VERIF_TLC_LINES", 20000))
		wrs = newNDW(out+".rs.ndjson", envInt("VERIF_TLC_LINES", 20000)/4)
	} else {
		wlf, wrs = &ndw{}, &ndw{}
	}
	var cases []*tcase
	for i := 1; i <= ncases; i++ {
		cases = append(cases, genCase(i, seed*1000003+int64(i), rsShare))
	}
	if only := os.Getenv("VERIF_ONLY_CASE"); only != "" { // "<case>:<seed>", re-execution of one recorded case
		var n int
		var sd int64
		fmt.Sscanf(only, "%d:%d", &n, &sd)
		cases = nil
		for i := 0; i < envInt("VERIF_REPEAT", 200); i++ { // the schedule of the logger goroutine is not controlled: repeat
			cases = append(cases, genCase(n, sd, rsShare))
		}
	}
	distinct := map[string]bool{}
	var nfilters, novertake, nlogs, nquietFilters, rsCases, rsRefDiff, hangs int
	lens := map[string]int{}
	caps := map[int]bool{}
	const batch = 40
	for lo := 0; lo < len(cases); lo += batch {
		hi := min(lo+batch, len(cases))
		res := bubble(t, func() {
			for ci := lo; ci < hi; ci++ {
				c := cases[ci]
				Mark(map[string]any{"engine": "traces", "seed": c.Seed, "case": c.N, "cap": c.Cap, "cls": c.Cls, "len": c.Len})
				l := go9p.NewLogger(c.Cap)
				lines := []any{map[string]any{"ev": "Reset", "case": c.N, "cap": c.Cap, "cls": c.Cls}}
				hist := []Rec{}
				ref := &RefRing{Cap: c.Cap}
				pending := []int{} // logged since the last quiescence (reference ring only)
				curcap := c.Cap
				quiet := true
				refDiff := false
				for oi, p := range c.Ops {
					switch p.K {
					case "log":
						r := &Rec{Case: c.N, ID: len(hist) + 1, O: p.O, T: p.T}
						hist = append(hist, *r)
						l.Log(r, owners[r.O], r.T)
						pending = append(pending, r.ID)
						quiet = false
						nlogs++
						lines = append(lines, map[string]any{"ev": "Log", "o": p.O, "t": p.T})
					case "yield":
						runtime.Gosched()
					case "quiet":
						synctest.Wait()
						for _, id := range pending {
							ref.Put(id)
						}
						pending = pending[:0]
						quiet = true
						lines = append(lines, map[string]any{"ev": "Quiet"})
					case "resize":
						synctest.Wait()
						for _, id := range pending {
							ref.Put(id)
						}
						pending = pending[:0]
						quiet = true
						l.Resize(p.Sz)
						curcap = p.Sz
						ref.Resize(p.Sz)
						lines = append(lines, map[string]any{"ev": "Resize", "sz": p.Sz})
					case "filter":
						got := IDs(l.Filter(owners[p.O], p.T), c.N, hist)
						nfilters++
						lines = append(lines, map[string]any{"ev": "Filter", "o": p.O, "t": p.T, "res": got})
						if quiet {
							nquietFilters++
						} else if !eqInts(got, Expected(hist, c.Cap, p.O, p.T)) && c.Cls == "lf" {
							novertake++ // the Filter overtook queued entries (its answer is an earlier window)
						}
						replay := map[string]any{"engine": "traces", "seed": c.Seed, "case": c.N, "cap": c.Cap, "ops": c.Ops[:oi+1], "got": got}
						if c.Cls == "lf" {
							if fc := Judge(got, hist, c.Cap, p.O, p.T, quiet); len(fc) > 0 {
								mode := "async"
								if quiet {
									mode = "quiescent"
								}
								rep.Viol(fmt.Sprintf("filter:%s:mode=%s:wrapped=%v", strings.Join(fc, "+"), mode, len(hist) > c.Cap),
									fmt.Sprintf("NewLogger(%d), %d Log calls returned (%s), Filter(owner %d, type %d) returned ids %v; matching among the %d most recent: %v",
										c.Cap, len(hist), mode, p.O, p.T, got, c.Cap, Expected(hist, c.Cap, p.O, p.T)), replay)
							}
							if len(rep.Samples) < 4 && len(hist) > 2*c.Cap && len(got) > 1 && !quiet {
								rep.Samples = append(rep.Samples, map[string]any{"cap": c.Cap, "log_calls_returned": len(hist), "filter": []int{p.O, p.T}, "result": got})
							}
						} else {
							if fc := Judge(got, hist, curcap, p.O, p.T, false); len(fc) > 0 {
								rep.Note("resize:"+strings.Join(fc, "+"), fmt.Sprintf("seed %d cap %d: after Resize Filter(%d,%d) = %v (current capacity %d)", c.Seed, c.Cap, p.O, p.T, got, curcap))
							}
							if quiet && !eqInts(got, ref.Filter(hist, p.O, p.T)) {
								refDiff = true
								rep.Note("resize:window", fmt.Sprintf("seed %d cap %d: Filter(%d,%d) = %v, a ring of the current capacity %d would hold %v", c.Seed, c.Cap, p.O, p.T, got, curcap, ref.Filter(hist, p.O, p.T)))
							}
						}
					}
				}
				if c.Cls == "lf" {
					wlf.put(lines)
				} else {
					wrs.put(lines)
					rsCases++
					if refDiff {
						rsRefDiff++
					}
				}
				lens[c.Len]++
				caps[c.Cap] = true
				distinct[fmt.Sprint(c.Cap, c.Ops)] = true
				rep.Cases++
			}
		})
		if res == "hang" {
			hangs++
			rep.Viol("noblock:hang:engine=traces", "a Log/Filter call never returned although the logger goroutine exists (every goroutine of the bubble is blocked)", Current.Load())
		} else if res != "" {
			rep.Inconclusive = append(rep.Inconclusive, "bubble panic: "+res)
		}
	}
	wlf.close()
	wrs.close()
	rep.Distinct = len(distinct)
	rep.Stats = map[string]any{"log_calls": nlogs, "filters": nfilters, "filters_quiescent": nquietFilters, "filters_overtaking": novertake,
		"length_classes": lens, "capacities": len(caps), "rs_cases": rsCases, "rs_differs_from_reference_ring": rsRefDiff,
		"tlc_lf_cases": wlf.cases, "tlc_lf_lines": wlf.lines, "tlc_rs_cases": wrs.cases, "tlc_rs_lines": wrs.lines, "hangs": hangs}
	if err := rep.Write(); err != nil {
		t.Fatal(err)
	}
}

// ---------------------------------------------------------------------------------------------
// concurrent producers

type ccase struct {
	N     int   `json:"case"`
	Seed  int64 `json:"seed"`
	Cap   int   `json:"cap"`
	P     int   `json:"producers"`
	L     []int `json:"entries_per_producer"`
	F     int   `json:"filterers"`
	K     int   `json:"filters_each"`
	NO    int   `json:"owners"`
	NT    int   `json:"types"`
	Yield int   `json:"yield_percent"`
}

// judgeConc: the clauses of C20 that are observable without a global order of the Log calls.
func judgeConc(res []*go9p.Log, cs, o, t, cap int, issued []int, recs [][]*Rec) []string {
	var f []string
	add := func(c string) {
		for _, x := range f {
			if x == c {
				return
			}
		}
		f = append(f, c)
	}
	if len(res) > cap {
		add("cap")
	}
	seen := map[*Rec]bool{}
	lastSeq := map[int]int{}
	for _, e := range res {
		if e == nil {
			add("logged")
			continue
		}
		r, ok := e.Data.(*Rec)
		if !ok || r == nil || r.Case != cs || r.P < 0 || r.P >= len(recs) || r.Seq < 1 || r.Seq > len(recs[r.P]) ||
			recs[r.P][r.Seq-1] != r || r.Seq > issued[r.P] || e.Owner != owners[r.O] || e.Type != r.T {
			add("logged")
			continue
		}
		if !match(*r, o, t) {
			add("match")
		}
		if seen[r] {
			add("dup")
			continue
		}
		seen[r] = true
		if prev, ok := lastSeq[r.P]; ok {
			if r.Seq < prev {
				add("order")
			} else {
				for s := prev + 1; s < r.Seq; s++ {
					if match(*recs[r.P][s-1], o, t) {
						add("skip")
						break
					}
				}
			}
		}
		lastSeq[r.P] = r.Seq
	}
	sort.Strings(f)
	return f
}

func TestConcurrent(t *testing.T) {
	rep := &Report{Engine: "logh.TestConcurrent"}
	StartWatchdog(rep, time.Duration(envInt("VERIF_WATCHDOG_S", 20))*time.Second, dumpAll)
	seed := int64(envInt("VERIF_SEED", 1))
	ncases := envInt("VERIF_CASES", 200)
	var nfilters, nlogs, hangs, partial, mixed, mixedFinal int
	distinct := map[string]bool{}
	caps := map[int]bool{}
	const batch = 20
	var cases []*ccase
	for i := 1; i <= ncases; i++ {
		rng := rand.New(rand.NewSource(seed*7000003 + int64(i)))
		c := &ccase{N: i, Seed: seed*7000003 + int64(i), Cap: pickCap(rng), P: 2 + rng.Intn(3), F: 1 + rng.Intn(2), K: 5 + rng.Intn(40),
			NO: 1 + rng.Intn(4), NT: 1 + rng.Intn(3), Yield: []int{0, 10, 50}[rng.Intn(3)]}
		_, total := pickLen(rng, c.Cap)
		for p := 0; p < c.P; p++ {
			c.L = append(c.L, total/c.P+rng.Intn(3))
		}
		cases = append(cases, c)
	}
	for lo := 0; lo < len(cases); lo += batch {
		hi := min(lo+batch, len(cases))
		res := bubble(t, func() {
			for ci := lo; ci < hi; ci++ {
				c := cases[ci]
				Mark(map[string]any{"engine": "concurrent", "case": c})
				rng := rand.New(rand.NewSource(c.Seed))
				recs := make([][]*Rec, c.P)
				total := 0
				for p := range recs {
					for s := 1; s <= c.L[p]; s++ {
						recs[p] = append(recs[p], &Rec{Case: c.N, P: p, Seq: s, O: 1 + rng.Intn(c.NO), T: 1 + rng.Intn(c.NT)})
					}
					total += c.L[p]
				}
				l := go9p.NewLogger(c.Cap)
				issued := make([]atomic.Int64, c.P)
				snapshot := func() []int {
					out := make([]int, c.P)
					for p := range out {
						out[p] = int(issued[p].Load())
					}
					return out
				}
				var wg sync.WaitGroup
				var mu sync.Mutex
				start := make(chan struct{})
				var arrived atomic.Int64 // all workers spin until everybody runs: a simultaneous start
				gate := func() {
					<-start
					arrived.Add(1)
					for arrived.Load() < int64(c.P+c.F) {
						runtime.Gosched()
					}
				}
				for p := 0; p < c.P; p++ {
					wg.Add(1)
					go func(p int, prng *rand.Rand) {
						defer wg.Done()
						gate()
						for _, r := range recs[p] {
							issued[p].Store(int64(r.Seq))
							l.Log(r, owners[r.O], r.T)
							if prng.Intn(100) < c.Yield {
								runtime.Gosched()
							}
						}
					}(p, rand.New(rand.NewSource(c.Seed+int64(p)+1)))
				}
				for fi := 0; fi < c.F; fi++ {
					wg.Add(1)
					go func(fi int, frng *rand.Rand) {
						defer wg.Done()
						gate()
						for k := 0; k < c.K; k++ {
							o, ty := frng.Intn(c.NO+1), frng.Intn(c.NT+1)
							r := l.Filter(owners[o], ty)
							iss := snapshot()
							fc := judgeConc(r, c.N, o, ty, c.Cap, iss, recs)
							mu.Lock()
							nfilters++
							if len(r) > 0 && len(r) < c.Cap {
								partial++
							}
							if producersIn(r) > 1 {
								mixed++
							}
							if len(fc) > 0 {
								rep.Viol("conc:filter:"+strings.Join(fc, "+"),
									fmt.Sprintf("NewLogger(%d), %d producers logging concurrently: Filter(owner %d, type %d) returned %s", c.Cap, c.P, o, ty, showConc(r)),
									map[string]any{"engine": "concurrent", "case": c, "filter": []int{o, ty}})
							}
							mu.Unlock()
							if frng.Intn(100) < c.Yield {
								runtime.Gosched()
							}
						}
					}(fi, rand.New(rand.NewSource(c.Seed+100+int64(fi))))
				}
				synctest.Wait()
				close(start)
				wg.Wait()
				synctest.Wait() // logging has stopped and the channel is empty
				nlogs += total
				// convergence
				var fc []string
				w := l.Filter(nil, 0)
				fc = append(fc, judgeConc(w, c.N, 0, 0, c.Cap, c.L, recs)...)
				if len(fc) > 0 {
					// already unsound; the checks below assume well-formed entries
				} else if len(w) != min(c.Cap, total) {
					fc = append(fc, "converge")
				} else {
					cnt := make([]int, c.P)
					minSeq := make([]int, c.P)
					for _, e := range w {
						if r, ok := e.Data.(*Rec); ok && r.P >= 0 && r.P < c.P {
							cnt[r.P]++
							if minSeq[r.P] == 0 || r.Seq < minSeq[r.P] {
								minSeq[r.P] = r.Seq
							}
						}
					}
					for p := 0; p < c.P; p++ { // the entries of p in the window are p's most recent cnt[p]
						if cnt[p] > 0 && minSeq[p] != c.L[p]-cnt[p]+1 {
							fc = append(fc, "converge")
							break
						}
					}
				}
				for o := 0; o <= c.NO && len(fc) == 0; o++ {
					for ty := 0; ty <= c.NT; ty++ {
						r := l.Filter(owners[o], ty)
						nfilters++
						var want []*go9p.Log
						for _, e := range w {
							if rr, ok := e.Data.(*Rec); ok && match(*rr, o, ty) {
								want = append(want, e)
							}
						}
						same := len(want) == len(r)
						for i := 0; same && i < len(r); i++ {
							same = r[i] == want[i]
						}
						if !same {
							fc = append(fc, "converge")
							break
						}
					}
				}
				if len(fc) > 0 {
					sort.Strings(fc)
					fc = uniq(fc)
					rep.Viol("conc:final:"+strings.Join(fc, "+"),
						fmt.Sprintf("NewLogger(%d), %d producers logged %v entries, all calls returned and the channel is empty: Filter(nil, 0) returned %s", c.Cap, c.P, c.L, showConc(w)),
						map[string]any{"engine": "concurrent", "case": c})
				}
				if producersIn(w) > 1 {
					mixedFinal++
				}
				if len(rep.Samples) < 3 && total > c.Cap && producersIn(w) > 1 {
					rep.Samples = append(rep.Samples, map[string]any{"case": c, "final_window": showConc(w)})
				}
				caps[c.Cap] = true
				distinct[fmt.Sprint(c.Cap, c.P, c.L, c.F, c.K, c.Seed)] = true
				rep.Cases++
			}
		})
		if res == "hang" {
			hangs++
			rep.Viol("noblock:hang:engine=concurrent", "a Log/Filter call never returned although the logger goroutine exists (every goroutine of the bubble is blocked)", Current.Load())
		} else if res != "" {
			rep.Inconclusive = append(rep.Inconclusive, "bubble panic: "+res)
		}
	}
	rep.Distinct = len(distinct)
	rep.Stats = map[string]any{"log_calls": nlogs, "filters": nfilters, "filters_partial_window": partial, "capacities": len(caps), "hangs": hangs,
		"results_mixing_producers": mixed, "final_windows_mixing_producers": mixedFinal}
	if err := rep.Write(); err != nil {
		t.Fatal(err)
	}
}

func producersIn(res []*go9p.Log) int {
	ps := map[int]bool{}
	for _, e := range res {
		if e != nil {
			if r, ok := e.Data.(*Rec); ok && r != nil {
				ps[r.P] = true
			}
		}
	}
	return len(ps)
}

func uniq(s []string) []string {
	var out []string
	for i, x := range s {
		if i == 0 || x != s[i-1] {
			out = append(out, x)
		}
	}
	return out
}

func showConc(res []*go9p.Log) string {
	var b strings.Builder
	b.WriteString("[")
	for i, e := range res {
		if i > 0 {
			b.WriteString(" ")
		}
		if i >= 24 {
			fmt.Fprintf(&b, "... %d entries", len(res))
			break
		}
		if e == nil {
			b.WriteString("nil")
		} else if r, ok := e.Data.(*Rec); ok && r != nil {
			fmt.Fprintf(&b, "p%d#%d", r.P, r.Seq)
		} else {
			b.WriteString("?")
		}
	}
	b.WriteString("]")
	return b.String()
}

var _ = cloneInts
