//go:build unix

package pipefsh

import (
	"bufio"
	"encoding/json"
	"fmt"
	"math/rand"
	"os"
	"strings"
	"sync"
	"testing"
	"time"

	"verif/harness/wire"

	"github.com/rminnich/go9p"
)

type behaviour struct {
	ID    int     `json:"id"`
	Steps [][]any `json:"steps"`
}

func readCfg(t *testing.T) Cfg {
	var c Cfg
	if err := json.Unmarshal([]byte(os.Getenv("VERIF_PFCFG")), &c); err != nil {
		t.Fatalf("VERIF_PFCFG: %v", err)
	}
	return c
}

// actOf turns a tour step (["Do", [act...]] or ["DoRead", f, off, count]) into an action.
func actOf(st []any) []any {
	switch st[0] {
	case "Do":
		return st[1].([]any)
	case "DoRead":
		return []any{"dread", st[1], st[2], st[3]}
	}
	return st
}

type runner struct {
	cfg   Cfg
	rep   *Report
	tw    *NDWriter
	prog  string
	pf    *os.File // progress: the case being executed
	af    *os.File // progress: the action being executed
	start int
	steps int
	cut   int
}

func newRunner(t *testing.T, engine string) *runner {
	r := &runner{cfg: readCfg(t), rep: NewReport(engine), prog: os.Getenv("VERIF_PROGRESS"), start: envInt("VERIF_START", 0)}
	r.tw = OpenND(os.Getenv("VERIF_TRACE_OUT"), r.start > 0)
	return r
}

// progress records the case and the action being executed for the check (a panic of the server
// kills this process).  The files are rewritten in place, padded with blanks (truncating a file on
// every step is slow); long strings of an action are replaced by their length.
func (r *runner) progress(id int, act any) {
	if r.prog == "" {
		return
	}
	if r.pf == nil {
		r.pf, _ = os.OpenFile(r.prog, os.O_CREATE|os.O_WRONLY|os.O_TRUNC, 0o644)
		r.af, _ = os.OpenFile(r.prog+".act", os.O_CREATE|os.O_WRONLY|os.O_TRUNC, 0o644)
	}
	if act == nil {
		r.pf.WriteAt([]byte(fmt.Sprintf("%-12d", id)), 0)
		return
	}
	if l, ok := act.([]any); ok {
		short := make([]any, len(l))
		for i, x := range l {
			if s, ok := x.(string); ok && len(s) > 40 {
				x = fmt.Sprintf("<%d bytes>", len(s))
			}
			short[i] = x
		}
		act = short
	}
	b, _ := json.Marshal(act)
	if len(b) > 500 {
		b, _ = json.Marshal(string(b[:200]))
	}
	r.af.WriteAt([]byte(fmt.Sprintf("%-512s", b)), 0)
}

// run executes one history and writes its trace lines.  gen, if not nil, produces the next action
// from the read-back of the previous step (random engine); else acts is replayed.
func (r *runner) run(id int, acts [][]any, gen func(h *H, post map[string]any) []any) {
	if id < r.start {
		return
	}
	r.progress(id, nil)
	h, err := NewH(r.cfg)
	if err != nil {
		r.rep.Inconc(fmt.Sprintf("case %d: cannot start the server: %v", id, err))
		return
	}
	defer h.Close()
	lines := []any{map[string]any{"act": []any{"Reset"}, "case": id}}
	post, err := h.Post()
	if err != nil {
		r.rep.Inconc(fmt.Sprintf("case %d: %v", id, err))
		return
	}
	for i := 0; ; i++ {
		var a []any
		if gen != nil {
			a = gen(h, post)
			if a == nil {
				break
			}
		} else {
			if i >= len(acts) {
				break
			}
			a = acts[i]
		}
		r.progress(id, a)
		obs, err := h.Exec(a)
		if err == ErrCut {
			r.cut++
			break
		}
		if err != nil {
			r.rep.Inconc(fmt.Sprintf("case %d step %d %v: %v", id, i, a, err))
			break
		}
		post, err = h.Post()
		if err != nil {
			r.rep.Inconc(fmt.Sprintf("case %d step %d %v: read-back failed: %v", id, i, a, err))
			break
		}
		lines = append(lines, map[string]any{"act": a, "obs": obs, "post": post})
		r.steps++
	}
	for _, l := range lines {
		r.tw.Put(l)
	}
	r.tw.Flush()
	r.rep.Cases++
	if len(r.rep.Samples) < 2 && len(lines) > 2 {
		n := len(lines)
		if n > 5 {
			n = 5
		}
		r.rep.Samples = append(r.rep.Samples, map[string]any{"case": id, "first_lines": lines[:n]})
	}
}

func (r *runner) finish(t *testing.T) {
	r.tw.Close()
	r.rep.Distinct = r.rep.Cases
	r.rep.Stats["steps"] = r.steps
	r.rep.Stats["histories_cut_before_a_read_past_the_listing"] = r.cut
	if err := r.rep.Write(); err != nil {
		t.Fatal(err)
	}
}

// TestPipefsReplay executes TLC-generated histories (transition tours) and recorded histories.
func TestPipefsReplay(t *testing.T) {
	bpath := os.Getenv("VERIF_BEHAVIOURS")
	if bpath == "" {
		t.Skip("no behaviours")
	}
	r := newRunner(t, "pipefs-replay")
	fh, err := os.Open(bpath)
	if err != nil {
		t.Fatal(err)
	}
	defer fh.Close()
	sc := bufio.NewScanner(fh)
	sc.Buffer(make([]byte, 1<<20), 1<<26)
	for sc.Scan() {
		if strings.TrimSpace(sc.Text()) == "" {
			continue
		}
		var b behaviour
		if err := json.Unmarshal(sc.Bytes(), &b); err != nil {
			t.Fatal(err)
		}
		acts := make([][]any, 0, len(b.Steps))
		for _, st := range b.Steps {
			acts = append(acts, actOf(st))
		}
		r.run(b.ID, acts, nil)
	}
	r.finish(t)
}

// TestPipefsCalibrate measures the size of a stat record without its name in the configured
// dialect (it depends on the user and group names the server reports).
func TestPipefsCalibrate(t *testing.T) {
	cfg := readCfg(t)
	rep := NewReport("pipefs-calibrate")
	h, err := NewH(cfg)
	if err != nil {
		t.Fatal(err)
	}
	defer h.Close()
	if _, err := h.Exec([]any{"attach", 1, false, []any{}, 0}); err != nil {
		t.Fatal(err)
	}
	o, err := h.Exec([]any{"stat", 1})
	if err != nil || o["reply"] != "ok" {
		t.Fatalf("stat of the root: %v %v", o, err)
	}
	st := o["stat"].([]any)
	rep.Stats["statbase"] = toInt(o["statsize"]) - len(st[0].(string))
	rep.Stats["rootname"] = st[0]
	rep.Cases = 1
	if err := rep.Write(); err != nil {
		t.Fatal(err)
	}
}

// ---------------------------------------------------------------- seeded random histories

type genCfg struct {
	Cases    int      `json:"cases"`
	Steps    int      `json:"steps"`
	Names    []string `json:"names"`
	MaxDepth int      `json:"maxdepth"`
	MaxBuf   int      `json:"maxbuf"`
}

type gen struct {
	rng  *rand.Rand
	cfg  Cfg
	gc   genCfg
	left int
}

type fidView struct {
	used  bool
	path  []string
	open  bool
	ty    string
	omode int
	data  string
}

func viewFids(post map[string]any) []fidView {
	out := []fidView{{}}
	for _, x := range post["fids"].([][]any) {
		out = append(out, fidView{used: x[0].(bool), path: toStrs(x[1]), open: x[2].(bool), ty: x[3].(string), omode: toInt(x[4]), data: x[6].(string)})
	}
	return out
}

func (g *gen) name() string { return g.gc.Names[g.rng.Intn(len(g.gc.Names))] }

func (g *gen) letters(n int) string {
	b := make([]byte, n)
	for i := range b {
		b[i] = "abcdefghijklmnopqrstuvwxyz0123456789"[g.rng.Intn(36)]
	}
	return string(b)
}

func pick[T any](rng *rand.Rand, xs []T) T { return xs[rng.Intn(len(xs))] }

func (g *gen) next(h *H, post map[string]any) []any {
	rng := g.rng
	fids := viewFids(post)
	var free, used []int
	for f := 1; f < len(fids); f++ {
		if fids[f].used {
			used = append(used, f)
		} else {
			free = append(free, f)
		}
	}
	lkind := func(p []string) string { // what Lstat says about the fid's path right now
		fi, err := os.Lstat(h.hostPath(p))
		if err != nil {
			return "none"
		}
		return kindOfMode(fi.Mode())
	}
	children := func(p []string) []string {
		des, _ := os.ReadDir(h.hostPath(p))
		out := []string{}
		for _, d := range des {
			out = append(out, d.Name())
		}
		return out
	}
	maxio := int(g.cfg.Msize) - 24
	for try := 0; try < 300; try++ {
		switch rng.Intn(40) {
		case 0, 1, 2:
			if len(free) == 0 || (len(used) >= 3 && rng.Intn(4) != 0) {
				continue
			}
			f := pick(rng, free)
			switch rng.Intn(6) {
			case 0: // aname names something below the root (or nothing)
				p := []any{}
				cur := []string{}
				for d := 0; d < 1+rng.Intn(g.gc.MaxDepth); d++ {
					ch := children(cur)
					n := g.name()
					if len(ch) > 0 && rng.Intn(4) != 0 {
						n = pick(rng, ch)
					}
					p = append(p, n)
					cur = append(cur, n)
				}
				return []any{"attach", f, true, p, 0}
			case 1:
				return []any{"attach", f, true, []any{}, 0}
			case 2:
				if rng.Intn(3) == 0 {
					return []any{"attach", f, false, []any{}, 1 + rng.Intn(g.cfg.NFids)}
				}
			}
			return []any{"attach", f, false, []any{}, 0}
		case 3, 4, 5, 6, 7:
			if len(used) == 0 {
				continue
			}
			f := pick(rng, used)
			if fids[f].open && rng.Intn(8) != 0 {
				continue
			}
			nf := f
			if len(free) > 0 && rng.Intn(4) != 0 {
				nf = pick(rng, free)
			} else if rng.Intn(10) == 0 {
				nf = pick(rng, used)
			}
			k := 0
			if fids[f].ty == "dir" || rng.Intn(10) == 0 {
				k = rng.Intn(g.gc.MaxDepth + 2)
			}
			names := []any{}
			cur := append([]string{}, fids[f].path...)
			for i := 0; i < k; i++ {
				ch := children(cur)
				n := g.name()
				if len(ch) > 0 && rng.Intn(6) != 0 {
					n = pick(rng, ch)
				} else if rng.Intn(3) != 0 {
					break // nothing below: mostly stop here
				}
				names = append(names, n)
				cur = append(cur, n)
			}
			return []any{"walk", f, nf, names}
		case 8, 9, 10:
			if len(used) == 0 {
				continue
			}
			f := pick(rng, used)
			if fids[f].open && rng.Intn(8) != 0 {
				continue
			}
			m := 0
			if fids[f].ty != "dir" || rng.Intn(10) == 0 {
				m = pick(rng, []int{0, 1, 2, 2, 2, 1, 3, 16, 17, 18, 64, 66})
			}
			return []any{"open", f, m}
		case 11, 12, 13, 14, 30, 31, 32, 33:
			if len(used) == 0 {
				continue
			}
			f := pick(rng, used)
			if (fids[f].open || fids[f].ty != "dir") && rng.Intn(10) != 0 {
				continue
			}
			if len(fids[f].path)+1 > g.gc.MaxDepth {
				continue
			}
			if len(fids[f].path) == 0 && rng.Intn(3) == 0 {
				continue // prefer growing the tree below the root's children
			}
			kind := pick(rng, []string{"file", "file", "file", "file", "dir", "dir", "dir", "sym", "sym", "link", "link", "pipe", "dev", "sock"})
			m := 0
			if kind != "dir" || rng.Intn(12) == 0 {
				m = pick(rng, []int{0, 1, 2, 2, 2, 1, 17, 18})
			}
			lf := 0
			if kind == "link" {
				lf = 1 + rng.Intn(g.cfg.NFids)
				var srcs []int
				for _, u := range used {
					if k := lkind(fids[u].path); k == "file" || k == "sym" {
						srcs = append(srcs, u)
					}
				}
				if len(srcs) > 0 && rng.Intn(5) != 0 {
					lf = pick(rng, srcs)
				}
				if rng.Intn(10) == 0 {
					lf = pick(rng, []int{0, f, 77})
				}
			}
			n := g.name()
			if ch := children(fids[f].path); len(ch) > 0 && rng.Intn(4) == 0 {
				n = pick(rng, ch)
			}
			return []any{"create", f, n, kind, m, g.name(), lf}
		case 15, 16, 17, 18, 34:
			if len(used) == 0 {
				continue
			}
			f := pick(rng, used)
			wr := fids[f].open && fids[f].ty != "dir" && (fids[f].omode&3 == 1 || fids[f].omode&3 == 2)
			if !wr && rng.Intn(12) != 0 {
				continue
			}
			if len(fids[f].data) > g.gc.MaxBuf {
				continue
			}
			n := pick(rng, []int{0, 1, 2, 3, 5, 8, 13, 40, 100, maxio / 2, maxio - 1, maxio, maxio + 1, 1 + rng.Intn(maxio)})
			if n > maxio+1 {
				n = maxio + 1
			}
			return []any{"write", f, g.letters(n)}
		case 19, 20, 21, 22, 35, 36:
			if len(used) == 0 {
				continue
			}
			f := pick(rng, used)
			var full []int
			for _, u := range used {
				if len(fids[u].data) > 0 {
					full = append(full, u)
				}
			}
			if len(full) > 0 && rng.Intn(4) != 0 {
				f = pick(rng, full)
			}
			k := lkind(fids[f].path)
			if k == "dir" {
				continue
			}
			if len(fids[f].data) == 0 && rng.Intn(8) != 0 {
				continue
			}
			l := len(fids[f].data)
			n := pick(rng, []int{0, 1, 2, 3, l - 1, l, l + 1, l / 2, maxio, maxio + 1, 1 + rng.Intn(maxio)})
			if n < 0 {
				n = 0
			}
			return []any{"read", f, pick(rng, []int{0, 0, 0, 7, l, -1, -2}), n}
		case 23, 24, 25, 26, 37, 38, 39:
			if len(used) == 0 {
				continue
			}
			f := pick(rng, used)
			if lkind(fids[f].path) != "dir" {
				continue
			}
			v, err := h.fidAux(f)
			if err != nil {
				return nil
			}
			total := len(v.dirents)
			if total == 0 {
				// nothing listed yet (or an empty directory): mostly take the listing first
				if len(children(fids[f].path)) == 0 && rng.Intn(3) != 0 {
					continue
				}
				if rng.Intn(5) != 0 {
					return []any{"dread", f, 0, pick(rng, []int{0, 1, 64, 70, 130, 200, maxio, rng.Intn(maxio + 1)})}
				}
			}
			ents, _ := h.decodeListing(v.dirents)
			bound := 0
			if len(ents) > 0 {
				for i := 0; i <= rng.Intn(len(ents)); i++ {
					bound += toInt(ents[i][1])
				}
			}
			off := pick(rng, []int{0, 0, 0, 0, 1, bound, bound - 1, bound + 1, total - 1, total, total, total + 1, total + 1 + rng.Intn(500), rng.Intn(total + 1), -1, -2, -3})
			if off < -3 {
				off = 0
			}
			if total == 0 && off == -0 && rng.Intn(2) == 0 {
				off = 0
			}
			if off == -1 && total > 0 && rng.Intn(2) == 0 {
				off = rng.Intn(total)
			}
			cnt := pick(rng, []int{0, 1, 22, 64, 65, 66, 70, 130, 200, total, total + 1, maxio, maxio + 1, rng.Intn(maxio + 1)})
			if total-off > 0 && off >= 0 && rng.Intn(4) == 0 {
				cnt = total - off + pick(rng, []int{-1, 0, 1})
			}
			if cnt > maxio+1 {
				cnt = maxio + 1
			}
			if cnt < 0 {
				cnt = 0
			}
			return []any{"dread", f, off, cnt}
		case 27:
			if len(used) == 0 {
				continue
			}
			return []any{pick(rng, []string{"stat", "stat", "stat", "wstat"}), pick(rng, used)}
		case 28:
			if len(used) == 0 || rng.Intn(2) == 0 {
				continue
			}
			return []any{"clunk", pick(rng, used)}
		case 29:
			if len(used) == 0 || rng.Intn(2) == 0 {
				continue
			}
			f := pick(rng, used)
			if len(fids[f].path) == 0 {
				continue
			}
			return []any{"remove", f}
		}
	}
	return nil
}

// TestPipefsRandom: seeded random histories beyond the bounds TLC explores.
func TestPipefsRandom(t *testing.T) {
	if os.Getenv("VERIF_GEN") == "" {
		t.Skip("no generator configuration")
	}
	var gc genCfg
	if err := json.Unmarshal([]byte(os.Getenv("VERIF_GEN")), &gc); err != nil {
		t.Fatal(err)
	}
	r := newRunner(t, "pipefs-random")
	seed := int64(envInt("VERIF_SEED", 1))
	for id := 1; id <= gc.Cases; id++ {
		g := &gen{rng: rand.New(rand.NewSource(seed*1000003 + int64(id)*2 + int64(toInt(r.cfg.Dotu)))), cfg: r.cfg, gc: gc, left: gc.Steps}
		r.run(id, nil, func(h *H, post map[string]any) []any {
			if g.left == 0 {
				return nil
			}
			g.left--
			return g.next(h, post)
		})
	}
	r.finish(t)
}

// ---------------------------------------------------------------- probe for directory reads past the listing

// TestPipefsHostile: directory reads at offsets inside the listing, at its end and beyond it, with
// and without a previous read at offset 0, through opened and never opened fids.  Each probe runs
// on a server of its own and must be answered (Rread or Rerror, never more than count bytes) and
// leave the server alive; a panic kills this process and is attributed by the check from the
// progress file.
func TestPipefsHostile(t *testing.T) {
	if os.Getenv("VERIF_PFCFG") == "" {
		t.Skip("no configuration")
	}
	r := newRunner(t, "pipefs-hostile")
	type probe struct {
		name    string
		entries int
		opened  bool
		listed  bool
		off     int
		count   uint32
	}
	var probes []probe
	// (the count varies slowest, so that the first few probes already cover every class of offset)
	for _, cnt := range []uint32{4000, 0, 1} {
		for _, ne := range []int{1, 3, 0} {
			for _, opened := range []bool{true, false} {
				for _, listed := range []bool{false, true} {
					for _, oc := range []string{"inside", "end", "end+1", "past", "huge"} {
						if ne == 0 && oc == "inside" {
							continue
						}
						probes = append(probes, probe{name: fmt.Sprintf("entries=%d:opened=%v:listed=%v:off=%s:count=%d", ne, opened, listed, oc, cnt),
							entries: ne, opened: opened, listed: listed, off: map[string]int{"inside": 1, "end": 0, "end+1": 1, "past": 1000, "huge": -1}[oc], count: cnt})
					}
				}
			}
		}
	}
	for i, p := range probes {
		id := i + 1
		if id < r.start {
			continue
		}
		r.progress(id, nil)
		r.progress(id, "dirread:"+p.name)
		h, err := NewH(r.cfg)
		if err != nil {
			r.rep.Inconc(err.Error())
			continue
		}
		bad := func(what string) {
			r.rep.Violations = append(r.rep.Violations, Violation{Key: "x03:hostile-read:" + what + ":" + strings.SplitN(p.name, ":count=", 2)[0],
				What: "directory read " + p.name + ": " + what, Replay: map[string]any{"engine": "TestPipefsHostile", "probe": p.name}})
		}
		func() {
			defer h.Close()
			for k := 0; k < p.entries; k++ {
				os.WriteFile(fmt.Sprintf("%s/e%d", h.root, k), nil, 0o644)
			}
			h.Exec([]any{"attach", 1, false, []any{}, 0})
			if p.opened {
				h.Exec([]any{"open", 1, 0})
			}
			total := 0
			if p.listed {
				o, err := h.Exec([]any{"dread", 1, 0, 4000})
				if err != nil || o["reply"] != "ok" {
					r.rep.Inconc(fmt.Sprintf("probe %s: the listing could not be read: %v %v", p.name, o, err))
					return
				}
			}
			esz := 0
			if o, err := h.Exec([]any{"stat", 1}); err == nil && o["reply"] == "ok" {
				esz = toInt(o["statsize"]) - len("root") + 2
			}
			total = esz * p.entries
			off := uint64(0)
			switch {
			case strings.Contains(p.name, "off=inside"):
				off = uint64(total - 7)
			case strings.Contains(p.name, "off=huge"):
				off = 1<<64 - 1
			default:
				off = uint64(total + p.off)
			}
			h.tag++
			rp, err := h.rpc(&wire.Msg{Type: wire.Tread, Tag: h.tag, Fid: 1, Offset: off, Count: p.count}, h.cfg.Dotu)
			if err != nil {
				bad("no-answer")
				return
			}
			if rp.Type != wire.Rread && rp.Type != wire.Rerror {
				bad("answer-" + wire.TypeName(rp.Type))
				return
			}
			if rp.Type == wire.Rread && uint32(len(rp.Data)) > p.count {
				bad("more-than-count")
			}
			if o, err := h.Exec([]any{"stat", 1}); err != nil || o["reply"] != "ok" {
				bad("dead-afterwards")
			}
		}()
		r.rep.Cases++
		r.steps++
	}
	r.finish(t)
}

// ---------------------------------------------------------------- a hard link to a fid that is being set up

// TestPipefsLinkRace: Tcreate with DMLINK names its source by fid number and the server looks that
// number up in the connection's fid table.  The table also holds fids that a request in progress
// is still setting up: the new fid of a Twalk exists from the moment the framework has allocated it
// until the walk is answered, and while Pipefs.Walk has not got to it it designates nothing.  The
// probe holds a Twalk (whose source has lost its file, so that Pipefs.Walk answers before touching
// the new fid) at the schedule point "resp_post" and sends the Tcreate meanwhile.  It must be
// answered and leave the server alive; a panic kills this process and is attributed by the check.
func TestPipefsLinkRace(t *testing.T) {
	if os.Getenv("VERIF_PFCFG") == "" {
		t.Skip("no configuration")
	}
	r := newRunner(t, "pipefs-linkrace")
	if 1 >= r.start {
		r.progress(1, nil)
		r.progress(1, "linkrace:create-link-to-newfid-of-walk-in-progress")
		h, err := NewH(r.cfg)
		if err != nil {
			t.Fatal(err)
		}
		bad := func(what string) {
			r.rep.Violations = append(r.rep.Violations, Violation{Key: "x03:linkrace:" + what,
				What: "Tcreate(DMLINK) naming the new fid of a Twalk in progress: " + what, Replay: map[string]any{"engine": "TestPipefsLinkRace"}})
		}
		setup := [][]any{{"attach", 1, false, []any{}, 0}, {"walk", 1, 2, []any{}}, {"create", 2, "a", "file", 1, "a", 0},
			{"walk", 1, 3, []any{"a"}}, {"remove", 2}}
		for _, a := range setup {
			if o, err := h.Exec(a); err != nil || o["reply"] != "ok" {
				t.Fatalf("setup %v: %v %v", a, o, err)
			}
		}
		reached, release := make(chan struct{}), make(chan struct{})
		var once sync.Once
		go9p.VerifHook = func(point string, conn *go9p.Conn, req *go9p.SrvReq, nums []int) {
			if point == "resp_post" && req != nil && req.Tc != nil && req.Tc.Type == go9p.Twalk {
				once.Do(func() { close(reached) })
				<-release
			}
		}
		// the Twalk: fid 3 (its file is gone) cloned to fid 5
		h.tag++
		wtag := h.tag
		if _, err := h.cc.Write(wire.Encode(&wire.Msg{Type: wire.Twalk, Tag: wtag, Fid: 3, Newfid: 5, Wname: []string{}}, r.cfg.Dotu)); err != nil {
			t.Fatal(err)
		}
		select {
		case <-reached:
		case <-time.After(10 * time.Second):
			go9p.VerifHook = nil
			r.rep.Inconc("the Twalk never reached the schedule point resp_post")
			close(release)
			r.finish(t)
			return
		}
		_, inTable := go9p.VerifConnSnapshot(h.conn).Fids[5]
		r.rep.Stats["newfid_in_table_while_walk_in_progress"] = inTable
		h.tag++
		rp, err := h.rpc(&wire.Msg{Type: wire.Tcreate, Tag: h.tag, Fid: 1, Name: "bb", Perm: go9p.DMLINK | 0o644, Mode: 0, Ext: "5"}, r.cfg.Dotu)
		go9p.VerifHook = nil
		close(release)
		switch {
		case err != nil:
			bad("no-answer")
		case rp.Type != wire.Rerror && rp.Type != wire.Rcreate:
			bad("answer-" + wire.TypeName(rp.Type))
		default:
			r.rep.Stats["answer"] = wire.TypeName(rp.Type) + " " + rp.Ename
			// the held Twalk is answered now
			if wr, err := h.rpc2(); err != nil || wr.Tag != wtag {
				bad("walk-not-answered")
			}
			if o, err := h.Exec([]any{"stat", 1}); err != nil || o["reply"] != "ok" {
				bad("dead-afterwards")
			}
		}
		h.Close()
		r.rep.Cases++
		r.steps++
	}
	r.finish(t)
}
