//go:build unix

// Package pipefsh binds spec/Pipefs.tla to the real go9p.Pipefs (srv_pipe.go).
//
// A history is a list of actions of the reference machine.  Every action is one raw 9P request sent
// over net.Pipe to a go9p.Pipefs started on a fresh directory (Start + NewConn, as the repository's
// own test starts it) and decoded with the independent codec harness/wire.  After every step the
// harness reads back (a) the real directory tree below the root (kinds, link targets, hard-link
// classes), (b) what every fid number designates (path, buffer, open file; read-only reflection on
// the fid's Aux value, the framework's view through VerifConnSnapshot) and (c) how many descriptors
// of this process point below the root.  Action, observation and read-back are one ndjson line; TLC
// validates the lines against Pipefs!Step (spec/PipefsTrace.tla).  The harness judges nothing.
package pipefsh

import (
	"bufio"
	"encoding/json"
	"fmt"
	"io"
	"log"
	"net"
	"os"
	"reflect"
	"sort"
	"strconv"
	"strings"
	"sync"
	"syscall"
	"time"

	"verif/harness/wire"

	"github.com/rminnich/go9p"
)

// ---------------------------------------------------------------- report

type Violation struct {
	Key    string `json:"key"`
	What   string `json:"what"`
	Replay any    `json:"replay"`
}

type Report struct {
	Engine       string         `json:"engine"`
	Cases        int            `json:"cases"`
	Distinct     int            `json:"distinct"`
	Samples      []any          `json:"samples"`
	Violations   []Violation    `json:"violations"`
	Inconclusive []string       `json:"inconclusive"`
	Stats        map[string]any `json:"stats"`
}

func NewReport(engine string) *Report {
	return &Report{Engine: engine, Stats: map[string]any{}, Samples: []any{}, Violations: []Violation{}, Inconclusive: []string{}}
}

func (r *Report) Inconc(s string) {
	if len(r.Inconclusive) < 20 {
		r.Inconclusive = append(r.Inconclusive, s)
	}
}

func (r *Report) Write() error {
	p := os.Getenv("VERIF_OUT")
	if p == "" {
		return nil
	}
	b, err := json.Marshal(r)
	if err != nil {
		return err
	}
	return os.WriteFile(p, b, 0o644)
}

type NDWriter struct {
	f *os.File
	w *bufio.Writer
}

func OpenND(path string, app bool) *NDWriter {
	if path == "" {
		path = os.DevNull
	}
	flags := os.O_CREATE | os.O_WRONLY | os.O_TRUNC
	if app {
		flags = os.O_CREATE | os.O_WRONLY | os.O_APPEND
	}
	f, err := os.OpenFile(path, flags, 0o644)
	if err != nil {
		panic(err)
	}
	return &NDWriter{f: f, w: bufio.NewWriterSize(f, 1<<20)}
}

func (n *NDWriter) Put(v any) {
	b, err := json.Marshal(v)
	if err != nil {
		panic(err)
	}
	n.w.Write(b)
	n.w.WriteByte('\n')
}
func (n *NDWriter) Flush() { n.w.Flush() }
func (n *NDWriter) Close() { n.w.Flush(); n.f.Close() }

func envInt(name string, def int) int {
	if s := os.Getenv(name); s != "" {
		if v, err := strconv.Atoi(s); err == nil {
			return v
		}
	}
	return def
}

// ---------------------------------------------------------------- users

// One user and one group with fixed two-character names, so that the size of a stat record depends
// on the file name (and, for symbolic links in 9P2000.u, the target) only.
type usr struct{}

func (usr) Name() string               { return "u0" }
func (usr) Id() int                    { return 0 }
func (usr) Groups() []go9p.Group       { return nil }
func (usr) IsMember(g go9p.Group) bool { return false }

type grp struct{}

func (grp) Name() string         { return "g0" }
func (grp) Id() int              { return 0 }
func (grp) Members() []go9p.User { return nil }

type pool struct{}

func (pool) Uid2User(uid int) go9p.User      { return usr{} }
func (pool) Uname2User(n string) go9p.User   { return usr{} }
func (pool) Gid2Group(gid int) go9p.Group    { return grp{} }
func (pool) Gname2Group(n string) go9p.Group { return grp{} }

// ---------------------------------------------------------------- one history

type Cfg struct {
	Dotu    bool   `json:"dotu"`
	Msize   uint32 `json:"msize"`
	NFids   int    `json:"nfids"`
	Maxpend int    `json:"maxpend"`
	NoPast  bool   `json:"nopast"` // cut a history before a directory read past the end of the listing
}

var (
	logOnce   sync.Once
	sharedLog *go9p.Logger
)

type H struct {
	cfg    Cfg
	base   string // scratch directory of this history
	root   string // base + "/root": Pipefs.Root
	srv    *go9p.Pipefs
	conn   *go9p.Conn
	sc, cc net.Conn
	fr     wire.Framer
	tag    uint16
	ids    map[uint64]int // inode -> canonical id, rebuilt by every scan
	dead   string
}

func scratchBase() string {
	if s := os.Getenv("VERIF_SCRATCH"); s != "" {
		return s
	}
	return "/var/tmp"
}

// NewH makes a fresh root directory, starts a Pipefs on it and negotiates the dialect.
func NewH(cfg Cfg) (*H, error) {
	log.SetOutput(io.Discard)
	logOnce.Do(func() { sharedLog = go9p.NewLogger(16) })
	base, err := os.MkdirTemp(scratchBase(), "x03-fs-")
	if err != nil {
		return nil, err
	}
	h := &H{cfg: cfg, base: base, root: base + "/root", ids: map[uint64]int{}}
	if err := os.Mkdir(h.root, 0o755); err != nil {
		return nil, err
	}
	h.srv = new(go9p.Pipefs)
	h.srv.Root = h.root
	h.srv.Dotu = cfg.Dotu
	h.srv.Msize = cfg.Msize
	h.srv.Upool = pool{}
	h.srv.Log = sharedLog
	h.srv.Maxpend = cfg.Maxpend
	h.srv.Id = "pipefsh"
	if !h.srv.Start(h.srv) {
		return nil, fmt.Errorf("Srv.Start refused the Pipefs")
	}
	h.sc, h.cc = net.Pipe()
	h.srv.NewConn(h.sc)
	conns := go9p.VerifSrvConns(&h.srv.Srv)
	if len(conns) != 1 {
		return nil, fmt.Errorf("%d connections registered", len(conns))
	}
	h.conn = conns[0]
	ver := "9P2000"
	if cfg.Dotu {
		ver = "9P2000.u"
	}
	r, err := h.rpc(&wire.Msg{Type: wire.Tversion, Tag: wire.NOTAG, Msize: cfg.Msize, Version: ver}, false)
	if err != nil {
		return nil, err
	}
	if r.Type != wire.Rversion || r.Version != ver || r.Msize != cfg.Msize {
		return nil, fmt.Errorf("negotiation: %+v", r)
	}
	h.scan()
	return h, nil
}

func (h *H) Close() {
	h.cc.Close()
	h.sc.Close()
	// the server closes the files of the remaining fids when it notices; the tree goes anyway
	os.RemoveAll(h.base)
}

func (h *H) rpc(m *wire.Msg, dotu bool) (*wire.Msg, error) {
	if h.dead != "" {
		return nil, fmt.Errorf("connection dead: %s", h.dead)
	}
	b := wire.Encode(m, dotu)
	h.cc.SetDeadline(time.Now().Add(20 * time.Second))
	if _, err := h.cc.Write(b); err != nil {
		h.dead = "write: " + err.Error()
		return nil, err
	}
	buf := make([]byte, 16384)
	for {
		fr, err := h.fr.Next()
		if err != nil {
			h.dead = err.Error()
			return nil, err
		}
		if fr != nil {
			r, derr := wire.Decode(fr, dotu)
			if derr != nil {
				return &wire.Msg{Type: 0, Ename: "undecodable: " + derr.Error()}, nil
			}
			return r, nil
		}
		n, err := h.cc.Read(buf)
		if n > 0 {
			h.fr.Feed(buf[:n])
			continue
		}
		if err != nil {
			h.dead = "read: " + err.Error()
			return nil, err
		}
	}
}

// rpc2 reads one more reply (of a request that was sent without waiting for its answer).
func (h *H) rpc2() (*wire.Msg, error) {
	h.cc.SetDeadline(time.Now().Add(20 * time.Second))
	buf := make([]byte, 16384)
	for {
		fr, err := h.fr.Next()
		if err != nil {
			return nil, err
		}
		if fr != nil {
			return wire.Decode(fr, h.cfg.Dotu)
		}
		n, err := h.cc.Read(buf)
		if n > 0 {
			h.fr.Feed(buf[:n])
			continue
		}
		if err != nil {
			return nil, err
		}
	}
}

func toInt(v any) int {
	switch x := v.(type) {
	case float64:
		return int(x)
	case int:
		return x
	case bool:
		if x {
			return 1
		}
		return 0
	}
	return 0
}

func toBool(v any) bool {
	b, _ := v.(bool)
	return b
}

func toStrs(v any) []string {
	out := []string{}
	switch a := v.(type) {
	case []any:
		for _, x := range a {
			out = append(out, x.(string))
		}
	case []string:
		out = append(out, a...)
	}
	return out
}

// hostPath maps a model path (list of names) to the host path below the root.
func (h *H) hostPath(p []string) string {
	if len(p) == 0 {
		return h.root
	}
	return h.root + "/" + strings.Join(p, "/")
}

// modelPath maps a host path back; a path outside the root is reported as such.
func (h *H) modelPath(s string) []string {
	if s == h.root {
		return []string{}
	}
	if strings.HasPrefix(s, h.root+"/") {
		return strings.Split(s[len(h.root)+1:], "/")
	}
	return []string{"<outside>", s}
}

func kindOfMode(m os.FileMode) string {
	switch {
	case m.IsDir():
		return "dir"
	case m&os.ModeSymlink != 0:
		return "sym"
	case m.IsRegular():
		return "file"
	}
	return "other"
}

func kindOfQid(t uint8) string {
	switch t {
	case go9p.QTDIR:
		return "dir"
	case go9p.QTSYMLINK:
		return "sym"
	case 0:
		return "file"
	}
	return fmt.Sprintf("qt%#x", t)
}

// scan lists the tree below the root depth first with sorted names and rebuilds the inode -> id
// table: objects are numbered 1, 2, ... in the order in which the listing meets them first (the
// numbering Pipefs.tla calls canonical), so hard links share an id and ids depend on the tree only.
func (h *H) scan() [][]any {
	type ent struct {
		path []string
		kind string
		ino  uint64
		tgt  string
	}
	var ents []ent
	var rec func(dir string, p []string)
	add := func(host string, p []string) (bool, bool) {
		fi, err := os.Lstat(host)
		if err != nil {
			return false, false
		}
		e := ent{path: append([]string{}, p...), kind: kindOfMode(fi.Mode()), ino: fi.Sys().(*syscall.Stat_t).Ino}
		if e.kind == "sym" {
			e.tgt, _ = os.Readlink(host)
		}
		ents = append(ents, e)
		return true, e.kind == "dir"
	}
	rec = func(dir string, p []string) {
		des, err := os.ReadDir(dir)
		if err != nil {
			return
		}
		names := []string{}
		for _, d := range des {
			names = append(names, d.Name())
		}
		sort.Strings(names)
		for _, n := range names {
			pp := append(append([]string{}, p...), n)
			if ok, isdir := add(dir+"/"+n, pp); ok && isdir {
				rec(dir+"/"+n, pp)
			}
		}
	}
	if ok, _ := add(h.root, nil); ok {
		rec(h.root, nil)
	}
	h.ids = map[uint64]int{}
	out := [][]any{}
	for _, e := range ents {
		id, ok := h.ids[e.ino]
		if !ok {
			id = len(h.ids) + 1
			h.ids[e.ino] = id
		}
		out = append(out, []any{e.path, e.kind, id, e.tgt})
	}
	return out
}

func (h *H) qid(q wire.Qid) []any {
	id, ok := h.ids[q.Path]
	if !ok {
		id = -1
	}
	return []any{id, kindOfQid(q.Type)}
}

func clean(b []byte) string {
	out := make([]byte, len(b))
	for i, c := range b {
		if c < 0x20 || c > 0x7e || c == '"' || c == '\\' {
			c = '?'
		}
		out[i] = c
	}
	return string(out)
}

// fidAux returns the fields of the pipeFid behind fid number f (read-only reflection).
type auxView struct {
	present bool
	path    string
	data    []byte
	file    bool
	dirents []byte
}

func (h *H) fidAux(f int) (auxView, error) {
	var v auxView
	sf := h.conn.FidGet(uint32(f))
	if sf == nil {
		return v, nil
	}
	defer sf.DecRef()
	v.present = true
	if sf.Aux == nil {
		return v, nil
	}
	rv := reflect.ValueOf(sf.Aux)
	if rv.Kind() != reflect.Ptr || rv.IsNil() || rv.Elem().Kind() != reflect.Struct {
		return v, fmt.Errorf("fid %d: Aux is a %T", f, sf.Aux)
	}
	e := rv.Elem()
	for _, n := range []string{"path", "data", "file", "dirents"} {
		if !e.FieldByName(n).IsValid() {
			return v, fmt.Errorf("the fid structure of Pipefs has no field %q (the harness reads it back by reflection)", n)
		}
	}
	v.path = e.FieldByName("path").String()
	v.data = append([]byte{}, e.FieldByName("data").Bytes()...)
	v.file = !e.FieldByName("file").IsNil()
	v.dirents = append([]byte{}, e.FieldByName("dirents").Bytes()...)
	return v, nil
}

func emptyObs() map[string]any {
	return map[string]any{"reply": "ok", "qids": [][]any{}, "n": 0, "data": "", "stat": []any{}, "snap": [][]any{}, "ids": []int{}, "ents": []string{}}
}

var ErrCut = fmt.Errorf("history cut before a directory read past the end of the listing")

// Offsets that do not fit TLC's integers are named by negative numbers.
func offsetOf(o int) uint64 {
	switch o {
	case -1:
		return 1<<64 - 1
	case -2:
		return 1 << 33
	case -3:
		return 1 << 63
	}
	return uint64(o)
}

// decodeListing decodes a packed directory listing into [name, size, kind] entries and their ids.
func (h *H) decodeListing(b []byte) ([][]any, []int) {
	out := [][]any{}
	ids := []int{}
	for len(b) > 0 {
		st, n, err := wire.DecodeStat(b, h.cfg.Dotu)
		if err != nil {
			return append(out, []any{"<undecodable>", len(b), "?"}), append(ids, 0)
		}
		q := h.qid(st.Qid)
		kind := q[1].(string)
		if (st.Mode&go9p.DMDIR != 0) != (kind == "dir") {
			kind = "?mode"
		}
		if h.cfg.Dotu && (st.Mode&go9p.DMSYMLINK != 0) != (kind == "sym") {
			kind = "?mode"
		}
		out = append(out, []any{st.Name, n, kind})
		ids = append(ids, q[0].(int))
		b = b[n:]
	}
	return out, ids
}

// Exec performs one action and returns the observation in the vocabulary of Pipefs.tla.
func (h *H) Exec(a []any) (map[string]any, error) {
	o := emptyObs()
	op := a[0].(string)
	h.tag++
	if h.tag > 60000 {
		h.tag = 1
	}
	fidn := toInt(a[1])
	m := &wire.Msg{Tag: h.tag, Fid: uint32(fidn)}
	switch op {
	case "attach": // f, use aname, path, afid (0 = NOFID)
		m.Type, m.Afid, m.Uname, m.Unamenum = wire.Tattach, wire.NOFID, "u0", 0
		if toBool(a[2]) {
			m.Aname = h.hostPath(toStrs(a[3]))
		}
		if af := toInt(a[4]); af != 0 {
			m.Afid = uint32(af)
		}
	case "walk": // f, newfid, names
		m.Type, m.Newfid, m.Wname = wire.Twalk, uint32(toInt(a[2])), toStrs(a[3])
	case "open": // f, mode
		m.Type, m.Mode = wire.Topen, uint8(toInt(a[2]))
	case "create": // f, name, kind, mode, target, link fid
		m.Type, m.Name, m.Mode = wire.Tcreate, a[2].(string), uint8(toInt(a[4]))
		switch a[3].(string) {
		case "file":
			m.Perm = 0o644
		case "dir":
			m.Perm = go9p.DMDIR | 0o755
		case "sym":
			m.Perm, m.Ext = go9p.DMSYMLINK|0o777, a[5].(string)
		case "link":
			m.Perm, m.Ext = go9p.DMLINK|0o644, "x"
			if lf := toInt(a[6]); lf != 0 {
				m.Ext = strconv.Itoa(lf)
			}
		case "pipe":
			m.Perm = go9p.DMNAMEDPIPE | 0o644
		case "dev":
			m.Perm, m.Ext = go9p.DMDEVICE|0o644, "c 1 2"
		case "sock":
			m.Perm = go9p.DMSOCKET | 0o644
		default:
			return nil, fmt.Errorf("unknown kind %v", a[3])
		}
	case "read", "dread": // f, offset, count
		m.Type, m.Offset, m.Count = wire.Tread, offsetOf(toInt(a[2])), uint32(toInt(a[3]))
		if op == "dread" && h.cfg.NoPast && m.Offset != 0 {
			v, err := h.fidAux(fidn)
			if err != nil {
				return nil, err
			}
			if v.present && m.Offset > uint64(len(v.dirents)) {
				return nil, ErrCut
			}
		}
	case "write": // f, data
		m.Type, m.Data = wire.Twrite, []byte(a[2].(string))
	case "clunk":
		m.Type = wire.Tclunk
	case "remove":
		m.Type = wire.Tremove
	case "stat":
		m.Type = wire.Tstat
	case "wstat":
		m.Type = wire.Twstat
		m.Stat = wire.Stat{Type: 0xFFFF, Dev: 0xFFFFFFFF, Qid: wire.Qid{Type: 0xFF, Vers: 0xFFFFFFFF, Path: 1<<64 - 1},
			Mode: 0o600, Atime: 0xFFFFFFFF, Mtime: 0xFFFFFFFF, Length: 1<<64 - 1, Name: "zz", Uidnum: 0xFFFFFFFF, Gidnum: 0xFFFFFFFF, Muidnum: 0xFFFFFFFF}
	default:
		return nil, fmt.Errorf("unknown action %q", op)
	}
	r, err := h.rpc(m, h.cfg.Dotu)
	if err != nil {
		return nil, err
	}
	h.scan() // a new object gets its id before the qids of the reply are translated
	switch {
	case r.Type == wire.Rerror:
		o["reply"] = "err"
		o["errtext"] = r.Ename
		return o, nil
	case r.Type == 0:
		o["reply"] = "garbled"
		o["errtext"] = r.Ename
		return o, nil
	case r.Tag != m.Tag:
		o["reply"] = fmt.Sprintf("wrongtag:%s", wire.TypeName(r.Type))
		return o, nil
	case r.Type != m.Type+1:
		o["reply"] = fmt.Sprintf("wrong:%s", wire.TypeName(r.Type))
		return o, nil
	}
	switch op {
	case "attach", "open", "create":
		o["qids"] = [][]any{h.qid(r.Qid)}
	case "walk":
		q := [][]any{}
		for _, x := range r.Wqid {
			q = append(q, h.qid(x))
		}
		o["qids"] = q
	case "read":
		o["n"], o["data"] = len(r.Data), clean(r.Data)
		if int(r.Count) != len(r.Data) {
			o["n"] = -int(r.Count) - 1
		}
	case "write":
		o["n"] = int(r.Count)
	case "dread":
		o["n"] = len(r.Data)
		v, err := h.fidAux(fidn)
		if err != nil {
			return nil, err
		}
		snap, ids := h.decodeListing(v.dirents)
		o["snap"] = snap
		if m.Offset == 0 {
			o["ids"] = ids
		}
		// the reply against the window of the listing, and the whole records it contains decoded
		// from the reply itself
		off := m.Offset
		match := len(r.Data) == 0 || off <= uint64(len(v.dirents)) && off+uint64(len(r.Data)) <= uint64(len(v.dirents))
		if match && len(r.Data) > 0 {
			match = string(v.dirents[off:off+uint64(len(r.Data))]) == string(r.Data)
		}
		ents := []string{}
		if match {
			pos := uint64(0)
			for _, e := range snap {
				sz := uint64(toInt(e[1]))
				if pos >= off && pos+sz <= off+uint64(len(r.Data)) {
					st, _, derr := wire.DecodeStat(r.Data[pos-off:pos-off+sz], h.cfg.Dotu)
					if derr != nil {
						ents = append(ents, "<undecodable>")
					} else {
						ents = append(ents, st.Name)
					}
				}
				pos += sz
			}
		} else {
			ents = append(ents, "<reply differs from the window of the listing>")
		}
		o["ents"] = ents
	case "stat":
		st := &r.Stat
		q := h.qid(st.Qid)
		kind := q[1].(string)
		if (st.Mode&go9p.DMDIR != 0) != (kind == "dir") || (h.cfg.Dotu && (st.Mode&go9p.DMSYMLINK != 0) != (kind == "sym")) {
			kind = "?mode"
		}
		o["stat"] = []any{st.Name, kind, q[0]}
		o["statsize"] = int(st.Size) + 2
	}
	return o, nil
}

// Post reads back the tree, the fids and the number of open descriptors below the root.
func (h *H) Post() (map[string]any, error) {
	tree := h.scan()
	snap := go9p.VerifConnSnapshot(h.conn)
	fids := [][]any{}
	for f := 1; f <= h.cfg.NFids; f++ {
		v, err := h.fidAux(f)
		if err != nil {
			return nil, err
		}
		fi, ok := snap.Fids[uint32(f)]
		if !v.present || !ok {
			fids = append(fids, []any{false, []string{}, false, "file", 0, false, ""})
			continue
		}
		fids = append(fids, []any{true, h.modelPath(v.path), fi.Opened, kindOfQid(fi.Type), int(fi.Omode), v.file, clean(v.data)})
	}
	extra := 0
	for no := range snap.Fids {
		if int(no) < 1 || int(no) > h.cfg.NFids {
			extra++
		}
	}
	nfd := 0
	if des, err := os.ReadDir("/proc/self/fd"); err == nil {
		for _, d := range des {
			if l, err := os.Readlink("/proc/self/fd/" + d.Name()); err == nil && strings.HasPrefix(l, h.base+"/") {
				nfd++
			}
		}
	} else {
		nfd = -1
	}
	return map[string]any{"tree": tree, "fids": fids, "nfd": nfd, "extrafids": extra}, nil
}
