// Package raceh expands workload skeletons (simulated behaviours of spec/Work19.tla) into real
// goroutines against the Unix file server, the scripted implementation and one shared client, under
// the Go race detector. The verif schedule points only yield (no synchronisation is added, so no
// happens-before edge can hide a race).
package raceh

import (
	"encoding/json"
	"fmt"
	"hash/fnv"
	"io"
	"log"
	"net"
	"os"
	"path/filepath"
	"runtime"
	"sync"
	"sync/atomic"
	"testing"
	"time"

	"verif/harness/wire"

	"github.com/rminnich/go9p"
)

func init() { log.SetOutput(io.Discard) }

type Skeleton struct {
	ID    int     `json:"id"`
	Steps [][]any `json:"steps"`
}

var yieldMask uint32

func hook(point string, _ *go9p.Conn, _ *go9p.SrvReq, _ []int) { yield(point) }
func chook(point string, _ *go9p.Clnt, _ *go9p.Req, _ []int)   { yield(point) }
func yield(point string) {
	h := fnv.New32a()
	h.Write([]byte(point))
	if (h.Sum32()^yieldMask)%3 == 0 {
		runtime.Gosched()
	}
}

func toInt(v any) int {
	if f, ok := v.(float64); ok {
		return int(f)
	}
	return 0
}

// perGoroutine splits a behaviour into the operation sequence of each goroutine ("flush" marks that
// the goroutine flushes the operation it has outstanding).
func perGoroutine(sk Skeleton) (map[int][]string, int) {
	seq := map[int][]string{}
	aux := 0
	for _, st := range sk.Steps {
		switch st[0] {
		case "Issue":
			g := toInt(st[1])
			seq[g] = append(seq[g], st[2].(string))
		case "Flush":
			g := toInt(st[1])
			if n := len(seq[g]); n > 0 {
				seq[g][n-1] += "+flush"
			}
		case "AuxOpen":
			aux++
		}
	}
	return seq, aux
}

func readSkeletons(t *testing.T) []Skeleton {
	b, err := os.ReadFile(os.Getenv("VERIF_SKELETONS"))
	if err != nil {
		t.Skip("no skeletons")
	}
	var out []Skeleton
	for _, ln := range splitLines(b) {
		var s Skeleton
		if json.Unmarshal(ln, &s) == nil && len(s.Steps) > 0 {
			out = append(out, s)
		}
	}
	return out
}

func splitLines(b []byte) [][]byte {
	var out [][]byte
	start := 0
	for i, c := range b {
		if c == '\n' {
			if i > start {
				out = append(out, b[start:i])
			}
			start = i + 1
		}
	}
	if start < len(b) {
		out = append(out, b[start:])
	}
	return out
}

type report struct {
	Engine       string         `json:"engine"`
	Cases        int            `json:"cases"`
	Distinct     int            `json:"distinct"`
	Samples      []any          `json:"samples"`
	Violations   []any          `json:"violations"`
	Inconclusive []string       `json:"inconclusive"`
	Stats        map[string]any `json:"stats"`
}

func (r *report) write() {
	if p := os.Getenv("VERIF_OUT"); p != "" {
		b, _ := json.Marshal(r)
		_ = os.WriteFile(p, b, 0o644)
	}
}

func envSeed() uint32 {
	var s uint32 = 1
	fmt.Sscan(os.Getenv("VERIF_SEED"), &s)
	return s
}

// TestRaceUfsClient: G goroutines share ONE go9p client against the Unix file server; each works on
// files of its own; auxiliary connections come and go.
func TestRaceUfsClient(t *testing.T) {
	sks := readSkeletons(t)
	yieldMask = envSeed() * 2654435761
	go9p.VerifHook = hook
	go9p.VerifClntHook = chook
	rep := &report{Engine: "race-ufs-client", Stats: map[string]any{}}
	root, _ := os.MkdirTemp(os.Getenv("VERIF_SCRATCH"), "race-root-")
	defer os.RemoveAll(root)
	ops := 0
	for _, sk := range sks {
		seq, naux := perGoroutine(sk)
		for g := range seq {
			_ = os.MkdirAll(filepath.Join(root, fmt.Sprintf("g%d", g)), 0o755)
			_ = os.WriteFile(filepath.Join(root, fmt.Sprintf("g%d", g), "f"), []byte("0123456789abcdef"), 0o644)
		}
		ufs := new(go9p.Ufs)
		ufs.Dotu = true
		ufs.Root = root
		ufs.Id = "race"
		if rep.Cases%2 == 1 {
			ufs.Msize = 4096 // the server grants less than the client proposes
		}
		ufs.Start(ufs)
		a, b := net.Pipe()
		ufs.NewConn(a)
		user := go9p.OsUsers.Uid2User(0)
		clnt, err := go9p.MountConn(b, "", 8192, user)
		if err != nil {
			rep.Inconclusive = append(rep.Inconclusive, "mount failed: "+err.Error())
			continue
		}
		var wg sync.WaitGroup
		for g, opsOf := range seq {
			wg.Add(1)
			go func(g int, opsOf []string) {
				defer wg.Done()
				var fid *go9p.Fid
				var file *go9p.File
				dir := fmt.Sprintf("g%d", g)
				for i, op := range opsOf {
					if len(op) > 6 && op[len(op)-6:] == "+flush" {
						op = op[:len(op)-6] // the shared client has no flush call; flushes are exercised by the raw engine
					}
					switch op {
					case "walk":
						fid, _ = clnt.FWalk(dir + "/f")
					case "open":
						if fid != nil && clnt.Open(fid, go9p.ORDWR) == nil {
							file = go9p.FidFile(fid, 0)
						}
					case "create":
						if fid != nil {
							_ = clnt.Clunk(fid)
						}
						f, e := clnt.FCreate(fmt.Sprintf("%s/new%d", dir, i), 0o644, go9p.ORDWR)
						if e == nil {
							file, fid = f, f.Fid
						} else {
							fid, file = nil, nil
						}
					case "read":
						if file != nil {
							buf := make([]byte, 64)
							_, _ = file.ReadAt(buf, 0)
						}
					case "write":
						if file != nil {
							_, _ = file.WriteAt([]byte("data"), int64(i))
						}
					case "stat":
						if fid != nil {
							_, _ = clnt.Stat(fid)
						}
					case "wstat":
						if fid != nil {
							d := go9p.Dir{Mode: 0xFFFFFFFF, Atime: 0xFFFFFFFF, Mtime: 12345, Length: 0xFFFFFFFFFFFFFFFF,
								Uidnum: 0xFFFFFFFF, Gidnum: 0xFFFFFFFF, Muidnum: 0xFFFFFFFF, Type: 0xFFFF, Dev: 0xFFFFFFFF}
							_ = clnt.Wstat(fid, &d)
						}
					case "clunk":
						if fid != nil {
							_ = clnt.Clunk(fid)
							fid, file = nil, nil
						}
					case "remove":
						if fid != nil {
							_ = clnt.Remove(fid)
							fid, file = nil, nil
							_ = os.WriteFile(filepath.Join(root, dir, "f"), []byte("0123456789abcdef"), 0o644)
						}
					}
				}
				if fid != nil {
					_ = clnt.Clunk(fid)
				}
			}(g, opsOf)
			ops += len(opsOf)
		}
		for x := 0; x < naux; x++ { // connections opened and dropped (quiescent) while the others are busy
			wg.Add(1)
			// each of them attaches as a user the server's (process-wide, default) user table has not seen yet
			nu := &newUser{id: 20000 + rep.Cases*16 + x}
			go func() {
				defer wg.Done()
				a2, b2 := net.Pipe()
				ufs.NewConn(a2)
				c2, err := go9p.MountConn(b2, "", 4096, nu)
				if err == nil {
					_, _ = c2.FStat("g1/f")
					c2.Unmount()
				} else {
					_ = b2.Close()
				}
			}()
		}
		wg.Wait()
		clnt.Unmount()
		rep.Cases++
		if rep.Cases <= 2 {
			rep.Samples = append(rep.Samples, map[string]any{"skeleton": sk.ID, "goroutines": len(seq), "aux": naux, "ops": seq})
		}
	}
	rep.Distinct = rep.Cases
	rep.Stats["ops"] = ops
	rep.write()
}

// newUser: a user known to the client only by number.
type newUser struct{ id int }

func (u *newUser) Name() string               { return fmt.Sprintf("u%d", u.id) }
func (u *newUser) Id() int                    { return u.id }
func (u *newUser) Groups() []go9p.Group       { return nil }
func (u *newUser) IsMember(g go9p.Group) bool { return false }

// rawClient speaks raw 9P over one shared connection for many goroutines (its own mutexes are harness
// code; only the server runs library code).
type rawClient struct {
	c    net.Conn
	wmu  sync.Mutex
	mu   sync.Mutex
	wait map[uint16]chan *wire.Msg
	dotu bool
}

func (rc *rawClient) loop() {
	var fr wire.Framer
	buf := make([]byte, 65536)
	for {
		n, err := rc.c.Read(buf)
		if n > 0 {
			fr.Feed(buf[:n])
			for {
				f, _ := fr.Next()
				if f == nil {
					break
				}
				m, derr := wire.Decode(f, rc.dotu)
				if derr != nil {
					continue
				}
				rc.mu.Lock()
				ch := rc.wait[m.Tag]
				delete(rc.wait, m.Tag)
				rc.mu.Unlock()
				if ch != nil {
					ch <- m
				}
			}
		}
		if err != nil {
			rc.mu.Lock()
			for _, ch := range rc.wait {
				close(ch)
			}
			rc.wait = map[uint16]chan *wire.Msg{}
			rc.mu.Unlock()
			return
		}
	}
}

func (rc *rawClient) send(m *wire.Msg) chan *wire.Msg {
	ch := make(chan *wire.Msg, 1)
	rc.mu.Lock()
	rc.wait[m.Tag] = ch
	rc.mu.Unlock()
	b := wire.Encode(m, rc.dotu)
	rc.wmu.Lock()
	_, _ = rc.c.Write(b)
	rc.wmu.Unlock()
	return ch
}

type rops struct{}

func (rops) Attach(r *go9p.SrvReq) { r.RespondRattach(&go9p.Qid{Type: go9p.QTDIR, Path: 1}) }
func (rops) Walk(r *go9p.SrvReq) {
	q := make([]go9p.Qid, len(r.Tc.Wname))
	r.RespondRwalk(q)
}
func (rops) Open(r *go9p.SrvReq)     { r.RespondRopen(&go9p.Qid{Path: 2}, 0) }
func (rops) Create(r *go9p.SrvReq)   { r.RespondRcreate(&go9p.Qid{Path: 3}, 0) }
func (rops) Read(r *go9p.SrvReq)     { runtime.Gosched(); r.RespondRread([]byte("payload")) }
func (rops) Write(r *go9p.SrvReq)    { r.RespondRwrite(r.Tc.Count) }
func (rops) Clunk(r *go9p.SrvReq)    { r.RespondRclunk() }
func (rops) Remove(r *go9p.SrvReq)   { r.RespondRremove() }
func (rops) Stat(r *go9p.SrvReq)     { r.RespondRstat(&go9p.Dir{Name: "f"}) }
func (rops) Wstat(r *go9p.SrvReq)    { r.RespondRwstat() }
func (rops) FidDestroy(*go9p.SrvFid) {}
func (rops) ConnOpened(*go9p.Conn)   {}
func (rops) ConnClosed(*go9p.Conn)   {}

// TestRaceRaw: G goroutines pipeline raw requests with interleaved flushes over ONE connection to the
// framework with a trivial implementation; a Tversion first; auxiliary connections come and go.
var lost atomic.Int64 // requests of the raw engine that were never answered

func TestRaceRaw(t *testing.T) {
	sks := readSkeletons(t)
	yieldMask = envSeed() * 40503
	go9p.VerifHook = hook
	rep := &report{Engine: "race-raw", Stats: map[string]any{}}
	ops := 0
	for _, sk := range sks {
		seq, naux := perGoroutine(sk)
		srv := &go9p.Srv{Dotu: true, Msize: 8192}
		srv.Start(rops{})
		newClient := func() *rawClient {
			a, b := net.Pipe()
			srv.NewConn(a)
			rc := &rawClient{c: b, wait: map[uint16]chan *wire.Msg{}, dotu: true}
			go rc.loop()
			<-rc.send(&wire.Msg{Type: wire.Tversion, Tag: wire.NOTAG, Msize: 4096, Version: "9P2000.u"})
			<-rc.send(&wire.Msg{Type: wire.Tattach, Tag: 1, Fid: 1000, Afid: wire.NOFID, Uname: "u"})
			return rc
		}
		rc := newClient()
		var wg sync.WaitGroup
		for g, opsOf := range seq {
			wg.Add(1)
			go func(g int, opsOf []string) {
				defer wg.Done()
				fid := uint32(g)
				tagBase := uint16(100 * g)
				for i, op := range opsOf {
					flush := false
					if len(op) > 6 && op[len(op)-6:] == "+flush" {
						op, flush = op[:len(op)-6], true
					}
					m := &wire.Msg{Tag: tagBase + uint16(2*(i%40)), Fid: fid}
					switch op {
					case "walk":
						m.Type, m.Fid, m.Newfid, m.Wname = wire.Twalk, 1000, fid, []string{"a"}
					case "open":
						m.Type, m.Mode = wire.Topen, 2
					case "create":
						m.Type, m.Name, m.Perm, m.Mode = wire.Tcreate, "n", 0o644, 2
					case "read":
						m.Type, m.Count = wire.Tread, 64
					case "write":
						m.Type, m.Data = wire.Twrite, []byte("abcd")
					case "stat":
						m.Type = wire.Tstat
					case "wstat":
						m.Type = wire.Twstat
					case "clunk":
						m.Type = wire.Tclunk
					case "remove":
						m.Type = wire.Tremove
					}
					ch := rc.send(m)
					if flush {
						fch := rc.send(&wire.Msg{Type: wire.Tflush, Tag: m.Tag + 1, Oldtag: m.Tag})
						select {
						case <-fch:
						case <-time.After(20 * time.Second):
							// not this property's business (C07), but the engine must end so that the race
							// reports of this run are read
							lost.Add(1)
							return
						}
						rc.mu.Lock()
						delete(rc.wait, m.Tag) // flushed: a reply, if any, has arrived before the Rflush
						rc.mu.Unlock()
						select {
						case <-ch:
						default:
						}
					} else {
						select {
						case <-ch:
						case <-time.After(20 * time.Second):
							lost.Add(1)
							return
						}
					}
				}
			}(g, opsOf)
			ops += len(opsOf)
		}
		for x := 0; x < naux; x++ {
			wg.Add(1)
			go func() {
				defer wg.Done()
				c2 := newClient()
				<-c2.send(&wire.Msg{Type: wire.Tstat, Tag: 5, Fid: 1000})
				_ = c2.c.Close()
			}()
		}
		wg.Wait()
		_ = rc.c.Close()
		rep.Cases++
		if rep.Cases <= 2 {
			rep.Samples = append(rep.Samples, map[string]any{"skeleton": sk.ID, "goroutines": len(seq), "aux": naux, "ops": seq})
		}
	}
	rep.Distinct = rep.Cases
	rep.Stats["requests_never_answered"] = lost.Load()
	rep.Stats["ops"] = ops
	rep.write()
}
