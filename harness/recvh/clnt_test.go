package recvh

import (
	"bytes"
	"encoding/json"
	"fmt"
	"math/rand"
	"net"
	"os"
	"reflect"
	"strings"
	"sync"
	"testing"
	"testing/synctest"

	"verif/harness/wire"

	"github.com/rminnich/go9p"
)

// ClntCfg: the real client against a scripted peer that sends one reply stream under many
// segmentations.
type ClntCfg struct {
	M0         uint32 `json:"m0"`  // msize given to NewClnt / Connect
	Neg        uint32 `json:"neg"` // msize in the peer's Rversion; 0 = NewClnt without Connect
	Dotu       bool   `json:"dotu"`
	StreamSeed int64  `json:"stream_seed"`
	Bytes      int    `json:"bytes"`
}

type exch struct {
	Kind  string    // read write walk clunk stat error
	Req   wire.Msg  // what the client is asked to send (type and arguments)
	Reply *wire.Msg // what the peer answers (tag filled in at run time)
	Size  int       // size of the reply frame
}

type clntSession struct {
	cfg    ClntCfg
	msize  int
	ex     []*exch
	perm   []int // order in which the peer answers
	sizes  []int // frame sizes of the reply stream (incl. Rversion when Neg > 0)
	starts []int
	frames []Frame
	nver   int // 1 if the stream starts with an Rversion
}

func buildClntSession(cfg ClntCfg) *clntSession {
	s := &clntSession{cfg: cfg}
	m := cfg.M0
	if cfg.Neg > 0 && cfg.Neg < m {
		m = cfg.Neg
	}
	s.msize = int(m)
	rng := rand.New(rand.NewSource(cfg.StreamSeed))
	size := 0
	maxdata := s.msize - 11
	for k := 0; size < cfg.Bytes && k < 50000; k++ {
		e := &exch{}
		rd := func(n int) {
			e.Kind = "read"
			e.Req = wire.Msg{Type: wire.Tread, Fid: 1, Offset: uint64(k) << 12, Count: uint32(max(n, 1))}
			e.Reply = &wire.Msg{Type: wire.Rread, Data: pattern(k, n)}
		}
		switch r := rng.Intn(100); {
		case r < 14:
			e.Kind = "clunk"
			e.Req = wire.Msg{Type: wire.Tclunk, Fid: uint32(100 + k)}
			e.Reply = &wire.Msg{Type: wire.Rclunk}
		case r < 24:
			e.Kind = "write"
			e.Req = wire.Msg{Type: wire.Twrite, Fid: 1, Offset: uint64(k), Data: pattern(k, rng.Intn(5))}
			e.Reply = &wire.Msg{Type: wire.Rwrite, Count: uint32(k*2654435761 + 17)}
		case r < 34:
			rd(rng.Intn(9))
		case r < 52:
			rd(rng.Intn(maxdata + 1))
		case r < 68:
			rd(maxdata) // frame of exactly msize
		case r < 74:
			rd(maxdata - 1 - rng.Intn(3))
		case r < 84:
			e.Kind = "walk"
			nq := rng.Intn(min(16, (s.msize-9)/13) + 1)
			names := make([]string, nq)
			qs := make([]wire.Qid, nq)
			for i := range qs {
				names[i] = "n"
				qs[i] = wire.Qid{Type: uint8(k + i), Vers: uint32(k*31 + i), Path: uint64(k)<<20 | uint64(i)}
			}
			e.Req = wire.Msg{Type: wire.Twalk, Fid: 0, Newfid: uint32(100 + k), Wname: names}
			e.Reply = &wire.Msg{Type: wire.Rwalk, Wqid: qs}
		case r < 92 || !cfg.Dotu:
			e.Kind = "error"
			e.Req = wire.Msg{Type: wire.Tclunk, Fid: uint32(100 + k)}
			l := 8 + rng.Intn(40)
			if rng.Intn(3) == 0 {
				l = s.msize - 9 - 4 // largest Rerror that fits either dialect
			}
			e.Reply = &wire.Msg{Type: wire.Rerror, Ename: nameOf(k, l), Ecode: uint32(k + 1)}
		default:
			e.Kind = "stat"
			e.Req = wire.Msg{Type: wire.Tstat, Fid: 1}
			room := s.msize - (7 + 2 + 2 + 39 + 8 + 2 + 12) // fixed part of a .u Rstat with empty strings
			nl := 1
			if room > 8 {
				nl = 1 + rng.Intn(room-4)
			}
			e.Reply = &wire.Msg{Type: wire.Rstat, Stat: wire.Stat{Qid: wire.Qid{Path: uint64(k)}, Mode: 0644, Length: uint64(k) * 77, Name: nameOf(k, nl), Uid: "u", Gid: "g", Muid: "m"}}
			if len(wire.Encode(e.Reply, true)) > s.msize {
				e.Reply.Stat.Name = "f"
			}
			if len(wire.Encode(e.Reply, true)) > s.msize {
				continue
			}
		}
		e.Size = len(wire.Encode(e.Reply, cfg.Dotu))
		if e.Size > s.msize {
			continue
		}
		s.ex = append(s.ex, e)
		size += e.Size
	}
	s.perm = rng.Perm(len(s.ex))
	// mostly in order with local reorderings, sometimes fully shuffled
	if rng.Intn(3) != 0 {
		for i := range s.perm {
			s.perm[i] = i
		}
		for i := 0; i+1 < len(s.perm); i++ {
			if rng.Intn(3) == 0 {
				s.perm[i], s.perm[i+1] = s.perm[i+1], s.perm[i]
			}
		}
	}
	off := 0
	if cfg.Neg > 0 {
		s.nver = 1
		ver := "9P2000"
		if cfg.Dotu {
			ver = "9P2000.u"
		}
		n := len(wire.Encode(&wire.Msg{Type: wire.Rversion, Tag: wire.NOTAG, Msize: cfg.Neg, Version: ver}, cfg.Dotu))
		s.starts = append(s.starts, off)
		s.frames = append(s.frames, Frame{Sz: n, Len: n, Ver: int(cfg.Neg), St: off})
		off += n
	}
	for _, i := range s.perm {
		s.starts = append(s.starts, off)
		s.frames = append(s.frames, Frame{Sz: s.ex[i].Size, Len: s.ex[i].Size, St: off})
		off += s.ex[i].Size
	}
	s.starts = append(s.starts, off)
	return s
}

// what a caller can see of a completed request
type snap struct {
	Type   uint8
	Err    bool
	Ename  string
	Ecode  uint32
	Count  uint32
	Data   []byte
	Wqid   []wire.Qid
	Name   string
	Length uint64
}

func takeSnap(r *go9p.Req) *snap {
	s := &snap{Err: r.Err != nil}
	rc := r.Rc
	if rc == nil {
		return s
	}
	s.Type = rc.Type
	switch rc.Type {
	case go9p.Rerror:
		s.Ename, s.Ecode = rc.Error, rc.Errornum
	case go9p.Rread:
		s.Count = rc.Count
		s.Data = append([]byte(nil), rc.Data...)
	case go9p.Rwrite:
		s.Count = rc.Count
	case go9p.Rwalk:
		for _, q := range rc.Wqid {
			s.Wqid = append(s.Wqid, wire.Qid{Type: q.Type, Vers: q.Version, Path: q.Path})
		}
	case go9p.Rstat:
		s.Name, s.Length = rc.Dir.Name, rc.Dir.Length
	}
	return s
}

func wantSnap(e *exch, dotu bool) *snap {
	m := e.Reply
	s := &snap{Type: m.Type}
	switch m.Type {
	case wire.Rerror:
		s.Err = true
		s.Ename = m.Ename
		if dotu {
			s.Ecode = m.Ecode
		}
	case wire.Rread:
		s.Count = uint32(len(m.Data))
		s.Data = append([]byte{}, m.Data...)
	case wire.Rwrite:
		s.Count = m.Count
	case wire.Rwalk:
		s.Wqid = append(s.Wqid, m.Wqid...)
	case wire.Rstat:
		s.Name, s.Length = m.Stat.Name, m.Stat.Length
	}
	return s
}

func snapEq(a, b *snap) bool {
	if a == nil || b == nil {
		return a == b
	}
	return a.Type == b.Type && a.Err == b.Err && a.Ename == b.Ename && a.Ecode == b.Ecode && a.Count == b.Count &&
		bytes.Equal(a.Data, b.Data) && reflect.DeepEqual(a.Wqid, b.Wqid) && a.Name == b.Name && a.Length == b.Length
}

func (s *snap) String() string {
	if s == nil {
		return "<none>"
	}
	return fmt.Sprintf("{type %s err %v ename %.16q count %d data %s qids %d name %.16q length %d}", wire.TypeName(s.Type), s.Err, s.Ename, s.Count, short(s.Data), len(s.Wqid), s.Name, s.Length)
}

type clntObs struct {
	Progress  [][2]int // few-cut segmentations: (offset sent, calls completed) at quiescence after each write
	Order     []int   // request indices in completion order
	AtDone    []*snap // per request: result when the call completed
	AtEnd     []*snap // ... and after the whole stream had been received
	Times     []int   // completions per request
	ConnectOK bool
	Stuck     string
	Trace     []map[string]any
	Leftover  string
	Stream    []byte
}

func runClnt(t *testing.T, s *clntSession, seg Seg) (obs *clntObs) {
	n := len(s.ex)
	obs = &clntObs{AtDone: make([]*snap, n), AtEnd: make([]*snap, n), Times: make([]int, n)}
	defer func() {
		if r := recover(); r != nil {
			obs.Leftover = fmt.Sprint(r)
		}
	}()
	synctest.Test(t, func(t *testing.T) {
		var mu sync.Mutex
		go9p.VerifClntHook = func(point string, c *go9p.Clnt, r *go9p.Req, nums []int) {
			switch point {
			case "crecv_read":
				obs.Trace = append(obs.Trace, map[string]any{"ev": "read", "n": nums[0], "pos": nums[1], "cap": nums[2]})
			case "crecv_advance":
				obs.Trace = append(obs.Trace, map[string]any{"ev": "adv", "sz": nums[0], "pos": nums[1], "cap": nums[2]})
			}
		}
		defer func() { go9p.VerifClntHook = nil }()
		a, b := net.Pipe()
		var treqs [][]byte
		var fr wire.Framer
		go func() { // the peer's receive side
			buf := make([]byte, 1<<16)
			for {
				k, err := b.Read(buf)
				mu.Lock()
				if k > 0 {
					fr.Feed(buf[:k])
					for {
						f, ferr := fr.Next()
						if f == nil || ferr != nil {
							break
						}
						treqs = append(treqs, f)
					}
				}
				mu.Unlock()
				if err != nil {
					return
				}
			}
		}()
		send := func(data []byte, base int) bool {
			// cut offsets are relative to the whole reply stream; data starts at offset base
			var cuts []int
			for _, c := range seg.Cuts {
				if c > base && c < base+len(data) {
					cuts = append(cuts, c-base)
				}
			}
			chunks := Chunks(data, 0, len(data), cuts)
			done := false
			go func() {
				for _, c := range chunks {
					if _, err := b.Write(c); err != nil {
						break
					}
				}
				mu.Lock()
				done = true
				mu.Unlock()
			}()
			synctest.Wait()
			mu.Lock()
			defer mu.Unlock()
			return done
		}
		ntreq := func() int { mu.Lock(); defer mu.Unlock(); return len(treqs) }
		var clnt *go9p.Clnt
		off := 0
		if s.cfg.Neg > 0 {
			var cerr error
			returned := false
			go func() {
				clnt, cerr = go9p.Connect(a, s.cfg.M0, s.cfg.Dotu)
				mu.Lock()
				returned = true
				mu.Unlock()
			}()
			synctest.Wait()
			if ntreq() != 1 {
				obs.Stuck = "the client did not send Tversion"
			} else {
				ver := "9P2000"
				if s.cfg.Dotu {
					ver = "9P2000.u"
				}
				rv := wire.Encode(&wire.Msg{Type: wire.Rversion, Tag: wire.NOTAG, Msize: s.cfg.Neg, Version: ver}, s.cfg.Dotu)
				obs.Stream = append(obs.Stream, rv...)
				send(rv, 0)
				off = len(rv)
				mu.Lock()
				ok := returned && cerr == nil && clnt != nil
				mu.Unlock()
				if !ok {
					obs.Stuck = fmt.Sprintf("Connect did not return successfully after the Rversion had been sent (returned=%v err=%v)", returned, cerr)
				} else {
					obs.ConnectOK = true
					obs.Trace = append(obs.Trace, map[string]any{"ev": "lower", "m": s.msize})
				}
			}
		} else {
			clnt = go9p.NewClnt(a, s.cfg.M0, s.cfg.Dotu)
			obs.ConnectOK = true
		}
		if obs.Stuck == "" {
			// issue every request (non-blocking calls, one shared completion channel)
			done := make(chan *go9p.Req, 2*n+4)
			reqs := make([]*go9p.Req, n)
			idx := map[*go9p.Req]int{}
			closing := false
			for i := range reqs {
				reqs[i] = clnt.ReqAlloc()
				idx[reqs[i]] = i
			}
			go func() {
				for i, e := range s.ex {
					fc := go9p.NewFcall(uint32(s.msize) + 64)
					var err error
					switch e.Req.Type {
					case wire.Tread:
						err = go9p.PackTread(fc, e.Req.Fid, e.Req.Offset, e.Req.Count)
					case wire.Twrite:
						err = go9p.PackTwrite(fc, e.Req.Fid, e.Req.Offset, uint32(len(e.Req.Data)), e.Req.Data)
					case wire.Twalk:
						err = go9p.PackTwalk(fc, e.Req.Fid, e.Req.Newfid, e.Req.Wname)
					case wire.Tclunk:
						err = go9p.PackTclunk(fc, e.Req.Fid)
					case wire.Tstat:
						err = go9p.PackTstat(fc, e.Req.Fid)
					}
					if err != nil {
						panic(err)
					}
					reqs[i].Tc = fc
					reqs[i].Done = done
					if err := clnt.Rpcnb(reqs[i]); err != nil {
						return
					}
				}
			}()
			go func() { // the caller: looks at each result as soon as the call completes
				for r := range done {
					mu.Lock()
					if i, ok := idx[r]; ok && !closing {
						obs.Order = append(obs.Order, i)
						obs.Times[i]++
						if obs.Times[i] == 1 {
							obs.AtDone[i] = takeSnap(r)
						}
					}
					mu.Unlock()
				}
			}()
			synctest.Wait()
			if got := ntreq() - s.nver; got != n {
				obs.Stuck = fmt.Sprintf("the peer received %d of %d requests", got, n)
			} else {
				var stream []byte
				mu.Lock()
				for _, i := range s.perm {
					t := treqs[s.nver+i]
					rm := *s.ex[i].Reply
					rm.Tag = uint16(t[5]) | uint16(t[6])<<8
					stream = append(stream, wire.Encode(&rm, s.cfg.Dotu)...)
				}
				mu.Unlock()
				obs.Stream = append(obs.Stream, stream...)
				sent := 0
				var rel []int
				for _, c := range seg.Cuts {
					if c > off && c < off+len(stream) {
						rel = append(rel, c-off)
					}
				}
				if bc := Chunks(stream, 0, len(stream), rel); len(bc) > 1 && len(bc) <= 9 {
					for _, c := range bc[:len(bc)-1] {
						if !send(stream[sent:sent+len(c)], off+sent) {
							break
						}
						sent += len(c)
						mu.Lock()
						obs.Progress = append(obs.Progress, [2]int{off + sent, len(obs.Order)})
						mu.Unlock()
					}
				}
				if !send(stream[sent:], off+sent) {
					obs.Stuck = "the client stopped reading the reply stream"
				}
				synctest.Wait()
				mu.Lock()
				for i, r := range reqs {
					if obs.Times[i] > 0 {
						obs.AtEnd[i] = takeSnap(r)
					}
				}
				mu.Unlock()
			}
			mu.Lock()
			closing = true
			mu.Unlock()
			_ = b.Close()
			synctest.Wait()
			close(done)
		} else {
			_ = b.Close()
		}
		synctest.Wait()
	})
	return obs
}

func judgeClnt(j *judge, s *clntSession, o, base *clntObs, seg Seg) {
	if o.Leftover != "" {
		j.leftovers++
		if !strings.Contains(o.Leftover, "blocked goroutines remain") {
			j.rep.Inconclusive = append(j.rep.Inconclusive, "case aborted inside the bubble: "+o.Leftover)
			return
		}
	}
	ctx := fmt.Sprintf("msize %d (client %d, peer %d), segmentation %s with %d cuts", s.msize, s.cfg.M0, s.cfg.Neg, seg.Class, len(seg.Cuts))
	sfx := ":seg=" + seg.Class
	if o.Stuck != "" {
		j.flag("clnt:stuck"+sfx, o.Stuck+" ("+ctx+")", seg, "")
		return
	}
	for _, pr := range o.Progress {
		n := 0
		for n < len(s.perm) && s.starts[s.nver+n+1] <= pr[0] {
			n++
		}
		if pr[1] != n {
			j.flag("clnt:completion-delayed"+sfx, fmt.Sprintf("after the first %d bytes of the reply stream had been written and the client had gone quiet %d calls had completed; %d whole replies lie in those bytes (%s)", pr[0], pr[1], n, ctx), seg, "")
			break
		}
	}
	if !reflect.DeepEqual(o.Order, s.perm) {
		i := 0
		for i < len(o.Order) && i < len(s.perm) && o.Order[i] == s.perm[i] {
			i++
		}
		j.flag("clnt:completions-differ"+sfx, fmt.Sprintf("%d calls completed, the stream holds %d replies; first difference at position %d (%s)", len(o.Order), len(s.perm), i, ctx), seg, "")
	}
	for i, e := range s.ex {
		kk := ":kind=" + e.Kind + sfx
		if o.Times[i] == 0 {
			j.flag("clnt:call-never-completed"+kk, fmt.Sprintf("call %d (%s, reply of %d bytes) never completed although its reply was sent (%s)", i, e.Kind, e.Size, ctx), seg, "")
			continue
		}
		if o.Times[i] > 1 {
			j.flag("clnt:call-completed-twice"+kk, fmt.Sprintf("call %d completed %d times (%s)", i, o.Times[i], ctx), seg, "")
		}
		w := wantSnap(e, s.cfg.Dotu)
		if !snapEq(o.AtDone[i], w) {
			j.flag("clnt:result-differs"+kk, fmt.Sprintf("call %d (%s): result %v, the peer sent %v (%s)", i, e.Kind, o.AtDone[i], w, ctx), seg, "")
		} else if !snapEq(o.AtEnd[i], w) {
			j.flag("clnt:result-disturbed-later"+kk, fmt.Sprintf("call %d (%s): result was right when the call completed and had changed after later bytes arrived: %v, the peer sent %v (%s)", i, e.Kind, o.AtEnd[i], w, ctx), seg, "")
		} else if base != nil && !snapEq(o.AtDone[i], base.AtDone[i]) {
			j.flag("clnt:result-differs-from-unsplit"+kk, fmt.Sprintf("call %d (%s): %v, unsplit %v (%s)", i, e.Kind, o.AtDone[i], base.AtDone[i], ctx), seg, "")
		}
	}
}

type clntPlan struct {
	Cfg       ClntCfg
	MaxSingle int
	NRandom   int
}

func clntPlans(tier string, seed int64) []clntPlan {
	rng := rand.New(rand.NewSource(seed*104729 + 5))
	rm := func(lo, hi int) uint32 { return uint32(lo + rng.Intn(hi-lo+1)) }
	ss := func(i int) int64 { return seed*1000 + 500 + int64(i) }
	if tier == "quick" {
		return []clntPlan{
			{ClntCfg{M0: 64, StreamSeed: ss(1), Bytes: 1400}, 900, 9},
			{ClntCfg{M0: rm(131, 180), Neg: rm(65, 130), Dotu: true, StreamSeed: ss(2), Bytes: 2400}, 900, 9},
			{ClntCfg{M0: rm(200, 600), Neg: 8192, StreamSeed: ss(3), Bytes: 9000}, 150, 9},
			{ClntCfg{M0: 4096, Neg: 4096, Dotu: true, StreamSeed: ss(4), Bytes: 80000}, 40, 6},
		}
	}
	return []clntPlan{
		{ClntCfg{M0: 64, StreamSeed: ss(1), Bytes: 2600}, 4000, 30},
		{ClntCfg{M0: rm(100, 200), Neg: 64, Dotu: true, StreamSeed: ss(2), Bytes: 3000}, 4000, 30},
		{ClntCfg{M0: 8192, Neg: 64, StreamSeed: ss(9), Bytes: 140000}, 300, 12},
		{ClntCfg{M0: 65, Neg: 65, StreamSeed: ss(3), Bytes: 2000}, 4000, 30},
		{ClntCfg{M0: 4096, Neg: rm(66, 127), Dotu: true, StreamSeed: ss(4), Bytes: 3000}, 4000, 30},
		{ClntCfg{M0: rm(128, 255), StreamSeed: ss(5), Bytes: 6000}, 1500, 30},
		{ClntCfg{M0: rm(256, 1023), Neg: rm(256, 1023), Dotu: true, StreamSeed: ss(6), Bytes: 30000}, 600, 30},
		{ClntCfg{M0: 8192, Neg: rm(1024, 4095), StreamSeed: ss(7), Bytes: 120000}, 200, 24},
		{ClntCfg{M0: 4096, Dotu: true, StreamSeed: ss(8), Bytes: 150000}, 200, 24},
	}
}

func TestClntSweep(t *testing.T) {
	if os.Getenv("VERIF_OUT") == "" {
		t.Skip("engine: run through bin/vcheck")
	}
	seed := int64(envInt("VERIF_SEED", 1))
	tier := os.Getenv("VERIF_TIER")
	if tier == "" {
		tier = "quick"
	}
	rep := newReport("recv-clnt-sweep")
	sink := newTraceSink(os.Getenv("VERIF_TRACE_OUT"), envInt("VERIF_TRACE_LINES", 60000))
	defer sink.close()
	if rc := os.Getenv("VERIF_REPLAY_CASE"); rc != "" {
		var r struct {
			Cfg ClntCfg `json:"cfg"`
			Seg Seg     `json:"seg"`
		}
		if err := json.Unmarshal([]byte(rc), &r); err != nil {
			t.Fatal(err)
		}
		s := buildClntSession(r.Cfg)
		j := &judge{rep: rep, seen: map[string]int{}, replay: func(seg Seg, mode string) any {
			return map[string]any{"engine": "clnt", "cfg": r.Cfg, "seg": seg}
		}}
		base := runClnt(t, s, Seg{Class: "unsplit"})
		o := runClnt(t, s, r.Seg)
		judgeClnt(j, s, o, base, r.Seg)
		rep.Cases, rep.Distinct = 1, 1
		rep.Samples = append(rep.Samples, map[string]any{"cfg": r.Cfg, "seg": r.Seg.Class, "completed": len(o.Order), "calls": len(s.ex)})
		if err := rep.Write(); err != nil {
			t.Fatal(err)
		}
		return
	}
	plans := clntPlans(tier, seed)
	classes := map[string]int{}
	reallocs, completed, caseID, leftovers := 0, 0, 0, 0
	perCfg := sink.budget / max(1, len(plans))
	for pi, p := range plans {
		s := buildClntSession(p.Cfg)
		cfg := p.Cfg
		j := &judge{rep: rep, seen: map[string]int{}, replay: func(seg Seg, mode string) any {
			return map[string]any{"engine": "clnt", "cfg": cfg, "seg": seg}
		}}
		rng := rand.New(rand.NewSource(seed*37 + int64(pi)))
		from := 0
		if s.nver > 0 {
			from = s.starts[1]
		}
		segs := Plans(s.starts, from, rng, p.MaxSingle, p.NRandom)
		progress(map[string]any{"engine": "clnt", "cfg": cfg, "seg": Seg{Class: "unsplit"}})
		base := runClnt(t, s, Seg{Class: "unsplit"})
		judgeClnt(j, s, base, nil, Seg{Class: "unsplit"})
		rep.Cases++
		classes["unsplit"]++
		if base.Stuck != "" {
			continue
		}
		traceBudgetEnd := sink.lines + perCfg
		nsingle, singleSeen, longTraced := 0, 0, 0
		for _, sg := range segs {
			if sg.Class == "single" || sg.Class == "prefix" {
				nsingle++
			}
		}
		for _, sg := range segs {
			progress(map[string]any{"engine": "clnt", "cfg": cfg, "seg": sg})
			o := runClnt(t, s, sg)
			judgeClnt(j, s, o, base, sg)
			rep.Cases++
			classes[sg.Class]++
			completed += len(o.Order)
			want := sg.Class != "single" && sg.Class != "prefix"
			if !want {
				singleSeen++
				want = singleSeen%max(1, nsingle/40) == 0
			}
			if len(s.frames) > 600 { // long streams make every TLC state big: a few cases only
				want = want && sg.Class != "bytes" && longTraced < 4
			}
			if want && o.Stuck == "" && sink.lines+len(o.Trace)+2 <= traceBudgetEnd && sink.room(len(o.Trace)) {
				longTraced++
				caseID++
				nadv := 0
				for _, e := range o.Trace {
					if e["ev"] == "adv" {
						nadv++
					}
				}
				sink.put(caseID, int(cfg.M0), 0, s.frames, o.Trace, false, nadv)
			}
			prevcap := -1
			for _, e := range o.Trace {
				switch e["ev"] {
				case "read":
					c := e["cap"].(int)
					if prevcap >= 0 && c > prevcap {
						reallocs++
					}
					prevcap = c
				case "adv":
					prevcap = e["cap"].(int) - e["sz"].(int)
				}
			}
		}
		for k, n := range j.seen {
			rep.Stats["count:"+k] = n
		}
		leftovers += j.leftovers
		if len(rep.Samples) < 5 {
			rep.Samples = append(rep.Samples, map[string]any{"cfg": cfg, "msize": s.msize, "calls": len(s.ex), "reply_stream_bytes": s.starts[len(s.starts)-1],
				"segmentations": len(segs), "unsplit_completed": len(base.Order), "example_seg": segs[len(segs)-1]})
		}
	}
	rep.Distinct = rep.Cases
	rep.Stats["classes"] = classes
	rep.Stats["reallocations_observed"] = reallocs
	rep.Stats["calls_completed"] = completed
	rep.Stats["cases_ending_with_blocked_library_goroutines"] = leftovers
	rep.Stats["trace_cases"] = sink.cases
	rep.Stats["trace_lines"] = sink.lines
	if err := rep.Write(); err != nil {
		t.Fatal(err)
	}
}
