// Package recvh binds spec/RecvLoop.tla to the two receive loops of go9p (Conn.recv, Clnt.recv).
//
// Two engines (srv_test.go, clnt_test.go) send one and the same byte stream under many
// segmentations into transport writes and compare, for every segmentation,
//   - what the scripted implementation / the caller of the client observed with what the
//     specification predicts for the stream (the messages of the stream, each exactly once, in
//     order, intact, up to the first illegal frame), and with the unsplit run;
//   - the recv_read / recv_advance (crecv_*) events of the real loop, written as ndjson and
//     validated by TLC against spec/RecvLoopTrace.tla with the real constants.
package recvh

import (
	"encoding/json"
	"fmt"
	"math/rand"
	"os"
	"sort"
	"strconv"
)

// Seg is one way of cutting a byte stream into transport writes.
type Seg struct {
	Class string `json:"class"` // unsplit | single | bytes | permsg | random | prefix | prefixall | chunks
	Cuts  []int  `json:"cuts"`  // sorted offsets (0 < c < total) at which a new write starts
}

func envInt(name string, def int) int {
	if s := os.Getenv(name); s != "" {
		if v, err := strconv.Atoi(s); err == nil {
			return v
		}
	}
	return def
}

func uniqSorted(c []int, lo, hi int) []int {
	sort.Ints(c)
	out := c[:0]
	prev := -1
	for _, x := range c {
		if x <= lo || x >= hi || x == prev {
			continue
		}
		out = append(out, x)
		prev = x
	}
	return out
}

// Plans returns the segmentations to try for a stream whose messages start at starts[i]
// (starts[len-1] == total is the end).  Offsets below `from` belong to the sequential set-up part:
// they are only cut by the classes that cut everywhere.  maxSingle bounds the number of
// single-split cases (all split points if the stream is short enough, else every split point in or
// next to a size prefix plus a seeded sample of the others).
func Plans(starts []int, from int, rng *rand.Rand, maxSingle, nRandom int) []Seg {
	total := starts[len(starts)-1]
	var out []Seg
	out = append(out, Seg{Class: "unsplit"})
	// (b) one byte at a time
	all := make([]int, 0, total)
	for p := 1; p < total; p++ {
		all = append(all, p)
	}
	out = append(out, Seg{Class: "bytes", Cuts: all})
	// (c) k messages per write
	for _, k := range []int{1, 2, 3, 7} {
		var c []int
		for i := k; i < len(starts)-1; i += k {
			c = append(c, starts[i])
		}
		out = append(out, Seg{Class: "permsg", Cuts: uniqSorted(c, 0, total)})
	}
	// (e) inside every size prefix at once: j bytes of each prefix end a write
	for j := 1; j <= 4; j++ {
		var c []int
		for _, s := range starts[:len(starts)-1] {
			c = append(c, s+j)
		}
		out = append(out, Seg{Class: "prefixall", Cuts: uniqSorted(c, 0, total)})
	}
	{
		var c []int // every prefix byte by byte, bodies whole
		for _, s := range starts[:len(starts)-1] {
			c = append(c, s, s+1, s+2, s+3, s+4)
		}
		out = append(out, Seg{Class: "prefixall", Cuts: uniqSorted(c, 0, total)})
	}
	// (a) every single split point / (e) around each prefix
	var singles []int
	if total-from-1 <= maxSingle {
		for p := from + 1; p < total; p++ {
			singles = append(singles, p)
		}
	} else {
		near := map[int]bool{}
		for _, s := range starts[:len(starts)-1] {
			if s < from {
				continue
			}
			for d := -1; d <= 5; d++ {
				if s+d > from && s+d < total {
					near[s+d] = true
				}
			}
		}
		for p := range near {
			singles = append(singles, p)
		}
		sort.Ints(singles)
		if len(singles) > maxSingle {
			rng.Shuffle(len(singles), func(i, j int) { singles[i], singles[j] = singles[j], singles[i] })
			singles = singles[:maxSingle]
		}
		for len(singles) < maxSingle {
			p := from + 1 + rng.Intn(total-from-1)
			if !near[p] {
				near[p] = true
				singles = append(singles, p)
			}
		}
		sort.Ints(singles)
	}
	for _, p := range singles {
		cls := "single"
		for _, s := range starts {
			if p > s && p < s+4 {
				cls = "prefix"
			}
		}
		out = append(out, Seg{Class: cls, Cuts: []int{p}})
	}
	// (d) seeded random multi-way splits: few cuts, many cuts, geometric chunk sizes
	for i := 0; i < nRandom; i++ {
		var c []int
		switch i % 3 {
		case 0:
			n := 2 + rng.Intn(6)
			for j := 0; j < n; j++ {
				c = append(c, 1+rng.Intn(total-1))
			}
		case 1:
			n := total / (2 + rng.Intn(30))
			for j := 0; j < n; j++ {
				c = append(c, 1+rng.Intn(total-1))
			}
		default:
			mean := 1 + rng.Intn(200)
			for p := 0; p < total; {
				p += 1 + int(rng.ExpFloat64()*float64(mean))
				c = append(c, p)
			}
		}
		cls := "random"
		if i%3 == 2 {
			cls = "chunks"
		}
		out = append(out, Seg{Class: cls, Cuts: uniqSorted(c, 0, total)})
	}
	return out
}

// Chunks cuts data[lo:hi] at the cut offsets (absolute offsets into data).
func Chunks(data []byte, lo, hi int, cuts []int) [][]byte {
	var out [][]byte
	prev := lo
	i := sort.SearchInts(cuts, lo+1)
	for ; i < len(cuts) && cuts[i] < hi; i++ {
		if cuts[i] > prev {
			out = append(out, data[prev:cuts[i]])
			prev = cuts[i]
		}
	}
	if hi > prev {
		out = append(out, data[prev:hi])
	}
	return out
}

// Frame is one frame of a stream in the vocabulary of RecvLoop (Reset line of a trace).
type Frame struct {
	Sz  int `json:"sz"`  // announced size (capped at 1<<30)
	Len int `json:"len"` // bytes it occupies in the stream
	Ver int `json:"ver"` // msize carried by a version message, else 0
	St  int `json:"st"`  // offset of its first byte
}

func fnv32(b []byte) uint32 {
	h := uint32(2166136261)
	for _, x := range b {
		h ^= uint32(x)
		h *= 16777619
	}
	return h
}

func fnvStr(ss []string) uint64 {
	h := uint64(14695981039346656037)
	for _, s := range ss {
		for i := 0; i < len(s); i++ {
			h ^= uint64(s[i])
			h *= 1099511628211
		}
		h ^= 0xff
		h *= 1099511628211
	}
	return h & 0x7fffffffffffffff
}

func pattern(k, n int) []byte {
	b := make([]byte, n)
	for i := range b {
		b[i] = byte(k*131 + i*31 + (i >> 8) + 7)
	}
	return b
}

func nameOf(k, n int) string {
	b := make([]byte, n)
	for i := range b {
		b[i] = byte('a' + (k*7+i*3+(i>>5))%26)
	}
	return string(b)
}

func short(b []byte) string {
	if len(b) <= 24 {
		return fmt.Sprintf("%x", b)
	}
	return fmt.Sprintf("%x..%x(len %d, fnv %08x)", b[:8], b[len(b)-8:], len(b), fnv32(b))
}

func firstDiff(a, b []byte) int {
	n := len(a)
	if len(b) < n {
		n = len(b)
	}
	for i := 0; i < n; i++ {
		if a[i] != b[i] {
			return i
		}
	}
	if len(a) != len(b) {
		return n
	}
	return -1
}

func payloadBytes(p uint64, n int) []byte {
	b := make([]byte, n)
	for i := range b {
		b[i] = byte(p >> (8 * (uint(i) % 8)))
	}
	return b
}

func jsonStr(v any) string { b, _ := json.Marshal(v); return string(b) }

// traceSink writes RecvLoopTrace cases up to a line budget.
type traceSink struct {
	f      *os.File
	lines  int
	budget int
	cases  int
}

func newTraceSink(path string, budget int) *traceSink {
	if path == "" {
		return &traceSink{}
	}
	f, err := os.Create(path)
	if err != nil {
		return &traceSink{}
	}
	return &traceSink{f: f, budget: budget}
}

func (s *traceSink) room(n int) bool { return s.f != nil && s.lines+n+2 <= s.budget }

func (s *traceSink) put(id int, m0, cap0 int, frames []Frame, evs []map[string]any, closed bool, nd int) {
	if s.f == nil {
		return
	}
	w := func(v any) {
		b, _ := json.Marshal(v)
		s.f.Write(b)
		s.f.Write([]byte("\n"))
		s.lines++
	}
	w(map[string]any{"ev": "Reset", "case": id, "m0": m0, "fac": 8, "cap0": cap0, "stream": frames})
	for _, e := range evs {
		w(e)
	}
	w(map[string]any{"ev": "end", "closed": closed, "nd": nd})
	s.cases++
}

func (s *traceSink) close() {
	if s.f != nil {
		s.f.Close()
	}
}

// Violation / Report: the engine report format of the brief (same shape as harness/srvh.Report).
type Violation struct {
	Key    string `json:"key"`
	What   string `json:"what"`
	Replay any    `json:"replay"`
}

type Report struct {
	Engine       string         `json:"engine"`
	Cases        int            `json:"cases"`
	Distinct     int            `json:"distinct"`
	Samples      []any          `json:"samples"`
	Violations   []Violation    `json:"violations"`
	Inconclusive []string       `json:"inconclusive"`
	Stats        map[string]any `json:"stats"`
}

func newReport(engine string) *Report {
	return &Report{Engine: engine, Samples: []any{}, Violations: []Violation{}, Inconclusive: []string{}, Stats: map[string]any{}}
}

func (r *Report) Write() error {
	p := os.Getenv("VERIF_OUT")
	if p == "" {
		return nil
	}
	b, err := json.Marshal(r)
	if err != nil {
		return err
	}
	return os.WriteFile(p, b, 0o644)
}

// progress records the case about to be executed, so that a crash of the process (a panic in a
// goroutine of the library) can be attributed to it by lib/checks/c13.py.
func progress(v any) {
	if p := os.Getenv("VERIF_PROGRESS"); p != "" {
		b, _ := json.Marshal(v)
		_ = os.WriteFile(p, b, 0o644)
	}
}
