package recvh

import (
	"fmt"

	"github.com/rminnich/go9p"
)

// Cmd is what the scripted implementation answers to one request.
type Cmd struct {
	Out     string // "ok" | "err"
	QType   uint8  // type of the (last) qid of an answer that carries qids
	N       int    // bytes of an Rread
	Payload uint64 // identifies the answer on the wire (qid path, Rwrite count, Rread bytes)
}

// scriptedOps is the file-server implementation behind the real server: every operation asks
// Decide (which records what it was handed and may block) and answers as told.
type scriptedOps struct {
	Decide func(op string, r *go9p.SrvReq) Cmd
}

func (o *scriptedOps) call(op string, r *go9p.SrvReq) {
	cmd := o.Decide(op, r)
	if cmd.Out == "err" {
		r.RespondError(&go9p.Error{Err: fmt.Sprintf("E%d", cmd.Payload), Errornum: 77})
		return
	}
	q := &go9p.Qid{Type: cmd.QType, Path: cmd.Payload}
	tc := r.Tc
	switch tc.Type {
	case go9p.Tattach:
		r.RespondRattach(q)
	case go9p.Twalk:
		qs := make([]go9p.Qid, len(tc.Wname))
		for i := range qs {
			qs[i] = go9p.Qid{Type: go9p.QTDIR, Path: cmd.Payload}
		}
		if len(qs) > 0 {
			qs[len(qs)-1].Type = cmd.QType
		}
		r.RespondRwalk(qs)
	case go9p.Topen:
		r.RespondRopen(q, 0)
	case go9p.Tcreate:
		r.RespondRcreate(q, 0)
	case go9p.Tread:
		n := cmd.N
		if n > int(tc.Count) {
			n = int(tc.Count)
		}
		r.RespondRread(payloadBytes(cmd.Payload, n))
	case go9p.Twrite:
		r.RespondRwrite(uint32(cmd.Payload))
	case go9p.Tclunk:
		r.RespondRclunk()
	case go9p.Tremove:
		r.RespondRremove()
	case go9p.Tstat:
		r.RespondRstat(&go9p.Dir{Name: "f", Length: cmd.Payload, Uid: "u", Gid: "g", Muid: "m"})
	case go9p.Twstat:
		r.RespondRwstat()
	default:
		r.RespondError("unexpected op")
	}
}

func (o *scriptedOps) Attach(r *go9p.SrvReq) { o.call("attach", r) }
func (o *scriptedOps) Walk(r *go9p.SrvReq)   { o.call("walk", r) }
func (o *scriptedOps) Open(r *go9p.SrvReq)   { o.call("open", r) }
func (o *scriptedOps) Create(r *go9p.SrvReq) { o.call("create", r) }
func (o *scriptedOps) Read(r *go9p.SrvReq)   { o.call("read", r) }
func (o *scriptedOps) Write(r *go9p.SrvReq)  { o.call("write", r) }
func (o *scriptedOps) Clunk(r *go9p.SrvReq)  { o.call("clunk", r) }
func (o *scriptedOps) Remove(r *go9p.SrvReq) { o.call("remove", r) }
func (o *scriptedOps) Stat(r *go9p.SrvReq)   { o.call("stat", r) }
func (o *scriptedOps) Wstat(r *go9p.SrvReq)  { o.call("wstat", r) }
