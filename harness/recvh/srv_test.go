package recvh

import (
	"bytes"
	"encoding/json"
	"fmt"
	"io"
	"log"
	"math/rand"
	"net"
	"os"
	"reflect"
	"strings"
	"sync"
	"testing"
	"testing/synctest"

	"verif/harness/wire"

	"github.com/rminnich/go9p"
)

func init() { log.SetOutput(io.Discard) }

// ---------------------------------------------------------------- users (OsUsers cannot map names)

type usr struct{}

func (usr) Name() string               { return "user" }
func (usr) Id() int                    { return 1000 }
func (usr) Groups() []go9p.Group       { return nil }
func (usr) IsMember(go9p.Group) bool   { return false }

type users struct{}

func (users) Uid2User(int) go9p.User        { return usr{} }
func (users) Uname2User(string) go9p.User   { return usr{} }
func (users) Gid2Group(int) go9p.Group      { return nil }
func (users) Gname2Group(string) go9p.Group { return nil }

// ---------------------------------------------------------------- sessions

type SrvCfg struct {
	SrvMsize   uint32 `json:"srv_msize"`
	CliMsize   uint32 `json:"cli_msize"`
	Dotu       bool   `json:"dotu"`
	Downgrade  bool   `json:"downgrade"` // the server offers 9P2000.u, the client asks for 9P2000: the dialect changes in mid-stream
	StreamSeed int64  `json:"stream_seed"`
	Bytes      int    `json:"bytes"`
	Bad        string `json:"bad"`    // "" | over1 | overhuge | short0 | short4 | short6
	BadAt      int    `json:"bad_at"` // body index before which the illegal frame is inserted
}

type sMsg struct {
	M    *wire.Msg
	B    []byte
	Kind string
	Impl bool // body message that must reach the scripted implementation
	Body bool
	Bad  bool
	Sz   int
	Ver  int
}

type srvSession struct {
	cfg       SrvCfg
	msize     int
	msgs      []*sMsg
	nsetup    int
	stream    []byte
	starts    []int
	frames    []Frame
	predicted int // messages the specification predicts to be delivered
}

const bodyTag0 = 1000

func buildSrvSession(cfg SrvCfg) *srvSession {
	s := &srvSession{cfg: cfg}
	m := cfg.SrvMsize
	if cfg.CliMsize < m {
		m = cfg.CliMsize
	}
	s.msize = int(m)
	rng := rand.New(rand.NewSource(cfg.StreamSeed))
	ver := "9P2000"
	if cfg.Dotu {
		ver = "9P2000.u"
	}
	add := func(kind string, mm *wire.Msg, impl, body bool) {
		b := wire.Encode(mm, cfg.Dotu)
		sm := &sMsg{M: mm, B: b, Kind: kind, Impl: impl, Body: body, Sz: len(b)}
		if mm.Type == wire.Tversion {
			sm.Ver = int(mm.Msize)
		}
		s.msgs = append(s.msgs, sm)
	}
	add("version", &wire.Msg{Type: wire.Tversion, Tag: wire.NOTAG, Msize: cfg.CliMsize, Version: ver}, false, false)
	if cfg.Downgrade {
		// the smallest Tattach: its plain-9P2000 form is shorter than any 9P2000.u Tattach
		add("attach", &wire.Msg{Type: wire.Tattach, Tag: 1, Fid: 0, Afid: wire.NOFID, Uname: "", Aname: ""}, false, false)
	} else {
		add("attach", &wire.Msg{Type: wire.Tattach, Tag: 1, Fid: 0, Afid: wire.NOFID, Uname: "user", Aname: "tree", Unamenum: 1000}, false, false)
	}
	add("walk", &wire.Msg{Type: wire.Twalk, Tag: 2, Fid: 0, Newfid: 1, Wname: []string{"file"}}, false, false)
	add("open", &wire.Msg{Type: wire.Topen, Tag: 3, Fid: 1, Mode: 2}, false, false)
	nclunk := 2 + rng.Intn(4)
	for i := 0; i < nclunk; i++ {
		add("walk", &wire.Msg{Type: wire.Twalk, Tag: uint16(4 + i), Fid: 0, Newfid: uint32(200 + i), Wname: []string{"c"}}, false, false)
	}
	s.nsetup = len(s.msgs)
	// body: independent requests on established fids, tiny and near-msize mixed
	clunked := 0
	size := 0
	maxio := s.msize - 24
	for k := 0; size < cfg.Bytes && k < 50000; k++ {
		tag := uint16(bodyTag0 + k)
		var mm *wire.Msg
		kind := ""
		impl := true
		r := rng.Intn(100)
		if cfg.Bad != "" {
			// When the server drops the connection, Conn.close walks the fid table without the lock
			// while workers of already parsed requests may still add or remove fids (a crash that
			// belongs to C06/C11): keep fid-creating and fid-destroying requests out of these sessions.
			if r >= 12 && r < 20 {
				r = 25
			} else if r >= 86 {
				r = 40
			}
		}
		switch {
		case r < 12 || (r < 20 && clunked >= nclunk):
			kind, impl = "flush", false
			mm = &wire.Msg{Type: wire.Tflush, Tag: tag, Oldtag: 0xFFF0}
		case r < 20:
			kind = "clunk"
			mm = &wire.Msg{Type: wire.Tclunk, Tag: tag, Fid: uint32(200 + clunked)}
			clunked++
		case r < 32:
			kind = "read"
			mm = &wire.Msg{Type: wire.Tread, Tag: tag, Fid: 1, Offset: uint64(rng.Int63n(1 << 40)), Count: uint32(rng.Intn(maxio + 1))}
		case r < 50:
			kind = "write"
			mm = &wire.Msg{Type: wire.Twrite, Tag: tag, Fid: 1, Offset: uint64(rng.Int63n(1 << 40)), Data: pattern(k, rng.Intn(9))}
		case r < 68:
			kind = "write"
			mm = &wire.Msg{Type: wire.Twrite, Tag: tag, Fid: 1, Offset: uint64(rng.Int63n(1 << 40)), Data: pattern(k, rng.Intn(maxio+1))}
		case r < 80:
			kind = "write"
			mm = &wire.Msg{Type: wire.Twrite, Tag: tag, Fid: 1, Offset: uint64(k), Data: pattern(k, maxio)}
		case r < 86: // frame of exactly msize; the server refuses it before the implementation
			kind, impl = "bigwrite", false
			mm = &wire.Msg{Type: wire.Twrite, Tag: tag, Fid: 1, Offset: uint64(k), Data: pattern(k, maxio+1)}
		case r < 92: // frame of exactly msize that is executed
			kind = "walk"
			mm = &wire.Msg{Type: wire.Twalk, Tag: tag, Fid: 0, Newfid: uint32(5000 + k), Wname: []string{nameOf(k, s.msize-19)}}
		default:
			kind = "walk"
			var names []string
			for i, n := 0, rng.Intn(4); i < n; i++ {
				names = append(names, nameOf(k+i, 1+rng.Intn(6)))
			}
			mm = &wire.Msg{Type: wire.Twalk, Tag: tag, Fid: 0, Newfid: uint32(5000 + k), Wname: names}
		}
		add(kind, mm, impl, true)
		size += len(s.msgs[len(s.msgs)-1].B)
	}
	// illegal frame (C12 side of the loop): inserted before body message BadAt
	if cfg.Bad != "" {
		at := s.nsetup + cfg.BadAt
		if at > len(s.msgs) {
			at = len(s.msgs)
		}
		var b []byte
		ann := 0
		switch cfg.Bad {
		case "over1":
			ann = s.msize + 1
			b = wire.Encode(&wire.Msg{Type: wire.Twrite, Tag: 999, Fid: 1, Data: pattern(1, s.msize+1-23)}, cfg.Dotu)
		case "overhuge":
			ann = 1 << 30
			b = wire.Encode(&wire.Msg{Type: wire.Twrite, Tag: 999, Fid: 1, Data: pattern(1, 9)}, cfg.Dotu)
			b[0], b[1], b[2], b[3] = 0xff, 0xff, 0xff, 0xff
		default: // shortN: a frame announcing N < 7 bytes, occupying 7
			fmt.Sscanf(cfg.Bad, "short%d", &ann)
			b = []byte{byte(ann), 0, 0, 0, wire.Tclunk, 0xe7, 0x03}
		}
		bad := &sMsg{B: b, Kind: "bad", Bad: true, Sz: ann}
		s.msgs = append(s.msgs[:at], append([]*sMsg{bad}, s.msgs[at:]...)...)
		s.predicted = at
	} else {
		s.predicted = len(s.msgs)
	}
	off := 0
	for _, mg := range s.msgs {
		s.starts = append(s.starts, off)
		s.frames = append(s.frames, Frame{Sz: mg.Sz, Len: len(mg.B), Ver: mg.Ver, St: off})
		s.stream = append(s.stream, mg.B...)
		off += len(mg.B)
	}
	s.starts = append(s.starts, off)
	return s
}

// what the scripted implementation answers, as a function of the request it was handed
func readAnswer(offset uint64, count uint32) (uint64, int) {
	return offset*0x9E3779B97F4A7C15 + uint64(count), int(offset % uint64(count+1))
}
func writeAnswer(offset uint64, data []byte) uint32 { return fnv32(data) ^ uint32(offset) ^ uint32(len(data))<<20 }

type callRec struct {
	Op       string
	Tag      uint16
	Fid      uint32
	Newfid   uint32
	Offset   uint64
	Count    uint32
	Names    []string
	DataCall []byte // Twrite payload when the implementation was called
	DataRel  []byte // ... and when it answered (after every later byte had arrived, in late mode)
}

type srvObs struct {
	Progress [][2]int // few-cut segmentations: (offset sent so far, requests parsed) at quiescence after each write
	Arrivals []uint16
	Calls    []*callRec
	Replies  [][]byte
	Closed   bool
	Stuck    string
	Trace    []map[string]any
	Leftover string
}

// runSrv executes the session under one segmentation against a fresh real server.
func runSrv(t *testing.T, lg *go9p.Logger, s *srvSession, seg Seg, late bool) (obs *srvObs) {
	obs = &srvObs{}
	defer func() {
		if r := recover(); r != nil {
			obs.Leftover = fmt.Sprint(r)
		}
	}()
	synctest.Test(t, func(t *testing.T) {
		var mu sync.Mutex
		ops := &scriptedOps{}
		gates := map[uint16]chan struct{}{}
		if late {
			for _, mg := range s.msgs {
				if mg.Impl {
					gates[mg.M.Tag] = make(chan struct{})
				}
			}
		}
		ops.Decide = func(op string, r *go9p.SrvReq) Cmd {
			tc := r.Tc
			if tc.Tag < bodyTag0 {
				if op == "attach" {
					return Cmd{Out: "ok", QType: go9p.QTDIR, Payload: 1}
				}
				return Cmd{Out: "ok", QType: 0, Payload: 2}
			}
			rec := &callRec{Op: op, Tag: tc.Tag, Fid: tc.Fid}
			switch op {
			case "write":
				rec.Offset, rec.Count = tc.Offset, tc.Count
				rec.DataCall = append([]byte(nil), tc.Data...)
			case "read":
				rec.Offset, rec.Count = tc.Offset, tc.Count
			case "walk":
				rec.Newfid = tc.Newfid
				rec.Names = append([]string(nil), tc.Wname...)
			}
			mu.Lock()
			obs.Calls = append(obs.Calls, rec)
			g := gates[tc.Tag]
			mu.Unlock()
			if g != nil {
				<-g
			}
			cmd := Cmd{Out: "ok"}
			switch op {
			case "write":
				rec.DataRel = append([]byte(nil), tc.Data...)
				cmd.Payload = uint64(writeAnswer(tc.Offset, tc.Data))
			case "read":
				cmd.Payload, cmd.N = readAnswer(tc.Offset, tc.Count)
			case "walk":
				cmd.Payload = fnvStr(tc.Wname)
			}
			return cmd
		}
		srv := &go9p.Srv{Log: lg, Dotu: s.cfg.Dotu || s.cfg.Downgrade, Msize: s.cfg.SrvMsize, Upool: users{}}
		if !srv.Start(ops) {
			panic("Srv.Start refused the scripted implementation")
		}
		defer func() { go9p.VerifHook = nil }()
		go9p.VerifHook = func(point string, conn *go9p.Conn, req *go9p.SrvReq, nums []int) {
			switch point {
			case "recv_read":
				obs.Trace = append(obs.Trace, map[string]any{"ev": "read", "n": nums[0], "pos": nums[1], "cap": nums[2]})
			case "recv_advance":
				obs.Trace = append(obs.Trace, map[string]any{"ev": "adv", "sz": nums[0], "pos": nums[1], "cap": nums[2]})
				obs.Arrivals = append(obs.Arrivals, req.Tc.Tag)
			}
		}
		a, b := net.Pipe()
		srv.NewConn(a)
		weClosed := false
		var fr wire.Framer
		go func() { // the client's receive side: never lets the server block on a write
			buf := make([]byte, 1<<16)
			for {
				n, err := b.Read(buf)
				mu.Lock()
				if n > 0 {
					fr.Feed(buf[:n])
					for {
						f, ferr := fr.Next()
						if f == nil || ferr != nil {
							break
						}
						obs.Replies = append(obs.Replies, f)
					}
				}
				if err != nil {
					if !weClosed {
						obs.Closed = true
					}
					mu.Unlock()
					return
				}
				mu.Unlock()
			}
		}()
		send := func(lo, hi int) bool {
			chunks := Chunks(s.stream, lo, hi, seg.Cuts)
			done := false
			go func() {
				for _, c := range chunks {
					if _, err := b.Write(c); err != nil {
						break
					}
				}
				mu.Lock()
				done = true
				mu.Unlock()
			}()
			synctest.Wait()
			mu.Lock()
			defer mu.Unlock()
			return done
		}
		nrep := func() int { mu.Lock(); defer mu.Unlock(); return len(obs.Replies) }
		// set-up: one request at a time (the requests depend on each other)
		first := 0
		if s.cfg.Downgrade {
			// the Tversion that changes the dialect and the Tattach after it go out together, cut as the segmentation
			// says (Tversion is handled inside the receive loop, so the order of execution is fixed)
			first = 2
			if !send(s.starts[0], s.starts[2]) {
				obs.Stuck = "Tversion + Tattach were not consumed"
			} else if nrep() != 2 {
				obs.Stuck = fmt.Sprintf("Tversion + Tattach: %d of 2 replies", nrep())
			}
		}
		for i := first; i < s.nsetup && obs.Stuck == ""; i++ {
			if !send(s.starts[i], s.starts[i+1]) {
				obs.Stuck = fmt.Sprintf("set-up message %d (%s) was not consumed", i, s.msgs[i].Kind)
			} else if nrep() != i+1 {
				obs.Stuck = fmt.Sprintf("set-up message %d (%s) was not answered", i, s.msgs[i].Kind)
			}
		}
		if obs.Stuck == "" {
			lo := s.starts[s.nsetup]
			if bc := Chunks(s.stream, lo, len(s.stream), seg.Cuts); len(bc) > 1 && len(bc) <= 9 {
				// few writes: look at the server after each of them (a request must be executed when
				// its last byte has arrived, not when later bytes arrive)
				for _, c := range bc[:len(bc)-1] {
					if !send(lo, lo+len(c)) {
						break
					}
					lo += len(c)
					obs.Progress = append(obs.Progress, [2]int{lo, len(obs.Arrivals)})
				}
			}
			if !send(lo, len(s.stream)) {
				mu.Lock()
				if !obs.Closed {
					obs.Stuck = "the server stopped reading the stream"
				}
				mu.Unlock()
			}
			if late { // answer in arrival order, after every byte of the stream has been received
				for _, tag := range append([]uint16(nil), obs.Arrivals...) {
					if g := gates[tag]; g != nil {
						close(g)
						delete(gates, tag)
						synctest.Wait()
					}
				}
			}
		}
		synctest.Wait()
		mu.Lock()
		weClosed = true
		mu.Unlock()
		_ = b.Close()
		for _, g := range gates {
			close(g)
		}
		synctest.Wait()
	})
	return obs
}

// ---------------------------------------------------------------- verdicts

type judge struct {
	leftovers int
	rep    *Report
	seen   map[string]int
	side   string
	replay func(seg Seg, mode string) any
}

func (j *judge) flag(key, what string, seg Seg, mode string) {
	j.seen[key]++
	if j.seen[key] > 1 {
		return
	}
	j.rep.Violations = append(j.rep.Violations, Violation{Key: key, What: what, Replay: j.replay(seg, mode)})
}

func decodeReply(f []byte, dotu bool) (*wire.Msg, error) { return wire.Decode(f, dotu) }

// judgeSrv compares one run with what the specification predicts for the stream (the first
// `predicted` messages, each once, in order, intact) and with the unsplit run.
func judgeSrv(j *judge, s *srvSession, o, base *srvObs, seg Seg, mode string) {
	if o.Leftover != "" {
		j.leftovers++
		if !strings.Contains(o.Leftover, "blocked goroutines remain") {
			// the bubble did not run to its end (a panic in the harness itself): no verdict from this case
			j.rep.Inconclusive = append(j.rep.Inconclusive, "case aborted inside the bubble: "+o.Leftover)
			return
		}
	}
	ctx := fmt.Sprintf("msize %d, %s, segmentation %s with %d cuts", s.msize, mode, seg.Class, len(seg.Cuts))
	bad := s.cfg.Bad
	sfx := fmt.Sprintf(":seg=%s:mode=%s", seg.Class, mode)
	if bad != "" {
		sfx += ":illegal=" + bad
	}
	if o.Stuck != "" {
		j.flag("srv:stuck"+sfx, o.Stuck+" ("+ctx+")", seg, mode)
		return
	}
	// same requests, same order
	var want []uint16
	for _, mg := range s.msgs[:s.predicted] {
		want = append(want, mg.M.Tag)
	}
	if !reflect.DeepEqual(want, o.Arrivals) && !(len(want) == 0 && len(o.Arrivals) == 0) {
		i := 0
		for i < len(want) && i < len(o.Arrivals) && want[i] == o.Arrivals[i] {
			i++
		}
		j.flag("srv:requests-differ"+sfx, fmt.Sprintf("the server parsed %d requests, the stream holds %d legal ones; first difference at request %d (%s)",
			len(o.Arrivals), len(want), i, ctx), seg, mode)
	}
	for _, pr := range o.Progress {
		n := 0
		for n < s.predicted && s.starts[n+1] <= pr[0] {
			n++
		}
		if pr[1] != n {
			j.flag("srv:request-delayed"+sfx, fmt.Sprintf("after the first %d bytes of the stream had been written and the server had gone quiet it had parsed %d requests; %d whole requests lie in those bytes (%s)", pr[0], pr[1], n, ctx), seg, mode)
			break
		}
	}
	calls := map[uint16][]*callRec{}
	for _, c := range o.Calls {
		calls[c.Tag] = append(calls[c.Tag], c)
	}
	nwant := 0
	for idx, mg := range s.msgs {
		if !mg.Body || mg.Bad {
			continue
		}
		cs := calls[mg.M.Tag]
		delete(calls, mg.M.Tag)
		kk := ":kind=" + mg.Kind + sfx
		if idx >= s.predicted || !mg.Impl {
			if len(cs) > 0 {
				j.flag("srv:executed-unexpectedly"+kk, fmt.Sprintf("request %d (%s) reached the implementation although it lies behind an illegal frame or is refused by the server (%s)", idx, mg.Kind, ctx), seg, mode)
			}
			continue
		}
		nwant++
		if len(cs) == 0 {
			if bad != "" {
				// the stream ends in an illegal frame: the server drops the connection (and releases its fids)
				// as soon as it sees that frame, so a request parsed just before it may find its fid gone; that
				// it was parsed, once and in order, is checked above
				continue
			}
			j.flag("srv:not-executed"+kk, fmt.Sprintf("request %d (%s, %d bytes) never reached the implementation (%s)", idx, mg.Kind, len(mg.B), ctx), seg, mode)
			continue
		}
		if len(cs) > 1 {
			j.flag("srv:executed-twice"+kk, fmt.Sprintf("request %d (%s) reached the implementation %d times (%s)", idx, mg.Kind, len(cs), ctx), seg, mode)
		}
		c := cs[0]
		m := mg.M
		okf := c.Fid == m.Fid
		switch mg.Kind {
		case "write":
			okf = okf && c.Op == "write" && c.Offset == m.Offset && int(c.Count) == len(m.Data)
			if d := firstDiff(c.DataCall, m.Data); d >= 0 {
				j.flag("srv:payload-at-call"+kk, fmt.Sprintf("request %d: Twrite data handed to the implementation differs from the bytes sent at offset %d: got %s want %s (%s)", idx, d, short(c.DataCall), short(m.Data), ctx), seg, mode)
			} else if d := firstDiff(c.DataRel, m.Data); d >= 0 {
				j.flag("srv:payload-disturbed-later"+kk, fmt.Sprintf("request %d: Twrite data was intact when the implementation was called but byte %d had changed when it answered, after later bytes had arrived: got %s want %s (%s)", idx, d, short(c.DataRel), short(m.Data), ctx), seg, mode)
			}
		case "read":
			okf = okf && c.Op == "read" && c.Offset == m.Offset && c.Count == m.Count
		case "walk":
			okf = okf && c.Op == "walk" && c.Newfid == m.Newfid && (len(c.Names) == len(m.Wname)) && (len(m.Wname) == 0 || reflect.DeepEqual(c.Names, m.Wname))
		case "clunk":
			okf = okf && c.Op == "clunk"
		}
		if !okf {
			j.flag("srv:call-fields"+kk, fmt.Sprintf("request %d (%s): the implementation saw op=%s fid=%d offset=%d count=%d names=%d, sent fid=%d offset=%d count=%d/%d names=%d (%s)",
				idx, mg.Kind, c.Op, c.Fid, c.Offset, c.Count, len(c.Names), m.Fid, m.Offset, m.Count, len(m.Data), len(m.Wname), ctx), seg, mode)
		}
	}
	for tag := range calls {
		j.flag("srv:foreign-call"+sfx, fmt.Sprintf("the implementation was called for tag %d, which no request of the stream carries (%s)", tag, ctx), seg, mode)
		break
	}
	if bad != "" {
		// the rest is C12's business; C13 only asks that it does not depend on the segmentation
		if base != nil && base.Closed != o.Closed {
			j.flag("srv:illegal-frame-handling-depends-on-segmentation"+sfx, fmt.Sprintf("connection dropped: %v unsplit, %v here (%s)", base.Closed, o.Closed, ctx), seg, mode)
		}
		return
	}
	if o.Closed {
		j.flag("srv:dropped"+sfx, "the server dropped a connection that carried only legal frames ("+ctx+")", seg, mode)
		return
	}
	// same replies
	reps := map[uint16][][]byte{}
	for _, f := range o.Replies[min(s.nsetup, len(o.Replies)):] {
		tag := uint16(f[5]) | uint16(f[6])<<8
		reps[tag] = append(reps[tag], f)
	}
	var breps map[uint16][]byte
	if base != nil {
		breps = map[uint16][]byte{}
		for _, f := range base.Replies[min(s.nsetup, len(base.Replies)):] {
			breps[uint16(f[5])|uint16(f[6])<<8] = f
		}
	}
	for idx, mg := range s.msgs {
		if !mg.Body {
			continue
		}
		kk := ":kind=" + mg.Kind + sfx
		rs := reps[mg.M.Tag]
		delete(reps, mg.M.Tag)
		if len(rs) != 1 {
			j.flag("srv:reply-count"+kk, fmt.Sprintf("request %d (%s) got %d replies (%s)", idx, mg.Kind, len(rs), ctx), seg, mode)
			if len(rs) == 0 {
				continue
			}
		}
		r, err := decodeReply(rs[0], s.cfg.Dotu)
		if err != nil {
			j.flag("srv:reply-undecodable"+kk, fmt.Sprintf("request %d (%s): %v (%s)", idx, mg.Kind, err, ctx), seg, mode)
			continue
		}
		m := mg.M
		okr := true
		switch mg.Kind {
		case "flush":
			okr = r.Type == wire.Rflush
		case "clunk":
			okr = r.Type == wire.Rclunk
		case "bigwrite":
			okr = r.Type == wire.Rerror
		case "write":
			okr = r.Type == wire.Rwrite && r.Count == writeAnswer(m.Offset, m.Data)
		case "read":
			p, n := readAnswer(m.Offset, m.Count)
			okr = r.Type == wire.Rread && bytes.Equal(r.Data, payloadBytes(p, n))
		case "walk":
			okr = r.Type == wire.Rwalk && len(r.Wqid) == len(m.Wname)
			for _, q := range r.Wqid {
				okr = okr && q.Path == fnvStr(m.Wname)
			}
		}
		if !okr {
			j.flag("srv:reply-differs"+kk, fmt.Sprintf("request %d (%s): reply %s (%d bytes) is not the answer to the request that was sent (%s)", idx, mg.Kind, wire.TypeName(r.Type), len(rs[0]), ctx), seg, mode)
		} else if breps != nil && !bytes.Equal(breps[mg.M.Tag], rs[0]) {
			j.flag("srv:reply-differs-from-unsplit"+kk, fmt.Sprintf("request %d (%s): reply bytes %s, unsplit run %s (%s)", idx, mg.Kind, short(rs[0]), short(breps[mg.M.Tag]), ctx), seg, mode)
		}
	}
	for tag := range reps {
		j.flag("srv:foreign-reply"+sfx, fmt.Sprintf("a reply with tag %d, which no request carries (%s)", tag, ctx), seg, mode)
		break
	}
}

// ---------------------------------------------------------------- engine

type srvPlan struct {
	Cfg       SrvCfg
	MaxSingle int
	NRandom   int
}

func srvPlans(tier string, seed int64) []srvPlan {
	rng := rand.New(rand.NewSource(seed*7919 + 13))
	rm := func(lo, hi int) uint32 { return uint32(lo + rng.Intn(hi-lo+1)) }
	ss := func(i int) int64 { return seed*1000 + int64(i) }
	var ps []srvPlan
	if tier == "quick" {
		ps = []srvPlan{
			{SrvCfg{SrvMsize: rm(90, 160), CliMsize: 64, StreamSeed: ss(1), Bytes: 1300}, 900, 9},
			{SrvCfg{SrvMsize: rm(65, 130), CliMsize: 8192, Dotu: true, StreamSeed: ss(2), Bytes: 1500}, 900, 9},
			{SrvCfg{SrvMsize: 8192, CliMsize: rm(200, 600), StreamSeed: ss(3), Bytes: 9000}, 150, 9},
			{SrvCfg{SrvMsize: 4096, CliMsize: 4096, Dotu: true, StreamSeed: ss(4), Bytes: 80000}, 40, 6},
			{SrvCfg{SrvMsize: rm(64, 200), CliMsize: rm(64, 200), Downgrade: true, StreamSeed: ss(8), Bytes: 600}, 500, 9},
			{SrvCfg{SrvMsize: 64, CliMsize: 64, StreamSeed: ss(5), Bytes: 700, Bad: "over1", BadAt: 9}, 400, 6},
			{SrvCfg{SrvMsize: 128, CliMsize: 100, StreamSeed: ss(6), Bytes: 700, Bad: "overhuge", BadAt: 6}, 400, 6},
			{SrvCfg{SrvMsize: 64, CliMsize: 64, StreamSeed: ss(7), Bytes: 500, Bad: []string{"short0", "short4", "short6"}[rng.Intn(3)], BadAt: 7}, 400, 6},
		}
		return ps
	}
	ps = []srvPlan{
		{SrvCfg{SrvMsize: rm(90, 160), CliMsize: 64, StreamSeed: ss(1), Bytes: 2600}, 4000, 30},
		{SrvCfg{SrvMsize: 4096, CliMsize: 64, StreamSeed: ss(9), Bytes: 70000}, 300, 12},
		{SrvCfg{SrvMsize: 64, CliMsize: 64, Dotu: true, StreamSeed: ss(2), Bytes: 2600}, 4000, 30},
		{SrvCfg{SrvMsize: 65, CliMsize: 8192, StreamSeed: ss(3), Bytes: 2000}, 4000, 30},
		{SrvCfg{SrvMsize: rm(66, 127), CliMsize: 8192, Dotu: true, StreamSeed: ss(4), Bytes: 3000}, 4000, 30},
		{SrvCfg{SrvMsize: 8192, CliMsize: rm(128, 255), StreamSeed: ss(5), Bytes: 6000}, 1500, 30},
		{SrvCfg{SrvMsize: rm(256, 1023), CliMsize: rm(256, 1023), Dotu: true, StreamSeed: ss(6), Bytes: 30000}, 600, 30},
		{SrvCfg{SrvMsize: 8192, CliMsize: rm(1024, 4095), StreamSeed: ss(7), Bytes: 120000}, 200, 24},
		{SrvCfg{SrvMsize: 4096, CliMsize: 4096, Dotu: true, StreamSeed: ss(8), Bytes: 150000}, 200, 24},
		{SrvCfg{SrvMsize: rm(64, 200), CliMsize: rm(64, 200), Downgrade: true, StreamSeed: ss(10), Bytes: 1500}, 3000, 30},
		{SrvCfg{SrvMsize: 8192, CliMsize: rm(256, 1023), Downgrade: true, StreamSeed: ss(11), Bytes: 6000}, 800, 24},
	}
	for i, b := range []string{"over1", "overhuge", "short0", "short4", "short5", "short6"} {
		m := rm(64, 300)
		ps = append(ps, srvPlan{SrvCfg{SrvMsize: m, CliMsize: m, Dotu: i%2 == 0, StreamSeed: ss(20 + i), Bytes: 1200, Bad: b, BadAt: 3 + rng.Intn(12)}, 1500, 12})
	}
	return ps
}

func TestSrvSweep(t *testing.T) {
	if os.Getenv("VERIF_OUT") == "" {
		t.Skip("engine: run through bin/vcheck")
	}
	seed := int64(envInt("VERIF_SEED", 1))
	tier := os.Getenv("VERIF_TIER")
	if tier == "" {
		tier = "quick"
	}
	lg := go9p.NewLogger(8)
	rep := newReport("recv-srv-sweep")
	sink := newTraceSink(os.Getenv("VERIF_TRACE_OUT"), envInt("VERIF_TRACE_LINES", 60000))
	defer sink.close()
	plans := srvPlans(tier, seed)
	if rc := os.Getenv("VERIF_REPLAY_CASE"); rc != "" {
		var r struct {
			Cfg  SrvCfg `json:"cfg"`
			Seg  Seg    `json:"seg"`
			Mode string `json:"mode"`
		}
		if err := json.Unmarshal([]byte(rc), &r); err != nil {
			t.Fatal(err)
		}
		s := buildSrvSession(r.Cfg)
		j := &judge{rep: rep, seen: map[string]int{}, replay: func(seg Seg, mode string) any {
			return map[string]any{"engine": "srv", "cfg": r.Cfg, "seg": seg, "mode": mode}
		}}
		base := runSrv(t, lg, s, Seg{Class: "unsplit"}, r.Mode == "late")
		o := runSrv(t, lg, s, r.Seg, r.Mode == "late")
		judgeSrv(j, s, o, base, r.Seg, r.Mode)
		rep.Cases, rep.Distinct = 1, 1
		rep.Samples = append(rep.Samples, map[string]any{"cfg": r.Cfg, "seg": r.Seg.Class, "arrivals": len(o.Arrivals), "calls": len(o.Calls), "replies": len(o.Replies), "closed": o.Closed})
		if err := rep.Write(); err != nil {
			t.Fatal(err)
		}
		return
	}
	classes := map[string]int{}
	reallocs, leftovers := 0, 0
	msgsTotal := 0
	perCfg := sink.budget / max(1, len(plans))
	caseID := 0
	var c12notes []string
	for pi, p := range plans {
		s := buildSrvSession(p.Cfg)
		cfg := p.Cfg
		j := &judge{rep: rep, seen: map[string]int{}, replay: func(seg Seg, mode string) any {
			return map[string]any{"engine": "srv", "cfg": cfg, "seg": seg, "mode": mode}
		}}
		rng := rand.New(rand.NewSource(seed*31 + int64(pi)))
		segs := Plans(s.starts, s.starts[s.nsetup], rng, p.MaxSingle, p.NRandom)
		bases := map[string]*srvObs{}
		for _, mode := range []string{"late", "eager"} {
			progress(map[string]any{"engine": "srv", "cfg": cfg, "seg": Seg{Class: "unsplit"}, "mode": mode})
			b := runSrv(t, lg, s, Seg{Class: "unsplit"}, mode == "late")
			bases[mode] = b
			judgeSrv(j, s, b, nil, Seg{Class: "unsplit"}, mode)
			rep.Cases++
			classes["unsplit"]++
		}
		if bases["late"].Stuck != "" {
			continue
		}
		if cfg.Bad != "" {
			b := bases["eager"]
			if !b.Closed || len(b.Arrivals) != s.predicted {
				c12notes = append(c12notes, fmt.Sprintf("illegal frame %s at msize %d, unsplit: dropped=%v, requests parsed=%d, legal requests before it=%d", cfg.Bad, s.msize, b.Closed, len(b.Arrivals), s.predicted))
			}
		}
		traceBudgetEnd := sink.lines + perCfg
		nsingle := 0
		for _, sg := range segs {
			if sg.Class == "single" || sg.Class == "prefix" {
				nsingle++
			}
		}
		singleSeen, longTraced := 0, 0
		for si, sg := range segs {
			modes := []string{"late"}
			if cfg.Bad != "" {
				modes = []string{"eager"}
			} else if (sg.Class != "single" && sg.Class != "prefix") || si%5 == 0 {
				modes = []string{"late", "eager"}
			}
			for _, mode := range modes {
				progress(map[string]any{"engine": "srv", "cfg": cfg, "seg": sg, "mode": mode})
				o := runSrv(t, lg, s, sg, mode == "late")
				judgeSrv(j, s, o, bases[mode], sg, mode)
				rep.Cases++
				classes[sg.Class]++
				msgsTotal += len(o.Arrivals)
				if mode != modes[0] {
					continue
				}
				// internal events for RecvLoopTrace: all special classes, an even sample of the single splits
				want := sg.Class != "single" && sg.Class != "prefix"
				if !want {
					singleSeen++
					stride := max(1, nsingle/40)
					want = singleSeen%stride == 0
				}
				if len(s.frames) > 600 { // long streams make every TLC state big: a few cases only
					want = want && sg.Class != "bytes" && longTraced < 4
				}
				if want && sink.lines+len(o.Trace)+2 <= traceBudgetEnd && sink.room(len(o.Trace)) {
					longTraced++
					caseID++
					sink.put(caseID, int(cfg.SrvMsize), 8*int(cfg.SrvMsize), s.frames, o.Trace, o.Closed, len(o.Arrivals))
				}
				prevcap := -1
				for _, e := range o.Trace {
					if c := e["cap"].(int); e["ev"] == "read" {
						if prevcap >= 0 && c > prevcap {
							reallocs++
						}
						prevcap = c
					} else {
						prevcap = c - e["sz"].(int)
					}
				}
			}
		}
		for k, n := range j.seen {
			rep.Stats["count:"+k] = n
		}
		leftovers += j.leftovers
		if len(rep.Samples) < 6 {
			o := bases["late"]
			rep.Samples = append(rep.Samples, map[string]any{"cfg": cfg, "msize": s.msize, "messages": len(s.msgs), "stream_bytes": len(s.stream),
				"segmentations": len(segs), "unsplit_arrivals": len(o.Arrivals), "unsplit_calls": len(o.Calls), "unsplit_replies": len(o.Replies),
				"example_seg": segs[len(segs)-1]})
		}
	}
	rep.Distinct = rep.Cases
	rep.Stats["classes"] = classes
	rep.Stats["reallocations_observed"] = reallocs
	rep.Stats["requests_parsed"] = msgsTotal
	rep.Stats["trace_cases"] = sink.cases
	rep.Stats["trace_lines"] = sink.lines
	rep.Stats["c12_notes"] = c12notes
	rep.Stats["cases_ending_with_blocked_library_goroutines"] = leftovers
	if err := rep.Write(); err != nil {
		t.Fatal(err)
	}
}
