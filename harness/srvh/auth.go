package srvh

import (
	"fmt"

	"github.com/rminnich/go9p"
)

// OpsA adds AuthOps to the scripted implementation. Outcomes come from Ops.Decide (op names
// "authinit", "authcheck", "authread", "authwrite"); "err" refuses.
type OpsA struct{ *Ops }

func (o OpsA) logAuth(op string, fid, afid *go9p.SrvFid) {
	c := o.C
	c.mu.Lock()
	ev := Event{"ev": "call", "op": op, "n": 0}
	if fid != nil {
		ev["fid"] = go9p.VerifFidNo(fid)
		ev["c"] = c.connIdx[fid.Fconn]
		if fid.User != nil {
			ev["user"] = fid.User.Id()
		}
	}
	if afid != nil {
		ev["afid"] = go9p.VerifFidNo(afid)
		if fid == nil {
			ev["c"] = c.connIdx[afid.Fconn]
			if afid.User != nil {
				ev["user"] = afid.User.Id()
			}
		}
	}
	c.Events = append(c.Events, ev)
	c.mu.Unlock()
}

func (o OpsA) AuthInit(afid *go9p.SrvFid, aname string) (*go9p.Qid, error) {
	o.logAuth("authinit", nil, afid)
	if o.Decide != nil && o.Decide("authinit", nil).Out == "err" {
		return nil, &go9p.Error{Err: "E77", Errornum: 77}
	}
	return &go9p.Qid{Type: go9p.QTAUTH, Path: 4242}, nil
}

func (o OpsA) AuthDestroy(afid *go9p.SrvFid) { o.logAuth("authdestroy", afid, nil) }

func (o OpsA) AuthCheck(fid *go9p.SrvFid, afid *go9p.SrvFid, aname string) error {
	o.logAuth("authcheck", fid, afid)
	if o.Decide != nil && o.Decide("authcheck", nil).Out == "err" {
		return &go9p.Error{Err: "E78", Errornum: 78}
	}
	return nil
}

func (o OpsA) AuthRead(afid *go9p.SrvFid, offset uint64, data []byte) (int, error) {
	o.logAuth("authread", afid, nil)
	return 0, fmt.Errorf("E79")
}

func (o OpsA) AuthWrite(afid *go9p.SrvFid, offset uint64, data []byte) (int, error) {
	o.logAuth("authwrite", afid, nil)
	return len(data), nil
}
