package srvh

import (
	"encoding/json"
	"math/rand"
	"os"
	"testing"

	"verif/harness/wire"

	"github.com/rminnich/go9p"
)

// TestCloseFree: ungated. The client pipelines k requests that the implementation answers at once but does not
// read the replies (or reads only some), so the send goroutine is stuck in Write and the answering workers pile
// up behind it; then the connection ends (EOF, oversize header, unparsable frame, possibly mid-frame).  At
// the end of the bubble every goroutine that served the connection must have ended; ConnClosed exactly once;
// every fid destroyed exactly once.
func TestCloseFree(t *testing.T) {
	var cfg Cfg
	if err := json.Unmarshal([]byte(os.Getenv("VERIF_CFG")), &cfg); err != nil {
		t.Skip("no cfg")
	}
	seed := int64(envInt("VERIF_SEED", 1))
	ncases := envInt("VERIF_CASES", 100)
	idBase := envInt("VERIF_ID_BASE", 1200000)
	out := OpenOut()
	lg := go9p.NewLogger(8)
	rep := &Report{Engine: "srv-closefree", Stats: map[string]any{}}
	for ci := 0; ci < ncases; ci++ {
		id := idBase + ci + 1
		if out.Skip(id) {
			continue
		}
		out.Begin(id)
		rng := rand.New(rand.NewSource(seed*7907 + int64(ci)))
		cfg.Maxpend = []int{0, 0, 1, 4}[rng.Intn(4)]
		var plan map[string]any
		k, left := RunCase(t, lg, cfg, seed+int64(ci), func(k *Case) {
			c := k.C
			c.Gated = false
			c.Ops.Decide = func(op string, r *go9p.SrvReq) Cmd {
				return Cmd{Out: "ok", QType: go9p.QTDIR, Payload: c.NextPayload(), N: 8}
			}
			k.noTrace = true
			nreq := 1 + rng.Intn(12)
			nread := rng.Intn(nreq + 1)
			if rng.Intn(3) == 0 {
				nread = 0
			}
			k.CloseBy = []string{"", "", "oversize", "badframe"}[rng.Intn(4)]
			partial := rng.Intn(4) == 0
			plan = map[string]any{"requests": nreq, "replies_read": nread, "close": k.CloseBy, "partial_frame": partial, "maxpend": cfg.Maxpend}
			tag := 0
			fidn := 10
			for i := 0; i < nreq; i++ {
				tag++
				var m *wire.Msg
				switch rng.Intn(5) {
				case 0:
					fidn++
					m = &wire.Msg{Type: wire.Tattach, Fid: uint32(fidn), Afid: wire.NOFID, Uname: "u"}
				case 1:
					fidn++
					m = &wire.Msg{Type: wire.Twalk, Fid: 1, Newfid: uint32(fidn), Wname: []string{"a", "b"}}
				case 2:
					m = &wire.Msg{Type: wire.Tread, Fid: 1, Count: 64}
				default:
					m = &wire.Msg{Type: wire.Tstat, Fid: 1}
				}
				m.Tag = uint16(tag)
				c.Send(k.ch, m, nil)
			}
			c.Wait()
			for i := 0; i < nread; i++ {
				k.ch.Writing = true
				if _, _, err := c.RecvFrame(k.ch); err != nil {
					break
				}
			}
			k.ch.Writing = false
			if partial {
				b := wire.Encode(&wire.Msg{Type: wire.Tstat, Tag: 999, Fid: 1}, true)
				c.SendRaw(k.ch, b[:5], nil)
			}
			_ = k.Do([]any{"ClientClose"})
			c.Wait()
		})
		rep.Cases++
		if k == nil {
			rep.Inconclusive = append(rep.Inconclusive, "case did not start: "+left)
			continue
		}
		// an ungated case has no T/R accounting for the monitor beyond the disconnect bookkeeping
		out.End(id, k, left, []any{plan})
		if rep.Cases <= 3 {
			rep.Samples = append(rep.Samples, map[string]any{"case": id, "plan": plan})
		}
	}
	out.Close()
	rep.Distinct = rep.Cases
	if err := rep.Write(); err != nil {
		t.Fatal(err)
	}
}
