// Package srvh drives the real go9p server under a deterministic gate controller.
//
// The verif-tagged schedule points of the library call Ctl.hook, which parks the
// calling goroutine; the test goroutine (the controller) releases exactly one
// parked goroutine per step and then waits for quiescence with synctest.Wait, so
// an execution is a sequence of controller steps in one-to-one correspondence with
// the actions of spec/Srv9P.tla.
package srvh

import (
	"encoding/json"
	"fmt"
	"io"
	"log"
	"net"
	"os"
	"runtime"
	"sort"
	"strings"
	"sync"
	"sync/atomic"
	"testing/synctest"
	"time"

	"verif/harness/wire"

	"github.com/rminnich/go9p"
)

func init() { log.SetOutput(io.Discard) }

// Cmd tells a parked implementation call (or flush operation) what to do.
type Cmd struct {
	Out     string // "ok" | "err" | "partial" | "return" (leave unanswered) | "cancel" | "ignore" (FlushOp)
	QType   uint8  // qid type for ok answers that carry a qid
	N       int    // qids of a partial walk / bytes of a read
	Payload uint64 // identifies this answer on the wire
	Twice   bool   // answer, then answer again with an error (extra answer inside the call)
}

type Parked struct {
	Point string
	Conn  int
	Req   int // arrival number (0 = none)
	Fid   int // cb_destroy: the fid whose destruction the callback is told of
	req   *go9p.SrvReq
	conn  *go9p.Conn
	ch    chan Cmd
}

func (p *Parked) Key() string {
	if p.Conn == 0 {
		return fmt.Sprintf("%s:%d", p.Point, p.Req)
	}
	return fmt.Sprintf("c%d/%s:%d", p.Conn, p.Point, p.Req)
}

// Event is one line of the external (and internal) trace.
type Event map[string]any

type ConnH struct {
	Reqs    []*go9p.SrvReq // index = arrival number on this connection - 1
	Idx     int
	Conn    *go9p.Conn
	cli     net.Conn
	wq      chan []byte
	Dotu    bool
	fr      wire.Framer
	Closed  bool
	Writing bool // the send goroutine has been released at send_got and not yet been read from
}

type Ctl struct {
	mu          sync.Mutex
	parked      []*Parked
	reqid       map[*go9p.SrvReq]int
	Reqs        []*go9p.SrvReq // index = arrival number - 1
	ReqConn     []int
	connIdx     map[*go9p.Conn]int
	Conns       []*ConnH
	Events      []Event
	Gated       bool // park at schedule points (else pass through)
	TraceRecv   bool
	Srv         *go9p.Srv
	Ops         *Ops
	payload     uint64
	pendingConn *ConnH
}

func NewCtl() *Ctl {
	c := &Ctl{reqid: map[*go9p.SrvReq]int{}, connIdx: map[*go9p.Conn]int{}, Gated: true}
	return c
}

func (c *Ctl) Emit(e Event) {
	c.mu.Lock()
	c.Events = append(c.Events, e)
	c.mu.Unlock()
}

var gatePoints = map[string]bool{
	"proc_start": true, "proc_dispatch": true, "proc_end": true,
	"resp_unlink": true, "resp_post": true, "resp_enq": true, "resp_next": true,
	"flush_status": true, "flush_act": true, "send_got": true,
	"close_enter": true, "close_destroy": true,
}

func (c *Ctl) idOfLocked(r *go9p.SrvReq, conn *go9p.Conn) int {
	if r == nil {
		return 0
	}
	if id, ok := c.reqid[r]; ok {
		return id
	}
	if conn == nil {
		conn = r.Conn
	}
	ch := c.Conns[c.connIdx[conn]]
	ch.Reqs = append(ch.Reqs, r)
	c.reqid[r] = len(ch.Reqs)
	return len(ch.Reqs)
}

func (c *Ctl) hook(point string, conn *go9p.Conn, req *go9p.SrvReq, nums []int) {
	switch point {
	case "recv_read", "recv_parsed":
		if c.TraceRecv {
			c.mu.Lock()
			c.Events = append(c.Events, Event{"ev": point, "c": c.connIdx[conn], "a": nums[0], "pos": nums[1], "cap": nums[2]})
			c.mu.Unlock()
		}
		return
	case "recv_advance":
		c.mu.Lock()
		id := c.idOfLocked(req, conn)
		if c.TraceRecv {
			c.Events = append(c.Events, Event{"ev": point, "c": c.connIdx[conn], "n": id, "a": nums[0], "pos": nums[1], "cap": nums[2]})
		}
		c.mu.Unlock()
		return
	}
	if !c.Gated || !gatePoints[point] {
		return
	}
	c.park(point, conn, req)
}

// park blocks the calling goroutine until the controller releases it.
func (c *Ctl) park(point string, conn *go9p.Conn, req *go9p.SrvReq) Cmd {
	return c.parkFid(point, conn, req, 0)
}

func (c *Ctl) parkFid(point string, conn *go9p.Conn, req *go9p.SrvReq, fid int) Cmd {
	p := &Parked{Point: point, req: req, conn: conn, Fid: fid, ch: make(chan Cmd)}
	c.mu.Lock()
	if point == "proc_start" && req != nil && req.Tc.Type == go9p.Tversion {
		c.idOfLocked(req, conn) // Tversion runs inside the receive goroutine, before recv_advance
	}
	c.parked = append(c.parked, p)
	c.mu.Unlock()
	return <-p.ch
}

// Wait runs the system until every goroutine is durably blocked.  A goroutine waiting for a mutex is
// not durably blocked, so if the library holds a lock across a schedule point (or spins), Wait never
// returns: a real-time watchdog outside the bubble then dumps all goroutines and ends the process.
func (c *Ctl) Wait() {
	atomic.AddInt64(&waitDepth, 1)
	atomic.AddInt64(&heartbeat, 1)
	synctest.Wait()
	atomic.AddInt64(&heartbeat, 1)
	atomic.AddInt64(&waitDepth, -1)
}

var heartbeat, waitDepth int64
var watchdogOnce sync.Once

// StartWatchdog must be called from outside any bubble (real time).
func StartWatchdog() {
	watchdogOnce.Do(func() {
		secs := 20
		if v := os.Getenv("VERIF_STALL_SECS"); v != "" {
			fmt.Sscan(v, &secs)
		}
		go func() {
			last, since := int64(-1), 0
			for {
				time.Sleep(time.Second)
				h := atomic.LoadInt64(&heartbeat)
				if h != last || h == 0 {
					last, since = h, 0
					continue
				}
				since++
				// outside Wait the driver itself may be waiting for a lock of the library (its snapshot functions
				// take the connection lock): the same stall, seen later
				if (atomic.LoadInt64(&waitDepth) > 0 && since >= secs) || since >= secs+10 {
					buf := make([]byte, 8<<20)
					n := runtime.Stack(buf, true)
					if p := os.Getenv("VERIF_STALL"); p != "" {
						_ = os.WriteFile(p, buf[:n], 0o644)
					}
					fmt.Fprintf(os.Stderr, "\nVERIF-STALL: the system under test did not become quiescent for %d s\n", secs)
					os.Exit(97)
				}
			}
		}()
	})
}

// Parked returns the currently parked goroutines (call after Wait), sorted by key.
func (c *Ctl) Parked() []*Parked {
	c.mu.Lock()
	defer c.mu.Unlock()
	for _, p := range c.parked {
		p.Req = c.reqid[p.req]
		p.Conn = c.connIdx[p.conn]
		if p.conn == nil && p.req != nil {
			p.Conn = c.connIdx[p.req.Conn]
		}
	}
	out := append([]*Parked(nil), c.parked...)
	sort.SliceStable(out, func(i, j int) bool { return out[i].Key() < out[j].Key() })
	return out
}

func (c *Ctl) ParkedKeys() []string {
	var ks []string
	for _, p := range c.Parked() {
		ks = append(ks, p.Key())
	}
	for _, ch := range c.Conns {
		if ch.Writing && ch.Idx == 0 {
			ks = append(ks, "swriting:0")
		} else if ch.Writing {
			ks = append(ks, fmt.Sprintf("c%d/swriting:0", ch.Idx))
		}
	}
	sort.Strings(ks)
	return ks
}

func (c *Ctl) find(point string, req int, conn int) *Parked {
	for _, p := range c.Parked() {
		if p.Point == point && p.Req == req && p.Conn == conn {
			return p
		}
	}
	return nil
}

// Grant releases the goroutine parked at (point, req) and waits for quiescence.
func (c *Ctl) Grant(point string, req int) error { return c.GrantCmd(point, req, 0, Cmd{}) }

// GrantP releases a specific parked goroutine.
func (c *Ctl) GrantP(p *Parked, cmd Cmd) error { return c.GrantCmd(p.Point, p.Req, p.Conn, cmd) }

func (c *Ctl) GrantCmd(point string, req int, conn int, cmd Cmd) error {
	p := c.find(point, req, conn)
	if p == nil {
		return fmt.Errorf("nothing parked at %s:%d (parked: %v)", point, req, c.ParkedKeys())
	}
	c.mu.Lock()
	for i, q := range c.parked {
		if q == p {
			c.parked = append(c.parked[:i], c.parked[i+1:]...)
			break
		}
	}
	c.mu.Unlock()
	if point == "send_got" {
		c.Conns[p.Conn].Writing = true
	}
	p.ch <- cmd
	c.Wait()
	if point == "send_got" && c.Conns[p.Conn].Closed {
		c.Conns[p.Conn].Writing = false
	}
	return nil
}

// ReleasePoint releases the first goroutine parked at the given point (whatever its request) and waits for quiescence.
func (c *Ctl) ReleasePoint(point string, cmd Cmd) bool {
	c.mu.Lock()
	var p *Parked
	for i, q := range c.parked {
		if q.Point == point {
			p = q
			c.parked = append(c.parked[:i], c.parked[i+1:]...)
			break
		}
	}
	c.mu.Unlock()
	if p == nil {
		return false
	}
	p.ch <- cmd
	c.Wait()
	return true
}

func (c *Ctl) NextPayload() uint64 { c.payload++; return c.payload }

// ---------------------------------------------------------------- connections

// Start creates the server with the given scripted implementation value (ops must wrap c.Ops).
func (c *Ctl) Start(srv *go9p.Srv, ops any) {
	c.Srv = srv
	go9p.VerifHook = c.hook
	if !srv.Start(ops) {
		panic("Srv.Start refused the scripted implementation")
	}
}

func (c *Ctl) Stop() { go9p.VerifHook = nil }

// NewConn opens a connection (client end kept by the controller).
func (c *Ctl) NewConn() *ConnH {
	a, b := net.Pipe()
	ch := &ConnH{Idx: len(c.Conns), cli: b, wq: make(chan []byte, 4096)}
	c.Conns = append(c.Conns, ch)
	c.pendingConn = ch
	go func() { // ordered writer: models the client's send buffer
		for b := range ch.wq {
			if _, err := ch.cli.Write(b); err != nil {
				return
			}
		}
	}()
	c.Srv.NewConn(a)
	c.pendingConn = nil
	c.Wait()
	return ch
}

// NewConnRaw opens a connection on a server whose implementation is not the scripted one (no
// ConnOpened callback to learn the *Conn from): the connection is looked up in the server's table.
func (c *Ctl) NewConnRaw() *ConnH {
	before := map[*go9p.Conn]bool{}
	for _, x := range go9p.VerifSrvConns(c.Srv) {
		before[x] = true
	}
	a, b := net.Pipe()
	ch := &ConnH{Idx: len(c.Conns), cli: b, wq: make(chan []byte, 4096)}
	c.Conns = append(c.Conns, ch)
	go func() {
		for b := range ch.wq {
			if _, err := ch.cli.Write(b); err != nil {
				return
			}
		}
	}()
	c.Srv.NewConn(a)
	for _, x := range go9p.VerifSrvConns(c.Srv) {
		if !before[x] {
			ch.Conn = x
			c.mu.Lock()
			c.connIdx[x] = ch.Idx
			c.mu.Unlock()
		}
	}
	c.Wait()
	return ch
}

// registerConn is called from ConnOpened (the first time the library shows us the *Conn).
func (c *Ctl) registerConn(conn *go9p.Conn) {
	c.mu.Lock()
	if c.pendingConn != nil {
		c.pendingConn.Conn = conn
		c.connIdx[conn] = c.pendingConn.Idx
	}
	c.mu.Unlock()
}

// SendRaw queues bytes (cut at the given offsets into separate transport writes) and waits.
func (c *Ctl) SendRaw(ch *ConnH, b []byte, splits []int) {
	prev := 0
	for _, s := range splits {
		if s > prev && s < len(b) {
			ch.wq <- append([]byte(nil), b[prev:s]...)
			prev = s
		}
	}
	ch.wq <- append([]byte(nil), b[prev:]...)
	c.Wait()
}

// Send encodes and sends one T-message; records the external T event.
func (c *Ctl) Send(ch *ConnH, m *wire.Msg, splits []int) {
	b := wire.Encode(m, ch.Dotu)
	c.Emit(Event{"ev": "T", "c": ch.Idx, "type": wire.TypeName(m.Type), "tag": int(m.Tag), "fid": m.Fid, "newfid": m.Newfid,
		"oldtag": int(m.Oldtag), "afid": m.Afid})
	c.SendRaw(ch, b, splits)
}

// RecvFrame reads one complete reply frame from the connection. It must only be called when the
// send goroutine is blocked writing (ch.Writing) -- otherwise it would block the controller.
func (c *Ctl) RecvFrame(ch *ConnH) (*wire.Msg, []byte, error) {
	buf := make([]byte, 1<<21)
	for {
		fr, err := ch.fr.Next()
		if err != nil {
			return nil, nil, err
		}
		if fr != nil {
			ch.Writing = false
			c.Wait()
			m, derr := wire.Decode(fr, ch.Dotu)
			ev := Event{"ev": "R", "c": ch.Idx, "size": len(fr)}
			if derr != nil {
				ev["bad"] = derr.Error()
				if len(fr) >= 7 {
					ev["tag"] = int(fr[5]) | int(fr[6])<<8
					ev["type"] = wire.TypeName(fr[4])
				}
			} else {
				ev["tag"] = int(m.Tag)
				ev["type"] = wire.TypeName(m.Type)
				ev["payload"] = PayloadOf(m)
				ev["full"] = m.Type == wire.Rwalk && len(m.Wqid) == 2
				if m.Type == wire.Rerror {
					ev["ename"] = m.Ename
				}
			}
			c.Emit(ev)
			return m, fr, derr
		}
		n, rerr := ch.cli.Read(buf)
		if n > 0 {
			ch.fr.Feed(buf[:n])
		}
		if rerr != nil {
			return nil, nil, rerr
		}
	}
}

// CloseQuiet releases the client end of a connection the server has already ended (no event).
func (c *Ctl) CloseQuiet(ch *ConnH) {
	defer func() { recover() }() // wq may be closed already
	ch.Closed = true
	_ = ch.cli.Close()
	ch.Writing = false
	close(ch.wq)
	c.Wait()
}

// Close closes the client end (the server sees EOF) and waits.
func (c *Ctl) Close(ch *ConnH) {
	ch.Closed = true
	close(ch.wq)
	_ = ch.cli.Close()
	ch.Writing = false
	c.Emit(Event{"ev": "cclose", "c": ch.Idx})
	c.Wait()
}

// ---------------------------------------------------------------- abstraction of the code state

type ReqAbs struct {
	Flush, Work, Resp, Saved bool
	Next, Prev, Flushreq     int
}

// Abs is what the controller can see of the implementation state, in the vocabulary of Srv9P.
type Abs struct {
	Parked []string       `json:"parked"`
	Rq     map[int]ReqAbs `json:"rq"`
	Reqs   map[int]int    `json:"reqs"`
	Fidref map[int]int    `json:"fidref"`
	Wire   int            `json:"wire"`
}

func (c *Ctl) Abstract(ch *ConnH, nwire int) *Abs {
	a := &Abs{Parked: c.ParkedKeys(), Rq: map[int]ReqAbs{}, Reqs: map[int]int{}, Fidref: map[int]int{}, Wire: nwire}
	c.mu.Lock()
	reqs := append([]*go9p.SrvReq(nil), ch.Reqs...)
	c.mu.Unlock()
	var mine []string
	for _, k := range a.Parked {
		if ch.Idx == 0 && !strings.Contains(k, "/") || ch.Idx != 0 && strings.HasPrefix(k, fmt.Sprintf("c%d/", ch.Idx)) {
			mine = append(mine, k)
		}
	}
	a.Parked = mine
	id := func(r *go9p.SrvReq) int {
		if r == nil {
			return 0
		}
		c.mu.Lock()
		defer c.mu.Unlock()
		return c.reqid[r]
	}
	for i, r := range reqs {
		ri := go9p.VerifReqSnapshot(r)
		a.Rq[i+1] = ReqAbs{ri.Flush, ri.Work, ri.Responded, ri.Saved, id(ri.Next), id(ri.Prev), id(ri.Flushreq)}
	}
	if ch.Conn != nil {
		ci := go9p.VerifConnSnapshot(ch.Conn)
		for tag, chain := range ci.Reqs {
			if len(chain) > 0 {
				a.Reqs[int(tag)] = id(chain[0].Req)
			}
		}
		for no, f := range ci.Fids {
			a.Fidref[int(no)] = f.Refcount
		}
	}
	return a
}

func (a *Abs) JSON() string { b, _ := json.Marshal(a); return string(b) }

// PayloadOf extracts the payload id the scripted implementation put into a reply.
func PayloadOf(m *wire.Msg) uint64 {
	switch m.Type {
	case wire.Rattach, wire.Ropen, wire.Rcreate, wire.Rauth:
		return m.Qid.Path
	case wire.Rwalk:
		if len(m.Wqid) > 0 {
			return m.Wqid[0].Path
		}
	case wire.Rstat:
		return m.Stat.Length
	case wire.Rread:
		if len(m.Data) >= 8 {
			var v uint64
			for i := 0; i < 8; i++ {
				v |= uint64(m.Data[i]) << (8 * i)
			}
			return v
		}
	case wire.Rwrite:
		return uint64(m.Count)
	case wire.Rerror:
		var v uint64
		fmt.Sscanf(m.Ename, "E%d", &v)
		return v
	}
	return 0
}

func encode(m *wire.Msg, dotu bool) []byte { return wire.Encode(m, dotu) }
