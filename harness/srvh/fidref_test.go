package srvh

import (
	"encoding/json"
	"fmt"
	"os"
	"regexp"
	"sort"
	"testing"
	"testing/synctest"

	"verif/harness/wire"

	"github.com/rminnich/go9p"
)

type FidCfg struct {
	Dotu    bool   `json:"dotu"`
	HasAuth bool   `json:"hasauth"`
	Msize   uint32 `json:"msize"`
	NOFID   int    `json:"nofid"`
	TwoConn bool   `json:"twoconn"`
	// SlowPost: the implementation overrides request processing (SrvReqProcessOps) and its SrvReqRespond is slow: it
	// parks before doing the post-processing.  It is released only when no reply has appeared, so a server that lets
	// the reply out before the post-processing shows its next requests a table the history does not justify.
	SlowPost bool `json:"slowpost"`
}

// OpsPS: SrvReqProcessOps whose SrvReqRespond parks before PostProcess (see FidCfg.SlowPost).
type OpsPS struct{ *Ops }

func (o OpsPS) SrvReqProcess(r *go9p.SrvReq) { r.Process() }
func (o OpsPS) SrvReqRespond(r *go9p.SrvReq) {
	o.C.park("cb_respond", r.Conn, r)
	r.PostProcess()
}

// OpsPSA: the same with authentication support.
type OpsPSA struct{ OpsA }

func (o OpsPSA) SrvReqProcess(r *go9p.SrvReq) { r.Process() }
func (o OpsPSA) SrvReqRespond(r *go9p.SrvReq) {
	o.C.park("cb_respond", r.Conn, r)
	r.PostProcess()
}

var implErr = regexp.MustCompile(`^E\d+$`)

type fidSession struct {
	c     *Ctl
	ch    *ConnH
	cfg   FidCfg
	next  map[string]Cmd // outcome for the next call of an op
	tag   uint16
	pay   uint64
	evpos int
	rx    chan []byte // slow-post mode: what the session's reader goroutine has read from the connection
}

// pollFrame: the next complete reply frame already readable, without blocking (slow-post mode).
func (s *fidSession) pollFrame() []byte {
	if s.rx == nil {
		s.rx = make(chan []byte, 1024)
		go func(ch *ConnH, rx chan []byte) {
			for {
				buf := make([]byte, 1<<16)
				n, err := ch.cli.Read(buf)
				if n > 0 {
					rx <- buf[:n]
				}
				if err != nil {
					return
				}
			}
		}(s.ch, s.rx)
		s.c.Wait()
	}
	for {
		select {
		case b := <-s.rx:
			s.ch.fr.Feed(b)
			continue
		default:
		}
		break
	}
	fr, err := s.ch.fr.Next()
	if err != nil {
		return nil
	}
	return fr
}

// releasePosts lets every parked SrvReqRespond go on, oldest first.
func (s *fidSession) releasePosts() bool {
	did := false
	for i := 0; i < 64; i++ {
		var p *Parked
		for _, q := range s.c.Parked() {
			if q.Point == "cb_respond" {
				p = q
				break
			}
		}
		if p == nil {
			break
		}
		s.c.mu.Lock()
		for j, q := range s.c.parked {
			if q == p {
				s.c.parked = append(s.c.parked[:j], s.c.parked[j+1:]...)
				break
			}
		}
		s.c.mu.Unlock()
		p.ch <- Cmd{}
		s.c.Wait()
		did = true
	}
	return did
}

func (s *fidSession) fid(v any) uint32 {
	n := toInt(v)
	if n == s.cfg.NOFID {
		return wire.NOFID
	}
	return uint32(n)
}

func (s *fidSession) count(class string) uint32 {
	lim := s.cfg.Msize - 24
	switch class {
	case "0":
		return 0
	case "lim-1":
		return lim - 1
	case "lim":
		return lim
	case "lim+1":
		return lim + 1
	case "2^31":
		return 1 << 31
	case "2^32-24":
		return 0xFFFFFFFF - 23
	case "2^32-1":
		return 0xFFFFFFFF
	}
	panic("count class " + class)
}

var modeOf = map[string]uint8{"OREAD": 0, "OWRITE": 1, "ORDWR": 2, "OEXEC": 3, "OREAD+OTRUNC": 16, "OWRITE+OTRUNC": 17, "ORDWR+ORCLOSE": 66}
var permOf = map[string]uint32{"file": 0644, "dir": 0x80000000 | 0755, "symlink": 0x02000000 | 0777, "device": 0x00800000 | 0644,
	"link": 0x01000000 | 0644, "namedpipe": 0x00200000 | 0644, "socket": 0x00100000 | 0644}

// request builds the T-message of a FidRef action and scripts the implementation's answer.
func (s *fidSession) request(a []any) *wire.Msg {
	s.tag++
	if s.tag > 60000 {
		s.tag = 1
	}
	s.pay++
	m := &wire.Msg{Tag: s.tag}
	op := a[0].(string)
	s.next = map[string]Cmd{}
	out := a[len(a)-1]
	ocmd := func(o any) Cmd {
		if o == "err" {
			return Cmd{Out: "err", Payload: s.pay}
		}
		return Cmd{Out: "ok", Payload: s.pay, N: 8}
	}
	switch op {
	case "attach":
		m.Type, m.Fid, m.Afid, m.Uname = wire.Tattach, s.fid(a[1]), s.fid(a[2]), "u"
		m.Unamenum = uint32(toInt(a[5]))
		if !s.cfg.Dotu {
			m.Uname = fmt.Sprintf("u%d", toInt(a[5]))
		}
		if a[3] == "reject" {
			s.next["authcheck"] = Cmd{Out: "err"}
		}
		c := ocmd(a[4])
		if a[4] == "dir" {
			c.QType = go9p.QTDIR
		}
		if a[4] == "err" {
			c = Cmd{Out: "err", Payload: s.pay}
		}
		s.next["attach"] = c
	case "auth":
		m.Type, m.Afid, m.Uname = wire.Tauth, s.fid(a[1]), "u"
		if !s.cfg.Dotu {
			m.Uname = "u0"
		}
		s.next["authinit"] = ocmd(a[2])
	case "walk":
		m.Type, m.Fid, m.Newfid = wire.Twalk, s.fid(a[1]), s.fid(a[2])
		if toInt(a[3]) == 2 {
			m.Wname = []string{"a", "b"}
		}
		c := Cmd{Out: "ok", Payload: s.pay}
		switch a[4] {
		case "full-dir":
			c.QType = go9p.QTDIR
		case "full-file":
		case "partial":
			c.Out, c.N, c.QType = "partial", 1, go9p.QTDIR
		case "err":
			c = Cmd{Out: "err", Payload: s.pay}
		}
		s.next["walk"] = c
	case "open":
		m.Type, m.Fid, m.Mode = wire.Topen, s.fid(a[1]), modeOf[a[2].(string)]
		s.next["open"] = ocmd(out)
	case "create":
		m.Type, m.Fid, m.Name, m.Perm, m.Mode = wire.Tcreate, s.fid(a[1]), "n", permOf[a[2].(string)], modeOf[a[3].(string)]
		c := ocmd(out)
		if a[2] == "dir" {
			c.QType = go9p.QTDIR
		}
		s.next["create"] = c
	case "read":
		m.Type, m.Fid, m.Count = wire.Tread, s.fid(a[1]), s.count(a[2].(string))
		s.next["read"] = ocmd(out)
	case "write":
		m.Type, m.Fid = wire.Twrite, s.fid(a[1])
		m.Data = make([]byte, s.count(a[2].(string)))
		c := ocmd(out)
		c.Payload = uint64(len(m.Data))
		if out == "err" {
			c = Cmd{Out: "err", Payload: s.pay}
		}
		s.next["write"] = c
	case "stat":
		m.Type, m.Fid = wire.Tstat, s.fid(a[1])
		s.next["stat"] = ocmd(out)
	case "wstat":
		m.Type, m.Fid = wire.Twstat, s.fid(a[1])
		s.next["wstat"] = ocmd(out)
	case "clunk":
		m.Type, m.Fid = wire.Tclunk, s.fid(a[1])
		s.next["clunk"] = ocmd(out)
	case "remove":
		m.Type, m.Fid = wire.Tremove, s.fid(a[1])
		s.next["remove"] = ocmd(out)
	default:
		panic("action " + op)
	}
	return m
}

// do executes one action sequentially and returns the observation in FidRef's vocabulary.
func (s *fidSession) do(a []any) map[string]any {
	c := s.c
	m := s.request(a)
	b := wire.Encode(m, s.ch.Dotu)
	if m.Type == wire.Tread {
		// Encode has no count field of its own for Tread other than Count: set by layout
	}
	s.evpos = len(c.Events)
	var r *wire.Msg
	var err error
	if s.cfg.SlowPost {
		s.pollFrame() // (starts the reader)
		c.SendRaw(s.ch, b, nil)
		c.Wait()
		fr := s.pollFrame()
		for fr == nil && s.releasePosts() {
			fr = s.pollFrame()
		}
		if fr == nil {
			err = fmt.Errorf("no reply")
		} else {
			r, err = wire.Decode(fr, s.ch.Dotu)
		}
	} else {
		c.SendRaw(s.ch, b, nil)
		s.ch.Writing = true
		r, _, err = c.RecvFrame(s.ch)
		c.Wait()
	}
	reply := "ok"
	if err != nil || r == nil {
		reply = "noreply"
	} else if r.Type == wire.Rerror {
		switch {
		case r.Ename == "unknown fid":
			reply = "unknownfid"
		case r.Ename == "fid already in use":
			reply = "inuse"
		case implErr.MatchString(r.Ename):
			reply = "implerr"
		default:
			reply = "refused"
		}
	} else if r.Type != m.Type+1 || r.Tag != m.Tag {
		reply = fmt.Sprintf("wrong:%s", wire.TypeName(r.Type))
	}
	fwd := [][]any{}
	destroyed := []int{}
	c.mu.Lock()
	evs := append([]Event(nil), c.Events[s.evpos:]...)
	c.mu.Unlock()
	nofid := func(v any) int {
		switch x := v.(type) {
		case uint32:
			return int(x)
		case int:
			return x
		}
		return 0
	}
	for _, e := range evs {
		if ci, ok := e["c"]; ok && ci != s.ch.Idx {
			continue
		}
		switch e["ev"] {
		case "call":
			op := e["op"].(string)
			f, nf, u := nofid(e["fid"]), 0, nofid(e["user"])
			switch op {
			case "walk":
				nf = nofid(e["newfid"])
			case "attach":
				if _, has := e["afid"]; has {
					nf = nofid(e["afid"])
				} else {
					nf = s.cfg.NOFID
				}
			case "authcheck":
				if _, has := e["afid"]; has {
					nf = nofid(e["afid"])
				} else {
					nf = s.cfg.NOFID
				}
			case "authinit":
				f, nf, u = nofid(e["afid"]), 0, 0
			}
			fwd = append(fwd, []any{op, f, nf, u})
		case "destroy":
			destroyed = append(destroyed, nofid(e["fid"]))
		}
	}
	sort.Ints(destroyed)
	return map[string]any{"reply": reply, "fwd": fwd, "destroyed": destroyed}
}

// TestFidRef executes TLC-generated histories of the reference machine FidRef sequentially on the
// real server (scripted implementation, one request at a time) and records what was observed.
func TestFidRef(t *testing.T) {
	StartWatchdog()
	bpath := os.Getenv("VERIF_BEHAVIOURS")
	if bpath == "" {
		t.Skip("no behaviours")
	}
	var fc FidCfg
	if err := json.Unmarshal([]byte(os.Getenv("VERIF_FIDCFG")), &fc); err != nil {
		t.Fatal(err)
	}
	bs, err := ReadBehaviours(bpath)
	if err != nil {
		t.Fatal(err)
	}
	out := OpenOut()
	lg := go9p.NewLogger(8)
	rep := &Report{Engine: "srv-fidref", Stats: map[string]any{}}
	steps := 0
	for _, b := range bs {
		if out.Skip(b.ID) {
			continue
		}
		out.Begin(b.ID)
		var lines []Event
		var leak string
		func() {
			defer func() {
				if r := recover(); r != nil {
					leak = fmt.Sprint(r)
				}
			}()
			synctest.Test(t, func(t *testing.T) {
				c := NewCtl()
				c.Gated = false
				c.Ops = &Ops{C: c}
				s := &fidSession{c: c, cfg: fc, next: map[string]Cmd{}}
				c.Ops.Decide = func(op string, r *go9p.SrvReq) Cmd {
					if cmd, ok := s.next[op]; ok {
						return cmd
					}
					return Cmd{Out: "ok", Payload: 1}
				}
				srv := &go9p.Srv{Log: lg, Dotu: fc.Dotu, Msize: fc.Msize, Upool: twoUsers{}}
				var ops any = c.Ops
				switch {
				case fc.HasAuth && fc.SlowPost:
					ops = OpsPSA{OpsA{c.Ops}}
				case fc.HasAuth:
					ops = OpsA{c.Ops}
				case fc.SlowPost:
					ops = OpsPS{c.Ops}
				}
				c.Start(srv, ops)
				defer c.Stop()
				s.ch = c.NewConn()
				s.ch.Dotu = fc.Dotu
				if b.ID%3 == 1 {
					// a Tversion that is refused (msize below a header) changes nothing: the limits of the session stay
					tv := wire.Encode(&wire.Msg{Type: wire.Tversion, Tag: wire.NOTAG, Msize: 23, Version: "9P2000.u"}, false)
					if fc.SlowPost {
						s.pollFrame()
						c.SendRaw(s.ch, tv, nil)
						c.Wait()
						fr := s.pollFrame()
						for fr == nil && s.releasePosts() {
							fr = s.pollFrame()
						}
					} else {
						c.SendRaw(s.ch, tv, nil)
						s.ch.Writing = true
						c.RecvFrame(s.ch)
						c.Wait()
					}
				}
				var other *ConnH
				if fc.TwoConn {
					other = c.NewConn()
					other.Dotu = fc.Dotu
					so := &fidSession{c: c, ch: other, cfg: fc, next: map[string]Cmd{}}
					keep := s
					s = so
					for _, f := range []int{1, 2} {
						so.do([]any{"attach", f, fc.NOFID, "accept", "dir", otherUser(fc)})
					}
					s = keep
				}
				for _, st := range b.Steps {
					a := st[1].([]any)
					o := s.do(a)
					lines = append(lines, Event{"act": a, "obs": o})
					steps++
					if o["reply"] == "noreply" {
						break
					}
				}
				s.releasePosts()
				if other != nil {
					so := &fidSession{c: c, ch: other, cfg: fc, next: map[string]Cmd{}, tag: 100}
					keep := s
					s = so
					for _, f := range []int{1, 2} {
						o := so.do([]any{"stat", f, "ok"})
						fw, _ := o["fwd"].([][]any)
						if o["reply"] != "ok" || len(fw) != 1 || fw[0][3] != otherUser(fc) {
							rep.Violations = append(rep.Violations, Violation{Key: "c04:other-connection-fid-disturbed",
								What: fmt.Sprintf("fid %d of a second connection after history %d: %v", f, b.ID, o), Replay: b})
						}
					}
					s = keep
					c.Close(other)
				}
				c.Close(s.ch)
				c.Wait()
			})
		}()
		rep.Cases++
		out.tw.Put(Event{"act": []any{"Reset"}, "case": b.ID})
		for _, e := range lines {
			out.tw.Put(e)
		}
		if leak != "" {
			out.tw.Put(Event{"act": []any{"Leak"}, "what": leak})
		}
		out.tw.Flush()
		if rep.Cases <= 2 {
			rep.Samples = append(rep.Samples, map[string]any{"case": b.ID, "lines": lines})
		}
	}
	out.Close()
	rep.Distinct = rep.Cases
	rep.Stats["steps"] = steps
	if err := rep.Write(); err != nil {
		t.Fatal(err)
	}
}

// otherUser: the user the second connection attaches as (9P2000 without .u can only name user 0 here).
func otherUser(fc FidCfg) int {
	if fc.Dotu {
		return 1
	}
	return 0
}

// twoUsers: a Users pool knowing uid 0 and 1 by number and by name ("u0", "u1", "u").
type twoUsers struct{}
type tuser int

func (u tuser) Name() string               { return fmt.Sprintf("u%d", int(u)) }
func (u tuser) Id() int                    { return int(u) }
func (u tuser) Groups() []go9p.Group       { return nil }
func (u tuser) IsMember(g go9p.Group) bool { return false }
func (twoUsers) Uid2User(uid int) go9p.User {
	if uid == 0 || uid == 1 {
		return tuser(uid)
	}
	return nil
}
func (twoUsers) Uname2User(n string) go9p.User {
	switch n {
	case "u0", "u":
		return tuser(0)
	case "u1":
		return tuser(1)
	}
	return nil
}
func (twoUsers) Gid2Group(gid int) go9p.Group    { return nil }
func (twoUsers) Gname2Group(n string) go9p.Group { return nil }
