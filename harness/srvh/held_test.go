package srvh

import (
	"encoding/json"
	"math/rand"
	"os"
	"sort"
	"testing"

	"verif/harness/wire"

	"github.com/rminnich/go9p"
)

type HeldCfg struct {
	N             int      `json:"n"`       // requests sent before holding
	M             int      `json:"m"`       // requests sent while the held ones are blocked
	HMax          int      `json:"hmax"`    // largest held subset
	Groups        bool     `json:"groups"`  // use shared tags (tag groups) for some requests
	Close         bool     `json:"close"`   // disconnect while the held requests are blocked
	Partial       bool     `json:"partial"` // send a partial frame just before disconnecting
	Kinds         []string `json:"kinds"`
	MaxCases      int      `json:"maxcases"`
	PermMax       int      `json:"permmax"` // all release orders for held sets up to this size
	UnknownFids   bool     `json:"unknownfids"`
	EventLoop     bool     `json:"eventloop"` // answers are delivered by one goroutine of the implementation, one after the other
	CloseVariants bool     `json:"closevariants"`
	CbHold        bool     `json:"cbhold"` // FidDestroy callbacks are slow too: they stay parked like the held requests (a clunk blocked in the implementation)
}

func subsets(n, kmax int) [][]int {
	var out [][]int
	var rec func(start int, cur []int)
	rec = func(start int, cur []int) {
		out = append(out, append([]int(nil), cur...))
		if len(cur) == kmax {
			return
		}
		for i := start; i <= n; i++ {
			rec(i+1, append(cur, i))
		}
	}
	rec(1, nil)
	return out
}

func perms(s []int) [][]int {
	if len(s) <= 1 {
		return [][]int{append([]int(nil), s...)}
	}
	var out [][]int
	for i := range s {
		rest := append(append([]int(nil), s[:i]...), s[i+1:]...)
		for _, p := range perms(rest) {
			out = append(out, append([]int{s[i]}, p...))
		}
	}
	return out
}

// completeExcept runs enabled steps (seeded order) but never lets the implementation answer a held request.
func (k *Case) completeExcept(held map[int]bool, max int) {
	for i := 0; i < max; i++ {
		k.C.Wait()
		var en [][]any
		for _, st := range k.enabledSteps() {
			if (st[0] == "ImplRespond" || st[0] == "ImplLate") && held[toInt(st[1])] {
				continue
			}
			if st[0] == "CbReturn" && k.cbHold {
				continue
			}
			if st[0] == "ImplRespond" && st[2] != "ok" {
				continue
			}
			if st[0] == "ImplRespond" && k.loop != nil {
				st = []any{"ImplReturn", st[1]}
			}
			en = append(en, st)
		}
		if len(en) == 0 {
			return
		}
		st := en[k.rng.Intn(len(en))]
		if st[0] == "WFlush3Op" {
			if !k.Cfg.HasFlushOp {
				st = []any{"WFlush3Cancel", st[1]}
			} else {
				st = []any{"WFlush3Op", st[1], false}
			}
		}
		if err := k.Do(st); err != nil {
			k.Drift = err.Error()
			return
		}
		k.Steps = append(k.Steps, st)
	}
}

func (k *Case) quiet(held []int) {
	k.C.Wait()
	var h []int
	for _, p := range k.C.Parked() {
		if p.Point == "impl" && p.Conn == k.ch.Idx {
			h = append(h, p.Req)
		}
		if p.Point == "cb_destroy" && p.Conn == k.ch.Idx {
			// the request whose post-processing is inside the slow callback (the clunk, or the last user of a clunked
			// fid) is blocked in the implementation
			for n, kd := range k.kinds {
				if kd != "Flush" && k.answered[n] && n <= len(k.ch.Reqs) && int(k.ch.Reqs[n-1].Tc.Fid) == p.Fid {
					h = append(h, n)
				}
			}
		}
	}
	sort.Ints(h)
	_ = held
	k.C.Emit(Event{"ev": "quiet", "parked": k.C.ParkedKeys(), "held": h})
}

// TestHeld: every subset of up to HMax requests is held blocked inside the implementation while all
// the others (and later ones, and a request on another connection) must complete; then the held
// ones are released in every order (small sets) / seeded random orders.  Optionally the client
// disconnects while they are blocked.
func TestHeld(t *testing.T) {
	var cfg Cfg
	var hc HeldCfg
	if err := json.Unmarshal([]byte(os.Getenv("VERIF_CFG")), &cfg); err != nil {
		t.Skip("no cfg")
	}
	if err := json.Unmarshal([]byte(os.Getenv("VERIF_HELD")), &hc); err != nil {
		t.Fatal(err)
	}
	seed := int64(envInt("VERIF_SEED", 1))
	idBase := envInt("VERIF_ID_BASE", 500000)
	out := OpenOut()
	lg := go9p.NewLogger(8)
	rep := &Report{Engine: "srv-held", Stats: map[string]any{}}
	type plan struct {
		held  []int
		order []int
	}
	var plans []plan
	rng0 := rand.New(rand.NewSource(seed))
	for _, h := range subsets(hc.N, hc.HMax) {
		if len(h) <= hc.PermMax {
			for _, p := range perms(h) {
				plans = append(plans, plan{h, p})
			}
		} else {
			for j := 0; j < 3; j++ {
				p := append([]int(nil), h...)
				rng0.Shuffle(len(p), func(a, b int) { p[a], p[b] = p[b], p[a] })
				plans = append(plans, plan{h, p})
			}
		}
	}
	if hc.MaxCases > 0 && len(plans) > hc.MaxCases {
		rng0.Shuffle(len(plans), func(a, b int) { plans[a], plans[b] = plans[b], plans[a] })
		plans = plans[:hc.MaxCases]
	}
	steps := 0
	for ci, pl := range plans {
		id := idBase + ci + 1
		if out.Skip(id) {
			continue
		}
		out.Begin(id)
		rng := rand.New(rand.NewSource(seed*104729 + int64(ci)))
		k, left := RunCase(t, lg, cfg, seed*31+int64(ci), func(k *Case) {
			if hc.CloseVariants && !hc.Partial {
				k.CloseBy = []string{"", "oversize", "badframe"}[rng.Intn(3)]
			}
			held := map[int]bool{}
			for _, h := range pl.held {
				held[h] = true
			}
			if hc.EventLoop {
				k.StartLoop()
				defer close(k.loop)
			}
			if hc.CbHold {
				k.C.Ops.GateCb, k.C.Ops.GateCbAlways = true, true
				k.cbHold = true
			}
			var sentTags []int // tag of the i-th request
			send := func(i int) bool {
				kind := hc.Kinds[rng.Intn(len(hc.Kinds))]
				tag := i
				if hc.Groups && i > 1 && rng.Intn(2) == 0 {
					tag = 1 + rng.Intn(i-1) // share the tag of an earlier request
				}
				if hc.Groups && i > hc.N && len(pl.held) > 0 && rng.Intn(2) == 0 {
					// a late joiner: issued under the tag of a request that is held right now (it must queue behind it)
					hr := pl.held[rng.Intn(len(pl.held))]
					if hr >= 1 && hr <= len(sentTags) {
						tag = sentTags[hr-1]
					}
				}
				if tag > cfg.NT {
					tag = cfg.NT
				}
				fidn := 1
				if hc.UnknownFids && rng.Intn(3) == 0 && cfg.NF >= 2 {
					fidn = 2 // never attached: refused by the framework with 'unknown fid'
				}
				if hc.CbHold {
					fidn = 1 + rng.Intn(cfg.NF) // all attached initially
				}
				st := []any{"Recv", kind, tag, fidn, 0, 0}
				if err := k.Do(st); err != nil {
					k.Drift = err.Error()
					return false
				}
				sentTags = append(sentTags, tag)
				k.Steps = append(k.Steps, st)
				return true
			}
			for i := 1; i <= hc.N; i++ {
				if !send(i) {
					return
				}
				if rng.Intn(2) == 0 {
					k.completeExcept(held, 1+rng.Intn(6))
				}
			}
			k.completeExcept(held, 5000)
			k.quiet(pl.held)
			for i := hc.N + 1; i <= hc.N+hc.M; i++ {
				if !send(i) {
					return
				}
			}
			k.completeExcept(held, 5000)
			k.quiet(pl.held)
			k.Bystander()
			if hc.Close {
				if hc.Partial {
					b := wire.Encode(&wire.Msg{Type: wire.Tstat, Tag: 999, Fid: 1}, true)
					k.C.SendRaw(k.ch, b[:5], nil)
				}
				st := []any{"ClientClose"}
				if err := k.Do(st); err == nil {
					k.Steps = append(k.Steps, st)
				}
				if rng.Intn(2) == 0 {
					k.completeExcept(held, 5000)
				}
				if hc.CbHold {
					// the victim's ConnClosed / FidDestroy callbacks are slow (parked): nobody else may wait for them
					k.completeExcept(held, 5000)
					k.Bystander()
				}
			}
			for _, h := range pl.order {
				k.C.Wait()
				st := []any{"ImplRespond", h, "ok"}
				if k.loop != nil {
					st = []any{"ImplReturn", h}
				}
				if k.C.find("impl", h, k.ch.Idx) == nil {
					continue // queued behind another held request of its tag group: released later
				}
				if err := k.Do(st); err != nil {
					k.Drift = err.Error()
					return
				}
				k.Steps = append(k.Steps, st)
				delete(held, h)
				k.completeExcept(held, 5000)
				if !k.Closed {
					k.quiet(nil)
				}
			}
			// requests of H that were queued behind other held ones; the slow callbacks return
			k.cbHold = false
			k.completeExcept(map[int]bool{}, 5000)
			if !k.Closed {
				k.quiet(nil)
			}
		})
		rep.Cases++
		if k == nil {
			rep.Inconclusive = append(rep.Inconclusive, "case did not start: "+left)
			continue
		}
		steps += len(k.Trace)
		out.End(id, k, left, k.Steps)
		if k.Drift != "" {
			rep.Stats["drift_cases"] = toInt(rep.Stats["drift_cases"]) + 1
			if len(rep.Samples) < 4 {
				rep.Samples = append(rep.Samples, map[string]any{"case": id, "drift": k.Drift})
			}
		}
		if ci < 2 {
			rep.Samples = append(rep.Samples, map[string]any{"case": id, "held": pl.held, "release": pl.order, "steps": k.Steps})
		}
	}
	out.Close()
	rep.Distinct = rep.Cases
	rep.Stats["steps"] = steps
	rep.Stats["plans"] = len(plans)
	if err := rep.Write(); err != nil {
		t.Fatal(err)
	}
}
