package srvh

import (
	"bufio"
	"encoding/json"
	"fmt"
	"math/rand"
	"os"
	"path/filepath"
	"strings"
	"testing"
	"testing/synctest"

	"verif/harness/wire"

	"github.com/rminnich/go9p"
)

// hostileServer is one server (scripted implementation or the Unix file server) inside a bubble,
// with a bystander connection that must stay usable whatever the other connections are sent.
type hostileServer struct {
	c       *Ctl
	ufs     *go9p.Ufs
	newConn func() *ConnH
	by      *ConnH
	byDotu  bool
	tag     uint16
}

func (h *hostileServer) drain(ch *ConnH) {
	// read whatever the server has written (it is free-running); never block
	h.c.Wait()
	for i := 0; i < 200; i++ {
		res := make(chan int, 1)
		go func() {
			buf := make([]byte, 1<<20)
			n, err := ch.cli.Read(buf)
			if err != nil {
				n = -1
			}
			res <- n
		}()
		h.c.Wait()
		select {
		case n := <-res:
			if n < 0 {
				return
			}
		default:
			// nothing to read: the pending reader is unblocked when the connection is closed
			return
		}
	}
}

func (h *hostileServer) handshake(ch *ConnH, msize uint32, dotu bool) bool {
	ver := "9P2000"
	if dotu {
		ver = "9P2000.u"
	}
	h.c.SendRaw(ch, wire.Encode(&wire.Msg{Type: wire.Tversion, Tag: wire.NOTAG, Msize: msize, Version: ver}, false), nil)
	fr, ok := readOne(h.c, ch)
	h.c.Wait()
	if !ok || len(fr) < 7 || fr[4] != wire.Rversion {
		return false
	}
	return true
}

func (h *hostileServer) rpc(ch *ConnH, m *wire.Msg, dotu bool) (*wire.Msg, bool) {
	h.tag++
	if h.tag >= 0xFFF0 {
		h.tag = 1
	}
	m.Tag = h.tag
	h.c.SendRaw(ch, wire.Encode(m, dotu), nil)
	fr, ok := readOne(h.c, ch)
	h.c.Wait()
	if !ok {
		return nil, false
	}
	r, err := wire.Decode(fr, dotu)
	if err != nil {
		return nil, false
	}
	return r, r.Tag == m.Tag
}

// alive: a fresh connection is served and the bystander still answers.
func (h *hostileServer) alive() string {
	ch := h.newConn()
	defer func() { h.c.Close(ch) }()
	if !h.handshake(ch, 8192, true) {
		return "a new connection is not served (no Rversion)"
	}
	if h.by != nil {
		r, ok := h.rpc(h.by, &wire.Msg{Type: wire.Tstat, Fid: 1}, h.byDotu)
		if !ok || r.Type != wire.Rstat {
			return "the bystander connection no longer answers its Tstat"
		}
	}
	return ""
}

func startHostile(t *testing.T, lg *go9p.Logger, useUfs bool, root string) *hostileServer {
	c := NewCtl()
	c.Gated = false
	h := &hostileServer{c: c}
	if useUfs {
		u := new(go9p.Ufs)
		u.Dotu = true
		u.Id = "ufs"
		u.Root = root
		u.Log = lg
		u.Msize = 8192
		u.Start(u)
		h.ufs = u
		go9p.VerifHook = c.hook
		c.Srv = &u.Srv
		h.newConn = func() *ConnH { return c.NewConnRaw() }
	} else {
		c.Ops = &Ops{C: c}
		c.Ops.Decide = func(op string, r *go9p.SrvReq) Cmd { return Cmd{Out: "ok", QType: go9p.QTDIR, Payload: 5, N: 16} }
		srv := &go9p.Srv{Log: lg, Dotu: true, Msize: 8192}
		c.Start(srv, c.Ops)
		h.newConn = func() *ConnH { return c.NewConn() }
	}
	h.by = h.newConn()
	h.byDotu = true
	h.by.Dotu = true
	h.handshake(h.by, 8192, true)
	h.rpc(h.by, &wire.Msg{Type: wire.Tattach, Fid: 1, Afid: wire.NOFID, Uname: "root", Unamenum: 0}, true)
	return h
}

type hostileCase struct {
	Dotu  bool
	Bytes []byte
	Desc  string
}

func loadFrames(paths []string, max int, rng *rand.Rand) ([]hostileCase, error) {
	var out []hostileCase
	for _, p := range paths {
		f, err := os.Open(p)
		if err != nil {
			return nil, err
		}
		sc := bufio.NewScanner(f)
		sc.Buffer(make([]byte, 1<<20), 1<<26)
		for sc.Scan() {
			var v struct {
				Type  string `json:"type"`
				Dotu  bool   `json:"dotu"`
				Mut   string `json:"mut"`
				Bytes []int  `json:"bytes"`
			}
			if json.Unmarshal(sc.Bytes(), &v) != nil || v.Type == "stat" {
				continue
			}
			b := make([]byte, len(v.Bytes))
			for i, x := range v.Bytes {
				b[i] = byte(x)
			}
			out = append(out, hostileCase{v.Dotu, b, v.Type + ":" + v.Mut})
		}
		f.Close()
	}
	if max > 0 && len(out) > max {
		rng.Shuffle(len(out), func(i, j int) { out[i], out[j] = out[j], out[i] })
		out = out[:max]
	}
	return out, nil
}

// hostileSession: a seeded adversarial request sequence: every message type with boundary values
// against fids in every state.
func hostileSession(rng *rand.Rand, n int, dotu bool) [][]byte {
	fids := []uint32{0, 1, 2, 3, 7, wire.NOFID, wire.NOFID - 1}
	u64 := []uint64{0, 1, 7, 8192, 1 << 31, 1 << 32, 1<<63 - 1, 1 << 63, ^uint64(0)}
	u32 := []uint32{0, 1, 23, 24, 8168, 8169, 8192, 1 << 31, 0xFFFFFFE8, 0xFFFFFFF0, 0xFFFFFFFF}
	names := []string{"", ".", "..", "/", "a", "a/b", "../x", "/etc/passwd", strings.Repeat("n", 255), strings.Repeat("L", 4000), "f", "d", "new"}
	pick := func() uint32 { return fids[rng.Intn(len(fids))] }
	var out [][]byte
	tag := uint16(rng.Intn(100))
	for i := 0; i < n; i++ {
		tag++
		m := &wire.Msg{Tag: tag}
		switch rng.Intn(14) {
		case 0:
			m.Type, m.Fid, m.Afid, m.Uname, m.Aname = wire.Tattach, pick(), pick(), "root", names[rng.Intn(len(names))]
			m.Unamenum = u32[rng.Intn(3)]
		case 1:
			m.Type, m.Afid, m.Uname, m.Aname = wire.Tauth, pick(), "root", names[rng.Intn(len(names))]
		case 2:
			m.Type, m.Fid, m.Newfid = wire.Twalk, pick(), pick()
			k := rng.Intn(4)
			if rng.Intn(10) == 0 {
				k = 16
			}
			for j := 0; j < k; j++ {
				m.Wname = append(m.Wname, names[rng.Intn(len(names))])
			}
		case 3:
			m.Type, m.Fid, m.Mode = wire.Topen, pick(), uint8(rng.Intn(256))
		case 4:
			m.Type, m.Fid, m.Name, m.Mode = wire.Tcreate, pick(), names[rng.Intn(len(names))], uint8(rng.Intn(4))
			m.Perm = []uint32{0644, 0x80000000 | 0755, 0x02000000 | 0777, 0x01000000, 0x00800000, 0x00200000, 0xFFFFFFFF}[rng.Intn(7)]
			m.Ext = names[rng.Intn(len(names))]
			if rng.Intn(2) == 0 {
				// the extension of a hard link is a fid number
				m.Ext = []string{"0", "1", "2", "3", "7", "99", "4294967295", "18446744073709551616", "-1"}[rng.Intn(9)]
			}
		case 5, 6:
			m.Type, m.Fid, m.Offset, m.Count = wire.Tread, pick(), u64[rng.Intn(len(u64))], u32[rng.Intn(len(u32))]
			if rng.Intn(2) == 0 {
				// directory reads at arbitrary offsets: inside records, on boundaries, around the end
				m.Offset, m.Count = uint64(rng.Intn(3200)), uint32(rng.Intn(300))
			}
		case 7:
			m.Type, m.Fid, m.Offset = wire.Twrite, pick(), u64[rng.Intn(len(u64))]
			m.Data = make([]byte, []int{0, 1, 100, 8168, 8169}[rng.Intn(5)])
		case 8:
			m.Type, m.Fid = wire.Tclunk, pick()
		case 9:
			m.Type, m.Fid = wire.Tremove, pick()
		case 10:
			m.Type, m.Fid = wire.Tstat, pick()
		case 11:
			m.Type, m.Fid = wire.Twstat, pick()
			m.Stat = wire.Stat{Mode: u32[rng.Intn(len(u32))], Length: u64[rng.Intn(len(u64))], Mtime: u32[rng.Intn(len(u32))], Atime: 0xFFFFFFFF,
				Name: names[rng.Intn(len(names))], Uidnum: 0xFFFFFFFF, Gidnum: 0xFFFFFFFF, Muidnum: 0xFFFFFFFF,
				Type: 0xFFFF, Dev: 0xFFFFFFFF}
			if rng.Intn(2) == 0 {
				m.Stat.Name = ""
				m.Stat.Mode = 0xFFFFFFFF
			}
		case 12:
			m.Type, m.Oldtag = wire.Tflush, uint16(rng.Intn(200))
		case 13:
			m.Type, m.Msize, m.Version, m.Tag = wire.Tversion, u32[rng.Intn(len(u32))], []string{"9P2000", "9P2000.u", "x"}[rng.Intn(3)], wire.NOTAG
		}
		b := wire.Encode(m, dotu)
		if len(b) > 8192 {
			continue
		}
		out = append(out, b)
	}
	return out
}

// structured: a boundary grid (every count x offset class against one fid state, pipelined in bursts) or an
// msize ladder (Tversion again and again with small and large msize, each followed by a burst of short requests).
// Frames longer than the msize in force are not sent (announced oversize frames are the vectors' business).
func (h *hostileServer) structured(ch *ConnH, rng *rand.Rand, ladder bool, j int, dotu bool) string {
	h.handshake(ch, 8192, dotu)
	h.rpc(ch, &wire.Msg{Type: wire.Tattach, Fid: 1, Afid: wire.NOFID, Uname: "root"}, dotu)
	h.rpc(ch, &wire.Msg{Type: wire.Twalk, Fid: 1, Newfid: 2, Wname: []string{"d"}}, dotu)
	h.rpc(ch, &wire.Msg{Type: wire.Topen, Fid: 2, Mode: 0}, dotu)
	h.rpc(ch, &wire.Msg{Type: wire.Twalk, Fid: 1, Newfid: 3, Wname: []string{"f"}}, dotu)
	h.rpc(ch, &wire.Msg{Type: wire.Topen, Fid: 3, Mode: 2}, dotu)
	h.rpc(ch, &wire.Msg{Type: wire.Twalk, Fid: 1, Newfid: 4, Wname: []string{"f"}}, dotu)
	if rng.Intn(2) == 0 {
		h.rpc(ch, &wire.Msg{Type: wire.Tread, Fid: 2, Offset: 0, Count: 4096}, dotu)
	}
	eff := uint32(8192)
	tag := uint16(100)
	burst := 0
	send := func(m *wire.Msg) {
		tag++
		m.Tag = tag
		b := wire.Encode(m, dotu)
		if uint32(len(b)) > eff {
			return
		}
		select {
		case ch.wq <- b:
		default:
			h.drain(ch)
			select {
			case ch.wq <- b:
			default:
			}
		}
		burst++
		if burst%(4+rng.Intn(12)) == 0 {
			h.drain(ch)
		}
	}
	version := func(m uint32) {
		ver := "9P2000"
		if dotu {
			ver = "9P2000.u"
		}
		h.drain(ch)
		// (after a drain a reader goroutine is pending on the connection: replies are only drained from here on)
		select {
		case ch.wq <- wire.Encode(&wire.Msg{Type: wire.Tversion, Tag: wire.NOTAG, Msize: m, Version: ver}, false):
		default:
		}
		h.drain(ch)
		if m >= 24 && m < eff {
			eff = m
		}
	}
	fids := []uint32{1, 2, 3, 4, 5, wire.NOFID}
	if !ladder {
		msizes := []uint32{0, 24, 25, 47, 64, 256, 8192, 9000, 0xFFFFFFFF}
		if m := msizes[j%len(msizes)]; m != 0 {
			version(m)
		}
		if j%3 == 2 {
			// create grid: every kind of Tcreate with every kind of name and extension, each through a fresh fid on the root
			perms := []uint32{0644, 0x80000000 | 0755, 0x02000000 | 0777, 0x01000000 | 0644, 0x00800000 | 0644, 0x00200000 | 0644, 0x00100000 | 0644}
			cnames := []string{"n", "", "..", "a/b", "f"}
			exts := []string{"", "x", "../x", "0", "1", "3", "7", "99", "4294967295", "-1", "18446744073709551616", "b 1 2", "c 300 400"}
			nf := uint32(100)
			for _, pm := range perms {
				for _, cn := range cnames {
					for _, ex := range exts {
						if pm&0x7F000000 == 0 && ex != "" {
							continue // plain files and directories take no extension
						}
						nf++
						send(&wire.Msg{Type: wire.Twalk, Fid: 1, Newfid: nf})
						send(&wire.Msg{Type: wire.Tcreate, Fid: nf, Name: cn, Perm: pm, Mode: uint8(rng.Intn(3)), Ext: ex})
						send(&wire.Msg{Type: wire.Tclunk, Fid: nf})
					}
				}
			}
			h.drain(ch)
			return fmt.Sprintf("create grid session (msize %d)", eff)
		}
		fid := fids[(j/len(msizes))%len(fids)]
		counts := []uint32{0, 1, eff - 25, eff - 24, eff - 23, eff - 1, eff, eff + 1, 1<<31 - 1, 1 << 31, 0xFFFFFFE7, 0xFFFFFFE8, 0xFFFFFFE9,
			0xFFFFFFFB, 0xFFFFFFFC, 0xFFFFFFFF}
		offs := []uint64{0, 1, 11, 12, 1 << 31, 1 << 32, 1<<63 - 1, 1 << 63, ^uint64(0)}
		for _, c := range counts {
			for _, o := range offs {
				send(&wire.Msg{Type: wire.Tread, Fid: fid, Offset: o, Count: c})
			}
		}
		for _, n := range []uint32{0, 1, eff - 25, eff - 24, eff - 23} {
			if n > 8192 {
				continue
			}
			for _, o := range offs {
				send(&wire.Msg{Type: wire.Twrite, Fid: fid, Offset: o, Data: make([]byte, n)})
			}
		}
		h.drain(ch)
		return fmt.Sprintf("grid session (fid %d, msize %d)", fid, eff)
	}
	ladderM := []uint32{24, 25, 32, 47, 64, 128, 256, 8000, 8192, 100000, 23}
	var steps []uint32
	for r := 0; r < 2+rng.Intn(3); r++ {
		m := ladderM[rng.Intn(len(ladderM))]
		steps = append(steps, m)
		version(m)
		for q := 0; q < 6+rng.Intn(20); q++ {
			fid := fids[rng.Intn(len(fids))]
			switch rng.Intn(8) {
			case 0, 1, 2:
				send(&wire.Msg{Type: wire.Tread, Fid: fid, Offset: []uint64{0, 0, 1, 100, 5000}[rng.Intn(5)],
					Count: []uint32{0, 1, eff - 24, eff - 23, 200, 4096, 8168}[rng.Intn(7)]})
			case 3:
				send(&wire.Msg{Type: wire.Tstat, Fid: fid})
			case 4:
				send(&wire.Msg{Type: wire.Twalk, Fid: fid, Newfid: fids[rng.Intn(len(fids))]})
			case 5:
				send(&wire.Msg{Type: wire.Topen, Fid: fid, Mode: uint8(rng.Intn(4))})
			case 6:
				send(&wire.Msg{Type: wire.Tclunk, Fid: []uint32{5, 6, wire.NOFID}[rng.Intn(3)]})
			case 7:
				send(&wire.Msg{Type: wire.Tflush, Oldtag: tag - uint16(rng.Intn(3))})
			}
		}
	}
	h.drain(ch)
	return fmt.Sprintf("ladder session (msize %v)", steps)
}

func mkTree(root string) {
	_ = os.MkdirAll(filepath.Join(root, "d", "e"), 0o755)
	_ = os.WriteFile(filepath.Join(root, "f"), []byte("hello world"), 0o644)
	for i := 0; i < 40; i++ {
		_ = os.WriteFile(filepath.Join(root, "d", fmt.Sprintf("file%02d", i)), []byte("x"), 0o644)
	}
	_ = os.Symlink("f", filepath.Join(root, "l"))
}

// TestHostile: frames from the Wire9P mutation vectors, adversarial sessions, mutated valid sessions and
// random bytes against a scripted implementation (VERIF_UFS=0) or the Unix file server (VERIF_UFS=1).
// The oracle is survival: the process does not panic (a panic kills this test binary; the driver
// attributes it through the progress file), new connections are served, the bystander still answers.
func TestHostile(t *testing.T) {
	StartWatchdog()
	useUfs := os.Getenv("VERIF_UFS") == "1"
	seed := int64(envInt("VERIF_SEED", 1))
	nsess := envInt("VERIF_SESSIONS", 200)
	maxFrames := envInt("VERIF_MAXFRAMES", 2000)
	rng := rand.New(rand.NewSource(seed))
	var frames []hostileCase
	if v := os.Getenv("VERIF_VECTORS"); v != "" {
		var err error
		frames, err = loadFrames(strings.Split(v, ":"), maxFrames, rng)
		if err != nil {
			t.Fatal(err)
		}
	}
	out := OpenOut()
	lg := go9p.NewLogger(8)
	rep := &Report{Engine: "srv-hostile", Stats: map[string]any{}}
	root := filepath.Join(os.Getenv("VERIF_SCRATCH"), fmt.Sprintf("hostile-root-%d", os.Getpid()))
	if useUfs {
		mkTree(root)
		defer os.RemoveAll(root)
	}
	total := len(frames) + 5*nsess
	const batch = 100
	for start := 0; start < total; start += batch {
		end := start + batch
		if end > total {
			end = total
		}
		if out.Skip(end) { // whole batch already done
			continue
		}
		func() {
			defer func() {
				if r := recover(); r != nil {
					// the bubble ended abnormally (a panic on this goroutine is the harness's own): never silent
					rep.Inconclusive = append(rep.Inconclusive, fmt.Sprintf("batch %d..%d ended abnormally: %v", start+1, end, r))
				}
			}()
			synctest.Test(t, func(t *testing.T) {
				h := startHostile(t, lg, useUfs, root)
				defer func() { go9p.VerifHook = nil }()
				for i := start; i < end; i++ {
					id := i + 1
					if out.Skip(id) {
						continue
					}
					out.Begin(id)
					if useUfs {
						// earlier cases may have removed or replaced it
						_ = os.WriteFile(filepath.Join(root, "f"), []byte("hello world"), 0o644)
					}
					crng := rand.New(rand.NewSource(seed*1_000_003 + int64(i)))
					var desc string
					ch := h.newConn()
					switch {
					case i < len(frames):
						fc := frames[i]
						desc = "frame " + fc.Desc
						if crng.Intn(3) > 0 {
							h.handshake(ch, 8192, fc.Dotu)
							h.rpc(ch, &wire.Msg{Type: wire.Tattach, Fid: 1, Afid: wire.NOFID, Uname: "root"}, fc.Dotu)
						}
						h.c.SendRaw(ch, fc.Bytes, nil)
					default:
						k := (i - len(frames)) % 5
						dotu := crng.Intn(2) == 0
						if k >= 3 {
							desc = h.structured(ch, crng, k == 4, (i-len(frames))/5, dotu)
							break
						}
						msize := []uint32{24, 25, 64, 128, 8192}[crng.Intn(5)]
						if crng.Intn(4) > 0 {
							h.handshake(ch, msize, dotu)
						}
						if crng.Intn(3) > 0 {
							h.rpc(ch, &wire.Msg{Type: wire.Tattach, Fid: 1, Afid: wire.NOFID, Uname: "root"}, dotu)
							h.rpc(ch, &wire.Msg{Type: wire.Twalk, Fid: 1, Newfid: 2, Wname: []string{"d"}}, dotu)
							h.rpc(ch, &wire.Msg{Type: wire.Topen, Fid: 2, Mode: 0}, dotu)
							h.rpc(ch, &wire.Msg{Type: wire.Twalk, Fid: 1, Newfid: 3, Wname: []string{"f"}}, dotu)
							h.rpc(ch, &wire.Msg{Type: wire.Twalk, Fid: 1, Newfid: 7, Wname: []string{"f"}}, dotu) // a second fid on the same file
							if crng.Intn(2) == 0 {
								// the server snapshots the listing at offset 0
								h.rpc(ch, &wire.Msg{Type: wire.Tread, Fid: 2, Offset: 0, Count: []uint32{8168, 200, 0}[crng.Intn(3)]}, dotu)
							}
						}
						sess := hostileSession(crng, 12+crng.Intn(20), dotu)
						switch k {
						case 0:
							desc = "adversarial session"
						case 1:
							desc = "mutated session"
							for _, b := range sess {
								for m := 0; m < 1+crng.Intn(3); m++ {
									if len(b) > 0 {
										b[crng.Intn(len(b))] = byte(crng.Intn(256))
									}
								}
							}
						case 2:
							desc = "random bytes"
							sess = nil
							for j := 0; j < 1+crng.Intn(4); j++ {
								b := make([]byte, crng.Intn(300))
								crng.Read(b)
								if len(b) >= 4 && crng.Intn(2) == 0 {
									b[0], b[1], b[2], b[3] = byte(len(b)), byte(len(b)>>8), 0, 0
								}
								sess = append(sess, b)
							}
						}
						for _, b := range sess {
							// pipelined: do not wait for replies
							select {
							case ch.wq <- append([]byte(nil), b...):
							default:
							}
							if crng.Intn(3) == 0 {
								h.drain(ch)
							}
						}
					}
					h.drain(ch)
					h.c.Close(ch)
					h.c.Wait()
					if why := h.alive(); why != "" {
						rep.Violations = append(rep.Violations, Violation{Key: "c06:not-served-after:" + strings.SplitN(desc, " ", 2)[0],
							What: fmt.Sprintf("after case %d (%s): %s", id, desc, why), Replay: map[string]any{"case": id, "seed": seed, "ufs": useUfs}})
						return
					}
					rep.Cases++
					if rep.Cases%997 == 1 && len(rep.Samples) < 5 {
						rep.Samples = append(rep.Samples, map[string]any{"case": id, "what": desc})
					}
				}
				h.c.Close(h.by)
				h.c.Wait()
			})
		}()
	}
	out.Close()
	rep.Distinct = rep.Cases
	rep.Stats["frames"] = len(frames)
	rep.Stats["sessions"] = 5 * nsess
	if err := rep.Write(); err != nil {
		t.Fatal(err)
	}
}
