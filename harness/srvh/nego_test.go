package srvh

import (
	"encoding/json"
	"fmt"
	"io"
	"net"
	"os"
	"strings"
	"testing"
	"testing/synctest"

	"verif/harness/wire"

	"github.com/rminnich/go9p"
)

type NegoCase struct {
	ID     int      `json:"id"`
	Smsize uint32   `json:"smsize"`
	Sdotu  bool     `json:"sdotu"`
	M      uint32   `json:"m"`
	V      string   `json:"v"`
	Hdr    []uint32 `json:"hdr"` // announced frame sizes to try (each on a fresh connection)
}

func clampInt(v uint32) int {
	if v >= 1<<31 {
		return 2147483647
	}
	return int(v)
}

// readOne reads one frame from the client end; ok=false if the server closed the connection.
func readOne(c *Ctl, ch *ConnH) ([]byte, bool) {
	buf := make([]byte, 1<<21)
	for {
		fr, err := ch.fr.Next()
		if err != nil {
			return nil, false
		}
		if fr != nil {
			return fr, true
		}
		n, rerr := ch.cli.Read(buf)
		if n > 0 {
			ch.fr.Feed(buf[:n])
		}
		if rerr != nil {
			return nil, false
		}
	}
}

// dialectOf tells in which dialect a dialect-sensitive reply is encoded ("u", "n", "" = insensitive, "?" = neither).
func dialectOf(fr []byte) string {
	if len(fr) < 7 {
		return "?"
	}
	t := fr[4]
	if t != wire.Rerror && t != wire.Rstat {
		return ""
	}
	_, eu := wire.Decode(fr, true)
	_, en := wire.Decode(fr, false)
	switch {
	case eu == nil && en != nil:
		return "u"
	case en == nil && eu != nil:
		return "n"
	case eu == nil && en == nil:
		return "" // ambiguous encodings cannot be told apart
	}
	return "?"
}

// TestNego runs the negotiation grid against the real server and records every frame it writes.
func TestNego(t *testing.T) {
	StartWatchdog()
	var cases []NegoCase
	b, err := os.ReadFile(os.Getenv("VERIF_NEGO"))
	if err != nil {
		t.Skip("no cases")
	}
	if err := json.Unmarshal(b, &cases); err != nil {
		t.Fatal(err)
	}
	out := OpenOut()
	lg := go9p.NewLogger(8)
	rep := &Report{Engine: "srv-nego", Stats: map[string]any{}}
	frames := 0
	for _, nc := range cases {
		if out.Skip(nc.ID) {
			continue
		}
		out.Begin(nc.ID)
		var lines []Event
		func() {
			defer func() { recover() }()
			synctest.Test(t, func(t *testing.T) {
				c := NewCtl()
				c.Gated = false
				c.Ops = &Ops{C: c}
				want := 0
				longErr := false
				holdRead := false
				c.Ops.Decide = func(op string, r *go9p.SrvReq) Cmd {
					if holdRead && op == "read" {
						holdRead = false
						return c.park("negohold", r.Conn, r) // the implementation is slow: answered when released
					}
					if longErr {
						return Cmd{Out: "longerr"}
					}
					return Cmd{Out: "ok", QType: go9p.QTDIR, Payload: 7, N: want}
				}
				srv := &go9p.Srv{Log: lg, Dotu: nc.Sdotu, Msize: nc.Smsize}
				c.Start(srv, c.Ops)
				defer c.Stop()
				session := func() (*ConnH, bool, uint32, bool) {
					ch := c.NewConn()
					m := &wire.Msg{Type: wire.Tversion, Tag: wire.NOTAG, Msize: nc.M, Version: nc.V}
					c.SendRaw(ch, wire.Encode(m, false), nil)
					fr, ok := readOne(c, ch)
					c.Wait()
					if !ok {
						return ch, false, 0, false
					}
					r, derr := wire.Decode(fr, false)
					if derr != nil {
						r, derr = wire.Decode(fr, true)
					}
					if derr != nil {
						return ch, false, 0, false
					}
					if r.Type != wire.Rversion {
						return ch, false, 0, false
					}
					return ch, true, r.Msize, r.Version == "9P2000.u"
				}
				// 1. the negotiation itself
				ch := c.NewConn()
				lines = append(lines, Event{"act": "reset", "case": nc.ID, "smsize": clampInt(nc.Smsize), "sdotu": nc.Sdotu})
				m := &wire.Msg{Type: wire.Tversion, Tag: wire.NOTAG, Msize: nc.M, Version: nc.V}
				c.SendRaw(ch, wire.Encode(m, false), nil)
				fr, ok := readOne(c, ch)
				c.Wait()
				obs := Event{"type": "none", "msize": 0, "version": ""}
				negotiated := false
				var nm uint32
				nd := false
				if ok {
					r, derr := wire.Decode(fr, false)
					if derr != nil {
						r, derr = wire.Decode(fr, true)
					}
					if derr == nil {
						obs = Event{"type": wire.TypeName(r.Type), "msize": clampInt(r.Msize), "version": r.Version}
						if r.Type == wire.Rversion {
							negotiated, nm, nd = true, r.Msize, r.Version == "9P2000.u"
						}
					}
					lines = append(lines, Event{"act": "frame", "size": len(fr), "kind": wire.TypeName(fr[4]), "dialect": "", "count": -1, "data": 0})
				}
				lines = append(lines, Event{"act": "version", "m": clampInt(nc.M), "v": nc.V, "obs": obs})
				// 2. every kind of reply afterwards, sized around the negotiated msize
				if negotiated {
					ch.Dotu = nd
					tag := uint16(0)
					do := func(m *wire.Msg, count int) {
						tag++
						m.Tag = tag
						if uint32(len(wire.Encode(m, nd))) > nm {
							return // a well-behaved client does not send frames above the negotiated msize
						}
						c.SendRaw(ch, wire.Encode(m, nd), nil)
						fr, ok := readOne(c, ch)
						c.Wait()
						if !ok {
							lines = append(lines, Event{"act": "note", "what": "connection closed after " + wire.TypeName(m.Type)})
							return
						}
						data := 0
						if fr[4] == wire.Rread && len(fr) >= 11 {
							data = len(fr) - 11
						}
						lines = append(lines, Event{"act": "frame", "size": len(fr), "kind": wire.TypeName(fr[4]), "dialect": dialectOf(fr), "count": count, "data": data})
						frames++
					}
					do(&wire.Msg{Type: wire.Tattach, Fid: 1, Afid: wire.NOFID, Uname: "u"}, -1)
					lim := int(nm) - 24
					for _, n := range []int{0, 1, lim - 1, lim, lim + 1, 2 * int(nm)} {
						if n < 0 {
							continue
						}
						want = n // Rstat with a name of n bytes
						do(&wire.Msg{Type: wire.Tstat, Fid: 1}, -1)
					}
					names := make([]string, 16)
					for i := range names {
						names[i] = "a"
					}
					do(&wire.Msg{Type: wire.Twalk, Fid: 1, Newfid: 2, Wname: names}, -1)
					for _, cnt := range []int{0, 1, lim / 2, lim - 1, lim} {
						if cnt < 0 {
							continue
						}
						want = cnt + 64 // the implementation offers more than asked; the answer is cut to count
						do(&wire.Msg{Type: wire.Tread, Fid: 1, Count: uint32(cnt)}, cnt)
					}
					longErr = true
					do(&wire.Msg{Type: wire.Tstat, Fid: 1}, -1)
					longErr = false
					do(&wire.Msg{Type: wire.Tstat, Fid: 77}, -1)                                // framework error: unknown fid
					do(&wire.Msg{Type: wire.Tattach, Fid: 1, Afid: wire.NOFID, Uname: "u"}, -1) // fid already in use (longer text)
				}
				// 2b. a second Tversion: first one that must be refused (it may change nothing), then one that is
				//     accepted and may only lower the msize; stat and error replies must follow the dialect in force
				if negotiated {
					tag := uint16(900)
					again := func(m2 uint32, v2 string) {
						mm := &wire.Msg{Type: wire.Tversion, Tag: wire.NOTAG, Msize: m2, Version: v2}
						c.SendRaw(ch, wire.Encode(mm, false), nil)
						fr, ok := readOne(c, ch)
						c.Wait()
						obs := Event{"type": "none", "msize": 0, "version": ""}
						if !ok {
							lines = append(lines, Event{"act": "note", "what": "connection closed before the second Tversion was answered"})
							return
						}
						if ok {
							r, derr := wire.Decode(fr, nd)
							if derr != nil {
								r, derr = wire.Decode(fr, !nd)
							}
							if derr == nil {
								obs = Event{"type": wire.TypeName(r.Type), "msize": clampInt(r.Msize), "version": r.Version}
								if r.Type == wire.Rversion {
									nm, nd = r.Msize, r.Version == "9P2000.u"
								}
							}
							// a refusal (Rerror) is still in the dialect in force before this Tversion
							dl := ""
							if fr[4] == wire.Rerror {
								dl = dialectOf(fr)
							}
							lines = append(lines, Event{"act": "frame", "size": len(fr), "kind": wire.TypeName(fr[4]), "dialect": dl, "count": -1, "data": 0})
						}
						lines = append(lines, Event{"act": "version", "m": clampInt(m2), "v": v2, "obs": obs})
						ch.Dotu = nd
						// fids do not survive a version message in general; attach afresh, then probe the dialect
						for _, pm := range []*wire.Msg{{Type: wire.Tattach, Fid: 5, Afid: wire.NOFID, Uname: "u"}, {Type: wire.Tstat, Fid: 5}, {Type: wire.Tstat, Fid: 78}} {
							tag++
							pm.Tag = tag
							if uint32(len(wire.Encode(pm, nd))) > nm {
								continue
							}
							c.SendRaw(ch, wire.Encode(pm, nd), nil)
							fr, ok := readOne(c, ch)
							c.Wait()
							if !ok {
								// a well-formed frame within msize, in the dialect in force, ended the connection
								lines = append(lines, Event{"act": "header", "s": len(wire.Encode(pm, nd)), "obs": "dropped"})
								return
							}
							lines = append(lines, Event{"act": "frame", "size": len(fr), "kind": wire.TypeName(fr[4]), "dialect": dialectOf(fr), "count": -1, "data": 0})
							frames++
						}
						c.SendRaw(ch, wire.Encode(&wire.Msg{Type: wire.Tclunk, Tag: tag + 1, Fid: 5}, nd), nil)
						readOne(c, ch)
						c.Wait()
						tag++
					}
					other := "9P2000"
					if !nd {
						other = "9P2000.u"
					}
					want = 0
					again(23, other) // refused: dialect and msize stay
					again(nm, other) // accepted: same msize, possibly another dialect
					if nm > 64 {
						again(nm/2, nc.V) // accepted: lower msize
					}
				}
				c.Close(ch)
				// 2c. a complete, well-formed frame larger than the negotiated msize, in ONE transport write: it must
				//     not be executed
				if negotiated && nm < 60000 {
					hc, okv, m3, d3 := session()
					if okv {
						lines = append(lines, Event{"act": "session", "msize": clampInt(m3), "dotu": d3})
						big := &wire.Msg{Type: wire.Tattach, Tag: 1, Fid: 9, Afid: wire.NOFID, Uname: strings.Repeat("u", int(m3)), Aname: ""}
						bb := wire.Encode(big, d3)
						ncalls := len(c.Events)
						c.SendRaw(hc, bb, nil)
						c.Wait()
						res := make(chan error, 1)
						go func() {
							var one [1]byte
							_, e := hc.cli.Read(one[:])
							res <- e
						}()
						c.Wait()
						obs := "accepted"
						select {
						case e := <-res:
							if e != nil {
								obs = "dropped"
							} else {
								obs = "replied"
							}
						default:
						}
						c.mu.Lock()
						for _, e := range c.Events[ncalls:] {
							if e["ev"] == "call" {
								obs = "executed"
							}
						}
						c.mu.Unlock()
						lines = append(lines, Event{"act": "header", "s": len(bb), "obs": obs})
					}
					c.Close(hc)
					c.Wait()
				}
				// 2d. a Tread in progress inside the implementation while a second Tversion lowers the msize: whatever
				//     the server writes after the Rversion must fit the msize now in force
				if negotiated && nm >= 256 {
					hc, okv, m5, d5 := session()
					if okv && m5 >= 256 {
						lines = append(lines, Event{"act": "session", "msize": clampInt(m5), "dotu": d5})
						hc.Dotu = d5
						c.SendRaw(hc, wire.Encode(&wire.Msg{Type: wire.Tattach, Tag: 1, Fid: 1, Afid: wire.NOFID, Uname: "u"}, d5), nil)
						if fr, ok := readOne(c, hc); ok {
							lines = append(lines, Event{"act": "frame", "size": len(fr), "kind": wire.TypeName(fr[4]), "dialect": dialectOf(fr), "count": -1, "data": 0})
						}
						c.Wait()
						lim5 := int(m5) - 24
						holdRead = true
						c.SendRaw(hc, wire.Encode(&wire.Msg{Type: wire.Tread, Tag: 7, Fid: 1, Count: uint32(lim5)}, d5), nil)
						c.Wait()
						v5 := "9P2000"
						if d5 {
							v5 = "9P2000.u"
						}
						m6 := m5 / 4
						if m6 < 64 {
							m6 = 64
						}
						c.SendRaw(hc, wire.Encode(&wire.Msg{Type: wire.Tversion, Tag: wire.NOTAG, Msize: m6, Version: v5}, false), nil)
						obs := Event{"type": "none", "msize": 0, "version": ""}
						if fr, ok := readOne(c, hc); ok {
							if r, derr := wire.Decode(fr, d5); derr == nil {
								obs = Event{"type": wire.TypeName(r.Type), "msize": clampInt(r.Msize), "version": r.Version}
							}
							lines = append(lines, Event{"act": "frame", "size": len(fr), "kind": wire.TypeName(fr[4]), "dialect": "", "count": -1, "data": 0})
						}
						c.Wait()
						lines = append(lines, Event{"act": "version", "m": clampInt(m6), "v": v5, "obs": obs})
						holdRead = false
						want = lim5
						if c.ReleasePoint("negohold", Cmd{Out: "ok", QType: go9p.QTDIR, Payload: 7, N: lim5}) {
							res := make(chan []byte, 1)
							go func() {
								buf := make([]byte, 1<<21)
								n, e := hc.cli.Read(buf)
								if e != nil || n == 0 {
									res <- nil
									return
								}
								res <- buf[:n]
							}()
							c.Wait()
							select {
							case b := <-res:
								if b != nil {
									hc.fr.Feed(b)
									if fr, _ := hc.fr.Next(); fr != nil && len(fr) >= 7 {
										data := 0
										if fr[4] == wire.Rread && len(fr) >= 11 {
											data = len(fr) - 11
										}
										lines = append(lines, Event{"act": "frame", "size": len(fr), "kind": wire.TypeName(fr[4]), "dialect": dialectOf(fr), "count": lim5, "data": data})
										frames++
									}
								}
							default:
							}
							rep.Stats["held_across_version"] = toInt(rep.Stats["held_across_version"]) + 1
						}
						want = 0
					}
					c.Close(hc)
					c.Wait()
				}
				// 3. announced frame sizes, each on a fresh negotiated connection
				for _, s := range nc.Hdr {
					hc, okv, m4, d4 := session()
					if !okv {
						c.Close(hc)
						continue
					}
					lines = append(lines, Event{"act": "session", "msize": clampInt(m4), "dotu": d4})
					hdr := []byte{byte(s), byte(s >> 8), byte(s >> 16), byte(s >> 24), wire.Tstat}
					if s < 7 {
						hdr = append(hdr, 1, 0) // a complete header announcing less than a header
					}
					c.SendRaw(hc, hdr, nil)
					c.Wait()
					// has the server closed its end?  A read would block for ever if not.
					res := make(chan error, 1)
					go func() {
						var one [1]byte
						_, e := hc.cli.Read(one[:])
						res <- e
					}()
					c.Wait()
					obs := "accepted"
					select {
					case e := <-res:
						if e != nil {
							obs = "dropped"
						} else {
							obs = "replied"
						}
					default:
					}
					lines = append(lines, Event{"act": "header", "s": clampInt(s), "obs": obs})
					c.Close(hc)
					c.Wait()
				}
				c.Wait()
			})
		}()
		rep.Cases++
		for _, e := range lines {
			out.tw.Put(e)
		}
		out.tw.Flush()
		if rep.Cases <= 2 {
			rep.Samples = append(rep.Samples, map[string]any{"case": nc, "lines": lines})
		}
	}
	out.Close()
	rep.Distinct = rep.Cases
	rep.Stats["frames"] = frames
	if err := rep.Write(); err != nil {
		t.Fatal(err)
	}
}

type ConnectCase struct {
	ID    int    `json:"id"`
	Cm    uint32 `json:"cm"`
	Cdotu bool   `json:"cdotu"`
	Rm    uint32 `json:"rm"`
	Rv    string `json:"rv"`
}

// TestConnect: the client's Connect against a scripted peer answering Rversion(rm, rv).
func TestConnect(t *testing.T) {
	var cases []ConnectCase
	b, err := os.ReadFile(os.Getenv("VERIF_CONNECT"))
	if err != nil {
		t.Skip("no cases")
	}
	if err := json.Unmarshal(b, &cases); err != nil {
		t.Fatal(err)
	}
	out := OpenOut()
	rep := &Report{Engine: "clnt-connect", Stats: map[string]any{}}
	for _, cc := range cases {
		if out.Skip(cc.ID) {
			continue
		}
		out.Begin(cc.ID)
		a, bb := net.Pipe()
		go func() { // peer: read Tversion, answer
			var fr wire.Framer
			buf := make([]byte, 65536)
			for {
				n, err := bb.Read(buf)
				if n > 0 {
					fr.Feed(buf[:n])
				}
				if f, _ := fr.Next(); f != nil {
					m, derr := wire.Decode(f, false)
					if derr == nil && m.Type == wire.Tversion {
						_, _ = bb.Write(wire.Encode(&wire.Msg{Type: wire.Rversion, Tag: m.Tag, Msize: cc.Rm, Version: cc.Rv}, false))
					}
				}
				if err != nil {
					return
				}
			}
		}()
		clnt, cerr := go9p.Connect(a, cc.Cm, cc.Cdotu)
		line := Event{"act": "connect", "cm": clampInt(cc.Cm), "cdotu": cc.Cdotu, "rm": clampInt(cc.Rm), "rv": cc.Rv}
		if cerr != nil || clnt == nil {
			line["act"] = "connect-failed"
			line["err"] = fmt.Sprint(cerr)
		} else {
			line["obs"] = Event{"msize": clampInt(clnt.Msize), "dotu": clnt.Dotu}
		}
		_ = a.Close()
		_ = bb.Close()
		out.tw.Put(Event{"act": "reset", "case": cc.ID, "smsize": 0, "sdotu": false})
		out.tw.Put(line)
		out.tw.Flush()
		rep.Cases++
		if rep.Cases <= 2 {
			rep.Samples = append(rep.Samples, line)
		}
	}
	out.Close()
	rep.Distinct = rep.Cases
	_ = io.EOF
	_ = strings.TrimSpace
	if err := rep.Write(); err != nil {
		t.Fatal(err)
	}
}
