package srvh

import (
	"fmt"
	"strings"

	"github.com/rminnich/go9p"
)

// Ops is the scripted file-server implementation: it logs every call, parks at the "impl" gate
// (or asks Decide) and answers as told.
type Ops struct {
	C            *Ctl
	Decide       func(op string, r *go9p.SrvReq) Cmd // nil: park at the controller's "impl" gate
	GateCb       bool                                // park inside the FidDestroy / ConnClosed callbacks too (slow callbacks)
	GateCbAlways bool                                // ... also while the connection is alive
}

func (o *Ops) call(op string, r *go9p.SrvReq) {
	c := o.C
	c.mu.Lock()
	id := c.idOfLocked(r, r.Conn)
	ev := Event{"ev": "call", "c": c.connIdx[r.Conn], "n": id, "op": op}
	if r.Fid != nil {
		ev["fid"] = go9p.VerifFidNo(r.Fid)
		if r.Fid.User != nil {
			ev["user"] = r.Fid.User.Id()
		}
	}
	if r.Newfid != nil {
		ev["newfid"] = go9p.VerifFidNo(r.Newfid)
	}
	if r.Afid != nil {
		ev["afid"] = go9p.VerifFidNo(r.Afid)
	}
	tc := r.Tc
	switch tc.Type {
	case go9p.Twalk:
		ev["wname"] = append([]string(nil), tc.Wname...)
	case go9p.Topen:
		ev["mode"] = tc.Mode
	case go9p.Tcreate:
		ev["mode"] = tc.Mode
		ev["perm"] = tc.Perm
		ev["name"] = tc.Name
	case go9p.Tread:
		ev["offset"] = tc.Offset
		ev["count"] = tc.Count
	case go9p.Twrite:
		ev["offset"] = tc.Offset
		ev["count"] = tc.Count
		ev["dlen"] = len(tc.Data)
	case go9p.Tattach:
		ev["aname"] = tc.Aname
	}
	c.Events = append(c.Events, ev)
	c.mu.Unlock()
	var cmd Cmd
	if o.Decide != nil {
		cmd = o.Decide(op, r)
	} else {
		cmd = c.park("impl", r.Conn, r)
	}
	if cmd.Out == "return" {
		return
	}
	o.C.Answer(r, cmd)
	if cmd.Twice {
		o.C.Answer(r, Cmd{Out: "err", Payload: cmd.Payload + 1000000})
	}
}

func payloadBytes(p uint64, n int) []byte {
	b := make([]byte, n)
	for i := range b {
		b[i] = byte(p >> (8 * (uint(i) % 8)))
	}
	return b
}

// Answer makes the implementation respond to r according to cmd (from whatever goroutine calls it).
func (c *Ctl) Answer(r *go9p.SrvReq, cmd Cmd) {
	c.mu.Lock()
	c.Events = append(c.Events, Event{"ev": "answer", "n": c.idOfLocked(r, r.Conn), "out": cmd.Out, "payload": cmd.Payload})
	c.mu.Unlock()
	if cmd.Out == "err" {
		r.RespondError(&go9p.Error{Err: fmt.Sprintf("E%d", cmd.Payload), Errornum: 77})
		return
	}
	if cmd.Out == "longerr" {
		r.RespondError(&go9p.Error{Err: "E1" + strings.Repeat("0", 300), Errornum: 77})
		return
	}
	q := &go9p.Qid{Type: cmd.QType, Path: cmd.Payload}
	tc := r.Tc
	switch tc.Type {
	case go9p.Tattach:
		r.RespondRattach(q)
	case go9p.Twalk:
		n := len(tc.Wname)
		if cmd.Out == "partial" {
			n = cmd.N
		}
		qs := make([]go9p.Qid, n)
		for i := range qs {
			qs[i] = go9p.Qid{Type: go9p.QTDIR, Path: cmd.Payload}
		}
		if n > 0 {
			qs[n-1].Type = cmd.QType
		}
		r.RespondRwalk(qs)
	case go9p.Topen:
		r.RespondRopen(q, 0)
	case go9p.Tcreate:
		r.RespondRcreate(q, 0)
	case go9p.Tread:
		n := cmd.N
		if n > int(tc.Count) {
			n = int(tc.Count)
		}
		r.RespondRread(payloadBytes(cmd.Payload, n))
	case go9p.Twrite:
		r.RespondRwrite(uint32(cmd.Payload))
	case go9p.Tclunk:
		r.RespondRclunk()
	case go9p.Tremove:
		r.RespondRremove()
	case go9p.Tstat:
		name := "f"
		if cmd.N > 1 {
			name = strings.Repeat("n", cmd.N)
		}
		r.RespondRstat(&go9p.Dir{Name: name, Length: cmd.Payload, Uid: "u", Gid: "g", Muid: "m"})
	case go9p.Twstat:
		r.RespondRwstat()
	default:
		r.RespondError("unexpected op")
	}
}

func (o *Ops) Attach(r *go9p.SrvReq) { o.call("attach", r) }
func (o *Ops) Walk(r *go9p.SrvReq)   { o.call("walk", r) }
func (o *Ops) Open(r *go9p.SrvReq)   { o.call("open", r) }
func (o *Ops) Create(r *go9p.SrvReq) { o.call("create", r) }
func (o *Ops) Read(r *go9p.SrvReq)   { o.call("read", r) }
func (o *Ops) Write(r *go9p.SrvReq)  { o.call("write", r) }
func (o *Ops) Clunk(r *go9p.SrvReq)  { o.call("clunk", r) }
func (o *Ops) Remove(r *go9p.SrvReq) { o.call("remove", r) }
func (o *Ops) Stat(r *go9p.SrvReq)   { o.call("stat", r) }
func (o *Ops) Wstat(r *go9p.SrvReq)  { o.call("wstat", r) }

func (o *Ops) ConnOpened(conn *go9p.Conn) {
	o.C.registerConn(conn)
	o.C.mu.Lock()
	o.C.Events = append(o.C.Events, Event{"ev": "opened", "c": o.C.connIdx[conn]})
	o.C.mu.Unlock()
}

func (o *Ops) ConnClosed(conn *go9p.Conn) {
	o.C.mu.Lock()
	o.C.Events = append(o.C.Events, Event{"ev": "closed", "c": o.C.connIdx[conn]})
	gate := o.GateCb && o.C.Gated && o.C.connIdx[conn] == 0
	o.C.mu.Unlock()
	if gate {
		o.C.park("cb_closed", conn, nil)
	}
}

func (o *Ops) FidDestroy(f *go9p.SrvFid) {
	c := o.C
	c.mu.Lock()
	gate := o.GateCb && c.Gated && c.connIdx[f.Fconn] == 0 && (o.GateCbAlways || c.Conns[0].Closed)
	if !gate {
		c.Events = append(c.Events, Event{"ev": "destroy", "c": c.connIdx[f.Fconn], "fid": go9p.VerifFidNo(f)})
	}
	c.mu.Unlock()
	if gate {
		// a slow callback: the notification counts as delivered when the call returns
		c.parkFid("cb_destroy", f.Fconn, nil, int(go9p.VerifFidNo(f)))
		c.mu.Lock()
		c.Events = append(c.Events, Event{"ev": "destroy", "c": c.connIdx[f.Fconn], "fid": go9p.VerifFidNo(f)})
		c.mu.Unlock()
	}
}

// OpsF adds FlushOp: the flush worker parks at "flushop" with the target; "cancel" calls target.Flush().
type OpsF struct{ *Ops }

func (o OpsF) Flush(r *go9p.SrvReq) {
	var cmd Cmd
	if o.Decide != nil {
		cmd = o.Decide("flushop", r)
	} else {
		cmd = o.C.park("flushop", r.Conn, r)
	}
	o.C.mu.Lock()
	o.C.Events = append(o.C.Events, Event{"ev": "flushop", "n": o.C.idOfLocked(r, r.Conn), "out": cmd.Out})
	o.C.mu.Unlock()
	if cmd.Out == "cancel" {
		r.Flush()
	}
}

// OpsP (and OpsPF with FlushOp) route every request through the SrvReqProcessOps override path: the framework then
// calls SrvReqProcess / SrvReqRespond instead of Process / PostProcess, and the implementation calls those itself,
// as the interface's documentation prescribes.  Observable behaviour must be identical to the default path.
type OpsP struct{ *Ops }

func (o OpsP) SrvReqProcess(r *go9p.SrvReq) { r.Process() }
func (o OpsP) SrvReqRespond(r *go9p.SrvReq) { r.PostProcess() }

type OpsPF struct{ OpsF }

func (o OpsPF) SrvReqProcess(r *go9p.SrvReq) { r.Process() }
func (o OpsPF) SrvReqRespond(r *go9p.SrvReq) { r.PostProcess() }
