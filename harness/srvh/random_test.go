package srvh

import (
	"encoding/json"
	"fmt"
	"math/rand"
	"os"
	"testing"

	"github.com/rminnich/go9p"
)

// clientModel tracks, from what the client itself sent and received, which tags it may use
// (the assumption predicate of Srv9P!Recv: a tag is reused only after its reply or the Rflush of a
// flush that named it, and oldtag is not reused while that flush is outstanding).
type clientModel struct {
	tag, oldtag []int
	kind        []string
	answered    []bool
	fid, newfid []int
	reverted    []bool
	fst         map[int]string // what the client knows of each fid: "" free, "binding", "valid", "clunking"
	busy        map[int]int    // requests outstanding on a valid fid
}

func (m *clientModel) add(kind string, tag, oldtag, fid, newfid int) {
	m.kind = append(m.kind, kind)
	m.tag = append(m.tag, tag)
	m.oldtag = append(m.oldtag, oldtag)
	m.answered = append(m.answered, false)
	m.fid = append(m.fid, fid)
	m.newfid = append(m.newfid, newfid)
	m.reverted = append(m.reverted, false)
	switch kind {
	case "Attach":
		m.fst[fid] = "binding"
	case "Walk":
		m.busy[fid]++
		if newfid != fid {
			m.fst[newfid] = "binding"
		}
	case "Clunk":
		m.fst[fid] = "clunking"
	case "Stat":
		m.busy[fid]++
	}
}

// settle updates the client's knowledge of fids when request r is answered (ok: success reply, full:
// complete walk) or flushed away (cancelled: nothing happened).
func (m *clientModel) settle(r int, ok, full, cancelled bool) {
	if m.reverted[r] {
		return
	}
	m.reverted[r] = true
	f, nf := m.fid[r], m.newfid[r]
	switch m.kind[r] {
	case "Attach":
		if ok && !cancelled {
			m.fst[f] = "valid"
		} else {
			m.fst[f] = ""
		}
	case "Walk":
		m.busy[f]--
		if nf != f {
			if ok && full && !cancelled {
				m.fst[nf] = "valid"
			} else {
				m.fst[nf] = ""
			}
		}
	case "Clunk":
		if ok && !cancelled {
			m.fst[f] = ""
		} else {
			m.fst[f] = "valid"
		}
	case "Stat":
		m.busy[f]--
	}
}

func (m *clientModel) flushedAway(r int) bool {
	for q := r + 1; q < len(m.tag); q++ {
		if m.kind[q] == "Flush" && m.oldtag[q] == m.tag[r] && m.answered[q] {
			return true
		}
	}
	return false
}

func (m *clientModel) tagBusy(t int) bool {
	for r := range m.tag {
		if m.tag[r] == t && !m.answered[r] && !m.flushedAway(r) {
			return true
		}
		if m.kind[r] == "Flush" && m.oldtag[r] == t && !m.answered[r] {
			return true
		}
	}
	return false
}

// onReply: the reply with this tag answers the oldest unanswered, not flushed-away request carrying it.
func (m *clientModel) onReply(tag int, ok, full bool) {
	for r := range m.tag {
		if m.tag[r] == tag && !m.answered[r] && !m.flushedAway(r) {
			m.answered[r] = true
			m.settle(r, ok, full, false)
			if m.kind[r] == "Flush" {
				for x := 0; x < r; x++ {
					if m.tag[x] == m.oldtag[r] && !m.answered[x] {
						m.settle(x, false, false, true)
					}
				}
			}
			if m.kind[r] == "Version" {
				// the session is reset: everything outstanding is aborted, its tags are free again
				for x := 0; x < r; x++ {
					if !m.answered[x] {
						m.answered[x] = true
						m.settle(x, false, false, true)
					}
				}
			}
			return
		}
	}
}

type RandCfg struct {
	Cases         int      `json:"cases"`
	NReq          int      `json:"nreq"`
	Kinds         []string `json:"kinds"`
	Shared        bool     `json:"shared"` // allow tag groups (non-flush requests under a busy tag)
	Close         bool     `json:"close"`  // disconnect at a random point
	Extra         bool     `json:"extra"`  // extra answers
	LateP         int      `json:"latep"`  // percent of implementation calls left unanswered (answered late)
	SendP         int      `json:"sendp"`  // percent chance to send the next request when other steps are enabled
	Probe         bool     `json:"probe"`
	Insane        bool     `json:"insane"` // also use fids the client does not know to be valid / free
	CbGate        bool     `json:"cbgate"` // FidDestroy / ConnClosed callbacks are slow (parked) once the client has gone
	CbGateAlways  bool     `json:"cbgatealways"`
	CloseVariants bool     `json:"closevariants"` // end the connection by EOF, an oversize header or an unparsable frame
	Hold          bool     `json:"hold"`          // one long delay per case: a chosen request's goroutine stays parked at a chosen action until nothing else can happen
}

// holdNames: the Srv9P actions at which a goroutine can be delayed (one per hook of the server).
var holdNames = []string{"WStart", "WDispatch", "Impl", "RPost", "REnq", "RUnlink", "RNext", "WEnd", "WFlush2", "WFlush3Op", "SWrite", "ImplLate"}

// stepReq: the request a controller step belongs to (0: none).
func stepReq(st []any) int {
	switch st[0] {
	case "RUnlink", "RPost", "REnq", "RNext":
		return toInt(st[2])
	case "SWrite", "CRecv", "CloseEnter", "CloseDestroy", "CbReturn", "ClientClose", "Recv":
		return 0
	}
	if len(st) > 1 {
		return toInt(st[1])
	}
	return 0
}

// TestRandom: seeded random client sessions under seeded random gate schedules, beyond TLC's bounds.
// Every step is a Srv9P action, logged for trace validation; the external history goes to Mon9P.
func TestRandom(t *testing.T) {
	var cfg Cfg
	var rc RandCfg
	if err := json.Unmarshal([]byte(os.Getenv("VERIF_CFG")), &cfg); err != nil {
		t.Skip("no cfg")
	}
	if err := json.Unmarshal([]byte(os.Getenv("VERIF_RAND")), &rc); err != nil {
		t.Fatal(err)
	}
	seed := int64(envInt("VERIF_SEED", 1))
	idBase := envInt("VERIF_ID_BASE", 100000)
	out := OpenOut()
	lg := go9p.NewLogger(8)
	rep := &Report{Engine: "srv-random", Stats: map[string]any{}}
	steps := 0
	maxOut := 0
	for ci := 0; ci < rc.Cases; ci++ {
		id := idBase + ci + 1
		if out.Skip(id) {
			continue
		}
		out.Begin(id)
		rng := rand.New(rand.NewSource(seed*1000003 + int64(ci)))
		var done [][]any
		k, left := RunCase(t, lg, cfg, seed*7919+int64(ci), func(k *Case) {
			k.C.Ops.GateCb = rc.CbGate || rc.CbGateAlways
			k.C.Ops.GateCbAlways = rc.CbGateAlways
			if rc.CloseVariants {
				k.CloseBy = []string{"", "oversize", "badframe"}[rng.Intn(3)]
			}
			m := &clientModel{fst: map[int]string{}, busy: map[int]int{}}
			for _, f := range cfg.InitFids {
				m.fst[f] = "valid"
			}
			sent := 0
			holdName, holdReq := holdNames[ci%len(holdNames)], 1+(ci/len(holdNames))%3
			holdActive, holdReleased := false, false
			holdEarly := (ci/(3*len(holdNames)))%2 == 1 // release as soon as a request reusing the tag is queued behind it
			prefTag = 0
			if rc.Hold {
				k.C.Emit(Event{"ev": "note", "what": fmt.Sprintf("hold %s of request %d", holdName, holdReq)})
			}
			closeAt := -1
			if rc.Close {
				closeAt = rng.Intn(rc.NReq*12 + 1)
			}
			for it := 0; it < rc.NReq*60+200; it++ {
				k.C.Wait()
				if closeAt >= 0 && it >= closeAt && !k.Closed && !k.versionBusy() {
					st := []any{"ClientClose"}
					if k.Do(st) == nil {
						done = append(done, st)
					}
					continue
				}
				en := k.enabledSteps()
				// candidate new request
				var next []any
				if sent < rc.NReq && !k.Closed && !k.versionBusy() {
					next = randomRequest(rng, m, cfg, rc)
				}
				if rc.Hold && !holdReleased {
					var f [][]any
					for _, st := range en {
						name := st[0].(string)
						if name == "ImplRespond" || name == "ImplAbort" {
							name = "Impl"
						}
						if name == holdName && (name == "SWrite" || stepReq(st) == holdReq) {
							holdActive = true
							continue
						}
						f = append(f, st)
					}
					prefTag = 0
					if holdActive && holdReq-1 < len(m.tag) && holdReq >= 1 {
						prefTag = m.tag[holdReq-1]
					}
					successor := false // a later request under the delayed request's tag has been received
					if holdEarly && holdActive && holdReq >= 1 && holdReq-1 < len(m.tag) {
						for r := holdReq; r < len(m.tag); r++ {
							if m.tag[r] == m.tag[holdReq-1] && m.kind[r] != "Flush" {
								successor = true
							}
						}
					}
					if holdActive && ((len(f) == 0 && next == nil) || successor) {
						holdReleased = true // nothing else can happen (or its successor is queued): the delayed goroutine goes on
					} else {
						en = f
					}
				}
				if next == nil && len(en) == 0 {
					break
				}
				var st []any
				if next != nil && (len(en) == 0 || rng.Intn(100) < rc.SendP) {
					st = next
				} else if len(en) > 0 {
					st = en[rng.Intn(len(en))]
				} else {
					st = next
				}
				switch st[0] {
				case "WFlush3Op":
					if st[2] == true {
						st = []any{"WFlush3Op", st[1], k.targetInImpl(toInt(st[1]))}
					}
					if !cfg.HasFlushOp {
						st = []any{"WFlush3Cancel", st[1]}
					}
				case "ImplRespond":
					if k.aborted[toInt(st[1])] {
						st = []any{"ImplAbort", st[1]}
					} else if rc.LateP > 0 && rng.Intn(100) < rc.LateP {
						st = []any{"ImplReturn", st[1]}
					}
				}
				before := k.nwire
				if err := k.Do(st); err != nil {
					k.Drift = err.Error()
					break
				}
				done = append(done, st)
				if st[0] == "Recv" {
					m.add(st[1].(string), toInt(st[2]), toInt(st[5]), toInt(st[3]), toInt(st[4]))
					sent++
				}
				if k.nwire > before {
					// the reply just read: update the client's view of its tags
					evs := k.C.Events
					for j := len(evs) - 1; j >= 0; j-- {
						if evs[j]["ev"] == "R" {
							if tg, ok := evs[j]["tag"].(int); ok {
								full, _ := evs[j]["full"].(bool)
								m.onReply(tg, evs[j]["type"] != "Rerror", full)
							}
							break
						}
					}
				}
				if rc.Extra && rng.Intn(100) < 10 {
					// an extra answer to some request already answered whose reply has not been read yet
					for r := range k.answered {
						if !k.extraDone[r] && !k.written[r] && k.kinds[r] != "Flush" && !k.writingReq(r) {
							ex := []any{"ImplExtra", r}
							if k.Do(ex) == nil {
								done = append(done, ex)
							}
							break
						}
					}
				}
				out := 0
				for r := range m.tag {
					if !m.answered[r] && !m.flushedAway(r) {
						out++
					}
				}
				if out > maxOut {
					maxOut = out
				}
			}
			if rc.Probe && !k.Closed && k.Drift == "" {
				k.Complete(4000)
				k.C.Wait()
				k.C.Emit(Event{"ev": "quiet", "parked": k.C.ParkedKeys()})
				k.probeFids()
			}
		})
		rep.Cases++
		if k == nil {
			rep.Inconclusive = append(rep.Inconclusive, "case did not start: "+left)
			continue
		}
		steps += len(k.Trace)
		out.End(id, k, left, done)
		if k.Drift != "" {
			rep.Stats["drift_cases"] = toInt(rep.Stats["drift_cases"]) + 1
			if len(rep.Samples) < 4 {
				rep.Samples = append(rep.Samples, map[string]any{"case": id, "drift": k.Drift})
			}
		}
		if ci < 2 {
			rep.Samples = append(rep.Samples, map[string]any{"case": id, "steps": done})
		}
	}
	out.Close()
	rep.Distinct = rep.Cases
	rep.Stats["steps"] = steps
	rep.Stats["max_outstanding"] = maxOut
	if err := rep.Write(); err != nil {
		t.Fatal(err)
	}
}

// versionBusy: the receive goroutine is processing a Tversion (synchronously): nothing else is received meanwhile.
func (k *Case) versionBusy() bool {
	for r, kd := range k.kinds {
		if kd != "Version" || r > len(k.ch.Reqs) {
			continue
		}
		for _, p := range k.C.Parked() {
			if p.Conn == k.ch.Idx && p.Req == r && p.Point != "send_got" {
				return true
			}
		}
		// also while a Respond activation of another request runs on that goroutine (the flush loop)
	}
	return false
}

func (k *Case) writingReq(r int) bool {
	// the request whose reply the sender currently holds (parked at send_got or writing)
	for _, p := range k.C.Parked() {
		if p.Point == "send_got" && p.Req == r {
			return true
		}
	}
	return k.ch.Writing
}

// prefTag: in hold mode, the tag of the delayed request; once the client may use it again it often does
var prefTag int

func randomRequest(rng *rand.Rand, m *clientModel, cfg Cfg, rc RandCfg) []any {
	for try := 0; try < 20; try++ {
		kind := rc.Kinds[rng.Intn(len(rc.Kinds))]
		tag := 1 + rng.Intn(cfg.NT)
		if prefTag > 0 && prefTag <= cfg.NT && try < 3 && rng.Intn(2) == 0 {
			tag = prefTag
		}
		if kind == "Version" {
			return []any{"Recv", "Version", cfg.NoTag, 0, 0, 0}
		}
		if tag == cfg.NoTag {
			continue
		}
		if kind == "Flush" {
			if m.tagBusy(tag) {
				continue
			}
			var busy []int
			for t := 1; t <= cfg.NT; t++ {
				if t != tag && t != cfg.NoTag && m.tagBusy(t) {
					busy = append(busy, t)
				}
			}
			if len(busy) == 0 {
				continue
			}
			return []any{"Recv", "Flush", tag, 0, 0, busy[rng.Intn(len(busy))]}
		}
		if m.tagBusy(tag) {
			if !rc.Shared {
				continue
			}
			ok := true
			for r := range m.tag {
				if m.tag[r] == tag && m.kind[r] == "Flush" && !m.answered[r] {
					ok = false
				}
				if m.kind[r] == "Flush" && m.oldtag[r] == tag && !m.answered[r] {
					ok = false
				}
			}
			if !ok {
				continue
			}
		}
		var valid, free []int
		for f := 1; f <= cfg.NF; f++ {
			switch m.fst[f] {
			case "valid":
				valid = append(valid, f)
			case "":
				free = append(free, f)
			}
		}
		pick := func(s []int) int { return s[rng.Intn(len(s))] }
		fid, newfid := 0, 0
		switch kind {
		case "Attach":
			if len(free) == 0 {
				continue
			}
			fid = pick(free)
		case "Stat":
			if len(valid) == 0 {
				continue
			}
			fid = pick(valid)
		case "Clunk":
			var idle []int
			for _, f := range valid {
				if m.busy[f] == 0 || rc.Insane {
					idle = append(idle, f)
				}
			}
			if len(idle) == 0 {
				continue
			}
			fid = pick(idle)
		case "Walk":
			if len(valid) == 0 {
				continue
			}
			fid = pick(valid)
			if len(free) > 0 && rng.Intn(3) > 0 {
				newfid = pick(free)
			} else if m.busy[fid] == 0 || rc.Insane {
				newfid = fid
			} else {
				continue
			}
		}
		if rc.Insane && rng.Intn(4) == 0 {
			fid = 1 + rng.Intn(cfg.NF)
			if kind == "Walk" {
				newfid = 1 + rng.Intn(cfg.NF)
			}
		}
		return []any{"Recv", kind, tag, fid, newfid, 0}
	}
	return nil
}

// probeFids sends a Tstat for every fid number (free-running) and records whether it is valid.
func (k *Case) probeFids() {
	c := k.C
	k.noTrace = true
	c.Gated = false
	dec := c.Ops.Decide
	c.Ops.Decide = func(op string, r *go9p.SrvReq) Cmd { return Cmd{Out: "ok", Payload: 424242} }
	initial := map[int]bool{}
	for _, f := range k.Cfg.InitFids {
		initial[f] = true
	}
	saved := c.Events
	for f := 1; f <= k.Cfg.NF; f++ {
		b := k.msgFor("Stat", 60000, f, 0, 0)
		c.SendRaw(k.ch, encode(b, k.ch.Dotu), nil)
		k.ch.Writing = true
		m, _, err := c.RecvFrame(k.ch)
		valid := err == nil && m != nil && m.Type != 107
		if !valid {
			// unknown to requests -- but is the number free?  A fid left half-made in the table answers 'unknown fid'
			// to a Tstat and 'fid already in use' to a Tattach
			a := k.msgFor("Attach", 60001, f, 0, 0)
			c.SendRaw(k.ch, encode(a, k.ch.Dotu), nil)
			k.ch.Writing = true
			ra, _, aerr := c.RecvFrame(k.ch)
			switch {
			case aerr == nil && ra != nil && ra.Type == 107 && ra.Ename == "fid already in use":
				valid = true
			case aerr == nil && ra != nil && ra.Type == 105:
				cl := k.msgFor("Clunk", 60002, f, 0, 0)
				c.SendRaw(k.ch, encode(cl, k.ch.Dotu), nil)
				k.ch.Writing = true
				c.RecvFrame(k.ch)
			}
		}
		saved = append(saved, Event{"ev": "probe", "fid": f, "valid": valid, "initial": initial[f]})
	}
	c.Wait()
	c.mu.Lock()
	c.Events = saved
	c.mu.Unlock()
	c.Ops.Decide = dec
	c.Gated = true
	_ = fmt.Sprint
}
