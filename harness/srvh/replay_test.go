package srvh

import (
	"encoding/json"
	"os"
	"testing"

	"github.com/rminnich/go9p"
)

// TestReplay replays TLC-generated behaviours (action sequences of Srv9P) on the real server, runs
// each to completion with seeded random steps, and writes the internal trace (for Srv9PTrace) and
// the external trace (for Mon9P).
func TestReplay(t *testing.T) {
	bpath := os.Getenv("VERIF_BEHAVIOURS")
	if bpath == "" {
		t.Skip("no behaviours")
	}
	var cfg Cfg
	if err := json.Unmarshal([]byte(os.Getenv("VERIF_CFG")), &cfg); err != nil {
		t.Fatal(err)
	}
	bs, err := ReadBehaviours(bpath)
	if err != nil {
		t.Fatal(err)
	}
	seed := int64(envInt("VERIF_SEED", 1))
	out := OpenOut()
	lg := go9p.NewLogger(8)
	rep := &Report{Engine: "srv-replay", Stats: map[string]any{}}
	drift := 0
	steps := 0
	for _, b := range bs {
		if out.Skip(b.ID) {
			continue
		}
		out.Begin(b.ID)
		executed := 0
		k, left := RunCase(t, lg, cfg, seed+int64(b.ID), func(k *Case) {
			for _, st := range b.Steps {
				if err := k.Do(st); err != nil {
					k.Drift = err.Error()
					break
				}
				executed++
			}
		})
		rep.Cases++
		if k == nil {
			rep.Inconclusive = append(rep.Inconclusive, "case did not start: "+left)
			continue
		}
		steps += len(k.Trace)
		out.End(b.ID, k, left, nil)
		if k.Drift != "" {
			drift++
			if len(rep.Samples) < 3 {
				rep.Samples = append(rep.Samples, map[string]any{"case": b.ID, "drift": k.Drift, "executed": executed})
			}
		}
		if rep.Cases <= 2 {
			rep.Samples = append(rep.Samples, map[string]any{"case": b.ID, "steps": b.Steps})
		}
	}
	out.Close()
	rep.Distinct = len(bs)
	rep.Stats["steps"] = steps
	rep.Stats["drift_cases"] = drift
	if err := rep.Write(); err != nil {
		t.Fatal(err)
	}
}
