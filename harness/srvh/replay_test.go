package srvh

import (
	"encoding/json"
	"os"
	"testing"

	"github.com/rminnich/go9p"
)

func envInt(name string, def int) int {
	if s := os.Getenv(name); s != "" {
		var v int
		if _, err := json.Number(s).Int64(); err == nil {
			n, _ := json.Number(s).Int64()
			v = int(n)
			return v
		}
	}
	return def
}

// TestReplay replays TLC-generated behaviours (action sequences of Srv9P) on the real server, runs
// each to completion with seeded random steps, and writes the internal trace (for Srv9PTrace) and
// the external trace (for Mon9P).
func TestReplay(t *testing.T) {
	bpath := os.Getenv("VERIF_BEHAVIOURS")
	if bpath == "" {
		t.Skip("no behaviours")
	}
	var cfg Cfg
	if err := json.Unmarshal([]byte(os.Getenv("VERIF_CFG")), &cfg); err != nil {
		t.Fatal(err)
	}
	bs, err := ReadBehaviours(bpath)
	if err != nil {
		t.Fatal(err)
	}
	seed := int64(envInt("VERIF_SEED", 1))
	tw, err := NewNDWriter(os.Getenv("VERIF_TRACE_OUT"))
	if err != nil {
		t.Fatal(err)
	}
	ew, err := NewNDWriter(os.Getenv("VERIF_EXT_OUT"))
	if err != nil {
		t.Fatal(err)
	}
	lg := go9p.NewLogger(8)
	rep := &Report{Engine: "srv-replay", Stats: map[string]any{}}
	drift := 0
	steps := 0
	for _, b := range bs {
		executed := 0
		k, left := RunCase(t, lg, cfg, seed+int64(b.ID), func(k *Case) {
			for _, st := range b.Steps {
				if err := k.Do(st); err != nil {
					k.Drift = err.Error()
					break
				}
				executed++
			}
		})
		rep.Cases++
		if k == nil {
			rep.Inconclusive = append(rep.Inconclusive, "case did not start: "+left)
			continue
		}
		steps += len(k.Trace)
		tw.Put(Event{"act": "Reset", "case": b.ID, "args": []any{}})
		for _, e := range k.Trace {
			tw.Put(e)
		}
		ew.Put(Event{"ev": "reset", "case": b.ID})
		for _, e := range k.C.Events {
			ew.Put(e)
		}
		if left != "" {
			ew.Put(Event{"ev": "leftover", "what": left})
		}
		if k.Drift != "" {
			drift++
			ew.Put(Event{"ev": "note", "what": "drift: " + k.Drift})
			if len(rep.Samples) < 3 {
				rep.Samples = append(rep.Samples, map[string]any{"case": b.ID, "drift": k.Drift, "executed": executed})
			}
		}
		if rep.Cases <= 2 {
			rep.Samples = append(rep.Samples, map[string]any{"case": b.ID, "steps": b.Steps})
		}
	}
	tw.Close()
	ew.Close()
	rep.Distinct = len(bs)
	rep.Stats["steps"] = steps
	rep.Stats["drift_cases"] = drift
	if err := rep.Write(); err != nil {
		t.Fatal(err)
	}
}
