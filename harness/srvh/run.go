package srvh

import (
	"bufio"
	"encoding/json"
	"fmt"
	"math/rand"
	"os"
	"strings"
	"testing"
	"testing/synctest"

	"verif/harness/wire"

	"github.com/rminnich/go9p"
)

// Cfg mirrors the constants of the Srv9P configuration a behaviour was generated from.
type Cfg struct {
	NT         int   `json:"NT"`
	NF         int   `json:"NF"`
	HasFlushOp bool  `json:"HasFlushOp"`
	InitFids   []int `json:"InitFids"`
	Maxpend    int   `json:"Maxpend"`
	Dotu       bool  `json:"Dotu"`
	Handshake  bool  `json:"Handshake"`
	Bystander  bool  `json:"Bystander"`  // a second connection with one attached fid
	FixClose   bool  `json:"FixClose"`   // the tree has the close(conn.done) repair: Respond never blocks after close
	ProcessOps bool  `json:"ProcessOps"` // the implementation overrides SrvReqProcess / SrvReqRespond (delegating)
	NoTag      int   `json:"NoTag"`      // the spec tag that stands for NOTAG (Tversion), 0 if unused
}

type Behaviour struct {
	ID    int     `json:"id"`
	Steps [][]any `json:"steps"`
}

type loopJob struct {
	req *go9p.SrvReq
	cmd Cmd
}

// StartLoop starts the implementation's single answering goroutine (event-loop mode).
func (k *Case) StartLoop() {
	k.loop = make(chan loopJob)
	k.loopCmd = map[int]Cmd{}
	go func() {
		for j := range k.loop {
			k.C.Answer(j.req, j.cmd)
			k.C.mu.Lock()
			k.loopBusy = false
			k.C.mu.Unlock()
		}
	}()
}

func (k *Case) loopIdle() bool {
	k.C.mu.Lock()
	defer k.C.mu.Unlock()
	return !k.loopBusy
}

// Case is one controlled execution.
type Case struct {
	cbHold       bool         // held runs: FidDestroy callbacks stay parked
	flushSawWork map[int]bool // flush request -> its target was being worked on when flush() read its status
	C            *Ctl
	Cfg          Cfg
	ch           *ConnH
	by           *ConnH  // bystander connection (nil if none)
	Steps        [][]any // steps performed (for the replay file)
	byTag        int
	closeEntered bool
	CloseBy      string       // how the connection ends: "" (client closes), "oversize", "badframe"
	loop         chan loopJob // event-loop mode: one goroutine of the implementation delivers every late answer
	loopBusy     bool
	loopQ        []int // requests whose answer is decided and waits for the event loop, in order
	loopCmd      map[int]Cmd
	nwire        int
	Trace        []Event // internal trace lines (act, args, post)
	rng          *rand.Rand
	Drift        string
	late         map[int]bool // requests whose implementation call returned without answering
	answered     map[int]bool
	extraDone    map[int]bool
	kinds        map[int]string
	Closed       bool
	written      map[int]bool // requests whose reply the send goroutine has started to write
	enq, atSend  map[int]bool
	aborted      map[int]bool // requests the implementation cancelled through FlushOp
	noTrace      bool         // stop logging internal trace lines (after out-of-model probe traffic)
}

func toInt(v any) int {
	switch x := v.(type) {
	case float64:
		return int(x)
	case int:
		return x
	case json.Number:
		n, _ := x.Int64()
		return int(n)
	}
	return 0
}

func (k *Case) post() Event {
	a := k.C.Abstract(k.ch, k.nwire)
	n := 0
	for id := range a.Rq {
		if id > n {
			n = id
		}
	}
	rq := make([][]any, n)
	for i := 1; i <= n; i++ {
		r := a.Rq[i]
		rq[i-1] = []any{r.Flush, r.Work, r.Resp, r.Saved, r.Next, r.Prev, r.Flushreq}
	}
	reqs := make([]int, k.Cfg.NT)
	for t := 1; t <= k.Cfg.NT; t++ {
		reqs[t-1] = a.Reqs[t]
		if t == k.Cfg.NoTag {
			reqs[t-1] = a.Reqs[int(wire.NOTAG)]
		}
	}
	fr := make([]int, k.Cfg.NF)
	for f := 1; f <= k.Cfg.NF; f++ {
		fr[f-1] = a.Fidref[f]
	}
	pk := a.Parked
	if pk == nil {
		pk = []string{}
	}
	return Event{"parked": pk, "wire": k.nwire, "rq": rq, "reqs": reqs, "fidref": fr}
}

func (k *Case) logStep(act string, args ...any) {
	if k.noTrace {
		return
	}
	if args == nil {
		args = []any{}
	}
	k.Trace = append(k.Trace, Event{"act": act, "args": args, "post": k.post()})
}

func (k *Case) msgFor(kind string, tag, fid, newfid, oldtag int) *wire.Msg {
	m := &wire.Msg{Tag: uint16(tag), Fid: uint32(fid)}
	wtag := func(t int) uint16 {
		if k.Cfg.NoTag != 0 && t == k.Cfg.NoTag {
			return wire.NOTAG // the model tag that stands for 0xFFFF, also on requests other than Tversion
		}
		return uint16(t)
	}
	m.Tag = wtag(tag)
	switch kind {
	case "Attach":
		m.Type = wire.Tattach
		m.Afid = wire.NOFID
		m.Uname = "u"
	case "Stat":
		m.Type = wire.Tstat
	case "Clunk":
		m.Type = wire.Tclunk
	case "Walk":
		m.Type = wire.Twalk
		m.Newfid = uint32(newfid)
		m.Wname = []string{"a", "b"}
	case "Flush":
		m.Type = wire.Tflush
		m.Oldtag = wtag(oldtag)
	case "Version": // a Tversion in mid-session: same msize and dialect again
		m.Type = wire.Tversion
		m.Tag = wire.NOTAG
		m.Fid = 0
		m.Msize = 8192
		m.Version = "9P2000.u"
	default:
		panic("kind " + kind)
	}
	return m
}

func (k *Case) implCmd(out string) Cmd {
	return Cmd{Out: out, QType: go9p.QTDIR, N: 1, Payload: k.C.NextPayload()}
}

// Do executes one Srv9P action on the real server. It returns an error if the action cannot be
// performed in the current implementation state (drift).
func (k *Case) Do(step []any) error {
	act := step[0].(string)
	a := func(i int) int { return toInt(step[i]) }
	c := k.C
	var err error
	switch act {
	case "Recv":
		kind := step[1].(string)
		c.Send(k.ch, k.msgFor(kind, a(2), a(3), a(4), a(5)), nil)
		k.kinds[len(k.ch.Reqs)] = kind
		k.logStep(act, kind, a(2), a(3), a(4), a(5))
		return nil
	case "WStart":
		err = c.Grant("proc_start", a(1))
	case "WRet":
		return nil // silent: the goroutine has already returned
	case "WDispatch":
		err = c.Grant("proc_dispatch", a(1))
	case "WFlush2":
		// what flush() is about to read: is its target being worked on (or held by the implementation)?
		k.flushSawWork[a(1)] = false
		if fr := a(1); fr >= 1 && fr <= len(k.ch.Reqs) {
			old := k.ch.Reqs[fr-1].Tc.Oldtag
			for n := fr - 1; n >= 1; n-- {
				if q := k.ch.Reqs[n-1]; q.Tc.Tag == old && q.Tc.Type != go9p.Tflush {
					ri := go9p.VerifReqSnapshot(q)
					k.flushSawWork[fr] = (ri.Work || ri.Saved) && !ri.Responded
					break
				}
			}
		}
		err = c.Grant("flush_status", a(1))
	case "WFlush3Cancel":
		err = c.Grant("flush_act", a(1))
		if err == nil {
			k.logStep("WFlush3", a(1), false)
		}
		return err
	case "WFlush3Op":
		cancel, _ := step[2].(bool)
		return k.flush3(a(1), cancel)
	case "ImplRespond":
		out := step[2].(string)
		err = c.GrantCmd("impl", a(1), 0, k.implCmd(out))
		if err == nil {
			k.answered[a(1)] = true
			k.logStep(act, a(1), out)
		}
		return err
	case "ImplReturn":
		err = c.GrantCmd("impl", a(1), 0, Cmd{Out: "return"})
		if err == nil {
			k.late[a(1)] = true
			if k.loop != nil {
				cmd := k.implCmd("ok")
				k.loopCmd[a(1)] = cmd
				k.loopQ = append(k.loopQ, a(1))
				// the implementation has its answer; only its event loop has to deliver it
				c.Emit(Event{"ev": "answer", "n": a(1), "out": "ok", "payload": cmd.Payload})
			}
		}
	case "ImplAbort":
		err = c.GrantCmd("impl", a(1), 0, Cmd{Out: "return"})
	case "ImplLate":
		out := step[2].(string)
		r := a(1)
		if !k.late[r] || k.answered[r] || r > len(k.ch.Reqs) {
			return fmt.Errorf("ImplLate(%d): request was not left unanswered by the implementation", r)
		}
		req := k.ch.Reqs[r-1]
		cmd := k.implCmd(out)
		if k.loop != nil {
			if !k.loopIdle() || len(k.loopQ) == 0 || k.loopQ[0] != r {
				return fmt.Errorf("ImplLate(%d): the implementation's event loop is busy or has another answer first", r)
			}
			cmd = k.loopCmd[r]
			k.loopQ = k.loopQ[1:]
			c.mu.Lock()
			k.loopBusy = true
			c.mu.Unlock()
			k.loop <- loopJob{req, cmd}
		} else {
			go c.Answer(req, cmd)
		}
		c.Wait()
		k.answered[r] = true
		delete(k.late, r)
		k.logStep(act, r, out)
		return nil
	case "ImplExtra":
		r := a(1)
		if !k.answered[r] || r > len(k.ch.Reqs) {
			return fmt.Errorf("ImplExtra(%d): not answered yet", r)
		}
		req := k.ch.Reqs[r-1]
		go c.Answer(req, Cmd{Out: "err", Payload: c.NextPayload()})
		c.Wait()
		k.extraDone[r] = true
	case "WEnd":
		err = c.Grant("proc_end", a(1))
	case "RUnlink":
		err = c.Grant("resp_unlink", a(2))
		if err == nil {
			k.logStep(act, a(2))
		}
		return err
	case "RPost":
		err = c.Grant("resp_post", a(2))
		if err == nil {
			k.logStep(act, a(2))
		}
		return err
	case "REnq":
		fl := k.flushedAtRespond(a(2))
		err = c.Grant("resp_enq", a(2))
		if err == nil {
			if !fl {
				k.enq[a(2)] = true
				k.queued()
			}
			k.logStep(act, a(2))
		}
		return err
	case "RNext":
		err = c.Grant("resp_next", a(2))
		if err == nil {
			k.logStep(act, a(2))
		}
		return err
	case "SWrite", "SWriteClosed":
		var p *Parked
		for _, q := range c.Parked() {
			if q.Point == "send_got" && q.Conn == k.ch.Idx {
				p = q
			}
		}
		if p == nil {
			return fmt.Errorf("%s: sender not at send_got (parked %v)", act, c.ParkedKeys())
		}
		err = c.Grant("send_got", p.Req)
		if err == nil {
			k.written[p.Req] = true
			k.logStep("SWrite")
		}
		return err
	case "CRecv":
		if !k.ch.Writing {
			return fmt.Errorf("CRecv: sender is not writing")
		}
		_, _, rerr := c.RecvFrame(k.ch)
		if rerr != nil {
			c.Emit(Event{"ev": "badframe", "err": rerr.Error()})
		}
		k.nwire++
	case "ClientClose":
		markProgress("closed")
		switch k.CloseBy {
		case "oversize": // the server drops the connection itself: a header announcing more than msize
			c.SendRaw(k.ch, []byte{0xff, 0xff, 0xff, 0x7f, wire.Tstat}, nil)
			c.Emit(Event{"ev": "cclose", "c": k.ch.Idx, "by": "oversize"})
			k.ch.Closed = true
			k.ch.Writing = false
		case "badframe": // a frame that does not parse
			c.SendRaw(k.ch, []byte{7, 0, 0, 0, wire.Tstat, 1, 0}, nil)
			c.Emit(Event{"ev": "cclose", "c": k.ch.Idx, "by": "badframe"})
			k.ch.Closed = true
			k.ch.Writing = false
		default:
			c.Close(k.ch)
		}
		k.Closed = true
	case "CloseEnter":
		err = c.GrantCmd("close_enter", 0, k.ch.Idx, Cmd{})
		k.closeEntered = err == nil
	case "CloseDestroy":
		err = c.GrantCmd("close_destroy", 0, k.ch.Idx, Cmd{})
	case "CbReturn": // a FidDestroy / ConnClosed callback returns (not a Srv9P action of its own)
		for _, p := range c.Parked() {
			if p.Point == step[1].(string) && p.Conn == k.ch.Idx {
				return c.GrantP(p, Cmd{})
			}
		}
		return fmt.Errorf("no callback parked")
	default:
		return fmt.Errorf("unknown action %s", act)
	}
	if err != nil {
		return err
	}
	var args []any
	for _, x := range step[1:] {
		switch v := x.(type) {
		case float64:
			args = append(args, int(v))
		default:
			args = append(args, v)
		}
	}
	k.logStep(act, args...)
	return nil
}

func (k *Case) flush3(r int, cancel bool) error {
	c := k.C
	if err := c.Grant("flush_act", r); err != nil {
		return err
	}
	for _, p := range c.Parked() {
		if p.Point == "flushop" && p.Conn == k.ch.Idx {
			out := "ignore"
			if cancel {
				out = "cancel"
			}
			if err := c.GrantCmd("flushop", p.Req, 0, Cmd{Out: out}); err != nil {
				return err
			}
			if cancel {
				k.aborted[p.Req] = true
			}
			k.logStep("WFlush3", r, cancel)
			return nil
		}
	}
	if k.Cfg.HasFlushOp && k.flushSawWork[r] {
		// the implementation was working on the target when flush() looked, it has a FlushOp, and was not told
		c.Emit(Event{"ev": "flushop-missing", "n": r})
	}
	if cancel {
		return fmt.Errorf("WFlush3Op(%d, cancel): FlushOp was not invoked", r)
	}
	k.logStep("WFlush3", r, false)
	return nil
}

// enabledSteps lists the controller steps that are spec actions enabled now (used for random
// scheduling and for running a behaviour to completion).
func (k *Case) enabledSteps() [][]any {
	c := k.C
	var out [][]any
	senderBusy := k.ch.Writing
	for _, p := range c.Parked() {
		if p.Point == "send_got" && p.Conn == k.ch.Idx {
			senderBusy = true
		}
	}
	for _, p := range c.Parked() {
		if p.Conn != k.ch.Idx {
			continue
		}
		switch p.Point {
		case "proc_start":
			out = append(out, []any{"WStart", p.Req})
		case "proc_dispatch":
			out = append(out, []any{"WDispatch", p.Req})
		case "proc_end":
			out = append(out, []any{"WEnd", p.Req})
		case "flush_status":
			out = append(out, []any{"WFlush2", p.Req})
		case "flush_act":
			out = append(out, []any{"WFlush3Op", p.Req, false})
			if k.Cfg.HasFlushOp {
				out = append(out, []any{"WFlush3Op", p.Req, true})
			}
		case "impl":
			if k.aborted[p.Req] {
				out = append(out, []any{"ImplAbort", p.Req})
				continue
			}
			out = append(out, []any{"ImplRespond", p.Req, "ok"}, []any{"ImplRespond", p.Req, "err"})
			if k.kinds[p.Req] == "Walk" {
				out = append(out, []any{"ImplRespond", p.Req, "partial"})
			}
		case "resp_unlink":
			out = append(out, []any{"RUnlink", 0, p.Req})
		case "resp_post":
			out = append(out, []any{"RPost", 0, p.Req})
		case "resp_enq":
			if !senderBusy || k.queued() < k.Cfg.Maxpend || (k.Cfg.FixClose && k.closeEntered) {
				out = append(out, []any{"REnq", 0, p.Req})
			}
		case "resp_next":
			out = append(out, []any{"RNext", 0, p.Req})
		case "send_got":
			out = append(out, []any{"SWrite"})
		case "close_enter":
			if !senderBusy || k.Cfg.FixClose {
				out = append(out, []any{"CloseEnter"})
			}
		case "close_destroy":
			out = append(out, []any{"CloseDestroy"})
		case "cb_destroy", "cb_closed":
			out = append(out, []any{"CbReturn", p.Point, p.Req})
		}
	}
	if k.ch.Writing && !k.Closed {
		out = append(out, []any{"CRecv"})
	}
	if k.loop != nil {
		if k.loopIdle() && len(k.loopQ) > 0 {
			out = append(out, []any{"ImplLate", k.loopQ[0], "ok"})
		}
	} else {
		for r := range k.late {
			if !k.answered[r] {
				out = append(out, []any{"ImplLate", r, "ok"})
			}
		}
	}
	return out
}

// queued estimates how many replies sit in conn.reqout: requests released at resp_enq (and not
// flagged flushed) that the send goroutine has not picked up yet.
func (k *Case) queued() int {
	n := 0
	for r := range k.enq {
		if !k.atSend[r] {
			n++
		}
	}
	for _, p := range k.C.Parked() {
		if p.Point == "send_got" && p.Conn == k.ch.Idx && k.enq[p.Req] && !k.atSend[p.Req] {
			k.atSend[p.Req] = true
			n--
		}
	}
	return n
}

// flushedAtRespond: a request answered while flagged flushed is not queued for sending, so its
// resp_enq step does not need the sender.
func (k *Case) flushedAtRespond(r int) bool {
	if r < 1 || r > len(k.ch.Reqs) {
		return false
	}
	return go9p.VerifReqSnapshot(k.ch.Reqs[r-1]).Flush
}

// Complete runs random enabled steps until none is left (bounded), so that every execution ends
// quiescent and its external trace can be judged at quiescence.
func (k *Case) Complete(max int) {
	for i := 0; i < max; i++ {
		k.C.Wait()
		en := k.enabledSteps()
		if len(en) == 0 {
			return
		}
		// WFlush3Op(cancel) only if the target is parked in the implementation
		st := en[k.rng.Intn(len(en))]
		if st[0] == "WFlush3Op" && len(st) > 2 && st[2] == true {
			st = []any{"WFlush3Op", st[1], k.targetInImpl(toInt(st[1]))}
		}
		if st[0] == "WFlush3Op" && !k.Cfg.HasFlushOp {
			// without FlushOp the step is the same whether or not the target is cancellable
			st = []any{"WFlush3Cancel", st[1]}
		}
		if err := k.Do(st); err != nil {
			k.C.Emit(Event{"ev": "note", "what": "completion step failed: " + err.Error()})
			return
		}
	}
}

func (k *Case) targetInImpl(flushReq int) bool {
	// the flush target is the request at the head of the flush chain that contains flushReq
	for _, p := range k.C.Parked() {
		if p.Point != "impl" || p.Conn != k.ch.Idx {
			continue
		}
		ri := go9p.VerifReqSnapshot(p.req)
		for f := ri.Flushreq; f != nil; {
			if k.C.reqid[f] == flushReq {
				return true
			}
			f = go9p.VerifReqSnapshot(f).Flushreq
		}
	}
	return false
}

// setup: optional version handshake and attaches for the initially valid fids, free-running.
func (k *Case) setup() {
	if k.by != nil {
		k.setupConn(k.by, []int{1})
	}
	k.setupConn(k.ch, k.Cfg.InitFids)
	for _, f := range k.Cfg.InitFids {
		k.C.Emit(Event{"ev": "initfid", "fid": f}) // already shown to the implementation and valid
	}
}

func (k *Case) setupConn(ch *ConnH, fids []int) {
	c := k.C
	c.Gated = false
	dec := c.Ops.Decide
	c.Ops.Decide = func(op string, r *go9p.SrvReq) Cmd { return Cmd{Out: "ok", QType: go9p.QTDIR, Payload: 1} }
	rd := func() {
		ch.Writing = true
		_, _, _ = c.RecvFrame(ch)
	}
	if k.Cfg.Handshake {
		ver := "9P2000"
		if k.Cfg.Dotu {
			ver = "9P2000.u"
		}
		c.Send(ch, &wire.Msg{Type: wire.Tversion, Tag: wire.NOTAG, Msize: 8192, Version: ver}, nil)
		rd()
	}
	for _, f := range fids {
		c.Send(ch, &wire.Msg{Type: wire.Tattach, Tag: 1, Fid: uint32(f), Afid: wire.NOFID, Uname: "u"}, nil)
		rd()
	}
	c.Wait()
	c.Ops.Decide = dec
	c.Gated = true
	c.mu.Lock()
	c.reqid = map[*go9p.SrvReq]int{}
	for _, h := range c.Conns {
		h.Reqs = nil
	}
	c.Events = nil
	c.mu.Unlock()
	ch.Writing = false
}

// Bystander issues one Tstat on the second connection and drives ONLY that connection's goroutines
// until the reply arrives.  If the reply cannot be obtained without releasing a goroutine that
// serves the first connection, the bystander was disturbed.
func (k *Case) Bystander() {
	c := k.C
	if k.by == nil || k.by.Closed {
		return
	}
	k.byTag++
	tag := 100 + k.byTag%100
	m := &wire.Msg{Type: wire.Tstat, Tag: uint16(tag), Fid: 1}
	c.SendRaw(k.by, wire.Encode(m, k.by.Dotu), nil)
	ok, what := false, "no reply"
	next := func() *Parked {
		for _, q := range c.Parked() {
			if q.Conn == k.by.Idx {
				return q
			}
		}
		return nil
	}
	for i := 0; i < 60 && !ok; i++ {
		c.Wait()
		if k.by.Writing {
			r, _, err := c.RecvFrame(k.by)
			if err != nil || r == nil {
				what = "undecodable reply"
				break
			}
			if r.Type == wire.Rstat && int(r.Tag) == tag && r.Stat.Length == 555 {
				ok, what = true, ""
			} else {
				what = fmt.Sprintf("unexpected reply %s tag %d", wire.TypeName(r.Type), r.Tag)
			}
			break
		}
		p := next()
		if p == nil {
			what = "bystander request makes no progress while the other connection's goroutines are paused"
			break
		}
		cmd := Cmd{}
		if p.Point == "impl" {
			cmd = Cmd{Out: "ok", Payload: 555}
		}
		if err := c.GrantP(p, cmd); err != nil {
			what = err.Error()
			break
		}
	}
	for i := 0; i < 20; i++ { // let the bystander's worker and sender finish
		c.Wait()
		p := next()
		if p == nil {
			break
		}
		_ = c.GrantP(p, Cmd{Out: "ok", Payload: 555})
	}
	// bystander traffic is not part of the first connection's history
	c.mu.Lock()
	var keep []Event
	for _, e := range c.Events {
		if ci, has := e["c"]; has && ci == k.by.Idx {
			continue
		}
		if e["ev"] == "answer" && e["payload"] == uint64(555) {
			continue
		}
		keep = append(keep, e)
	}
	c.Events = append(keep, Event{"ev": "bystander", "ok": ok, "what": what})
	c.mu.Unlock()
}

// RunCase executes fn inside a fresh synctest bubble with a fresh server; returns the panic
// message of the bubble (leftover goroutines) if any.
func RunCase(t *testing.T, lg *go9p.Logger, cfg Cfg, seed int64, fn func(k *Case)) (kk *Case, leftover string) {
	StartWatchdog()
	defer func() {
		if r := recover(); r != nil {
			leftover = fmt.Sprint(r)
		}
	}()
	synctest.Test(t, func(t *testing.T) {
		c := NewCtl()
		c.Ops = &Ops{C: c}
		srv := &go9p.Srv{Log: lg, Dotu: cfg.Dotu, Maxpend: cfg.Maxpend, Msize: 8192}
		var ops any = c.Ops
		switch {
		case cfg.HasFlushOp && cfg.ProcessOps:
			ops = OpsPF{OpsF{c.Ops}}
		case cfg.HasFlushOp:
			ops = OpsF{c.Ops}
		case cfg.ProcessOps:
			ops = OpsP{c.Ops}
		}
		c.Start(srv, ops)
		defer c.Stop()
		k := &Case{C: c, Cfg: cfg, rng: rand.New(rand.NewSource(seed)), late: map[int]bool{}, answered: map[int]bool{}, flushSawWork: map[int]bool{},
			extraDone: map[int]bool{}, kinds: map[int]string{}, written: map[int]bool{}, enq: map[int]bool{}, atSend: map[int]bool{}, aborted: map[int]bool{}}
		kk = k
		k.ch = c.NewConn()
		k.ch.Dotu = cfg.Dotu
		if cfg.Bystander {
			k.by = c.NewConn()
			k.by.Dotu = cfg.Dotu
		}
		k.setup()
		fn(k)
		// teardown: quiesce, note what is still parked, then disconnect and let everything end
		k.Complete(2000)
		c.Wait()
		c.Emit(Event{"ev": "quiet", "parked": c.ParkedKeys()})
		if !k.Closed {
			_ = k.Do([]any{"ClientClose"})
			k.Complete(2000)
		}
		if k.CloseBy != "" {
			// the server ended the connection; now the client goes away too
			c.CloseQuiet(k.ch)
			k.Complete(2000)
		}
		c.Wait()
		if k.by != nil {
			k.Bystander()
		}
		c.Emit(Event{"ev": "end", "parked": c.ParkedKeys()})
		if k.by != nil && !k.by.Closed {
			c.Close(k.by)
			for i := 0; i < 10; i++ {
				c.Wait()
				var p *Parked
				for _, q := range c.Parked() {
					if q.Conn == k.by.Idx {
						p = q
						break
					}
				}
				if p == nil {
					break
				}
				_ = c.GrantP(p, Cmd{})
			}
		}
		// release anything still parked so that only genuinely stuck goroutines remain
		c.Gated = false
		for _, p := range c.Parked() {
			select {
			case p.ch <- Cmd{Out: "err"}:
			default:
			}
		}
		c.Wait()
	})
	return kk, ""
}

// ---------------------------------------------------------------- report helpers

type Violation struct {
	Key    string `json:"key"`
	What   string `json:"what"`
	Replay any    `json:"replay"`
}

type Report struct {
	Engine       string         `json:"engine"`
	Cases        int            `json:"cases"`
	Distinct     int            `json:"distinct"`
	Samples      []any          `json:"samples"`
	Violations   []Violation    `json:"violations"`
	Inconclusive []string       `json:"inconclusive"`
	Stats        map[string]any `json:"stats"`
}

func (r *Report) Write() error {
	p := os.Getenv("VERIF_OUT")
	if p == "" {
		return nil
	}
	if r.Stats == nil {
		r.Stats = map[string]any{}
	}
	b, err := json.Marshal(r)
	if err != nil {
		return err
	}
	return os.WriteFile(p, b, 0o644)
}

func ReadBehaviours(path string) ([]Behaviour, error) {
	f, err := os.Open(path)
	if err != nil {
		return nil, err
	}
	defer f.Close()
	var out []Behaviour
	sc := bufio.NewScanner(f)
	sc.Buffer(make([]byte, 1<<20), 1<<26)
	for sc.Scan() {
		ln := strings.TrimSpace(sc.Text())
		if ln == "" {
			continue
		}
		var b Behaviour
		if err := json.Unmarshal([]byte(ln), &b); err != nil {
			return nil, err
		}
		out = append(out, b)
	}
	return out, sc.Err()
}

// Out collects what an engine writes per case; each case is flushed as soon as it ends, and the id
// of the case being run is kept in a progress file, so that when the server under test panics (and
// takes the test process with it) the driver can attribute the crash and restart after that case.
type Out struct {
	tw, ew, bw *NDWriter
	Start      int
	prog       string
}

func OpenOut() *Out {
	o := &Out{Start: envInt("VERIF_START", 0), prog: os.Getenv("VERIF_PROGRESS")}
	app := o.Start > 0
	o.tw = newNDWriter(os.Getenv("VERIF_TRACE_OUT"), app)
	o.ew = newNDWriter(os.Getenv("VERIF_EXT_OUT"), app)
	o.bw = newNDWriter(os.Getenv("VERIF_BEH_OUT"), app)
	return o
}

// Skip reports whether the case was already done by an earlier (crashed) run of the engine.
func (o *Out) Skip(id int) bool { return id < o.Start }

func (o *Out) Begin(id int) {
	if o.prog != "" {
		_ = os.WriteFile(o.prog, []byte(fmt.Sprint(id)), 0o644)
	}
	progPath, progID = o.prog, id
}

// progress of the case in execution, for the driver that restarts the engine after a crash of the server under test
var progPath string
var progID int

// markProgress adds a word to the progress file ("closed": the client of the case has disconnected).
func markProgress(word string) {
	if progPath != "" {
		_ = os.WriteFile(progPath, []byte(fmt.Sprintf("%d %s", progID, word)), 0o644)
	}
}

func (o *Out) End(id int, k *Case, left string, steps any) {
	if k != nil {
		o.tw.Put(Event{"act": "Reset", "case": id, "args": []any{}})
		for _, e := range k.Trace {
			o.tw.Put(e)
		}
		o.ew.Put(Event{"ev": "reset", "case": id})
		for _, e := range k.C.Events {
			o.ew.Put(e)
		}
		if left != "" {
			o.ew.Put(Event{"ev": "leftover", "what": left})
		}
		if k.Drift != "" {
			o.ew.Put(Event{"ev": "note", "what": "drift: " + k.Drift})
		}
	}
	if steps != nil {
		o.bw.Put(map[string]any{"id": id, "steps": steps})
	}
	o.tw.Flush()
	o.ew.Flush()
	o.bw.Flush()
}

func (o *Out) Close() { o.tw.Close(); o.ew.Close(); o.bw.Close() }

func newNDWriter(path string, app bool) *NDWriter {
	if path == "" {
		path = os.DevNull
	}
	flags := os.O_CREATE | os.O_WRONLY | os.O_TRUNC
	if app {
		flags = os.O_CREATE | os.O_WRONLY | os.O_APPEND
	}
	f, err := os.OpenFile(path, flags, 0o644)
	if err != nil {
		panic(err)
	}
	return &NDWriter{f: f, w: bufio.NewWriterSize(f, 1<<20)}
}

func (n *NDWriter) Flush() { n.w.Flush() }

func envInt(name string, def int) int {
	if s := os.Getenv(name); s != "" {
		var v int
		if _, err := fmt.Sscan(s, &v); err == nil {
			return v
		}
	}
	return def
}

type NDWriter struct {
	f *os.File
	w *bufio.Writer
}

func NewNDWriter(path string) (*NDWriter, error) {
	if path == "" {
		path = os.DevNull
	}
	f, err := os.Create(path)
	if err != nil {
		return nil, err
	}
	return &NDWriter{f: f, w: bufio.NewWriterSize(f, 1<<20)}, nil
}

func (n *NDWriter) Put(e any) {
	b, _ := json.Marshal(e)
	n.w.Write(b)
	n.w.WriteByte('\n')
}

func (n *NDWriter) Close() { n.w.Flush(); n.f.Close() }
