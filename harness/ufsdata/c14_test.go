package ufsdata

import (
	"encoding/json"
	"errors"
	"fmt"
	"io"
	"math/rand"
	"os"
	"path/filepath"
	"sort"
	"strconv"
	"strings"
	"testing"

	"github.com/rminnich/go9p"
)

// ---------------------------------------------------------------- pattern cache

var patCache = map[int][]byte{}

func patPrefix(w, n int) []byte {
	b := patCache[w]
	if len(b) < n {
		nb := make([]byte, n+n/2+64)
		copy(nb, b)
		for i := len(b); i < len(nb); i++ {
			nb[i] = Pat(w, i)
		}
		patCache[w] = nb
		b = nb
	}
	return b[:n]
}

func expandFast(x []Extent) []byte {
	n := 0
	for _, e := range x {
		n += e.N
	}
	out := make([]byte, 0, n)
	for _, e := range x {
		if e.W == 0 {
			out = append(out, make([]byte, e.N)...)
		} else {
			out = append(out, patPrefix(e.W, e.P+e.N)[e.P:]...)
		}
	}
	return out
}

// ---------------------------------------------------------------- one helper call

// Exp is one expectation computed by TLC (UfsData!CaseRec / UfsDataTrace!EOp).
type Exp struct {
	Case  int      `json:"case"`
	Line  int      `json:"line"`
	Iu    int      `json:"iu"`
	Op    string   `json:"op"`
	F     int      `json:"f"`
	Len   int      `json:"len"`
	Off   int      `json:"off"`
	Cnt   int      `json:"cnt"`
	W     int      `json:"w"`
	H0    int      `json:"h0"`
	N     int      `json:"n"`
	Err   string   `json:"err"`
	H     int      `json:"h"`
	Nmin  int      `json:"nmin"`
	Nmax  int      `json:"nmax"`
	AtEOF bool     `json:"ateof"`
	Data  []Extent `json:"data"`
	File  []Extent `json:"file"`
	Flen  int      `json:"flen"`
	Rdata []Extent `json:"rdata"`
	Rfile []Extent `json:"rfile"`
	Rh    int      `json:"rh"`
}

func isRead(op string) bool {
	return op == "CRead" || op == "Read" || op == "ReadAt" || op == "Readn"
}
func usesHandle(op string) bool { return op == "Read" || op == "Write" }

func isEOF(err error) bool {
	return errors.Is(err, io.EOF) || errors.Is(err, io.ErrUnexpectedEOF)
}

// call performs the helper on the real client. file is the File whose offset the handle helpers
// use; off is the explicit offset of the others. Returns the count, the bytes read, the error.
func call(cl *go9p.Clnt, file *go9p.File, op string, off, cnt, w int) (n int, data []byte, err error) {
	switch op {
	case "CRead":
		var b []byte
		b, err = cl.Read(file.Fid, uint64(off), uint32(cnt))
		return len(b), append([]byte(nil), b...), err
	case "Read", "ReadAt", "Readn":
		buf := make([]byte, cnt)
		for i := range buf {
			buf[i] = 0xA5
		}
		switch op {
		case "Read":
			n, err = file.Read(buf)
		case "ReadAt":
			n, err = file.ReadAt(buf, int64(off))
		default:
			n, err = file.Readn(buf, uint64(off))
		}
		if n < 0 || n > len(buf) {
			return n, nil, err
		}
		return n, buf[:n], err
	case "CWrite":
		n, err = cl.Write(file.Fid, append([]byte(nil), patPrefix(w, cnt)...), uint64(off))
	case "Write":
		n, err = file.Write(append([]byte(nil), patPrefix(w, cnt)...))
	case "WriteAt":
		n, err = file.WriteAt(append([]byte(nil), patPrefix(w, cnt)...), int64(off))
	case "Written":
		n, err = file.Written(append([]byte(nil), patPrefix(w, cnt)...), uint64(off))
	default:
		panic("op " + op)
	}
	return n, nil, err
}

func offRel(off, l int) string {
	switch {
	case off < l:
		return "lt"
	case off == l:
		return "eq"
	}
	return "gt"
}

// caseKey is the stable identity of a failing case: helper, what failed, where the request lies
// relative to the end of the file, and whether it needs more than one message.
func caseKey(e *Exp, iu, flen int, what string) string {
	sit := "inside"
	switch {
	case e.Off > flen:
		sit = "pastEOF"
	case e.Off == flen:
		sit = "atEOF"
	case e.Off+e.Cnt > flen:
		sit = "crossEOF"
	}
	multi := "single"
	if e.Cnt > iu {
		multi = "multi"
	}
	return fmt.Sprintf("c14:%s:%s:%s:%s", e.Op, what, sit, multi)
}

// judge compares one observed call with the expectation. pre = contents before (model, verified
// equal to the twin by the caller), twinRead = the same range read with the os package.
// Returns "" if the observation is as predicted, "drift" if it is within the demand but differs
// from the transcription (the caller must not trust later expectations), "bad" after a violation.
func judge(rep *Report, e *Exp, iu, flen int, cfg string, n int, data []byte, err error, twin []byte, replay any) string {
	if err != nil && !(isRead(e.Op) && isEOF(err) && n < e.Cnt && e.Off+max(n, 0) >= flen) {
		rep.Violate(caseKey(e, iu, flen, "error"), fmt.Sprintf("%s(off=%d,cnt=%d) on a %d-byte file (%s) failed: n=%d err=%v; expected %d bytes",
			e.Op, e.Off, e.Cnt, flen, cfg, n, err, e.N), replay)
		return "bad"
	}
	if n < e.Nmin || n > e.Nmax {
		rep.Violate(caseKey(e, iu, flen, "count"), fmt.Sprintf("%s(off=%d,cnt=%d) on a %d-byte file (%s) returned n=%d err=%v; the specification demands %d..%d (the transcribed helper: %d)",
			e.Op, e.Off, e.Cnt, flen, cfg, n, err, e.Nmin, e.Nmax, e.N), replay)
		return "bad"
	}
	if isRead(e.Op) {
		if len(data) != n {
			rep.Violate(caseKey(e, iu, flen, "count"), fmt.Sprintf("%s(off=%d,cnt=%d) (%s) reported n=%d but delivered %d bytes", e.Op, e.Off, e.Cnt, cfg, n, len(data)), replay)
			return "bad"
		}
		// twin: bytes [off, off+n) of the underlying file
		var tw []byte
		if e.Off < len(twin) {
			tw = twin[e.Off:min(len(twin), e.Off+n)]
		}
		if n == e.N {
			model := expandFast(e.Data)
			if firstDiff(model, tw) >= 0 {
				rep.Inconc(fmt.Sprintf("model/twin disagree on %s(off=%d,cnt=%d) len=%d (%s)", e.Op, e.Off, e.Cnt, flen, cfg))
				return "bad"
			}
		}
		if d := firstDiff(data, tw); d >= 0 {
			rep.Violate(caseKey(e, iu, flen, "bytes"), fmt.Sprintf("%s(off=%d,cnt=%d) on a %d-byte file (%s): byte %d of the %d returned differs from the underlying file",
				e.Op, e.Off, e.Cnt, flen, cfg, d, n), replay)
			return "bad"
		}
	}
	if n != e.N {
		return "drift"
	}
	return ""
}

// probeOffset finds the File offset externally: one marker byte written through the File lands
// at its offset in the underlying file. cur = current contents (known). Returns the offset, or
// -1 if the marker cannot be located unambiguously.
func probeOffset(file *go9p.File, path string, cur []byte) (int, error) {
	marker := byte(0xEE)
	n, err := file.Write([]byte{marker})
	if err != nil || n != 1 {
		return -1, fmt.Errorf("probe write: n=%d err=%v", n, err)
	}
	now, err := os.ReadFile(path)
	if err != nil {
		return -1, err
	}
	pos := -1
	if len(now) > len(cur) {
		// extended: the marker is the last byte
		pos = len(now) - 1
		for i := len(cur); i < pos; i++ {
			if now[i] != 0 {
				return -1, nil
			}
		}
		if now[pos] != marker || firstDiff(now[:len(cur)], cur) >= 0 {
			return -1, nil
		}
		return pos, nil
	}
	if len(now) != len(cur) {
		return -1, nil
	}
	for i := range now {
		if now[i] != cur[i] {
			if pos >= 0 {
				return -1, nil
			}
			pos = i
		}
	}
	if pos < 0 {
		// the marker equals the byte it replaced: cannot tell; the caller treats it as unknown
		return -2, nil
	}
	if now[pos] != marker {
		return -1, nil
	}
	return pos, nil
}

func envInt(name string, def int) int {
	if v, err := strconv.Atoi(os.Getenv(name)); err == nil {
		return v
	}
	return def
}

// ---------------------------------------------------------------- TestC14Cases

// TestC14Cases replays the concrete case tables (UfsData!Cases, one file per msize written by
// TLC to $VERIF_TABLE.<msize>) through the real client against real Ufs, in both dialects.
func TestC14Cases(t *testing.T) {
	rep := NewReport("ufsdata.TestC14Cases")
	defer rep.Write()
	env, err := NewEnv()
	if err != nil {
		rep.Inconc(err.Error())
		return
	}
	defer env.Close()
	seed := int64(envInt("VERIF_SEED", 1))
	rng := rand.New(rand.NewSource(seed))
	pct := envInt("VERIF_SAMPLE_PCT", 100)
	var msizes []int
	for _, s := range strings.Split(os.Getenv("VERIF_MSIZES"), ",") {
		if v, err := strconv.Atoi(strings.TrimSpace(s)); err == nil {
			msizes = append(msizes, v)
		}
	}
	distinct := map[string]bool{}
	for _, msize := range msizes {
		var cases []*Exp
		err := ReadNdjson(fmt.Sprintf("%s.%d", os.Getenv("VERIF_TABLE"), msize), func(b []byte) error {
			e := new(Exp)
			if err := json.Unmarshal(b, e); err != nil {
				return err
			}
			cases = append(cases, e)
			return nil
		})
		if err != nil || len(cases) == 0 {
			rep.Inconc(fmt.Sprintf("case table for msize %d: %v (%d cases)", msize, err, len(cases)))
			continue
		}
		// deterministic order, then a seeded sample
		sort.SliceStable(cases, func(i, j int) bool {
			a, b := cases[i], cases[j]
			if a.Len != b.Len {
				return a.Len < b.Len
			}
			if a.Op != b.Op {
				return a.Op < b.Op
			}
			if a.Off != b.Off {
				return a.Off < b.Off
			}
			return a.Cnt < b.Cnt
		})
		for _, dotu := range []bool{false, true} {
			cfg := fmt.Sprintf("msize=%d dotu=%v", msize, dotu)
			cn, err := env.Dial(uint32(msize), dotu, false)
			if err != nil {
				rep.Inconc(err.Error())
				continue
			}
			runCases(rep, env, cn, cases, msize-24, cfg, rng, pct, distinct)
			cn.Close()
		}
	}
	rep.Distinct = len(distinct)
}

type openFile struct {
	path, twin string
	fid        *go9p.Fid
	dirty      bool
}

func writeBoth(of *openFile, b []byte) error {
	for _, p := range []string{of.path, of.twin} {
		if err := os.WriteFile(p, b, 0o644); err != nil {
			return err
		}
	}
	of.dirty = false
	return nil
}

func runCases(rep *Report, env *Env, cn *Conn, cases []*Exp, iu int, cfg string, rng *rand.Rand, pct int, distinct map[string]bool) {
	dir, err := os.MkdirTemp(env.Root, "cases-")
	if err != nil {
		rep.Inconc(err.Error())
		return
	}
	defer os.RemoveAll(dir)
	rel, _ := filepath.Rel(env.Root, dir)
	files := map[int]*openFile{}
	defer func() {
		for _, of := range files {
			cn.Clnt.Clunk(of.fid)
		}
	}()
	if cn.Clnt.Msize-24 != uint32(iu) {
		rep.Inconc("iounit mismatch " + cfg)
		return
	}
	for _, e := range cases {
		if pct < 100 && rng.Intn(100) >= pct {
			continue
		}
		of := files[e.Len]
		if of == nil {
			of = &openFile{path: filepath.Join(dir, fmt.Sprintf("f%d", e.Len)), twin: filepath.Join(dir, fmt.Sprintf("t%d", e.Len))}
			if err := writeBoth(of, patPrefix(1, e.Len)); err != nil {
				rep.Inconc(err.Error())
				return
			}
			f, err := cn.Clnt.FOpen(rel+"/"+filepath.Base(of.path), go9p.ORDWR)
			if err != nil {
				rep.Inconc(fmt.Sprintf("open %s: %v", cfg, err))
				return
			}
			if f.Fid.Iounit != uint32(iu) {
				rep.Violate("c14:open:iounit", fmt.Sprintf("fid.Iounit=%d after open with %s", f.Fid.Iounit, cfg), nil)
			}
			of.fid = f.Fid
			files[e.Len] = of
		}
		if of.dirty {
			if err := writeBoth(of, patPrefix(1, e.Len)); err != nil {
				rep.Inconc(err.Error())
				return
			}
		}
		pre := patPrefix(1, e.Len)
		replay := map[string]any{"engine": "TestC14Cases", "msize": iu + 24, "dotu": cn.Dotu, "case": e}
		file := go9p.FidFile(of.fid, uint64(e.H0))
		rep.Progress(map[string]any{"engine": rep.Engine, "cfg": cfg, "op": e.Op, "len": e.Len, "off": e.Off, "cnt": e.Cnt, "cls": caseKey(e, iu, e.Len, "x")})
		n, data, cerr := call(cn.Clnt, file, e.Op, e.Off, e.Cnt, 2)
		rep.Cases++
		distinct[fmt.Sprintf("%d/%s/%d/%d/%d", iu, e.Op, e.Len, e.Off, e.Cnt)] = true
		if rep.Cases%997 == 1 {
			rep.Sample(map[string]any{"cfg": cfg, "op": e.Op, "len": e.Len, "off": e.Off, "cnt": e.Cnt, "expected_n": e.N,
				"observed_n": n, "observed_err": fmt.Sprint(cerr), "expected_File_offset": e.H})
		}
		verdict := judge(rep, e, iu, e.Len, cfg, n, data, cerr, pre, replay)
		if verdict == "bad" {
			of.dirty = true
			continue
		}
		// contents afterwards: 9P-written file versus the same write done with the os package
		// versus the model
		cur := pre
		if !isRead(e.Op) {
			of.dirty = true
			if n > 0 {
				tf, err := os.OpenFile(of.twin, os.O_WRONLY, 0)
				if err == nil {
					_, err = tf.WriteAt(patPrefix(2, n), int64(e.Off))
					tf.Close()
				}
				if err != nil {
					rep.Inconc(err.Error())
					return
				}
			}
			got, _ := os.ReadFile(of.path)
			tw, _ := os.ReadFile(of.twin)
			if verdict == "" {
				model := expandFast(e.File)
				if firstDiff(model, tw) >= 0 || firstDiff(model, expandFast(e.Rfile)) >= 0 || len(model) != e.Flen {
					rep.Inconc(fmt.Sprintf("model/twin disagree on the contents after %s(off=%d,cnt=%d) len=%d (%s)", e.Op, e.Off, e.Cnt, e.Len, cfg))
					continue
				}
			}
			if d := firstDiff(got, tw); d >= 0 {
				rep.Violate(caseKey(e, iu, e.Len, "file"), fmt.Sprintf("after %s(off=%d,cnt=%d)=%d on a %d-byte file (%s) the underlying file (%d bytes) differs at byte %d from the same write done with pwrite (%d bytes)",
					e.Op, e.Off, e.Cnt, n, e.Len, cfg, len(got), d, len(tw)), replay)
				continue
			}
			cur = got
		}
		// File offset
		wantH := e.H0
		if usesHandle(e.Op) {
			wantH += n
		}
		if verdict == "" && (wantH != e.H || wantH != e.Rh) {
			rep.Inconc(fmt.Sprintf("model File offset %d/%d but %d by the rule, %s", e.H, e.Rh, wantH, e.Op))
			continue
		}
		gotH, perr := probeOffset(file, of.path, cur)
		if perr != nil {
			rep.Violate(caseKey(e, iu, e.Len, "probe"), fmt.Sprintf("after %s(off=%d,cnt=%d) (%s) a one-byte File.Write failed: %v", e.Op, e.Off, e.Cnt, cfg, perr), replay)
			of.dirty = true
			continue
		}
		if gotH != wantH && gotH != -2 {
			rep.Violate(caseKey(e, iu, e.Len, "offset"), fmt.Sprintf("after %s(off=%d,cnt=%d)=%d with the File offset at %d (%s) the File offset is %d, expected %d",
				e.Op, e.Off, e.Cnt, n, e.H0, cfg, gotH, wantH), replay)
		}
		// undo the marker cheaply after reads
		if !of.dirty {
			if gotH >= 0 && gotH < len(pre) {
				if fh, err := os.OpenFile(of.path, os.O_WRONLY, 0); err == nil {
					fh.WriteAt(pre[gotH:gotH+1], int64(gotH))
					fh.Close()
				}
			} else if gotH >= len(pre) {
				os.Truncate(of.path, int64(len(pre)))
			} else if gotH == -1 {
				of.dirty = true
			}
		}
		if verdict == "drift" {
			rep.Add("drift", 1)
		}
	}
}

// ---------------------------------------------------------------- TestC14Seq

type seqLine struct {
	Act  string `json:"act"`
	Case int    `json:"case"`
	Iu   int    `json:"iu"`
	Dotu bool   `json:"dotu"`
	Lens []int  `json:"lens"`
	Op   string `json:"op"`
	F    int    `json:"f"`
	Off  int    `json:"off"`
	Cnt  int    `json:"cnt"`
	W    int    `json:"w"`
}

type seqFile struct {
	path, twin string
	file       *go9p.File
	cur        []byte // contents per the model (verified against the twin after every write)
	h          int
}

// TestC14Seq executes the seeded random operation sequences of $VERIF_OPS (many files open at
// once) and compares every step with the expectation TLC computed from the specification
// ($VERIF_EXPECT.* written by UfsDataTrace!ExpectSpec) and with the os package.
func TestC14Seq(t *testing.T) {
	rep := NewReport("ufsdata.TestC14Seq")
	defer rep.Write()
	env, err := NewEnv()
	if err != nil {
		rep.Inconc(err.Error())
		return
	}
	defer env.Close()
	// expectations by input line number
	exps := map[int]*Exp{}
	matches, _ := filepath.Glob(os.Getenv("VERIF_EXPECT") + ".*")
	for _, m := range matches {
		err := ReadNdjson(m, func(b []byte) error {
			e := new(Exp)
			if err := json.Unmarshal(b, e); err != nil {
				return err
			}
			exps[e.Line] = e
			return nil
		})
		if err != nil {
			rep.Inconc("expectations: " + err.Error())
			return
		}
	}
	var lines []seqLine
	err = ReadNdjson(os.Getenv("VERIF_OPS"), func(b []byte) error {
		var l seqLine
		if err := json.Unmarshal(b, &l); err != nil {
			return err
		}
		lines = append(lines, l)
		return nil
	})
	if err != nil || len(lines) == 0 {
		rep.Inconc(fmt.Sprintf("ops: %v (%d lines)", err, len(lines)))
		return
	}
	var cn *Conn
	var files []*seqFile
	var dir, rel, cfg string
	var iu int
	var caseOps []seqLine
	live := false
	maxOpen := 0
	closeCase := func() {
		if cn == nil {
			return
		}
		if live {
			// final File offsets
			for i, sf := range files {
				gotH, perr := probeOffset(sf.file, sf.path, sf.cur)
				if perr != nil || (gotH != sf.h && gotH != -2) {
					rep.Violate("c14:seq:final-offset", fmt.Sprintf("at the end of a random sequence (%s) the File offset of file %d is %d (%v), the specification says %d",
						cfg, i+1, gotH, perr, sf.h), map[string]any{"engine": "TestC14Seq", "cfg": cfg, "ops": caseOps})
				}
			}
			rep.Cases++
		}
		for _, sf := range files {
			sf.file.Close()
		}
		cn.Close()
		os.RemoveAll(dir)
		cn, files = nil, nil
	}
	defer closeCase()
	steps := 0
	for i, l := range lines {
		lineNo := i + 1
		switch l.Act {
		case "Reset":
			closeCase()
			iu = l.Iu
			cfg = fmt.Sprintf("msize=%d dotu=%v", iu+24, l.Dotu)
			caseOps = []seqLine{l}
			cn, err = env.Dial(uint32(iu+24), l.Dotu, false)
			if err != nil {
				rep.Inconc(err.Error())
				cn = nil
				live = false
				continue
			}
			dir, _ = os.MkdirTemp(env.Root, "seq-")
			rel, _ = filepath.Rel(env.Root, dir)
			live = true
			for k, ln := range l.Lens {
				sf := &seqFile{path: filepath.Join(dir, fmt.Sprintf("f%d", k+1)), twin: filepath.Join(dir, fmt.Sprintf("t%d", k+1))}
				sf.cur = append([]byte(nil), patPrefix(k+1, ln)...)
				os.WriteFile(sf.path, sf.cur, 0o644)
				os.WriteFile(sf.twin, sf.cur, 0o644)
				f, err := cn.Clnt.FOpen(fmt.Sprintf("%s/f%d", rel, k+1), go9p.ORDWR)
				if err != nil {
					rep.Inconc(fmt.Sprintf("open: %v", err))
					live = false
					break
				}
				sf.file = f
				files = append(files, sf)
			}
			if len(files) > maxOpen {
				maxOpen = len(files)
			}
		case "Op":
			if !live || cn == nil {
				continue
			}
			caseOps = append(caseOps, l)
			e := exps[lineNo]
			if e == nil {
				rep.Inconc(fmt.Sprintf("no expectation for line %d", lineNo))
				live = false
				continue
			}
			sf := files[l.F-1]
			if e.H0 != sf.h || e.Op != l.Op || e.Cnt != l.Cnt {
				rep.Inconc(fmt.Sprintf("expectation of line %d does not match the operation", lineNo))
				live = false
				continue
			}
			flen := len(sf.cur)
			rep.Progress(map[string]any{"engine": rep.Engine, "cfg": cfg, "op": l.Op, "len": flen, "off": e.Off, "cnt": l.Cnt, "cls": caseKey(e, iu, flen, "x"), "ops": caseOps})
			n, data, cerr := call(cn.Clnt, sf.file, l.Op, l.Off, l.Cnt, l.W)
			steps++
			if steps%499 == 1 {
				rep.Sample(map[string]any{"cfg": cfg, "files_open": len(files), "op": l.Op, "file": l.F, "off": e.Off, "cnt": l.Cnt,
					"len": flen, "expected_n": e.N, "observed_n": n, "observed_err": fmt.Sprint(cerr)})
			}
			replay := map[string]any{"engine": "TestC14Seq", "cfg": cfg, "ops": caseOps}
			verdict := judge(rep, e, iu, flen, cfg+" seq", n, data, cerr, sf.cur, replay)
			if verdict != "" {
				if verdict == "drift" {
					rep.Add("drift", 1)
				}
				live = false // later expectations no longer apply; the case ends here
				rep.Cases++
				continue
			}
			if !isRead(l.Op) {
				if n > 0 {
					tf, err := os.OpenFile(sf.twin, os.O_WRONLY, 0)
					if err == nil {
						_, err = tf.WriteAt(patPrefix(l.W, n), int64(e.Off))
						tf.Close()
					}
					if err != nil {
						rep.Inconc(err.Error())
						live = false
						continue
					}
				}
				got, _ := os.ReadFile(sf.path)
				tw, _ := os.ReadFile(sf.twin)
				model := expandFast(e.File)
				if firstDiff(model, tw) >= 0 || len(model) != e.Flen {
					rep.Inconc(fmt.Sprintf("model/twin disagree on the contents after line %d %s (%s)", lineNo, l.Op, cfg))
					live = false
					continue
				}
				if d := firstDiff(got, tw); d >= 0 {
					rep.Violate(caseKey(e, iu, flen, "file"), fmt.Sprintf("random sequence (%s): after %s(off=%d,cnt=%d)=%d on file %d (%d bytes) the underlying file (%d bytes) differs at byte %d from the same writes done with pwrite",
						cfg, l.Op, e.Off, l.Cnt, n, l.F, flen, len(got), d), replay)
					live = false
					rep.Cases++
					continue
				}
				sf.cur = got
			}
			sf.h = e.H
		}
	}
	closeCase()
	rep.Distinct = rep.Cases
	rep.Stats["steps"] = steps
	rep.Stats["max_files_open"] = maxOpen
}
