package ufsdata

import (
	"bytes"
	"fmt"
	"math/rand"
	"net"
	"os"
	"path/filepath"
	"sync"
	"testing"

	"github.com/rminnich/go9p"
)

// TestC14Extra: exploration beyond the bounds of spec/UfsData.tla, with the os package on the same
// path as the oracle (the specification's Slice/WriteExt semantics is that of pread/pwrite):
//
//	(a) zero-length writes (File.Write, File.WriteAt, Clnt.Write) between other operations;
//	(b) offsets at and beyond 2^32 on a sparse file, reads and writes, and reads far past the end;
//	(c) several reads of ONE fid in progress at once (9P allows it; each must return the bytes at
//	    its own offset).
func TestC14Extra(t *testing.T) {
	rep := NewReport("ufsdata.TestC14Extra")
	defer rep.Write()
	env, err := NewEnv()
	if err != nil {
		rep.Inconc(err.Error())
		return
	}
	defer env.Close()
	seed := int64(envInt("VERIF_SEED", 1))
	rng := rand.New(rand.NewSource(seed*977 + 14))
	rounds := envInt("VERIF_ROUNDS", 40)
	for _, dotu := range []bool{false, true} {
		for _, msize := range []uint32{128, 4096, 8216} {
			cfg := fmt.Sprintf("msize=%d dotu=%v", msize, dotu)
			cn, err := env.Dial(msize, dotu, false)
			if err != nil {
				rep.Inconc(err.Error())
				return
			}
			iu := int(msize) - 24
			// ---- (a) zero-length writes
			name := fmt.Sprintf("z-%d-%v", msize, dotu)
			path := filepath.Join(env.Root, name)
			f, err := cn.Clnt.FCreate(name, 0o644, go9p.ORDWR)
			if err != nil {
				rep.Inconc("create: " + err.Error())
				return
			}
			var steps []string
			fail := func(key, what string) {
				rep.Violate("c14:extra:"+key, fmt.Sprintf("%s (%s; steps %v)", what, cfg, steps), map[string]any{"engine": "TestC14Extra", "cfg": cfg, "steps": steps})
			}
			off := 0
			okA := true
			for i := 0; i < 18 && okA; i++ {
				n := []int{0, 3, 0, iu, 0, 1}[i%6]
				var wn int
				var werr error
				b := PatBuf(7+i, n)
				switch {
				case i < 6: // the File's own offset advances by what was written
					wn, werr = f.Write(b)
					steps = append(steps, fmt.Sprintf("Write(%d)", n))
				case i < 12:
					wn, werr = f.WriteAt(b, int64(off))
					steps = append(steps, fmt.Sprintf("WriteAt(%d,@%d)", n, off))
				default:
					wn, werr = cn.Clnt.Write(f.Fid, b, uint64(off))
					steps = append(steps, fmt.Sprintf("Clnt.Write(%d,@%d)", n, off))
				}
				if werr != nil || wn != n {
					fail("zero-length-write", fmt.Sprintf("a write of %d bytes returned (%d, %v)", n, wn, werr))
					okA = false
					break
				}
				off += n
				rep.Add("writes", 1)
			}
			if okA {
				got, _ := os.ReadFile(path)
				if len(got) != off {
					fail("zero-length-write", fmt.Sprintf("after writes totalling %d bytes (some empty) the file has %d bytes", off, len(got)))
				}
				back := make([]byte, off+5)
				n := 0
				var rerr error
				for n < len(back) { // ReadAt moves at most one message
					k, e := f.ReadAt(back[n:], int64(n))
					n += k
					if e != nil || k == 0 {
						rerr = e
						break
					}
				}
				if (rerr != nil && !isEOF(rerr)) || n != off || !bytes.Equal(back[:n], got) {
					fail("zero-length-write", fmt.Sprintf("reading the file back returns %d bytes (%v), the file has %d", n, rerr, len(got)))
				}
			}
			f.Close()
			rep.Cases++
			// ---- (b) offsets >= 2^32 on a sparse file
			big := fmt.Sprintf("big-%d-%v", msize, dotu)
			bpath := filepath.Join(env.Root, big)
			const base = int64(1) << 32
			size := base + 65536
			if osf, e := os.Create(bpath); e == nil {
				e1 := osf.Truncate(size)
				_, e2 := osf.WriteAt([]byte("MARK-BELOW"), base-5) // straddles 2^32
				_, e3 := osf.WriteAt(PatBuf(3, 300), base+4096)
				_, e4 := osf.WriteAt([]byte("low"), 4096) // what a decoder that loses bit 32 would find
				osf.Close()
				if e1 != nil || e2 != nil || e3 != nil || e4 != nil {
					rep.Add("sparse_files_unsupported", 1)
				} else if bf, e := cn.Clnt.FOpen(big, go9p.ORDWR); e != nil {
					rep.Inconc("open sparse file: " + e.Error())
				} else {
					steps = nil
					if d, e := cn.Clnt.FStat(big); e != nil {
						fail("large-file-length", fmt.Sprintf("FStat of a file of %d bytes fails: %v", size, e))
					} else if int64(d.Length) != size {
						fail("large-file-length", fmt.Sprintf("FStat of a file of %d bytes reports length %d", size, d.Length))
					}
					twin, _ := os.Open(bpath)
					chk := func(o int64, cnt int) {
						want := make([]byte, cnt)
						wn, _ := twin.ReadAt(want, o)
						got := make([]byte, cnt)
						gn, gerr := bf.ReadAt(got, o)
						steps = append(steps, fmt.Sprintf("ReadAt(%d,@2^32%+d)", cnt, o-base))
						if (gerr != nil && !isEOF(gerr)) || gn != wn || !bytes.Equal(got[:gn], want[:wn]) {
							fail("large-offset-read", fmt.Sprintf("ReadAt(%d bytes at offset %d) returned %d bytes (%v), differing at %d from the %d bytes of the file", cnt, o, gn, gerr, firstDiff(got[:gn], want[:wn]), wn))
						}
						rep.Add("reads", 1)
					}
					for _, o := range []int64{base - 5, base - 1, base, base + 1, base + 4096, base + 4096 + 100, size - 10, size, size + 1, 1 << 40, 1<<62 + 4096} {
						chk(o, 10)
						chk(o, min(iu, 200))
					}
					wdata := PatBuf(9, 50)
					wo := base + 8192
					wn, werr := bf.WriteAt(wdata, wo)
					steps = append(steps, "WriteAt(50,@2^32+8192)")
					back := make([]byte, 50)
					twin.ReadAt(back, wo)
					low := make([]byte, 50)
					twin.ReadAt(low, 8192)
					if werr != nil || wn != 50 || !bytes.Equal(back, wdata) || bytes.Equal(low, wdata) {
						fail("large-offset-write", fmt.Sprintf("WriteAt(50 bytes at 2^32+8192) returned (%d, %v); the file has them there: %v, at 8192 instead: %v", wn, werr, bytes.Equal(back, wdata), bytes.Equal(low, wdata)))
					}
					twin.Close()
					bf.Close()
					rep.Cases++
				}
			}
			os.Remove(bpath)
			// ---- (c) several reads of one fid at once
			cname := fmt.Sprintf("c-%d-%v", msize, dotu)
			cpath := filepath.Join(env.Root, cname)
			content := PatBuf(5, 3*iu+77)
			if e := os.WriteFile(cpath, content, 0o644); e != nil {
				rep.Inconc(e.Error())
				return
			}
			cf, err := cn.Clnt.FOpen(cname, go9p.OREAD)
			if err != nil {
				rep.Inconc("open: " + err.Error())
				return
			}
			var mu sync.Mutex
			bad := ""
			for r := 0; r < rounds && bad == ""; r++ {
				const G = 4
				offs := make([]int, G)
				cnts := make([]int, G)
				for g := range offs {
					offs[g] = rng.Intn(len(content))
					cnts[g] = 1 + rng.Intn(iu)
				}
				var wg sync.WaitGroup
				for g := 0; g < G; g++ {
					wg.Add(1)
					go func(g int) {
						defer wg.Done()
						data, e := cn.Clnt.Read(cf.Fid, uint64(offs[g]), uint32(cnts[g]))
						end := min(len(content), offs[g]+cnts[g])
						if e != nil || !bytes.Equal(data, content[offs[g]:end]) {
							mu.Lock()
							if bad == "" {
								bad = fmt.Sprintf("with %d Treads of one fid outstanding, the read of %d bytes at offset %d returned %d bytes (%v) that differ at %d from the file (the other offsets: %v)",
									G, cnts[g], offs[g], len(data), e, firstDiff(data, content[offs[g]:end]), offs)
							}
							mu.Unlock()
						}
					}(g)
				}
				wg.Wait()
				rep.Add("concurrent_read_rounds", 1)
			}
			if bad != "" {
				steps = nil
				fail("concurrent-reads-one-fid", bad)
			}
			cf.Close()
			rep.Cases++
			cn.Close()
		}
	}
	// ---- (d) the server grants less than the client proposes: the client works with the granted msize
	for _, dotu := range []bool{false, true} {
		env2, err := NewEnvMsize(1024)
		if err != nil {
			rep.Inconc(err.Error())
			return
		}
		c1, c2 := net.Pipe()
		env2.Ufs.NewConn(c1)
		clnt, err := go9p.Connect(c2, 8192, dotu)
		if err != nil {
			rep.Inconc("connect: " + err.Error())
			env2.Close()
			continue
		}
		cfg := fmt.Sprintf("server msize 1024, client proposes 8192, dotu=%v", dotu)
		fid, aerr := clnt.Attach(nil, &hUser{0, uname(0)}, "")
		if aerr != nil {
			rep.Inconc("attach: " + aerr.Error())
		} else {
			clnt.Root = fid
			content := PatBuf(11, 5000)
			_ = os.WriteFile(filepath.Join(env2.Root, "g"), content, 0o644)
			if f, e := clnt.FOpen("g", go9p.ORDWR); e != nil {
				rep.Inconc("open: " + e.Error())
			} else {
				buf := make([]byte, len(content)+10)
				n, rerr := f.Readn(buf, 0)
				if rerr != nil || n != len(content) || !bytes.Equal(buf[:n], content) {
					rep.Violate("c14:extra:granted-msize-read", fmt.Sprintf("Readn of a %d-byte file returned (%d, %v) (%s; the client's msize is %d)", len(content), n, rerr, cfg, clnt.Msize),
						map[string]any{"engine": "TestC14Extra", "cfg": cfg})
				}
				w := PatBuf(12, 3000)
				wn, werr := f.Written(w, 100)
				got, _ := os.ReadFile(filepath.Join(env2.Root, "g"))
				if werr != nil || wn != len(w) || len(got) < 3100 || !bytes.Equal(got[100:3100], w) {
					rep.Violate("c14:extra:granted-msize-write", fmt.Sprintf("Writen of %d bytes returned (%d, %v); the file has them: %v (%s)", len(w), wn, werr, len(got) >= 3100 && bytes.Equal(got[100:3100], w), cfg),
						map[string]any{"engine": "TestC14Extra", "cfg": cfg})
				}
				f.Close()
			}
		}
		clnt.Unmount()
		env2.Close()
		rep.Cases++
	}
	// ---- (e) opened with OTRUNC, then written
	for _, dotu := range []bool{false, true} {
		cn, err := env.Dial(4096, dotu, false)
		if err != nil {
			rep.Inconc(err.Error())
			return
		}
		for _, mode := range []uint8{go9p.OWRITE | go9p.OTRUNC, go9p.ORDWR | go9p.OTRUNC} {
			name := fmt.Sprintf("t-%d-%v", mode, dotu)
			path := filepath.Join(env.Root, name)
			_ = os.WriteFile(path, PatBuf(13, 700), 0o644)
			f, e := cn.Clnt.FOpen(name, mode)
			if e != nil {
				rep.Inconc("open with OTRUNC: " + e.Error())
				continue
			}
			w := PatBuf(14, 333)
			wn, werr := f.Written(w, 0)
			got, _ := os.ReadFile(path)
			if werr != nil || wn != len(w) || !bytes.Equal(got, w) {
				rep.Violate("c14:extra:write-after-otrunc", fmt.Sprintf("file of 700 bytes opened with mode %d (OTRUNC), Writen of %d bytes returned (%d, %v); the file now has %d bytes, equal to what was written: %v (dotu=%v)",
					mode, len(w), wn, werr, len(got), bytes.Equal(got, w), dotu), map[string]any{"engine": "TestC14Extra", "mode": mode, "dotu": dotu})
			}
			f.Close()
			rep.Cases++
		}
		cn.Close()
	}
	rep.Distinct = rep.Cases
	rep.Sample(map[string]any{"zero_length_writes": "File.Write/WriteAt/Clnt.Write of 0 bytes between writes of 1, 3 and iounit bytes",
		"large_offsets": "2^32-5 .. 2^32+65536+1, 2^40, 2^62+4096 on a sparse file", "concurrent": "4 Treads of one fid at once"})
}
