package ufsdata

import (
	"bufio"
	"bytes"
	"encoding/json"
	"fmt"
	"math/rand"
	"os"
	"path/filepath"
	"sort"
	"strings"
	"testing"
	"time"

	"verif/harness/wire"

	"github.com/rminnich/go9p"
)

// ---------------------------------------------------------------- real directories

// rdir is a real directory under the exported root, with the twin's knowledge of it.
type rdir struct {
	rel   string // path relative to the exported root
	abs   string
	sizes map[string]int // name -> wire size of its stat record (independent encoder)
	cls   string         // size class for keys: n=0, n=1, n=2, n=3..9, n~50, n~1000s
	gen   map[string]any // how it was generated (replay information)
}

func dirClass(n int) string {
	switch {
	case n <= 2:
		return fmt.Sprintf("n=%d", n)
	case n < 10:
		return "n=3..9"
	case n < 400:
		return "n~50"
	}
	return "n~1000s"
}

const nameAlphabet = "abcdefghijklmnopqrstuvwxyzABCDEFGHIJKLMNOPQRSTUVWXYZ0123456789_-+=,.@%"

func randName(rng *rand.Rand, n int) string {
	b := make([]byte, n)
	for i := range b {
		b[i] = nameAlphabet[rng.Intn(len(nameAlphabet))]
	}
	if b[0] == '.' {
		b[0] = 'd'
	}
	return string(b)
}

// twinOrder lists the directory the way Ufs does (one getdents pass over a fresh descriptor);
// the order of an unchanged directory is stable.
func twinOrder(abs string) ([]string, error) {
	f, err := os.Open(abs)
	if err != nil {
		return nil, err
	}
	defer f.Close()
	return f.Readdirnames(-1)
}

// twinSet is the twin truth for "the entries of the directory": os.ReadDir.
func twinSet(abs string) (map[string]bool, error) {
	es, err := os.ReadDir(abs)
	if err != nil {
		return nil, err
	}
	m := map[string]bool{}
	for _, e := range es {
		m[e.Name()] = true
	}
	return m, nil
}

func (d *rdir) add(name string, sub bool, dotu bool) error {
	p := filepath.Join(d.abs, name)
	var err error
	if sub {
		err = os.Mkdir(p, 0o755)
	} else {
		err = os.WriteFile(p, nil, 0o644)
	}
	if err != nil {
		return err
	}
	d.sizes[name] = StatSize(name, 0, 0, dotu)
	return nil
}

// mkdirNames creates a directory with the given names (every 7th a subdirectory).
func mkdirNames(env *Env, names []string, dotu bool, gen map[string]any) (*rdir, error) {
	abs, err := os.MkdirTemp(env.Root, "d-")
	if err != nil {
		return nil, err
	}
	rel, _ := filepath.Rel(env.Root, abs)
	d := &rdir{rel: rel, abs: abs, sizes: map[string]int{}, cls: dirClass(len(names)), gen: gen}
	for i, n := range names {
		if err := d.add(n, i%7 == 3, dotu); err != nil {
			return nil, err
		}
	}
	return d, nil
}

// mkdirOrdered creates a directory whose listing order has exactly the given record sizes
// (names are redrawn until the file system lists them in the wanted order).
func mkdirOrdered(env *Env, rng *rand.Rand, want []int, dotu bool) (*rdir, error) {
	base := StatSize("", 0, 0, dotu)
	for try := 0; try < 400; try++ {
		names := make([]string, len(want))
		seen := map[string]bool{}
		for i, sz := range want {
			l := sz - base
			if l < 1 || l > 255 {
				return nil, fmt.Errorf("size %d needs a name of %d bytes", sz, l)
			}
			for {
				names[i] = randName(rng, l)
				if !seen[names[i]] {
					seen[names[i]] = true
					break
				}
			}
		}
		d, err := mkdirNames(env, names, dotu, map[string]any{"ordered_sizes": want})
		if err != nil {
			return nil, err
		}
		order, err := twinOrder(d.abs)
		if err != nil {
			return nil, err
		}
		ok := len(order) == len(want)
		for i := 0; ok && i < len(order); i++ {
			ok = d.sizes[order[i]] == want[i]
		}
		if ok {
			return d, nil
		}
		os.RemoveAll(d.abs)
	}
	return nil, fmt.Errorf("could not obtain listing order %v", want)
}

// ---------------------------------------------------------------- one fid on one directory

type traceW struct {
	f *os.File
	w *bufio.Writer
	n int
}

func newTraceW(path string) (*traceW, error) {
	f, err := os.Create(path)
	if err != nil {
		return nil, err
	}
	return &traceW{f: f, w: bufio.NewWriterSize(f, 1<<20)}, nil
}
func (t *traceW) line(v any) {
	b, _ := json.Marshal(v)
	t.w.Write(b)
	t.w.WriteByte('\n')
	t.n++
}
func (t *traceW) close() { t.w.Flush(); t.f.Close() }

// lister drives one fid under the protocol's offset rule and checks, against the twin, what the
// specification cannot see: that every reply decodes record by record with the independent
// decoder and that the names are those of the directory, each exactly once per listing.  The
// sizes, counts, offsets and reply kinds go to the trace that TLC validates.
type lister struct {
	rep     *Report
	tw      *traceW
	cn      *Conn
	d       *rdir
	fid     *go9p.Fid
	caseID  int
	cfg     string
	order   []string // snapshot order (twin, taken when offset 0 is read)
	pos     int      // entries delivered since offset 0
	off     uint64
	seen    map[string]bool
	steps   []any
	nodiff  bool // the served order differed from the twin order: no size-level validation
	dead    bool
	iu      int
	snapped bool // a Tread at offset 0 was sent on this fid (the server holds a snapshot)
	wedged  bool // a request was never answered: the connection is of no further use
}

func (l *lister) key(what string) string { return "c15:" + what + ":" + l.d.cls }

func (l *lister) replay() any {
	return map[string]any{"engine": "ufsdata.C15", "cfg": l.cfg, "dir": l.d.gen, "entries": len(l.d.sizes), "steps": l.steps}
}

func sizesOf(d *rdir, order []string) []int {
	s := make([]int, len(order))
	for i, n := range order {
		s[i] = d.sizes[n]
	}
	return s
}

// open walks to the directory and opens it; writes the Dir line.
func newLister(rep *Report, tw *traceW, cn *Conn, d *rdir, caseID int) (*lister, error) {
	f, err := cn.Clnt.FOpen(d.rel, go9p.OREAD)
	if err != nil {
		return nil, err
	}
	l := &lister{rep: rep, tw: tw, cn: cn, d: d, fid: f.Fid, caseID: caseID, iu: int(cn.Msize) - 24,
		cfg: fmt.Sprintf("msize=%d dotu=%v", cn.Msize, cn.Dotu)}
	order, err := twinOrder(d.abs)
	if err != nil {
		return nil, err
	}
	l.order = order
	rep.Progress(map[string]any{"engine": rep.Engine, "cfg": l.cfg, "dir": d.gen, "entries": len(order), "cls": d.cls})
	tw.line(map[string]any{"act": "Dir", "case": caseID, "sizes": sizesOf(d, order), "cls": d.cls, "cfg": l.cfg})
	return l, nil
}

func (l *lister) close() { l.cn.Clnt.Clunk(l.fid) }

// mutated tells the trace that the directory changed.
func (l *lister) mutated() {
	order, err := twinOrder(l.d.abs)
	if err != nil {
		l.dead = true
		return
	}
	l.steps = append(l.steps, map[string]any{"s": "mutate", "entries": len(order)})
	l.tw.line(map[string]any{"act": "Mutate", "sizes": sizesOf(l.d, order)})
}

// readAt sends one Tread at an offset the protocol rule does not allow; only the size of the reply
// (or -1 for an error reply) goes to the trace -- the property (C06) demands survival, and the
// trace tells TLC what the transcribed window should have answered.
func (l *lister) readAt(off uint64, count int) {
	if l.dead || wedgedCount >= 2 {
		l.dead = true
		return
	}
	l.cn.Tap.Frames()
	data, err, answered := readWithin(l.cn.Clnt, l.fid, off, uint32(count))
	if !answered {
		l.rep.Violate("c06:dir-offrule:no-reply:"+l.d.cls, fmt.Sprintf("directory Tread(off=%d,count=%d) (%s) was not answered within %v", off, count, l.cfg, replyWait), l.replay())
		l.dead, l.wedged = true, true
		wedgedCount++
		return
	}
	frames := l.cn.Tap.Frames()
	l.steps = append(l.steps, map[string]any{"s": "ReadAt", "off": off, "count": count})
	l.rep.Add("treads", 1)
	r := len(data)
	if err != nil {
		r = -1
	}
	if len(frames) != 1 {
		l.rep.Inconc(fmt.Sprintf("%d frames for one off-rule Tread (err %v)", len(frames), err))
		l.dead = true
		return
	}
	if r > count {
		l.rep.Violate("c06:dir-offrule:over-count:"+l.d.cls, fmt.Sprintf("directory Tread(off=%d,count=%d) (%s) returned %d bytes", off, count, l.cfg, r), l.replay())
	}
	if !l.nodiff {
		l.tw.line(map[string]any{"act": "ReadAt", "off": off, "count": count, "r": r})
	}
}

// replyWait: a Tread served by an in-process Ufs over a pipe is answered in microseconds; one that is not answered within
// this (real) time never will be (the file server is waiting for a lock nobody releases).
const replyWait = 30 * time.Second

// wedgedCount: requests never answered so far; after a few the engine stops (every further case would wait again).
var wedgedCount int

func readWithin(cl *go9p.Clnt, fid *go9p.Fid, off uint64, count uint32) ([]byte, error, bool) {
	type res struct {
		d []byte
		e error
	}
	ch := make(chan res, 1)
	go func() {
		d, e := cl.Read(fid, off, count)
		ch <- res{d, e}
	}()
	select {
	case r := <-ch:
		return r.d, r.e, true
	case <-time.After(replyWait):
		return nil, nil, false
	}
}

// read sends one Tread (offset 0 if restart, else the offset the rule allows) and returns the
// reply size, or -1 for an error reply.
func (l *lister) read(restart bool, count int) int {
	if l.dead || wedgedCount >= 2 {
		l.dead = true
		return -2
	}
	if restart {
		// re-snapshot: the twin's view now
		order, err := twinOrder(l.d.abs)
		if err != nil {
			l.rep.Inconc(err.Error())
			l.dead = true
			return -2
		}
		l.order, l.pos, l.off, l.seen = order, 0, 0, map[string]bool{}
		l.snapped = true
	}
	off := l.off
	l.cn.Tap.Frames()
	data, err, answered := readWithin(l.cn.Clnt, l.fid, off, uint32(count))
	if !answered {
		l.rep.Violate(l.key("no-reply"), fmt.Sprintf("directory Tread(off=%d,count=%d) (%s, %d entries) was not answered within %v (earlier steps of this listing: %v)",
			off, count, l.cfg, len(l.order), replyWait, l.steps), l.replay())
		l.dead, l.wedged = true, true
		wedgedCount++
		return -2
	}
	data = append([]byte(nil), data...)
	frames := l.cn.Tap.Frames()
	act := "ReadNext"
	if restart {
		act = "Read0"
	}
	l.steps = append(l.steps, map[string]any{"s": act, "off": off, "count": count})
	l.rep.Add("treads", 1)
	r := len(data)
	if err != nil {
		r = -1
	}
	line := map[string]any{"act": act, "count": count, "r": r}
	if !restart {
		line["off"] = off
	}
	// independent decoding of the reply frame
	if len(frames) != 1 {
		l.rep.Inconc(fmt.Sprintf("%d frames for one Tread", len(frames)))
		l.dead = true
		return -2
	}
	m, derr := wire.Decode(frames[0], l.cn.Dotu)
	if derr != nil {
		l.rep.Violate(l.key("reply-undecodable"), fmt.Sprintf("directory Tread(off=%d,count=%d) (%s): reply frame not decodable: %v", off, count, l.cfg, derr), l.replay())
		l.dead = true
		return -2
	}
	if (m.Type == wire.Rerror) != (err != nil) || (m.Type != wire.Rerror && m.Type != wire.Rread) {
		l.rep.Inconc(fmt.Sprintf("client result and wire reply disagree (type %d, err %v)", m.Type, err))
		l.dead = true
		return -2
	}
	if err != nil {
		if !l.nodiff {
			l.tw.line(line)
		}
		return -1
	}
	if !bytes.Equal(m.Data, data) {
		l.rep.Inconc("client Read data differs from the Rread payload on the wire")
		l.dead = true
		return -2
	}
	if r > count {
		l.rep.Violate(l.key("over-count"), fmt.Sprintf("directory Tread(off=%d,count=%d) (%s) returned %d bytes", off, count, l.cfg, r), l.replay())
	}
	// record by record
	rest := m.Data
	k := 0
	for len(rest) > 0 {
		st, n, e := wire.DecodeStat(rest, l.cn.Dotu)
		if e != nil {
			l.rep.Violate(l.key("partial-record"), fmt.Sprintf("directory Tread(off=%d,count=%d) (%s, %d entries): after %d whole records the remaining %d bytes are not a stat record: %v",
				off, count, l.cfg, len(l.order), k, len(rest), e), l.replay())
			l.dead = true
			break
		}
		rest = rest[n:]
		k++
		want, known := l.d.sizes[st.Name]
		switch {
		case !known:
			l.rep.Violate(l.key("unknown-entry"), fmt.Sprintf("directory read (%s) delivered an entry %q (%d bytes) that os.ReadDir does not list", l.cfg, trunc(st.Name), n), l.replay())
			l.dead = true
		case l.seen[st.Name]:
			l.rep.Violate(l.key("duplicate-entry"), fmt.Sprintf("directory read (%s, %d entries) delivered entry %d (%q) twice in one listing (Tread off=%d count=%d)",
				l.cfg, len(l.order), l.pos+k, trunc(st.Name), off, count), l.replay())
			l.dead = true
		case want != n:
			l.rep.Inconc(fmt.Sprintf("size model: record of %q is %d bytes on the wire, %d by the independent encoder (%s)", trunc(st.Name), n, want, l.cfg))
			l.dead = true
		}
		if l.dead {
			break
		}
		l.seen[st.Name] = true
		if idx := l.pos + k - 1; idx >= len(l.order) || l.order[idx] != st.Name {
			if !l.nodiff {
				l.rep.Add("served_order_differs_from_twin", 1)
			}
			l.nodiff = true
		}
	}
	if !l.dead {
		l.pos += k
		l.off += uint64(r)
		if r == 0 {
			// end of the listing: every entry of the directory must have been delivered
			set, _ := twinSet(l.d.abs)
			for name := range set {
				if !l.seen[name] {
					l.rep.Violate(l.key("missing-entry"), fmt.Sprintf("directory listing (%s) ended with an empty reply at offset %d after %d of %d entries; %q was never delivered",
						l.cfg, off, l.pos, len(set), trunc(name)), l.replay())
					break
				}
			}
		}
	}
	if !l.nodiff {
		l.tw.line(line)
	}
	if l.dead {
		return -2
	}
	return r
}

func trunc(s string) string {
	if len(s) > 24 {
		return s[:20] + "..." + fmt.Sprint(len(s))
	}
	return s
}

// readdir0 runs File.Readdir(0) on a fresh fid through a client whose iounit is iu.
func readdir0(rep *Report, tw *traceW, env *Env, d *rdir, dotu bool, iu int, l *lister) {
	cn, err := env.Dial(uint32(iu+24), dotu, false)
	if err != nil {
		rep.Inconc(err.Error())
		return
	}
	defer cn.Close()
	f, err := cn.Clnt.FOpen(d.rel, go9p.OREAD)
	if err != nil {
		rep.Inconc(fmt.Sprintf("open for Readdir: %v", err))
		return
	}
	defer f.Close()
	set, _ := twinSet(d.abs)
	dirs, err := f.Readdir(0)
	rep.Add("readdir0", 1)
	l.steps = append(l.steps, map[string]any{"s": "Readdir0", "iounit": iu})
	k := len(dirs)
	if err != nil {
		k = -1
	} else {
		got := map[string]int{}
		for _, e := range dirs {
			got[e.Name]++
		}
		for name := range set {
			if got[name] != 1 {
				rep.Violate(l.key("readdir0-incomplete"), fmt.Sprintf("File.Readdir(0) (msize=%d dotu=%v) returned %d entries of a directory of %d without an error; %q appears %d times",
					iu+24, dotu, len(dirs), len(set), trunc(name), got[name]), l.replay())
				break
			}
		}
		for name := range got {
			if !set[name] {
				rep.Violate(l.key("readdir0-unknown"), fmt.Sprintf("File.Readdir(0) returned %q which os.ReadDir does not list", trunc(name)), l.replay())
				break
			}
		}
	}
	tw.line(map[string]any{"act": "Readdir0", "iu": iu, "k": k})
}

// ---------------------------------------------------------------- TestC15Tour

type tourPath struct {
	ID    int     `json:"id"`
	Steps [][]any `json:"steps"`
}

func toInts(v any) []int {
	var out []int
	if a, ok := v.([]any); ok {
		for _, x := range a {
			out = append(out, int(x.(float64)))
		}
	}
	return out
}

// TestC15Tour replays the transition tour of UfsData!DirTourSpec (DirImpl = TRUE) on real
// directories whose record sizes are the model's sizes times $VERIF_UNIT, and records what the
// server answered for validation against the specification.
func TestC15Tour(t *testing.T) {
	rep := NewReport("ufsdata.TestC15Tour")
	defer rep.Write()
	env, err := NewEnv()
	if err != nil {
		rep.Inconc(err.Error())
		return
	}
	defer env.Close()
	tw, err := newTraceW(os.Getenv("VERIF_TRACE_OUT"))
	if err != nil {
		rep.Inconc(err.Error())
		return
	}
	defer tw.close()
	unit := envInt("VERIF_UNIT", 50)
	rng := rand.New(rand.NewSource(int64(envInt("VERIF_SEED", 1))*1000003 + 15))
	var paths []tourPath
	err = ReadNdjson(os.Getenv("VERIF_TOUR"), func(b []byte) error {
		var p tourPath
		if err := json.Unmarshal(b, &p); err != nil {
			return err
		}
		paths = append(paths, p)
		return nil
	})
	if err != nil || len(paths) == 0 {
		rep.Inconc(fmt.Sprintf("tour: %v (%d paths)", err, len(paths)))
		return
	}
	msizes := []uint32{1024, 4096, 8216, 65536}
	conns := map[string]*Conn{}
	defer func() {
		for _, c := range conns {
			c.Close()
		}
	}()
	dirs := map[string]*rdir{}
	caseID := 0
	distinct := map[string]bool{}
	for pi, p := range paths {
		if wedgedCount >= 2 {
			rep.Add("stopped_after_unanswered_requests", 1)
			break
		}
		for _, dotu := range []bool{false, true} {
			if len(p.Steps) == 0 || fmt.Sprint(p.Steps[0][0]) != "Mk" {
				rep.Inconc("tour path does not start with Mk")
				return
			}
			abstract := toInts(p.Steps[0][1])
			want := make([]int, len(abstract))
			for i, a := range abstract {
				want[i] = a * unit
			}
			dk := fmt.Sprint(want, dotu)
			d := dirs[dk]
			if d == nil {
				d, err = mkdirOrdered(env, rng, want, dotu)
				if err != nil {
					rep.Inconc(err.Error())
					return
				}
				dirs[dk] = d
				rep.Add("directories", 1)
			}
			msize := msizes[rng.Intn(len(msizes))]
			ck := fmt.Sprint(msize, dotu)
			cn := conns[ck]
			if cn == nil {
				cn, err = env.Dial(msize, dotu, true)
				if err != nil {
					rep.Inconc(err.Error())
					return
				}
				conns[ck] = cn
			}
			caseID++
			l, err := newLister(rep, tw, cn, d, caseID)
			if err != nil {
				rep.Inconc(fmt.Sprintf("open: %v", err))
				return
			}
			l.d = &rdir{rel: d.rel, abs: d.abs, sizes: d.sizes, cls: d.cls, gen: map[string]any{"ordered_sizes": want, "tour_path": p.ID}}
			for _, st := range p.Steps[1:] {
				act := fmt.Sprint(st[0])
				if act == "DReadAt" {
					// a Tread off the offset rule (C06): abstract offset a over the abstract snapshot
					a, c := int(st[1].(float64)), int(st[2].(float64))
					var snap []int
					if l.snapped {
						snap = abstract
					}
					total, boundary := 0, a == 0
					for _, z := range snap {
						total += z
						if total == a {
							boundary = true
						}
					}
					var off int
					switch {
					case a > total:
						off = total*unit + (a-total-1)*unit + 1 + rng.Intn(unit)
					case boundary:
						off = a * unit
					default:
						off = a*unit + rng.Intn(unit)
					}
					distinct[fmt.Sprint(abstract, dotu, act, a, c, l.snapped)] = true
					l.readAt(uint64(off), c*unit+rng.Intn(unit))
					rep.Add("steps", 1)
					rep.Add("offrule_treads", 1)
					if l.dead {
						break
					}
					continue
				}
				c := int(st[1].(float64))
				real := c*unit + rng.Intn(unit)
				distinct[fmt.Sprint(abstract, dotu, act, c, l.pos)] = true
				switch act {
				case "DRead0":
					l.read(true, real)
				case "DReadNext":
					if l.off == 0 {
						// the real listing is not where the model is (only after a reported deviation)
						rep.Add("tour_drift", 1)
						l.dead = true
						break
					}
					l.read(false, real)
				case "DReaddir0":
					if real+24 < 256 {
						real = c*unit + unit - 1
					}
					if real+24 < 256 {
						rep.Add("readdir0_skipped_msize_below_256", 1)
						continue
					}
					readdir0(rep, tw, env, d, dotu, real, l)
				default:
					rep.Inconc("tour step " + act)
					l.dead = true
				}
				rep.Add("steps", 1)
				if l.dead {
					break
				}
			}
			l.close()
			rep.Cases++
			if pi%631 == 0 && dotu {
				rep.Sample(map[string]any{"cfg": l.cfg, "sizes": want, "tour_path": p.ID, "steps": l.steps})
			}
		}
	}
	rep.Distinct = len(distinct)
	rep.Stats["trace_lines"] = tw.n
}

// ---------------------------------------------------------------- TestC15Explore

type exploreDir struct {
	n       int
	maxName int
}

func genNames(rng *rand.Rand, n, maxName int) []string {
	seen := map[string]bool{}
	var names []string
	for len(names) < n {
		l := 1 + rng.Intn(maxName)
		if rng.Intn(10) == 0 {
			l = maxName // make sure the longest occurs
		}
		if l <= 2 && rng.Intn(3) > 0 {
			l = 3 + rng.Intn(maxName-2) // 1- and 2-byte names are few
		}
		s := randName(rng, l)
		if !seen[s] {
			seen[s] = true
			names = append(names, s)
		}
	}
	return names
}

// TestC15Explore lists real directories of 0, 1, 2, ~50 and thousands of entries with names of
// 1..255 bytes under many read-size policies, msizes and both dialects; the replies are checked
// against the twin here and written to the trace that TLC validates against UfsData.
func TestC15Explore(t *testing.T) {
	rep := NewReport("ufsdata.TestC15Explore")
	defer rep.Write()
	env, err := NewEnv()
	if err != nil {
		rep.Inconc(err.Error())
		return
	}
	defer env.Close()
	tw, err := newTraceW(os.Getenv("VERIF_TRACE_OUT"))
	if err != nil {
		rep.Inconc(err.Error())
		return
	}
	defer tw.close()
	seed := int64(envInt("VERIF_SEED", 1))
	rng := rand.New(rand.NewSource(seed*7907 + 151))
	thorough := os.Getenv("VERIF_TIER") == "thorough"
	shapes := []exploreDir{{0, 10}, {1, 255}, {1, 3}, {2, 255}, {2, 40}, {3, 255}, {5, 120}, {50, 255}, {47 + rng.Intn(9), 100}, {53, 30}}
	if thorough {
		shapes = append(shapes, exploreDir{2000 + rng.Intn(1500), 255}, exploreDir{3000 + rng.Intn(2000), 60}, exploreDir{300, 255})
	} else {
		shapes = append(shapes, exploreDir{1500 + rng.Intn(800), 255})
	}
	msizePool := []uint32{256, 300, 512, 1024, 4096, 8216, 16384, 65536}
	caseID := 0
	distinct := map[string]bool{}
	maxEntries := 0
	if thorough {
		// a second round of the small and medium shapes with other names and msizes
		shapes = append(shapes, shapes[:10]...)
	}
	for si, sh := range shapes {
		for _, dotu := range []bool{false, true} {
			names := genNames(rng, sh.n, sh.maxName)
			d, err := mkdirNames(env, names, dotu, map[string]any{"entries": sh.n, "max_name": sh.maxName, "seed": seed, "shape": si})
			if err != nil {
				rep.Inconc(err.Error())
				return
			}
			rep.Add("directories", 1)
			if sh.n > maxEntries {
				maxEntries = sh.n
			}
			maxSz := 0
			var sorted []int
			for _, s := range d.sizes {
				sorted = append(sorted, s)
				if s > maxSz {
					maxSz = s
				}
			}
			sort.Ints(sorted)
			// msizes: two or three per directory, at least one that fits the largest entry
			var ms []uint32
			for _, m := range rng.Perm(len(msizePool)) {
				if len(ms) < 3 {
					ms = append(ms, msizePool[m])
				}
			}
			if sh.n >= 1000 && !thorough {
				ms = ms[:2]
			}
			for _, msize := range ms {
				cn, err := env.Dial(msize, dotu, true)
				if err != nil {
					rep.Inconc(err.Error())
					return
				}
				iu := int(msize) - 24
				fits := maxSz <= iu
				// read-size policies
				type policy struct {
					name string
					next func() int
				}
				var pols []policy
				fixed := func(c int) policy { return policy{fmt.Sprintf("fixed=%d", c), func() int { return c }} }
				if sh.n <= 5 && fits {
					// exhaustive for small directories: every count from the largest entry up to
					// everything + 2 (quick tier: every count for <= 3 entries, every third beyond)
					total := 0
					for _, s := range sorted {
						total += s
					}
					stride := 1
					if !thorough && sh.n > 3 {
						stride = 3
					}
					for c := maxSz; c <= min(iu, total+2); c += stride {
						pols = append(pols, fixed(c))
					}
				} else if fits {
					pols = append(pols, fixed(maxSz), fixed(maxSz+1), fixed(min(iu, 2*maxSz)), fixed(min(iu, 3*maxSz+1)), fixed(iu))
					for k := 0; k < 4; k++ {
						pols = append(pols, fixed(maxSz+rng.Intn(iu-maxSz+1)))
					}
				}
				if fits {
					pols = append(pols, policy{"random>=max", func() int { return maxSz + rng.Intn(iu-maxSz+1) }})
					pols = append(pols, policy{"random>=max,small", func() int { return maxSz + rng.Intn(min(iu-maxSz, 2*maxSz)+1) }})
				}
				// counts that may be too small for the next entry: error, then retry larger
				pols = append(pols, policy{"random-any", func() int { return rng.Intn(min(iu, maxSz+maxSz/2+2) + 1) }})
				if sh.n >= 1000 && !thorough && len(pols) > 6 {
					rng.Shuffle(len(pols), func(i, j int) { pols[i], pols[j] = pols[j], pols[i] })
					pols = pols[:6]
				}
				for _, pol := range pols {
					caseID++
					l, err := newLister(rep, tw, cn, d, caseID)
					if err != nil {
						rep.Inconc(fmt.Sprintf("open: %v", err))
						cn.Close()
						return
					}
					distinct[fmt.Sprint(si, dotu, msize, pol.name)] = true
					restartAt := -1
					if rng.Intn(3) == 0 && sh.n > 1 {
						restartAt = 1 + rng.Intn(4)
					}
					mutateAt := -1
					if rng.Intn(6) == 0 && sh.n <= 60 {
						mutateAt = 1 + rng.Intn(3)
					}
					restart := true
					reads := 0
					errs := 0
					for step := 0; step < 3*sh.n+40 && !l.dead; step++ {
						c := pol.next()
						r := l.read(restart, c)
						restart = false
						reads++
						if r == -2 {
							break
						}
						if r == -1 {
							// too small (or an entry that cannot fit this msize): retry a few times with
							// other counts, then with one that fits, else give up this listing
							errs++
							if errs > 3 {
								if !fits {
									break
								}
								r = l.read(l.off == 0, min(iu, maxSz))
								errs = 0
								if r < 0 {
									break
								}
							}
							if l.off == 0 {
								restart = true
							}
							continue
						}
						errs = 0
						if r == 0 {
							break
						}
						if reads == restartAt {
							restart = true // reread from offset 0 mid-listing
							restartAt = -1
						}
						if reads == mutateAt {
							mutateAt = -1
							nm := randName(rng, 1+rng.Intn(min(sh.maxName, 60)))
							if rng.Intn(2) == 0 && len(l.order) > 0 {
								victim := l.order[rng.Intn(len(l.order))]
								os.RemoveAll(filepath.Join(d.abs, victim))
								delete(d.sizes, victim)
							} else if _, dup := d.sizes[nm]; !dup {
								d.add(nm, false, dotu)
							}
							l.mutated()
							restart = true
						}
					}
					if rng.Intn(6) == 0 {
						readdir0(rep, tw, env, d, dotu, iu, l)
					}
					l.close()
					rep.Cases++
					if rep.Cases%97 == 1 {
						st := l.steps
						if len(st) > 6 {
							st = st[:6]
						}
						rep.Sample(map[string]any{"cfg": l.cfg, "entries": sh.n, "max_name": sh.maxName, "policy": pol.name, "first_steps": st, "treads": reads})
					}
				}
				cn.Close()
			}
			os.RemoveAll(d.abs)
		}
	}
	rep.Distinct = len(distinct)
	rep.Stats["trace_lines"] = tw.n
	rep.Stats["max_entries"] = maxEntries
	_ = strings.Join
}
