// Package ufsdata: engines for C14 (file data exact) and C15 (directory reads).
//
// A real go9p.Ufs server exports a fresh scratch directory; a real go9p client talks to it over
// net.Pipe.  File contents are patterns that are a function of (pattern id, offset), so any
// misplaced byte is visible.  Every observation is compared with what the TLA+ specification
// (spec/UfsData.tla) predicts and with the os package on the same path ("twin"); a model/os
// disagreement is a model error (inconclusive), a 9P-versus-both disagreement is a violation.
package ufsdata

import (
	"bufio"
	"encoding/json"
	"fmt"
	"io"
	"log"
	"net"
	"os"
	"os/user"
	"path/filepath"
	"strconv"
	"strings"
	"sync"

	"verif/harness/wire"

	"github.com/rminnich/go9p"
)

// ---------------------------------------------------------------- report

type Violation struct {
	Key    string `json:"key"`
	What   string `json:"what"`
	Replay any    `json:"replay"`
}

type Report struct {
	Engine       string         `json:"engine"`
	Cases        int            `json:"cases"`
	Distinct     int            `json:"distinct"`
	Samples      []any          `json:"samples"`
	Violations   []Violation    `json:"violations"`
	Inconclusive []string       `json:"inconclusive"`
	Stats        map[string]any `json:"stats"`
	seen         map[string]int
}

func NewReport(engine string) *Report {
	return &Report{Engine: engine, Stats: map[string]any{}, seen: map[string]int{}, Samples: []any{},
		Violations: []Violation{}, Inconclusive: []string{}}
}

// Violate records a violation; at most 3 per key are kept (the key is the stable identity).
func (r *Report) Violate(key, what string, replay any) {
	r.seen[key]++
	if r.seen[key] > 3 || len(r.Violations) >= 200 {
		return
	}
	r.Violations = append(r.Violations, Violation{key, what, replay})
}

func (r *Report) Inconc(s string) {
	if len(r.Inconclusive) < 20 {
		r.Inconclusive = append(r.Inconclusive, s)
	}
}

func (r *Report) Sample(s any) {
	if len(r.Samples) < 6 {
		r.Samples = append(r.Samples, s)
	}
}

func (r *Report) Add(stat string, n int) {
	v, _ := r.Stats[stat].(int)
	r.Stats[stat] = v + n
}

// Progress records what is about to be executed, so that a crash of the process (a panic in a
// server or client goroutine cannot be recovered here) can be attributed by the check.
func (r *Report) Progress(v any) {
	p := os.Getenv("VERIF_OUT")
	if p == "" {
		return
	}
	b, _ := json.Marshal(v)
	os.WriteFile(p+".progress", b, 0o644)
}

func (r *Report) Write() error {
	p := os.Getenv("VERIF_OUT")
	if p == "" {
		return nil
	}
	kc := map[string]int{}
	for k, n := range r.seen {
		kc[k] = n
	}
	r.Stats["violation_keys"] = kc
	b, err := json.Marshal(r)
	if err != nil {
		return err
	}
	return os.WriteFile(p, b, 0o644)
}

// ReadNdjson calls f for every line of an ndjson file.
func ReadNdjson(path string, f func(line []byte) error) error {
	fh, err := os.Open(path)
	if err != nil {
		return err
	}
	defer fh.Close()
	rd := bufio.NewReaderSize(fh, 1<<20)
	for {
		ln, err := rd.ReadBytes('\n')
		if len(strings.TrimSpace(string(ln))) > 0 {
			if e := f(ln); e != nil {
				return e
			}
		}
		if err == io.EOF {
			return nil
		}
		if err != nil {
			return err
		}
	}
}

// ---------------------------------------------------------------- users

type hUser struct {
	id   int
	name string
}

func (u *hUser) Name() string               { return u.name }
func (u *hUser) Id() int                    { return u.id }
func (u *hUser) Groups() []go9p.Group       { return nil }
func (u *hUser) IsMember(g go9p.Group) bool { return true }

type hGroup struct {
	id   int
	name string
}

func (g *hGroup) Name() string         { return g.name }
func (g *hGroup) Id() int              { return g.id }
func (g *hGroup) Members() []go9p.User { return nil }

// hUsers is the server's user pool: uid n is called "u<n>", gid n "g<n>" (so that the .u
// stat records carry names whose length the harness knows independently).
type hUsers struct{}

func uname(id int) string { return "u" + strconv.Itoa(id) }
func gname(id int) string { return "g" + strconv.Itoa(id) }

func (hUsers) Uid2User(uid int) go9p.User { return &hUser{uid, uname(uid)} }
func (hUsers) Uname2User(n string) go9p.User {
	if id, err := strconv.Atoi(strings.TrimPrefix(n, "u")); err == nil {
		return &hUser{id, n}
	}
	return nil
}
func (hUsers) Gid2Group(gid int) go9p.Group { return &hGroup{gid, gname(gid)} }
func (hUsers) Gname2Group(n string) go9p.Group {
	if id, err := strconv.Atoi(strings.TrimPrefix(n, "g")); err == nil {
		return &hGroup{id, n}
	}
	return nil
}

// ---------------------------------------------------------------- server and client

var (
	logOnce   sync.Once
	sharedLog *go9p.Logger
)

type Env struct {
	Root string
	Ufs  *go9p.Ufs
}

// NewEnv starts a Ufs server (not listening; connections are added with Dial) on a fresh
// directory under $VERIF_SCRATCH.
func NewEnv() (*Env, error) { return NewEnvMsize(65536) }

// NewEnvMsize: the same with another server msize.
func NewEnvMsize(srvMsize uint32) (*Env, error) {
	log.SetOutput(io.Discard)
	logOnce.Do(func() { sharedLog = go9p.NewLogger(64) })
	base := os.Getenv("VERIF_SCRATCH")
	if base == "" {
		base = os.TempDir()
	}
	root, err := os.MkdirTemp(base, "ufsroot-")
	if err != nil {
		return nil, err
	}
	root, _ = filepath.EvalSymlinks(root)
	u := new(go9p.Ufs)
	u.Dotu = true
	u.Id = "ufsdata"
	u.Root = root
	u.Msize = srvMsize
	u.Upool = hUsers{}
	u.Log = sharedLog
	if !u.Start(u) {
		return nil, fmt.Errorf("Ufs.Start failed")
	}
	return &Env{Root: root, Ufs: u}, nil
}

func (e *Env) Close() { os.RemoveAll(e.Root) }

// tap records the bytes the client receives, so that replies can be decoded independently.
type tap struct {
	net.Conn
	mu sync.Mutex
	fr wire.Framer
	on bool
}

func (t *tap) Read(b []byte) (int, error) {
	n, err := t.Conn.Read(b)
	if n > 0 {
		t.mu.Lock()
		if t.on {
			t.fr.Feed(b[:n])
		}
		t.mu.Unlock()
	}
	return n, err
}

// Frames returns the complete frames received since the last call.
func (t *tap) Frames() [][]byte {
	t.mu.Lock()
	defer t.mu.Unlock()
	var out [][]byte
	for {
		f, err := t.fr.Next()
		if err != nil || f == nil {
			return out
		}
		out = append(out, f)
	}
}

type Conn struct {
	Clnt  *go9p.Clnt
	Tap   *tap
	Msize uint32
	Dotu  bool
	srvc  net.Conn
}

// Dial connects a new client with the given msize and dialect and attaches as uid 0.
func (e *Env) Dial(msize uint32, dotu bool, tapOn bool) (*Conn, error) {
	c1, c2 := net.Pipe()
	e.Ufs.NewConn(c1)
	t := &tap{Conn: c2, on: tapOn}
	clnt, err := go9p.Connect(t, msize, dotu)
	if err != nil {
		c2.Close()
		return nil, fmt.Errorf("connect msize=%d dotu=%v: %v", msize, dotu, err)
	}
	if clnt.Msize != msize || clnt.Dotu != dotu {
		clnt.Unmount()
		return nil, fmt.Errorf("negotiated msize=%d dotu=%v, wanted %d %v", clnt.Msize, clnt.Dotu, msize, dotu)
	}
	fid, err := clnt.Attach(nil, &hUser{0, uname(0)}, "")
	if err != nil {
		clnt.Unmount()
		return nil, fmt.Errorf("attach: %v", err)
	}
	clnt.Root = fid
	return &Conn{Clnt: clnt, Tap: t, Msize: msize, Dotu: dotu, srvc: c1}, nil
}

func (c *Conn) Close() { c.Clnt.Unmount() }

// ---------------------------------------------------------------- patterns and extents

// Pat is byte number o of pattern w; pattern 0 is all zero (holes).
func Pat(w int, o int) byte {
	if w == 0 {
		return 0
	}
	x := uint32(o)*2654435761 + uint32(w)*0x9E3779B1
	x ^= x >> 15
	x *= 0x85EBCA6B
	x ^= x >> 13
	return byte(x) ^ byte(o)
}

// Extent mirrors UfsData!Ext.
type Extent struct {
	W int `json:"w"`
	P int `json:"p"`
	N int `json:"n"`
}

func Expand(x []Extent) []byte {
	n := 0
	for _, e := range x {
		n += e.N
	}
	b := make([]byte, 0, n)
	for _, e := range x {
		for i := 0; i < e.N; i++ {
			b = append(b, Pat(e.W, e.P+i))
		}
	}
	return b
}

func PatBuf(w, n int) []byte {
	b := make([]byte, n)
	for i := range b {
		b[i] = Pat(w, i)
	}
	return b
}

// firstDiff returns the first index at which a and b differ (or the shorter length), -1 if equal.
func firstDiff(a, b []byte) int {
	n := len(a)
	if len(b) < n {
		n = len(b)
	}
	for i := 0; i < n; i++ {
		if a[i] != b[i] {
			return i
		}
	}
	if len(a) != len(b) {
		return n
	}
	return -1
}

// ---------------------------------------------------------------- stat sizes (twin)

// lookupName is what Ufs's non-.u branch does with os/user: the user name of the numeric id,
// for uid and (sic) gid alike, else the number.
func lookupName(id int) string {
	s := strconv.Itoa(id)
	if u, err := user.LookupId(s); err == nil {
		return u.Username
	}
	return s
}

// StatSize is the wire size (including size[2]) of the stat record of a plain file or directory
// named name owned by uid/gid, computed with the independent encoder.
func StatSize(name string, uid, gid int, dotu bool) int {
	st := wire.Stat{Name: name}
	if dotu {
		st.Uid, st.Gid, st.Muid = uname(uid), gname(gid), "none"
	} else {
		st.Uid, st.Gid, st.Muid = lookupName(uid), lookupName(gid), ""
	}
	return len(wire.EncodeStat(&st, dotu))
}

func bclass(v, iu int) string {
	// boundary class of a number relative to iounit, for stable violation keys
	switch {
	case v == 0:
		return "0"
	case v == 1:
		return "1"
	case iu > 0 && v%iu == 0:
		return fmt.Sprintf("%diu", v/iu)
	case iu > 0 && v%iu == iu-1:
		return fmt.Sprintf("%diu-1", v/iu+1)
	case iu > 0 && v%iu == 1:
		return fmt.Sprintf("%diu+1", v/iu)
	case v < iu:
		return "<iu"
	default:
		return fmt.Sprintf("%diu+x", v/iu)
	}
}
