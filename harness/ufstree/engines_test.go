package ufstree

import (
	"encoding/json"
	"fmt"
	"io"
	"log"
	"os"
	"strconv"
	"syscall"
	"testing"
)

type engineCfg struct {
	Tree      string `json:"tree"`
	Dotu      bool   `json:"dotu"`
	Fids      []int  `json:"fids"`
	Prop      string `json:"prop"`
	Alphabets []int  `json:"alphabets"`
	MaxCases  int    `json:"max_cases"`
}

func envInt(k string, d int) int {
	if v, err := strconv.Atoi(os.Getenv(k)); err == nil {
		return v
	}
	return d
}

func scratch() string {
	b := os.Getenv("VERIF_SCRATCH")
	if b == "" {
		b = os.TempDir()
	}
	d, err := os.MkdirTemp(b, "ufstree-")
	if err != nil {
		panic(err)
	}
	return d
}

type cand struct {
	Key    string `json:"key"`
	What   string `json:"what"`
	Replay any    `json:"replay"`
	Cases  []int  `json:"cases"`
}

// agg collects the discrepancies of the property under check.  The replay engine reports them as
// candidates (with the ids of the cases they occurred in): the check turns a candidate into a
// violation only if TLC accepted the case (model = twin).  The random engine has no model: its
// discrepancies are violations directly.
type agg struct {
	rep     *Report
	seen    map[string]int
	cands   map[string]*cand
	order   []string
	other   map[string]int
	prop    string
	drift   int
	stopped int
	direct  bool
}

func newAgg(engine, prop string, direct bool) *agg {
	return &agg{rep: &Report{Engine: engine, Stats: map[string]any{}}, seen: map[string]int{}, other: map[string]int{},
		cands: map[string]*cand{}, prop: prop, direct: direct}
}

func (a *agg) add(c *Case, id int, replay any) {
	want := map[string]string{"C16": "c16", "C17": "c17", "C18": "c18"}[a.prop]
	for _, d := range c.Discs {
		if d.Diverged {
			a.stopped++
		}
		switch {
		case d.Class == want:
			a.seen[d.Key]++
			k := a.cands[d.Key]
			if k == nil {
				k = &cand{Key: d.Key, What: d.What, Replay: replay}
				a.cands[d.Key] = k
				a.order = append(a.order, d.Key)
			}
			if len(k.Cases) < 50 && (len(k.Cases) == 0 || k.Cases[len(k.Cases)-1] != id) {
				k.Cases = append(k.Cases, id)
			}
		case d.Class == "drift":
			a.drift++
		default:
			a.other[d.Class]++
		}
	}
}

func (a *agg) finish() {
	cs := []*cand{}
	for _, k := range a.order {
		cs = append(cs, a.cands[k])
		if a.direct {
			a.rep.Violations = append(a.rep.Violations, Violation{Key: k, What: a.cands[k].What, Replay: a.cands[k].Replay})
		}
	}
	if !a.direct {
		a.rep.Stats["candidates"] = cs
	}
	a.rep.Stats["violation_occurrences"] = a.seen
	a.rep.Stats["discrepancies_of_other_properties"] = a.other
	a.rep.Stats["drift_on_special_names"] = a.drift
	a.rep.Stats["cases_stopped_early"] = a.stopped
	a.rep.Stats["fd_leaks"] = FdLeaks
}

// TestReplay executes TLC-generated behaviours of spec/UfsTree.tla (VERIF_BEH, ndjson) on the
// twin tree and through 9P on a real Ufs, writes the twin trace for TLC (VERIF_TRACE) and reports
// the discrepancies of the property under check.
func TestReplay(t *testing.T) {
	log.SetOutput(io.Discard)
	syscall.Umask(0o022)
	var cfg engineCfg
	if err := json.Unmarshal([]byte(os.Getenv("VERIF_CFGJSON")), &cfg); err != nil {
		t.Fatalf("VERIF_CFGJSON: %v", err)
	}
	behs, err := ReadBehaviours(os.Getenv("VERIF_BEH"))
	if err != nil {
		t.Fatalf("behaviours: %v", err)
	}
	seed := envInt("VERIF_SEED", 1)
	base := scratch()
	defer os.RemoveAll(base)
	tracePath := os.Getenv("VERIF_TRACE")
	if tracePath != "" {
		_ = os.Remove(tracePath)
	}
	a := newAgg("ufstree.replay", cfg.Prop, false)
	distinct := map[string]bool{}
	steps := 0
	for i, b := range behs {
		if cfg.MaxCases > 0 && i >= cfg.MaxCases {
			break
		}
		alpha := (seed + b.ID) % 4
		if len(cfg.Alphabets) > 0 {
			alpha = cfg.Alphabets[(seed+b.ID)%len(cfg.Alphabets)]
		}
		cc := CaseCfg{Tree: cfg.Tree, Dotu: cfg.Dotu, Alphabet: alpha, Fids: cfg.Fids, Prop: cfg.Prop}
		c, err := NewCase(fmt.Sprintf("%s/%d", base, i), cc, func(root string) (*Sess, error) {
			return NewSess(StartUfs(root, cfg.Dotu), cfg.Dotu)
		})
		if err != nil {
			a.rep.Inconclusive = append(a.rep.Inconclusive, fmt.Sprintf("case %d: setup: %v", b.ID, err))
			break
		}
		err = c.Run(b.ID, b.Steps)
		if err != nil {
			a.rep.Inconclusive = append(a.rep.Inconclusive, fmt.Sprintf("case %d: %v", b.ID, err))
		}
		if tracePath != "" {
			if err := WriteTrace(tracePath, c.Trace); err != nil {
				t.Fatalf("trace: %v", err)
			}
		}
		a.add(c, b.ID, map[string]any{"engine": "ufstree.replay", "cfg": cfg, "alphabet": alpha, "case": b.ID, "steps": b.Steps})
		for _, s := range b.Steps {
			distinct[fmt.Sprint(s)] = true
		}
		steps += c.Steps
		if len(a.rep.Samples) < 4 && len(b.Steps) > 2 {
			a.rep.Samples = append(a.rep.Samples, map[string]any{"case": b.ID, "alphabet": alpha, "steps": b.Steps})
		}
		c.Close()
		a.rep.Cases++
	}
	a.rep.Distinct = len(distinct)
	a.rep.Stats["steps_executed"] = steps
	a.finish()
	if err := a.rep.Write(); err != nil {
		t.Fatal(err)
	}
	fmt.Fprintf(os.Stderr, "replay: %d cases, %d steps, %d violation keys, other=%v drift=%d inconclusive=%d\n",
		a.rep.Cases, steps, len(a.order), a.other, a.drift, len(a.rep.Inconclusive))
}
