package ufstree

import (
	"encoding/json"
	"fmt"
	"io"
	"log"
	"net"
	"os"
	"path/filepath"
	"syscall"
	"testing"

	"verif/harness/wire"
)

// The mode bits that exist in 9P2000.u only.
const dotuOnlyBits = 0x02000000 | 0x01000000 | 0x00800000 | 0x00200000 | 0x00100000 | 0x00080000 | 0x00040000

// statDialect tells in which dialect one stat record is encoded, by its layout and by its content:
// a record laid out as plain 9P2000 that carries a mode bit only 9P2000.u defines is not plain 9P2000.
func statDialect(b []byte) (string, *wire.Stat) {
	su, _, eu := wire.DecodeStat(b, true)
	sn, _, en := wire.DecodeStat(b, false)
	switch {
	case eu == nil && en != nil:
		return "u", su
	case en == nil && eu != nil:
		if sn.Mode&dotuOnlyBits != 0 {
			return "u", sn
		}
		return "n", sn
	}
	return "?", nil
}

// dirDialect: the dialect of the records of a directory read (all must agree).
func dirDialect(data []byte) (string, int) {
	out := ""
	n := 0
	for len(data) > 0 {
		if len(data) < 2 {
			return "?", n
		}
		sz := 2 + (int(data[0]) | int(data[1])<<8)
		if sz > len(data) {
			return "?", n
		}
		d, _ := statDialect(data[:sz])
		if d == "?" || (out != "" && d != out) {
			return "?", n
		}
		out = d
		data = data[sz:]
		n++
	}
	return out, n
}

// TestNegoUfs: the Unix file server's stat replies and directory entries for every kind of object the host
// can hold (file, directory, symlink, FIFO, socket, set-id files), on connections negotiated to either dialect
// at several msizes.  Every frame becomes one line for spec/NegoTrace.tla (frame within msize, reply in the
// negotiated dialect, no more data than asked).
func TestNegoUfs(t *testing.T) {
	log.SetOutput(io.Discard)
	syscall.Umask(0o022)
	base := scratch()
	defer os.RemoveAll(base)
	root := filepath.Join(base, "root")
	objects := buildSpecialTree(t, root)
	must := func(err error) {
		if err != nil {
			t.Fatal(err)
		}
	}
	kindBit := func(fi os.FileInfo) uint32 {
		var b uint32
		m := fi.Mode()
		if m&os.ModeSymlink != 0 {
			b |= 0x02000000
		}
		if m&os.ModeNamedPipe != 0 {
			b |= 0x00200000
		}
		if m&os.ModeSocket != 0 {
			b |= 0x00100000
		}
		if m&os.ModeSetuid != 0 {
			b |= 0x00080000
		}
		if m&os.ModeSetgid != 0 {
			b |= 0x00040000
		}
		return b
	}

	tw, err := os.Create(os.Getenv("VERIF_TRACE_OUT"))
	must(err)
	defer tw.Close()
	enc := json.NewEncoder(tw)
	rep := &Report{Engine: "ufstree.negoufs", Stats: map[string]any{}}
	frames, stats, entries := 0, 0, 0
	seen := map[string]bool{}
	viol := func(key, what string, replay any) {
		if !seen[key] {
			seen[key] = true
			rep.Violations = append(rep.Violations, Violation{Key: key, What: what, Replay: replay})
		}
	}
	id := 200000
	for _, sdotu := range []bool{false, true} {
		for _, ver := range []string{"9P2000", "9P2000.u"} {
			for _, cm := range []uint32{8216, 256, 120} {
				id++
				u := StartUfs(root, sdotu)
				smsize := int(u.Msize)
				c, s := net.Pipe()
				u.NewConn(s)
				se := &Sess{c: c, srv: s}
				enc.Encode(map[string]any{"act": "reset", "case": id, "smsize": smsize, "sdotu": sdotu})
				r, err := se.rpcRaw(&wire.Msg{Type: wire.Tversion, Tag: wire.NOTAG, Msize: cm, Version: ver}, false)
				if err != nil || r.Type != wire.Rversion {
					rep.Inconclusive = append(rep.Inconclusive, fmt.Sprintf("case %d: no Rversion: %v", id, err))
					c.Close()
					continue
				}
				enc.Encode(map[string]any{"act": "frame", "size": int(r.Size), "kind": "Rversion", "dialect": "", "count": -1, "data": 0})
				enc.Encode(map[string]any{"act": "version", "m": int(cm), "v": ver, "obs": map[string]any{"type": "Rversion", "msize": int(r.Msize), "version": r.Version}})
				nd := r.Version == "9P2000.u"
				se.Dotu = nd
				se.Msz = r.Msize
				cs := map[string]any{"case": id, "sdotu": sdotu, "version": ver, "msize": cm}
				frame := func(r *wire.Msg, dialect string, count, data int) {
					enc.Encode(map[string]any{"act": "frame", "size": int(r.Size), "kind": wire.TypeName(r.Type), "dialect": dialect, "count": count, "data": data})
					frames++
				}
				rpc := func(m *wire.Msg) *wire.Msg {
					r, err := se.Rpc(m)
					if err != nil {
						rep.Inconclusive = append(rep.Inconclusive, fmt.Sprintf("case %d: %s: %v", id, wire.TypeName(m.Type), err))
						return nil
					}
					return r
				}
				if r := rpc(&wire.Msg{Type: wire.Tattach, Fid: 0, Afid: wire.NOFID, Uname: "root", Aname: ""}); r == nil || r.Type != wire.Rattach {
					c.Close()
					continue
				}
				fid := uint32(10)
				for _, p := range objects {
					fid++
					w := rpc(&wire.Msg{Type: wire.Twalk, Fid: 0, Newfid: fid, Wname: p})
					if w == nil || w.Type != wire.Rwalk || len(w.Wqid) != len(p) {
						continue // the socket may not exist on this host
					}
					m := &wire.Msg{Type: wire.Tstat, Fid: fid}
					se.tag++
					m.Tag = se.tag
					raw, err := se.rawFrame(m)
					if err != nil {
						rep.Inconclusive = append(rep.Inconclusive, fmt.Sprintf("case %d: Tstat %v: %v", id, p, err))
						break
					}
					if raw[4] == wire.Rstat && len(raw) >= 9 {
						d, st := statDialect(raw[9:])
						enc.Encode(map[string]any{"act": "frame", "size": len(raw), "kind": "Rstat", "dialect": d, "count": -1, "data": 0})
						frames++
						stats++
						if fi, e := os.Lstat(filepath.Join(append([]string{root}, p...)...)); e == nil && st != nil && nd {
							if want := kindBit(fi); st.Mode&dotuOnlyBits&^0x01800000 != want {
								viol(fmt.Sprintf("c12:dotu-stat-kind-bits:%s", fi.Mode().Type()), fmt.Sprintf("9P2000.u Rstat of %v: mode %#x, host kind bits %#x", p, st.Mode, want), cs)
							}
						}
					} else {
						enc.Encode(map[string]any{"act": "frame", "size": len(raw), "kind": wire.TypeName(raw[4]), "dialect": "", "count": -1, "data": 0})
						frames++
					}
					rpc(&wire.Msg{Type: wire.Tclunk, Fid: fid})
				}
				// directory reads of the root and of d, in windows of every size the msize allows
				for di, p := range [][]string{{}, {"d"}} {
					for _, cnt := range []uint32{se.Msz - 24, (se.Msz - 24) / 2, 97} {
						if cnt > se.Msz-24 {
							continue
						}
						fid = 50 + uint32(di)
						if w := rpc(&wire.Msg{Type: wire.Twalk, Fid: 0, Newfid: fid, Wname: p}); w == nil || w.Type != wire.Rwalk {
							continue
						}
						if o := rpc(&wire.Msg{Type: wire.Topen, Fid: fid, Mode: 0}); o == nil || o.Type != wire.Ropen {
							rpc(&wire.Msg{Type: wire.Tclunk, Fid: fid})
							continue
						}
						off := uint64(0)
						for k := 0; k < 64; k++ {
							r := rpc(&wire.Msg{Type: wire.Tread, Fid: fid, Offset: off, Count: cnt})
							if r == nil || r.Type != wire.Rread {
								if r != nil {
									frame(r, "", -1, 0)
								}
								break
							}
							d, n := dirDialect(r.Data)
							frame(r, d, int(cnt), len(r.Data))
							entries += n
							if len(r.Data) == 0 {
								break
							}
							off += uint64(len(r.Data))
						}
						rpc(&wire.Msg{Type: wire.Tclunk, Fid: fid})
					}
				}
				c.Close()
				rep.Cases++
			}
		}
	}
	rep.Distinct = rep.Cases
	rep.Stats["frames"] = frames
	rep.Stats["stats"] = stats
	rep.Stats["dir_entries"] = entries
	rep.Stats["objects"] = len(objects)
	must(rep.Write())
}

// rawFrame sends m and returns the reply frame undecoded.
func (s *Sess) rawFrame(m *wire.Msg) ([]byte, error) {
	pkt := wire.Encode(m, s.Dotu)
	werr := make(chan error, 1)
	go func() { _, e := s.c.Write(pkt); werr <- e }()
	var hdr [4]byte
	if _, err := io.ReadFull(s.c, hdr[:]); err != nil {
		return nil, err
	}
	n := uint32(hdr[0]) | uint32(hdr[1])<<8 | uint32(hdr[2])<<16 | uint32(hdr[3])<<24
	if n < 7 || n > 1<<20 {
		return nil, fmt.Errorf("reply declares size %d", n)
	}
	buf := make([]byte, n)
	copy(buf, hdr[:])
	if _, err := io.ReadFull(s.c, buf[4:]); err != nil {
		return nil, err
	}
	if e := <-werr; e != nil {
		return nil, e
	}
	return buf, nil
}

// buildSpecialTree makes a tree holding every kind of object the host can hold without privileges and returns
// the paths of its objects (components from the root).
func buildSpecialTree(t *testing.T, root string) [][]string {
	must := func(err error) {
		if err != nil {
			t.Fatal(err)
		}
	}
	must(os.MkdirAll(filepath.Join(root, "d"), 0o755))
	must(os.WriteFile(filepath.Join(root, "f"), []byte("data"), 0o644))
	must(os.Symlink("f", filepath.Join(root, "l")))
	must(os.Symlink("nowhere", filepath.Join(root, "dangling")))
	must(syscall.Mkfifo(filepath.Join(root, "p"), 0o644))
	must(syscall.Mkfifo(filepath.Join(root, "d", "p2"), 0o600))
	must(os.WriteFile(filepath.Join(root, "su"), []byte("x"), 0o755))
	must(os.Chmod(filepath.Join(root, "su"), 0o755|os.ModeSetuid))
	must(os.WriteFile(filepath.Join(root, "sg"), []byte("x"), 0o755))
	must(os.Chmod(filepath.Join(root, "sg"), 0o755|os.ModeSetgid))
	must(os.Mkdir(filepath.Join(root, "sgd"), 0o755))
	must(os.Chmod(filepath.Join(root, "sgd"), 0o755|os.ModeSetgid))
	if l, err := net.Listen("unix", filepath.Join(root, "s")); err == nil {
		l.(*net.UnixListener).SetUnlinkOnClose(false)
		l.Close()
	}
	objects := [][]string{{}, {"d"}, {"f"}, {"l"}, {"dangling"}, {"p"}, {"d", "p2"}, {"su"}, {"sg"}, {"sgd"}, {"s"}}
	return objects
}
