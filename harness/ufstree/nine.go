package ufstree

import (
	"encoding/binary"
	"fmt"
	"io"
	"net"
	"os"
	"path/filepath"
	"sync"

	"verif/harness/wire"

	"github.com/rminnich/go9p"
)

var (
	logOnce   sync.Once
	sharedLog *go9p.Logger
)

var ufsCount int

// rootSpelling: the exported directory as an administrator might write it -- the same directory, not always in
// canonical form (every fourth server gets the canonical spelling's neighbours in turn).
func rootSpelling(root string, n int) string {
	dir, base := filepath.Dir(root), filepath.Base(root)
	switch n % 8 {
	case 1:
		return root + "/"
	case 3:
		return root + "/."
	case 5:
		return dir + "//" + base
	case 7:
		return root + "/../" + base
	}
	return root
}

// StartUfs starts a real go9p.Ufs exporting root.
func StartUfs(root string, dotu bool) *go9p.Ufs {
	logOnce.Do(func() { sharedLog = go9p.NewLogger(64) })
	u := new(go9p.Ufs)
	u.Dotu = dotu
	u.Id = "ufstree"
	ufsCount++
	u.Root = rootSpelling(root, ufsCount)
	u.Log = sharedLog
	u.Msize = 65536 + go9p.IOHDRSZ
	if !u.Start(u) {
		panic("Ufs.Start failed")
	}
	return u
}

// Sess is a raw 9P session (independent codec) with a real server over net.Pipe.
type Sess struct {
	c    net.Conn
	srv  net.Conn
	Dotu bool
	tag  uint16
	Msz  uint32
	Dead error
}

func NewSess(u *go9p.Ufs, dotu bool) (*Sess, error) {
	c, s := net.Pipe()
	u.NewConn(s)
	se := &Sess{c: c, srv: s, Dotu: dotu}
	ver := "9P2000"
	if dotu {
		ver = "9P2000.u"
	}
	// Tversion is encoded without dialect-specific fields
	r, err := se.rpcRaw(&wire.Msg{Type: wire.Tversion, Tag: wire.NOTAG, Msize: 65536 + 24, Version: ver}, false)
	if err != nil {
		return nil, err
	}
	if r.Type != wire.Rversion || r.Version != ver {
		return nil, fmt.Errorf("version negotiation: got type %d version %q", r.Type, r.Version)
	}
	se.Msz = r.Msize
	return se, nil
}

func (s *Sess) Close() {
	_ = s.c.Close()
}

func (s *Sess) rpcRaw(m *wire.Msg, dotu bool) (*wire.Msg, error) {
	if s.Dead != nil {
		return nil, s.Dead
	}
	pkt := wire.Encode(m, dotu)
	werr := make(chan error, 1)
	go func() { _, e := s.c.Write(pkt); werr <- e }()
	var hdr [4]byte
	if _, err := io.ReadFull(s.c, hdr[:]); err != nil {
		s.Dead = fmt.Errorf("reading reply: %w", err)
		return nil, s.Dead
	}
	n := binary.LittleEndian.Uint32(hdr[:])
	if n < 7 || n > 1<<20 {
		s.Dead = fmt.Errorf("reply declares size %d", n)
		return nil, s.Dead
	}
	buf := make([]byte, n)
	copy(buf, hdr[:])
	if _, err := io.ReadFull(s.c, buf[4:]); err != nil {
		s.Dead = fmt.Errorf("reading reply body: %w", err)
		return nil, s.Dead
	}
	if e := <-werr; e != nil {
		s.Dead = e
		return nil, e
	}
	r, err := wire.Decode(buf, dotu)
	if err != nil {
		return nil, fmt.Errorf("undecodable reply to %s: %v", wire.TypeName(m.Type), err)
	}
	if r.Tag != m.Tag {
		return nil, fmt.Errorf("reply tag %d to request tag %d", r.Tag, m.Tag)
	}
	return r, nil
}

// Rpc sends m with a fresh tag and returns the reply (Rerror included).
func (s *Sess) Rpc(m *wire.Msg) (*wire.Msg, error) {
	s.tag = (s.tag + 1) % 1000
	m.Tag = s.tag
	r, err := s.rpcRaw(m, s.Dotu)
	if err != nil {
		return nil, err
	}
	if r.Type != m.Type+1 && r.Type != wire.Rerror {
		return nil, fmt.Errorf("reply type %s to %s", wire.TypeName(r.Type), wire.TypeName(m.Type))
	}
	return r, nil
}

const (
	DMDIR     = 0x80000000
	DMSYMLINK = 0x02000000
	DMLINK    = 0x01000000
	QTDIR     = 0x80
	QTSYMLINK = 0x02
)

// DontTouch is the Twstat stat that changes nothing.
func DontTouch() wire.Stat {
	return wire.Stat{Type: 0xFFFF, Dev: 0xFFFFFFFF, Qid: wire.Qid{Type: 0xFF, Vers: 0xFFFFFFFF, Path: ^uint64(0)},
		Mode: 0xFFFFFFFF, Atime: 0xFFFFFFFF, Mtime: 0xFFFFFFFF, Length: ^uint64(0),
		Uidnum: 0xFFFFFFFF, Gidnum: 0xFFFFFFFF, Muidnum: 0xFFFFFFFF}
}

func qidKind(t uint8) string {
	switch {
	case t&QTDIR != 0 && t&QTSYMLINK != 0:
		return "DL"
	case t&QTDIR != 0:
		return "D"
	case t&QTSYMLINK != 0:
		return "L"
	}
	return "F"
}

func init() {
	// Ufs.Wstat prints with fmt.Printf; keep the engines' stdout readable.
	if os.Getenv("VERIF_UFS_STDOUT") == "" {
		if f, err := os.OpenFile(os.DevNull, os.O_WRONLY, 0); err == nil {
			os.Stdout = f
		}
	}
}
