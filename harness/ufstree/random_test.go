package ufstree

import (
	"fmt"
	"io"
	"log"
	"math/rand"
	"net"
	"os"
	"strings"
	"syscall"
	"testing"

	"github.com/rminnich/go9p"
)

// ---------------------------------------------------------------- random trees

func genName(r *rand.Rand, allowLong bool) string {
	for {
		var s string
		switch r.Intn(9) {
		case 0:
			s = string(rune('a' + r.Intn(26)))
		case 1:
			s = fmt.Sprintf("n%d", r.Intn(50))
		case 2:
			s = fmt.Sprintf("with space %d", r.Intn(9))
		case 3: // raw non-ASCII bytes (not valid UTF-8)
			b := make([]byte, 1+r.Intn(6))
			for i := range b {
				b[i] = byte(0x80 + r.Intn(0x80))
			}
			s = string(b)
		case 4:
			s = []string{"é", "日本語", "ü ö", "→x"}[r.Intn(4)] + fmt.Sprint(r.Intn(9))
		case 5:
			s = []string{".hidden", "trailing.", "...", "..x", "x..", ". .", "a.b.c", ".. "}[r.Intn(8)]
		case 6:
			if allowLong {
				s = strings.Repeat(string(rune('A'+r.Intn(26))), 255)
			} else {
				s = strings.Repeat("l", 40)
			}
		case 7:
			s = " " + fmt.Sprint(r.Intn(9))
		default:
			s = fmt.Sprintf("f%c%d", 'a'+r.Intn(26), r.Intn(100))
		}
		if s != "." && s != ".." && s != "" && !strings.ContainsAny(s, "/\x00") {
			return s
		}
	}
}

var somePerms = []os.FileMode{0o644, 0o600, 0o755, 0o400, 0o777, 0o640, 0o000, 0o666}
var dirPerms = []os.FileMode{0o755, 0o700, 0o777, 0o750}

// genTree: a chain of directories `depth` deep (short names, so that host paths stay below
// PATH_MAX) with files, directories, symlinks and hard links hanging off it.
func genTree(r *rand.Rand, depth int, wide bool) []RawNode {
	var nodes []RawNode
	var files []string
	used := map[string]bool{}
	add := func(n RawNode) bool {
		if used[n.Path] {
			return false
		}
		used[n.Path] = true
		nodes = append(nodes, n)
		if n.Kind == 'F' {
			files = append(files, n.Path)
		}
		return true
	}
	join := func(d, n string) string {
		if d == "" {
			return n
		}
		return d + "/" + n
	}
	content := func() []byte {
		b := make([]byte, []int{0, 1, 7, 64, 65, 200, 5000}[r.Intn(7)])
		r.Read(b)
		return b
	}
	side := func(dir string, long bool) {
		for i, k := 0, r.Intn(4); i < k; i++ {
			n := join(dir, genName(r, long))
			switch r.Intn(6) {
			case 0, 1, 2:
				add(RawNode{Path: n, Kind: 'F', Perm: somePerms[r.Intn(len(somePerms))], Data: content()})
			case 3:
				if add(RawNode{Path: n, Kind: 'D', Perm: dirPerms[r.Intn(len(dirPerms))]}) && r.Intn(2) == 0 {
					add(RawNode{Path: join(n, genName(r, false)), Kind: 'F', Perm: 0o644, Data: content()})
				}
			case 4:
				tgt := []string{".", "dangling target", "n1"}[r.Intn(3)]
				if len(files) > 0 && r.Intn(2) == 0 { // a sibling-relative or in-tree target
					f := files[r.Intn(len(files))]
					if strings.HasPrefix(f, dir+"/") && dir != "" {
						tgt = f[len(dir)+1:]
					}
				}
				add(RawNode{Path: n, Kind: 'L', Tgt: tgt})
			case 5:
				if len(files) > 0 {
					add(RawNode{Path: n, Kind: 'H', Tgt: files[r.Intn(len(files))]})
				}
			}
		}
	}
	dir := ""
	side(dir, true)
	if wide {
		add(RawNode{Path: "wide", Kind: 'D', Perm: 0o755})
		for i := 0; i < 300; i++ {
			add(RawNode{Path: fmt.Sprintf("wide/w%03d", i), Kind: 'F', Perm: 0o644, Data: []byte{byte(i)}})
		}
	}
	for d := 0; d < depth; d++ {
		n := string(rune('a'+r.Intn(26))) + fmt.Sprint(r.Intn(10))
		if d%7 == 3 {
			n = genName(r, false)
			if len(n) > 20 {
				n = n[:20]
			}
			if n == "." || n == ".." {
				n = "q"
			}
		}
		if !add(RawNode{Path: join(dir, n), Kind: 'D', Perm: dirPerms[r.Intn(len(dirPerms))]}) {
			continue
		}
		dir = join(dir, n)
		if r.Intn(3) == 0 || d == depth-1 {
			side(dir, d < 3)
		}
	}
	return nodes
}

// ---------------------------------------------------------------- random steps

var c18Specials = []string{"..", ".", "", "/", "a/b", "/a", "../cs", "../cd", "../../ca", "../x", "../../x", "a/../../cs", "/../cs", "/../x", "../cd/cf", "../root", "../.."}

type stepGen struct {
	r    *rand.Rand
	c    *Case
	prop string
	fids []int
}

func (g *stepGen) usedFids() (used, free []int) {
	for _, f := range g.fids {
		if g.c.T.fid(f).Used {
			used = append(used, f)
		} else {
			free = append(free, f)
		}
	}
	return
}

// below: host-relative component lists of the objects strictly below fid path p.
func (g *stepGen) below(p []string) [][]string {
	pre := "/" + strings.Join(clean(p), "/")
	var out [][]string
	for _, e := range g.c.lb.Ents {
		if strings.HasPrefix(e.HostP, pre+"/") {
			out = append(out, strings.Split(e.HostP[len(pre)+1:], "/"))
		}
	}
	return out
}

func anys(ss []string) []any {
	out := make([]any, len(ss))
	for i, s := range ss {
		out[i] = s
	}
	return out
}

func (g *stepGen) special() string { return c18Specials[g.r.Intn(len(c18Specials))] }

func (g *stepGen) next() []any {
	r := g.r
	used, free := g.usedFids()
	c18 := g.prop == "C18"
	if len(used) == 0 || (len(free) > 0 && r.Intn(12) == 0) {
		an := ""
		if r.Intn(3) == 0 {
			if b := g.below(rootPath); len(b) > 0 {
				an = strings.Join(b[r.Intn(len(b))], "/")
			}
		}
		if c18 && r.Intn(2) == 0 {
			an = g.special()
		}
		return []any{"Attach", float64(free[0]), an}
	}
	f := used[r.Intn(len(used))]
	F := g.c.T.fid(f)
	ff := float64(f)
	atRoot := len(clean(F.Path)) <= len(rootPath)
	w := r.Intn(100)
	if g.prop == "C16" && w >= 45 && w < 92 && r.Intn(3) > 0 {
		w = r.Intn(45) // C16: mostly walks and stats
	}
	switch {
	case w < 35: // Walk
		nf := f
		if len(free) > 0 && r.Intn(3) > 0 {
			nf = free[r.Intn(len(free))]
		}
		var names []string
		if b := g.below(F.Path); len(b) > 0 && r.Intn(8) > 0 {
			names = append(names, b[r.Intn(len(b))]...)
			if len(names) > 16 {
				names = names[:16]
			}
			if r.Intn(2) == 0 {
				names = names[:r.Intn(len(names)+1)]
			}
		}
		switch r.Intn(4) {
		case 0: // a missing element somewhere, then more
			k := r.Intn(len(names) + 1)
			names = append(append(append([]string{}, names[:k]...), "no such name"), names[k:]...)
		case 1:
			if c18 {
				k := r.Intn(len(names) + 1)
				names = append(append(append([]string{}, names[:k]...), g.special()), names[k:]...)
			}
		}
		if len(names) > 16 {
			names = names[:16]
		}
		return []any{"Walk", ff, float64(nf), anys(names)}
	case w < 45:
		return []any{"Stat", ff}
	case w < 55:
		if F.Open >= 0 { // Topen on an open fid belongs to the fid-table rules (C04/C05)
			return []any{"Stat", ff}
		}
		return []any{"Open", ff, float64([]int{0, 1, 2, 3, 16, 17, 18}[r.Intn(7)])}
	case w < 70: // Create
		name := genName(r, len(F.Path) < 5)
		if b := g.below(F.Path); len(b) > 0 && r.Intn(4) == 0 {
			name = b[r.Intn(len(b))][0] // an existing name
		}
		if c18 && r.Intn(2) == 0 {
			name = g.special()
		}
		switch k := r.Intn(8); {
		case k < 4:
			return []any{"Create", ff, name, "F", float64(somePerms[r.Intn(len(somePerms))]), float64([]int{0, 1, 2, 17, 18}[r.Intn(5)]), "", float64(0)}
		case k < 6:
			return []any{"Create", ff, name, "D", float64(dirPerms[r.Intn(len(dirPerms))]), float64(0), "", float64(0)}
		case k < 7:
			return []any{"Create", ff, name, "L", float64(420), float64(0), []string{"dangling", ".", "n1", "a"}[r.Intn(4)], float64(0)}
		default:
			g2 := used[r.Intn(len(used))]
			if g2 == f {
				return []any{"Stat", ff}
			}
			return []any{"Create", ff, name, "H", float64(420), float64(0), "", float64(g2)}
		}
	case w < 76:
		if atRoot || dotted(F.Path) {
			return []any{"Stat", ff}
		}
		return []any{"Remove", ff}
	case w < 84: // Rename
		if atRoot || dotted(F.Path) {
			return []any{"Stat", ff}
		}
		nn := genName(r, false)
		c := clean(F.Path)
		if b := g.below(c[:len(c)-1]); len(b) > 0 && r.Intn(3) == 0 {
			nn = b[r.Intn(len(b))][0] // occupied sibling name
		}
		if r.Intn(5) == 0 {
			nn = "/" + nn
		}
		if c18 && r.Intn(2) == 0 {
			nn = g.special()
			if nn == "" {
				nn = "/.."
			}
		}
		if r.Intn(2) == 0 { // one Twstat that renames and also sets length / mode / mtime
			ln, pm, mt := g.wstatFields(F, 1+r.Intn(7))
			return []any{"Wstat", ff, nn, ln, pm, mt}
		}
		return []any{"Rename", ff, nn}
	case w < 88:
		if r.Intn(3) == 0 { // several fields, no rename
			ln, pm, mt := g.wstatFields(F, []int{3, 5, 6, 7}[r.Intn(4)])
			return []any{"Wstat", ff, "", ln, pm, mt}
		}
		ln, _, _ := g.wstatFields(F, 1)
		return []any{"Truncate", ff, ln}
	case w < 92:
		return []any{"Chmod", ff, float64(somePerms[r.Intn(len(somePerms))])}
	case w < 95:
		return []any{"Mtime", ff, float64(2 + r.Intn(8))}
	case w < 98:
		return []any{"Write", ff, float64(r.Intn(80)), float64(1 + r.Intn(40))}
	}
	return []any{"Clunk", ff}
}

// wstatFields: values for the fields selected by mask (1 length, 2 mode, 4 mtime), "don't touch" otherwise.
func (g *stepGen) wstatFields(F *TFid, mask int) (ln, pm, mt float64) {
	r := g.r
	ln, pm, mt = -1, -1, 0
	if mask&1 != 0 {
		sz := 0
		if s, err := StatPath(g.c.B, F.Path, true); err == nil {
			sz = int(s.Size)
		}
		n := []int{0, sz - 1, sz, sz + 1, sz + 100, 1}[r.Intn(6)]
		if n < 0 {
			n = 0
		}
		ln = float64(n)
	}
	if mask&2 != 0 {
		pm = float64(somePerms[r.Intn(len(somePerms))])
	}
	if mask&4 != 0 {
		mt = float64(2 + r.Intn(8))
	}
	return
}

// ---------------------------------------------------------------- the real client on deep paths

func clientChecks(c *Case, u *go9p.Ufs, r *rand.Rand, a *agg, replay any) error {
	cl, sv := net.Pipe()
	u.NewConn(sv)
	clnt, err := go9p.Connect(cl, 65536+go9p.IOHDRSZ, c.Cfg.Dotu)
	if err != nil {
		return fmt.Errorf("client connect: %v", err)
	}
	defer clnt.Unmount()
	root, err := clnt.Attach(nil, go9p.OsUsers.Uid2User(0), "")
	if err != nil {
		return fmt.Errorf("client attach: %v", err)
	}
	clnt.Root = root
	// paths of depth 0 resolve to the root itself
	if rfi, e := os.Lstat(c.A.Root); e == nil {
		for _, p0 := range []string{"", "/", "//"} {
			f, werr := clnt.FWalk(p0)
			if werr != nil {
				c.disc("c16", "c16:client-fwalk:depth0:error", fmt.Sprintf("FWalk(%q) fails: %v", p0, werr), false)
				continue
			}
			if f.Qid.Path != ino(rfi) || f.Qid.Type&go9p.QTDIR == 0 {
				c.disc("c16", "c16:client-fwalk:depth0:qid", fmt.Sprintf("FWalk(%q) returns a fid with qid %v; the root has inode %d and is a directory", p0, f.Qid, ino(rfi)), false)
			}
			_ = clnt.Clunk(f)
		}
	}
	la, err := c.A.List()
	if err != nil {
		return err
	}
	var in []Ent
	deepest := 0
	for i, e := range la.Ents {
		if strings.HasPrefix(e.HostP, "/mid/root/") {
			in = append(in, e)
			if strings.Count(e.HostP, "/") > strings.Count(la.Ents[deepest].HostP, "/") {
				deepest = i
			}
		}
	}
	if len(in) == 0 {
		return nil
	}
	picks := []Ent{la.Ents[deepest]}
	for i := 0; i < 12; i++ {
		picks = append(picks, in[r.Intn(len(in))])
	}
	mutate := len(picks)
	if len(in) > 250 { // a wide tree: stat every object, so that every pair of coexisting qids is compared
		picks = append(picks, in...)
	}
	for pi, e := range picks {
		if !strings.HasPrefix(e.HostP, "/mid/root/") {
			continue
		}
		rel := e.HostP[len("/mid/root/"):]
		if fi, err := os.Lstat(c.A.Top + e.HostP); err == nil { // earlier creates may have touched it
			e.Mtime, e.Size, e.Perm = fi.ModTime().Unix(), fi.Size(), int(fi.Mode().Perm())
		} else {
			continue
		}
		n := strings.Count(rel, "/") + 1
		d, err := clnt.FStat(rel)
		if err != nil {
			c.disc("c16", fmt.Sprintf("c16:client-fstat:error:twalks=%d", (n+15)/16),
				fmt.Sprintf("FStat(%q) (%d elements) fails: %v; the local path exists", rel, n, err), false)
			continue
		}
		var ds []string
		if s := c.N.checkQid(d.Qid.Path, e.Ino, la); s != "" {
			ds = append(ds, s)
		}
		if k := qidKind(d.Qid.Type); k != e.K {
			ds = append(ds, fmt.Sprintf("kind(qid.type) %s, host %s", k, e.K))
		}
		if int64(d.Length) != e.Size {
			ds = append(ds, fmt.Sprintf("length %d, host %d", d.Length, e.Size))
		}
		if int64(d.Mtime) != e.Mtime {
			ds = append(ds, fmt.Sprintf("mtime %d, host %d", d.Mtime, e.Mtime))
		}
		if e.K != "L" && int(d.Mode&0o777) != e.Perm {
			ds = append(ds, fmt.Sprintf("perm %o, host %o", d.Mode&0o777, e.Perm))
		}
		if d.Name != rel[strings.LastIndex(rel, "/")+1:] {
			ds = append(ds, fmt.Sprintf("name %q, host %q", d.Name, rel[strings.LastIndex(rel, "/")+1:]))
		}
		if len(ds) > 0 {
			c.disc("c16", fmt.Sprintf("c16:client-fstat:%s:twalks=%d", strings.Fields(ds[0])[0], (n+15)/16),
				fmt.Sprintf("FStat(%q) (%d elements): %s", rel, n, strings.Join(ds, "; ")), false)
		}
		// a path whose last element is missing must not resolve
		if _, err := clnt.FStat(rel + " missing"); err == nil {
			c.disc("c16", "c16:client-fstat:missing-resolves", fmt.Sprintf("FStat(%q) succeeds", rel+" missing"), false)
		}
		// create and remove below a deep directory through the client, same on the twin
		if e.K == "D" && pi < mutate {
			nn := genName(r, false)
			p9 := rel + "/" + nn
			perm := somePerms[r.Intn(len(somePerms))]
			f, err9 := clnt.FCreate(p9, uint32(perm), go9p.OWRITE)
			ft, errt := os.OpenFile(c.B.Top+e.HostP+"/"+nn, os.O_WRONLY|os.O_CREATE, perm)
			if ft != nil {
				_ = ft.Close()
			}
			if f != nil {
				_ = f.Close()
			}
			if (err9 == nil) != (errt == nil) {
				c.disc("c17", "c17:client-fcreate:result", fmt.Sprintf("FCreate(%q): %v; twin: %v", p9, err9, errt), true)
			}
			if r.Intn(2) == 0 && err9 == nil && errt == nil {
				err9 = clnt.FRemove(p9)
				errt = os.Remove(c.B.Top + e.HostP + "/" + nn)
				if (err9 == nil) != (errt == nil) {
					c.disc("c17", "c17:client-fremove:result", fmt.Sprintf("FRemove(%q): %v; twin: %v", p9, err9, errt), true)
				}
			}
		}
	}
	la, err = c.A.List()
	if err != nil {
		return err
	}
	lb, err := c.B.List()
	if err != nil {
		return err
	}
	if d := DiffListings(la, lb, "in"); d != "" {
		c.disc("c17", "c17:client-fcreate:tree", "after FCreate/FRemove through the client: "+d, true)
	}
	if d := DiffListings(la, c.outA0, "out"); d != "" {
		c.disc("c18", "c18:outside-changed:client", "after client operations: outside the exported root: "+d, true)
	}
	return nil
}

// TestRandom: seeded random large trees and random operation sequences, twin versus 9P.
func TestRandom(t *testing.T) {
	log.SetOutput(io.Discard)
	syscall.Umask(0o022)
	seed := int64(envInt("VERIF_SEED", 1))
	prop := os.Getenv("VERIF_PROP")
	ncases := envInt("VERIF_CASES", 20)
	nsteps := envInt("VERIF_STEPS", 150)
	base := scratch()
	defer os.RemoveAll(base)
	a := newAgg("ufstree.random", prop, true)
	steps := 0
	maxDepth, maxWalk, twalks := 0, 0, 0
	only := envInt("VERIF_ONLY_CASE", -1)
	for i := 0; i < ncases; i++ {
		if only >= 0 && i != only {
			continue
		}
		r := rand.New(rand.NewSource(seed*1000003 + int64(i)))
		dotu := i%3 != 2
		depth := 3 + r.Intn(38)
		if i%4 == 0 {
			depth = 40
		}
		if depth > maxDepth {
			maxDepth = depth
		}
		nodes := genTree(r, depth, i%5 == 1)
		cc := CaseCfg{Tree: "random", Dotu: dotu, Alphabet: 0, Fids: []int{1, 2, 3, 4, 5}, Prop: prop}
		var ufs *go9p.Ufs
		c, err := NewCaseWith(fmt.Sprintf("%s/%d", base, i), cc,
			func(b string, nm *NameMap) (*World, error) {
				return BuildRawWorld(b, nodes, &NameMap{Fwd: map[string]string{}, Rev: map[string]string{}})
			},
			func(root string) (*Sess, error) { ufs = StartUfs(root, dotu); return NewSess(ufs, dotu) })
		if err != nil {
			a.rep.Inconclusive = append(a.rep.Inconclusive, fmt.Sprintf("case %d: setup: %v", i, err))
			break
		}
		c.NoTrace = true
		var done [][]any
		if err := c.Begin(i); err != nil {
			a.rep.Inconclusive = append(a.rep.Inconclusive, fmt.Sprintf("case %d: %v", i, err))
			c.Close()
			break
		}
		g := &stepGen{r: r, c: c, prop: prop, fids: cc.Fids}
		div := false
		for s := 0; s < nsteps && !div; s++ {
			st := g.next()
			done = append(done, st)
			if toStr(st[0]) == "Walk" {
				if n := len(toStrs(st[3])); n > maxWalk {
					maxWalk = n
				}
			}
			div, err = c.Step(st)
			if err != nil {
				a.rep.Inconclusive = append(a.rep.Inconclusive, fmt.Sprintf("case %d step %d %v: %v", i, s, st, err))
				div = true
			}
		}
		if !div {
			if err := clientChecks(c, ufs, r, a, nil); err != nil {
				a.rep.Inconclusive = append(a.rep.Inconclusive, fmt.Sprintf("case %d: client: %v", i, err))
			}
			twalks += (depth + 15) / 16
		}
		a.add(c, i, map[string]any{"engine": "ufstree.random", "seed": seed, "case": i, "cases": ncases, "nsteps": nsteps, "prop": prop, "dotu": dotu, "depth": depth, "steps": done})
		steps += c.Steps
		if len(a.rep.Samples) < 3 && len(done) > 6 {
			a.rep.Samples = append(a.rep.Samples, map[string]any{"case": i, "dotu": dotu, "depth": depth, "nodes": len(nodes), "first_steps": done[:6]})
		}
		c.Close()
		a.rep.Cases++
	}
	a.rep.Distinct = steps
	a.rep.Stats["steps_executed"] = steps
	a.rep.Stats["max_depth"] = maxDepth
	a.rep.Stats["max_walk_elements"] = maxWalk
	a.finish()
	if err := a.rep.Write(); err != nil {
		t.Fatal(err)
	}
	fmt.Fprintf(os.Stderr, "random: %d cases, %d steps, %d violation keys, other=%v drift=%d inconclusive=%v\n",
		a.rep.Cases, steps, len(a.order), a.other, a.drift, a.rep.Inconclusive)
}
