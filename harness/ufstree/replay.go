package ufstree

import (
	"bufio"
	"encoding/json"
	"fmt"
	"os"
	"runtime/debug"
	"sort"
	"strings"
	"time"

	"verif/harness/wire"
)

// Disc is one discrepancy between the 9P side and the twin (whose observations TLC validates
// against the model).  Class: which property it breaks.  Diverged: the states of the two sides
// differ from here on, the case stops.
type Disc struct {
	Class    string
	Key      string
	What     string
	Diverged bool
}

type Violation struct {
	Key    string `json:"key"`
	What   string `json:"what"`
	Replay any    `json:"replay"`
}

type Report struct {
	Engine       string         `json:"engine"`
	Cases        int            `json:"cases"`
	Distinct     int            `json:"distinct"`
	Samples      []any          `json:"samples"`
	Violations   []Violation    `json:"violations"`
	Inconclusive []string       `json:"inconclusive"`
	Stats        map[string]any `json:"stats"`
}

func (r *Report) Write() error {
	p := os.Getenv("VERIF_OUT")
	if p == "" {
		return nil
	}
	if r.Stats == nil {
		r.Stats = map[string]any{}
	}
	if r.Samples == nil {
		r.Samples = []any{}
	}
	if r.Violations == nil {
		r.Violations = []Violation{}
	}
	if r.Inconclusive == nil {
		r.Inconclusive = []string{}
	}
	b, err := json.Marshal(r)
	if err != nil {
		return err
	}
	return os.WriteFile(p, b, 0o644)
}

type Behaviour struct {
	ID    int     `json:"id"`
	Steps [][]any `json:"steps"`
}

func ReadBehaviours(path string) ([]Behaviour, error) {
	f, err := os.Open(path)
	if err != nil {
		return nil, err
	}
	defer f.Close()
	var out []Behaviour
	sc := bufio.NewScanner(f)
	sc.Buffer(make([]byte, 1<<20), 1<<26)
	for sc.Scan() {
		if len(strings.TrimSpace(sc.Text())) == 0 {
			continue
		}
		var b Behaviour
		if err := json.Unmarshal(sc.Bytes(), &b); err != nil {
			return nil, err
		}
		for _, st := range b.Steps {
			if len(st) > 0 && toStr(st[0]) == "StatF" { // the action is called StatF in the module (Stat is the POSIX operator)
				st[0] = "Stat"
			}
		}
		out = append(out, b)
	}
	return out, sc.Err()
}

// Nine is the 9P side of a case.
type Nine struct {
	W    *World
	S    *Sess
	Dotu bool
	// qid.path <-> inode of objects that exist now in the 9P tree (QidIdentity)
	q2i map[uint64]uint64
	i2q map[uint64]uint64
}

const fidBase = 100

func (n *Nine) errObs(r *wire.Msg) Obs {
	o := errObs(int(r.Ecode))
	o.Ename = r.Ename
	return o
}

// Do sends the request of one model action and decodes the reply.
func (n *Nine) Do(step []any) (Obs, error) {
	nm := n.W.NM
	act := toStr(step[0])
	fid := uint32(fidBase + toInt(step[1]))
	var m *wire.Msg
	switch act {
	case "Attach":
		m = &wire.Msg{Type: wire.Tattach, Fid: fid, Afid: wire.NOFID, Uname: "root", Aname: nm.Raw(toStr(step[2])), Unamenum: 0}
	case "Walk":
		names := toStrs(step[3])
		hn := make([]string, len(names))
		for i, s := range names {
			hn[i] = nm.Raw(s)
		}
		m = &wire.Msg{Type: wire.Twalk, Fid: fid, Newfid: uint32(fidBase + toInt(step[2])), Wname: hn}
	case "Stat":
		m = &wire.Msg{Type: wire.Tstat, Fid: fid}
	case "Open":
		m = &wire.Msg{Type: wire.Topen, Fid: fid, Mode: uint8(toInt(step[2]))}
	case "Create":
		kind, perm, ext := toStr(step[3]), uint32(toInt(step[4])), ""
		switch kind {
		case "D":
			perm |= DMDIR
		case "L":
			perm |= DMSYMLINK
			ext = nm.Raw(toStr(step[6]))
		case "H":
			perm |= DMLINK
			ext = itoa(fidBase + toInt(step[7]))
		case "P":
			perm |= 0x00200000 // DMNAMEDPIPE
		}
		m = &wire.Msg{Type: wire.Tcreate, Fid: fid, Name: nm.Raw(toStr(step[2])), Perm: perm, Mode: uint8(toInt(step[5])), Ext: ext}
	case "Remove":
		m = &wire.Msg{Type: wire.Tremove, Fid: fid}
	case "Rename":
		st := DontTouch()
		st.Name = nm.Raw(toStr(step[2]))
		m = &wire.Msg{Type: wire.Twstat, Fid: fid, Stat: st}
	case "Truncate":
		st := DontTouch()
		st.Length = uint64(toInt(step[2]))
		m = &wire.Msg{Type: wire.Twstat, Fid: fid, Stat: st}
	case "Chmod":
		st := DontTouch()
		st.Mode = uint32(toInt(step[2]))
		// the same Twstat also sets the access time, which no property looks at: the modification time must stay
		st.Atime = 1000000007
		m = &wire.Msg{Type: wire.Twstat, Fid: fid, Stat: st}
	case "Mtime":
		st := DontTouch()
		st.Mtime = uint32(MtBase + toInt(step[2]))
		m = &wire.Msg{Type: wire.Twstat, Fid: fid, Stat: st}
	case "Wstat":
		st := DontTouch()
		st.Name = nm.Raw(toStr(step[2]))
		if v := toInt(step[3]); v >= 0 {
			st.Length = uint64(v)
		}
		if v := toInt(step[4]); v >= 0 {
			st.Mode = uint32(v)
		}
		if v := toInt(step[5]); v > 0 {
			st.Mtime = uint32(MtBase + v)
		}
		m = &wire.Msg{Type: wire.Twstat, Fid: fid, Stat: st}
	case "Write":
		b := make([]byte, toInt(step[3]))
		for i := range b {
			b[i] = 2
		}
		m = &wire.Msg{Type: wire.Twrite, Fid: fid, Offset: uint64(toInt(step[2])), Data: b}
	case "Clunk":
		m = &wire.Msg{Type: wire.Tclunk, Fid: fid}
	default:
		return Obs{}, fmt.Errorf("nine: unknown action %q", act)
	}
	r, err := n.S.Rpc(m)
	if err != nil {
		return Obs{}, err
	}
	if r.Type == wire.Rerror {
		return n.errObs(r), nil
	}
	o := okObs()
	switch r.Type {
	case wire.Rattach, wire.Ropen, wire.Rcreate:
		o.Qids = []QidObs{{K: qidKind(r.Qid.Type), Ino: r.Qid.Path}}
	case wire.Rwalk:
		for _, q := range r.Wqid {
			o.Qids = append(o.Qids, QidObs{K: qidKind(q.Type), Ino: q.Path})
		}
	case wire.Rstat:
		o.St = n.statObs(&r.Stat)
	case wire.Rwrite:
		if int(r.Count) != toInt(step[3]) {
			o.Res = "short"
		}
	}
	return o, nil
}

func (n *Nine) statObs(s *wire.Stat) *StatObs {
	k := "F"
	switch {
	case s.Mode&DMDIR != 0:
		k = "D"
	case s.Mode&DMSYMLINK != 0:
		k = "L"
	}
	o := &StatObs{K: k, QK: qidKind(s.Qid.Type), Perm: int(s.Mode & 0o777), Len: int(s.Length), Size: int64(s.Length), RawName: s.Name,
		Name: n.W.NM.Back(s.Name), Mtime: int64(s.Mtime), Ino: s.Qid.Path, RawTgt: s.Ext, Tgt: n.W.backPath(s.Ext)}
	return o
}

// Stat9 probes fid number f with Tstat.
func (n *Nine) Stat9(f int) (Obs, error) {
	r, err := n.S.Rpc(&wire.Msg{Type: wire.Tstat, Fid: uint32(fidBase + f)})
	if err != nil {
		return Obs{}, err
	}
	if r.Type == wire.Rerror {
		return n.errObs(r), nil
	}
	o := okObs()
	o.St = n.statObs(&r.Stat)
	return o, nil
}

// checkQid: QidIdentity bookkeeping.  wantIno is the inode of the object the qid must denote.
func (n *Nine) checkQid(q uint64, wantIno uint64, la *Listing) string {
	if i, ok := n.q2i[q]; ok && i != wantIno {
		if _, alive := la.ByIno[i]; alive {
			return fmt.Sprintf("qid.path %d was given for inode %d and now for the coexisting inode %d", q, i, wantIno)
		}
	}
	if q0, ok := n.i2q[wantIno]; ok && q0 != q {
		return fmt.Sprintf("inode %d had qid.path %d and now %d", wantIno, q0, q)
	}
	n.q2i[q] = wantIno
	n.i2q[wantIno] = q
	return ""
}

func (n *Nine) forgetDead(la *Listing) {
	for i, q := range n.i2q {
		if _, ok := la.ByIno[i]; !ok {
			delete(n.i2q, i)
			if n.q2i[q] == i {
				delete(n.q2i, q)
			}
		}
	}
}

// statAgainstHost: the Rstat of an object versus os.Lstat of the corresponding host path in the
// 9P tree (exact values) -- C16 StatAgrees.
func (n *Nine) statAgainstHost(got *StatObs, p []string, la *Listing) []string {
	var out []string
	want, err := StatPath(n.W, p, n.Dotu)
	if err != nil {
		return []string{fmt.Sprintf("Rstat for a path that does not exist on the host: %v", err)}
	}
	if got.K != want.K && !(want.K == "L" && !n.Dotu && got.K == "F") {
		out = append(out, fmt.Sprintf("kind(mode bits) %s, host %s", got.K, want.K))
	}
	if got.QK != want.K {
		out = append(out, fmt.Sprintf("kind(qid.type) %s, host %s", got.QK, want.K))
	}
	if want.K != "L" && got.Perm != want.Perm {
		out = append(out, fmt.Sprintf("perm %o, host %o", got.Perm, want.Perm))
	}
	if got.Size != want.Size {
		out = append(out, fmt.Sprintf("length %d, host %d", got.Size, want.Size))
	}
	if got.Mtime != want.Mtime {
		out = append(out, fmt.Sprintf("mtime %d, host %d", got.Mtime, want.Mtime))
	}
	if !dotted(p) && got.RawName != want.RawName {
		out = append(out, fmt.Sprintf("name %q, host %q", got.RawName, want.RawName))
	}
	if n.Dotu && want.K == "L" && got.RawTgt != want.RawTgt {
		out = append(out, fmt.Sprintf("link target %q, host %q", got.RawTgt, want.RawTgt))
	}
	if s := n.checkQid(got.Ino, want.Ino, la); s != "" {
		out = append(out, s)
	}
	return out
}

// ---------------------------------------------------------------- one case

type CaseCfg struct {
	Tree     string
	Dotu     bool
	Alphabet int
	Fids     []int
	Prop     string // C16 | C17 | C18: which class of discrepancies is a violation of the running check
}

type TraceLine map[string]any

type Case struct {
	Cfg     CaseCfg
	A, B    *World
	N       *Nine
	T       *Twin
	Base    string
	Trace   []TraceLine
	Discs   []Disc
	outA0   *Listing
	Steps   int
	la, lb  *Listing
	prevB   string
	NoTrace bool
}

func plainName(s string) bool {
	return s != "" && s != "." && s != ".." && !strings.Contains(s, "/")
}

func nameClass(names []string) string {
	var sp []string
	for _, s := range names {
		if !plainName(s) {
			sp = append(sp, s)
		}
	}
	if len(sp) == 0 {
		return "plain"
	}
	return strings.Join(sp, ",")
}

// opSig: a stable, seed-free description of the operation and its argument class.
func (c *Case) opSig(step []any, tw Obs, pre map[int]TFid) string {
	act := toStr(step[0])
	F := pre[toInt(step[1])]
	switch act {
	case "Attach":
		return fmt.Sprintf("Attach:aname=%q", toStr(step[2]))
	case "Walk":
		names := toStrs(step[3])
		ip := 0
		if toInt(step[1]) == toInt(step[2]) {
			ip = 1
		}
		shape := "complete"
		switch {
		case len(names) == 0:
			shape = "clone"
		case tw.Res != "ok":
			shape = "none"
		case len(tw.Qids) < len(names):
			shape = "partial"
		}
		return fmt.Sprintf("Walk:inplace=%d:%s:names=%s", ip, shape, nameClass(names))
	case "Create":
		return fmt.Sprintf("Create:kind=%s:name=%s:mode=%d", toStr(step[3]), nameClass([]string{toStr(step[2])}), toInt(step[5]))
	case "Rename":
		return fmt.Sprintf("Rename:to=%s:kind=%s", nameClass([]string{strings.TrimPrefix(toStr(step[2]), "/")}), F.Qt)
	case "Open":
		return fmt.Sprintf("Open:mode=%d:kind=%s", toInt(step[2]), F.Qt)
	case "Truncate", "Chmod", "Mtime":
		return fmt.Sprintf("%s:kind=%s", act, F.Qt)
	case "Wstat":
		var set []string
		if s := toStr(step[2]); s != "" {
			set = append(set, "rename("+nameClass([]string{strings.TrimPrefix(s, "/")})+")")
		}
		if toInt(step[3]) >= 0 {
			set = append(set, "length")
		}
		if toInt(step[4]) >= 0 {
			set = append(set, "mode")
		}
		if toInt(step[5]) > 0 {
			set = append(set, "mtime")
		}
		return fmt.Sprintf("Wstat:set=%s:kind=%s", strings.Join(set, "+"), F.Qt)
	case "Remove", "Stat":
		return fmt.Sprintf("%s:kind=%s", act, F.Qt)
	}
	return act
}

func specialStep(step []any) bool {
	switch toStr(step[0]) {
	case "Attach":
		s := toStr(step[2])
		for _, c := range strings.Split(s, "/") {
			if c == ".." || c == "." {
				return true
			}
		}
		return strings.HasPrefix(s, "/") || strings.HasSuffix(s, "/") && s != ""
	case "Walk":
		return nameClass(toStrs(step[3])) != "plain"
	case "Create":
		return !plainName(toStr(step[2]))
	case "Rename", "Wstat": // a leading '/' means "relative to the root", inner '/' a path: both legitimate
		if toStr(step[2]) == "" {
			return false
		}
		for _, c := range strings.Split(strings.TrimPrefix(toStr(step[2]), "/"), "/") {
			if !plainName(c) {
				return true
			}
		}
	}
	return false
}

var readOps = map[string]bool{"Attach": true, "Walk": true, "Stat": true, "Clunk": true}

func NewCase(base string, cfg CaseCfg, ufsFor func(root string) (*Sess, error)) (*Case, error) {
	return NewCaseWith(base, cfg, func(b string, nm *NameMap) (*World, error) { return BuildWorld(b, cfg.Tree, nm) }, ufsFor)
}

func NewCaseWith(base string, cfg CaseCfg, build func(base string, nm *NameMap) (*World, error), ufsFor func(root string) (*Sess, error)) (*Case, error) {
	nm := NewNameMap(cfg.Alphabet)
	a, err := build(base+"/nine", nm)
	if err != nil {
		return nil, err
	}
	b, err := build(base+"/twin", nm)
	if err != nil {
		return nil, err
	}
	s, err := ufsFor(a.Root)
	if err != nil {
		return nil, err
	}
	c := &Case{Cfg: cfg, A: a, B: b, Base: base,
		N: &Nine{W: a, S: s, Dotu: cfg.Dotu, q2i: map[uint64]uint64{}, i2q: map[uint64]uint64{}},
		T: NewTwin(b, cfg.Dotu)}
	return c, nil
}

// FdLeaks: files under an exported root that the server still had open after its only connection was gone (C11: the
// Unix file server closes every file it opened for that connection).
var FdLeaks []string

// openUnder lists the descriptors of this process that designate something under root; it polls until there is none or the
// (real) time is up: the teardown of a connection runs in the server's own goroutines.
func openUnder(root string, wait time.Duration) []string {
	deadline := time.Now().Add(wait)
	for {
		var open []string
		ents, _ := os.ReadDir("/proc/self/fd")
		for _, e := range ents {
			if t, err := os.Readlink("/proc/self/fd/" + e.Name()); err == nil && (t == root || strings.HasPrefix(t, root+"/")) {
				open = append(open, strings.TrimPrefix(t, root))
			}
		}
		if len(open) == 0 || time.Now().After(deadline) {
			return open
		}
		time.Sleep(5 * time.Millisecond)
	}
}

func (c *Case) Close() {
	// (an *os.File that has become unreachable is closed by the garbage collector sooner or later: keep it from running
	// while the server's own teardown is given the time to close what it opened)
	gc := debug.SetGCPercent(-1)
	defer debug.SetGCPercent(gc)
	c.N.S.Close()
	c.T.CloseAll()
	if open := openUnder(c.A.Root, 1500*time.Millisecond); len(open) > 0 && len(FdLeaks) < 20 {
		FdLeaks = append(FdLeaks, fmt.Sprintf("%d file(s) of the exported tree still open after the client disconnected: %v (steps so far %d)", len(open), open, c.Steps))
	}
	_ = os.RemoveAll(c.Base)
}

func (c *Case) disc(class, key, what string, diverged bool) {
	if os.Getenv("VERIF_DEBUG") != "" {
		fmt.Fprintf(os.Stderr, "DISC step %d %s %s -- %s\n", c.Steps, class, key, what)
	}
	c.Discs = append(c.Discs, Disc{Class: class, Key: key, What: what, Diverged: diverged})
}

func clsOf(l *Listing, q *QidObs) { q.Cls = l.Class(q.Ino) }

func (c *Case) traceLine(step []any, tw Obs, lb *Listing, withTree bool) TraceLine {
	st := map[string]any{"k": "-", "perm": 0, "len": 0, "name": "", "mt": 0, "tgt": "", "cls": [][]string{}}
	if tw.St != nil {
		tw.St.Cls = lb.Class(tw.St.Ino)
		b, _ := json.Marshal(tw.St)
		_ = json.Unmarshal(b, &st)
	}
	for i := range tw.Qids {
		clsOf(lb, &tw.Qids[i])
	}
	args := step[1:]
	if args == nil {
		args = []any{}
	}
	ln := TraceLine{"act": toStr(step[0]), "args": args,
		"o": map[string]any{"res": tw.Res, "perr": tw.Perr, "qids": tw.Qids, "st": st}, "m": 0}
	fids := [][]any{}
	for _, f := range c.Cfg.Fids {
		F := c.T.fid(f)
		u := 0
		p := []string{}
		if F.Used {
			u = 1
			p = c.B.modelPath(F.Path)
		}
		fids = append(fids, []any{u, p, F.Open})
	}
	ln["fids"] = fids
	if withTree {
		ln["m"] = 1
		ln["tree"] = lb.Ents
		ln["links"] = lb.Links()
	}
	return ln
}

// Begin lists both worlds, checks that they start equal and writes the Reset line.
func (c *Case) Begin(id int) error {
	la, err := c.A.List()
	if err != nil {
		return err
	}
	lb, err := c.B.List()
	if err != nil {
		return err
	}
	c.outA0 = la
	c.la, c.lb = la, lb
	if d := DiffListings(la, lb, ""); d != "" {
		return fmt.Errorf("initial trees differ: %s", d)
	}
	if !c.NoTrace {
		c.Trace = append(c.Trace, TraceLine{"act": "Reset", "case": id, "args": []any{}, "m": 1, "tree": lb.Ents, "links": lb.Links()})
	}
	c.prevB = fmt.Sprint(lb.Ents, lb.Links())
	return nil
}

// Run executes the steps; it stops at the first divergence of states.
func (c *Case) Run(id int, steps [][]any) error {
	if err := c.Begin(id); err != nil {
		return err
	}
	for _, step := range steps {
		div, err := c.Step(step)
		if err != nil {
			return err
		}
		if div {
			break
		}
	}
	return nil
}

// Step executes one action on the twin and through 9P and compares.
func (c *Case) Step(step []any) (bool, error) {
	var la, lb *Listing
	{
		c.Steps++
		act := toStr(step[0])
		if os.Getenv("VERIF_DEBUG") == "2" {
			fmt.Fprintf(os.Stderr, "STEP %d %v\n", c.Steps, step)
		}
		pre := map[int]TFid{}
		for k, v := range c.T.Fids {
			pre[k] = *v
		}
		tw, err := c.T.Do(step)
		if err != nil {
			return false, err
		}
		nn, err := c.N.Do(step)
		if err != nil {
			return false, fmt.Errorf("9P session: %v", err)
		}
		la, err = c.A.List()
		if err != nil {
			return false, err
		}
		lb, err = c.B.List()
		if err != nil {
			return false, err
		}
		c.la, c.lb = la, lb
		sigB := fmt.Sprint(lb.Ents, lb.Links())
		if !c.NoTrace {
			c.Trace = append(c.Trace, c.traceLine(step, tw, lb, sigB != c.prevB))
		}
		c.prevB = sigB
		c.N.forgetDead(la)

		sig := c.opSig(step, tw, pre)
		special := specialStep(step)
		cls := "c17"
		if readOps[act] {
			cls = "c16"
		}
		if special {
			cls = "drift" // the semantics of names outside the plain vocabulary is judged by confinement only
		}
		diverged := false

		// ---- C18: surroundings of the root, and what the replies denote
		if d := DiffListings(la, c.outA0, "out"); d != "" {
			c.disc("c18", "c18:outside-changed:"+sig, "after "+fmt.Sprint(step)+": outside the exported root: "+d, true)
			diverged = true
		}
		out := la.OutsideInos()
		rootIno := uint64(0)
		for _, e := range la.Ents {
			if e.HostP == "/mid/root" {
				rootIno = e.Ino
			}
		}
		for _, q := range nn.Qids {
			if hp, ok := out[q.Ino]; ok && q.Ino != rootIno {
				c.disc("c18", "c18:outside-qid:"+sig, fmt.Sprintf("%v: reply carries the qid of %q, outside the exported root", step, hp), false)
			}
		}

		// ---- result
		if tw.Res != nn.Res {
			c.disc(cls, cls+":result:"+sig+":want="+tw.Res+":got="+nn.Res,
				fmt.Sprintf("%v: twin/model %s, 9P %s %s", step, tw.Res, nn.Res, nn.Ename), false)
		}
		if c.Cfg.Dotu && (act == "Create" || act == "Remove") && tw.Res == "err" && nn.Res == "err" && tw.Perr > 0 && nn.Perr != tw.Perr {
			c.disc("c17", fmt.Sprintf("c17:errno:%s:want=%d:got=%d", sig, tw.Perr, nn.Perr),
				fmt.Sprintf("%v: the POSIX operation fails with errno %d, Rerror carries ecode %d (%s)", step, tw.Perr, nn.Perr, nn.Ename), false)
		}
		// ---- qids
		if tw.Res == "ok" && nn.Res == "ok" {
			if len(tw.Qids) != len(nn.Qids) {
				c.disc(cls, fmt.Sprintf("%s:nqid:%s:got=%d", cls, sig, len(nn.Qids)),
					fmt.Sprintf("%v: %d qids expected, %d in the reply", step, len(tw.Qids), len(nn.Qids)), false)
			} else {
				for i := range tw.Qids {
					// the object the twin reached, located in the 9P tree
					var want *Ent
					if ix := lb.ByIno[tw.Qids[i].Ino]; len(ix) > 0 {
						hp := lb.Ents[ix[0]].HostP
						for j := range la.Ents {
							if la.Ents[j].HostP == hp {
								want = &la.Ents[j]
							}
						}
					}
					if nn.Qids[i].K != tw.Qids[i].K {
						c.disc(cls, fmt.Sprintf("%s:qid-type:%s:i=%d:want=%s:got=%s", cls, sig, i, tw.Qids[i].K, nn.Qids[i].K),
							fmt.Sprintf("%v: qid %d has type %s, the object is %s", step, i, nn.Qids[i].K, tw.Qids[i].K), false)
					}
					if want != nil {
						if s := c.N.checkQid(nn.Qids[i].Ino, want.Ino, la); s != "" {
							c.disc(cls, fmt.Sprintf("%s:qid-path:%s:i=%d", cls, sig, i), fmt.Sprintf("%v: %s", step, s), false)
						}
					}
				}
			}
			if tw.St != nil && nn.St != nil {
				for _, s := range c.N.statAgainstHost(nn.St, c.T.fid(toInt(step[1])).Path, la) {
					c.disc(cls, fmt.Sprintf("%s:stat:%s:%s", cls, sig, strings.Fields(s)[0]), fmt.Sprintf("%v: Rstat %s", step, s), false)
				}
			}
		}
		// ---- trees
		if d := DiffListings(la, lb, "in"); d != "" {
			c.disc(cls, cls+":tree:"+sig+":res="+nn.Res, fmt.Sprintf("after %v (9P answered %s): %s", step, nn.Res, d), true)
			diverged = true
		}
		// ---- every fid, probed with Tstat
		for _, f := range c.Cfg.Fids {
			F := c.T.fid(f)
			got, err := c.N.Stat9(f)
			if err != nil {
				return false, fmt.Errorf("9P session: %v", err)
			}
			role := "other"
			if f == toInt(step[1]) {
				role = "fid"
			} else if act == "Walk" && f == toInt(step[2]) {
				role = "newfid"
			}
			pcls := cls
			if cls != "drift" {
				switch act {
				case "Walk", "Attach", "Stat", "Clunk", "Open":
					// (Topen is not one of the mutating requests of C17; what a fid designates and what its stat
					// says after it was opened is C16's "always")
					pcls = "c16"
				default:
					pcls = "c17"
				}
			}
			var exp *StatObs
			if F.Used {
				exp, _ = StatPath(c.A, F.Path, c.Cfg.Dotu)
			}
			if got.St != nil {
				if hp, ok := out[got.St.Ino]; ok && got.St.Ino != rootIno {
					c.disc("c18", "c18:fid-outside:"+sig+":"+role,
						fmt.Sprintf("after %v fid %d designates %q, outside the exported root", step, f, hp), true)
					diverged = true
					continue
				}
			}
			switch {
			case exp == nil && got.Res == "ok":
				c.disc(pcls, fmt.Sprintf("%s:probe:%s:%s:want=nofile:got=%s", pcls, sig, role, got.St.K),
					fmt.Sprintf("after %v Tstat on fid %d (%s) answers %q (%s); expected no such fid/file", step, f, role, got.St.RawName, got.St.K), true)
				diverged = true
			case exp != nil && got.Res != "ok":
				c.disc(pcls, fmt.Sprintf("%s:probe:%s:%s:want=%s:got=error", pcls, sig, role, exp.K),
					fmt.Sprintf("after %v Tstat on fid %d (%s) fails (%s); it should designate %v", step, f, role, got.Ename, c.A.modelPath(F.Path)), true)
				diverged = true
			case exp != nil:
				if ds := c.N.statAgainstHost(got.St, F.Path, la); len(ds) > 0 {
					moved := got.St.Ino != exp.Ino
					key := fmt.Sprintf("%s:probe:%s:%s:%s", pcls, sig, role, strings.Fields(ds[0])[0])
					if moved {
						key = fmt.Sprintf("%s:probe:%s:%s:other-object", pcls, sig, role)
					}
					c.disc(pcls, key, fmt.Sprintf("after %v Tstat on fid %d (%s), which should designate %v: %s",
						step, f, role, c.A.modelPath(F.Path), strings.Join(ds, "; ")), moved)
					diverged = diverged || moved
				}
			}
		}
		return diverged, nil
	}
}

func WriteTrace(path string, lines []TraceLine) error {
	f, err := os.OpenFile(path, os.O_CREATE|os.O_WRONLY|os.O_APPEND, 0o644)
	if err != nil {
		return err
	}
	defer f.Close()
	w := bufio.NewWriter(f)
	for _, l := range lines {
		b, err := json.Marshal(l)
		if err != nil {
			return err
		}
		w.Write(b)
		w.WriteByte('\n')
	}
	return w.Flush()
}

func sortedKeys(m map[string]int) []string {
	ks := make([]string, 0, len(m))
	for k := range m {
		ks = append(ks, k)
	}
	sort.Strings(ks)
	return ks
}
