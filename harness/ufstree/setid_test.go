package ufstree

import (
	"fmt"
	"io"
	"log"
	"os"
	"path/filepath"
	"syscall"
	"testing"

	"verif/harness/wire"
)

// TestSetid (C17): permission changes and creates that involve the set-uid / set-gid bits, through 9P on one
// copy and with the os package on a twin copy.  In 9P2000.u the bits DMSETUID/DMSETGID of a Twstat or Tcreate
// are part of the mode: chmod(2)/open(2) with S_ISUID/S_ISGID.  A Twstat mode without them is chmod(2) without
// them, which clears them -- also when the nine permission bits are the ones the object already has.
func TestSetid(t *testing.T) {
	log.SetOutput(io.Discard)
	syscall.Umask(0o022)
	base := scratch()
	defer os.RemoveAll(base)
	rep := &Report{Engine: "ufstree.setid", Stats: map[string]any{}}
	seen := map[string]bool{}
	steps := 0
	type step struct {
		name   string
		create bool
		mode   uint32      // 9P mode / perm of the request
		twin   os.FileMode // what the POSIX operation is given
		pre    os.FileMode // the object's mode before (wstat only)
		dir    bool
	}
	const su, sg = 0x00080000, 0x00040000
	for _, dotu := range []bool{true, false} {
		// on a plain connection the bits do not exist: the operation is the one without them
		x := func(m os.FileMode) os.FileMode {
			if dotu {
				return m
			}
			return m.Perm()
		}
		cases := []step{
			{name: "wstat-set-uid", mode: su | 0o755, twin: x(os.ModeSetuid | 0o755), pre: 0o644},
			{name: "wstat-set-gid", mode: sg | 0o750, twin: x(os.ModeSetgid | 0o750), pre: 0o644},
			{name: "wstat-set-both", mode: su | sg | 0o711, twin: x(os.ModeSetuid | os.ModeSetgid | 0o711), pre: 0o600},
			{name: "wstat-keep-uid-same-perm", mode: su | 0o755, twin: x(os.ModeSetuid | 0o755), pre: os.ModeSetuid | 0o755},
			{name: "wstat-clear-gid-same-perm", mode: 0o755, twin: 0o755, pre: os.ModeSetgid | 0o755},
			{name: "wstat-clear-uid-new-perm", mode: 0o700, twin: 0o700, pre: os.ModeSetuid | 0o755},
			{name: "wstat-dir-set-gid", mode: 0x80000000 | sg | 0o775, twin: x(os.ModeSetgid | 0o775), pre: 0o755, dir: true},
			{name: "wstat-dir-clear-gid-same-perm", mode: 0x80000000 | 0o755, twin: 0o755, pre: os.ModeSetgid | 0o755, dir: true},
			{name: "create-set-uid", create: true, mode: su | 0o755, twin: x(os.ModeSetuid | 0o755)},
			{name: "create-set-gid", create: true, mode: sg | 0o644, twin: x(os.ModeSetgid | 0o644)},
		}
		for ci, c := range cases {
			roots := [2]string{filepath.Join(base, fmt.Sprintf("n%v%d", dotu, ci)), filepath.Join(base, fmt.Sprintf("t%v%d", dotu, ci))}
			for _, r := range roots {
				if err := os.MkdirAll(r, 0o755); err != nil {
					t.Fatal(err)
				}
				if !c.create {
					p := filepath.Join(r, "x")
					var err error
					if c.dir {
						err = os.Mkdir(p, 0o755)
					} else {
						err = os.WriteFile(p, []byte("x"), 0o644)
					}
					if err == nil {
						err = os.Chmod(p, c.pre)
					}
					if err != nil {
						t.Fatal(err)
					}
				}
			}
			// twin: the POSIX operation
			var terr error
			if c.create {
				var f *os.File
				if f, terr = os.OpenFile(filepath.Join(roots[1], "x"), os.O_CREATE|os.O_RDONLY, c.twin); terr == nil {
					f.Close()
				}
			} else {
				terr = os.Chmod(filepath.Join(roots[1], "x"), c.twin)
			}
			// 9P
			u := StartUfs(roots[0], dotu)
			se, err := NewSess(u, dotu)
			if err != nil {
				t.Fatal(err)
			}
			var r *wire.Msg
			if r, err = se.Rpc(&wire.Msg{Type: wire.Tattach, Fid: 0, Afid: wire.NOFID, Uname: "root"}); err == nil && r.Type == wire.Rattach {
				if c.create {
					r, err = se.Rpc(&wire.Msg{Type: wire.Tcreate, Fid: 0, Name: "x", Perm: c.mode, Mode: 0})
				} else if r, err = se.Rpc(&wire.Msg{Type: wire.Twalk, Fid: 0, Newfid: 1, Wname: []string{"x"}}); err == nil && r.Type == wire.Rwalk {
					st := DontTouch()
					st.Mode = c.mode
					r, err = se.Rpc(&wire.Msg{Type: wire.Twstat, Fid: 1, Stat: st})
				}
			}
			se.Close()
			if err != nil {
				rep.Inconclusive = append(rep.Inconclusive, fmt.Sprintf("%s dotu=%v: %v", c.name, dotu, err))
				continue
			}
			steps++
			bad := func(what string) {
				key := fmt.Sprintf("c17:setid:%s", c.name)
				if !seen[key] {
					seen[key] = true
					rep.Violations = append(rep.Violations, Violation{Key: key, What: fmt.Sprintf("%s (dotu=%v, request mode %#o): %s", c.name, dotu, c.mode, what),
						Replay: map[string]any{"engine": "ufstree.setid", "case": c.name, "dotu": dotu}})
				}
			}
			ok9 := r.Type != wire.Rerror
			if ok9 != (terr == nil) {
				bad(fmt.Sprintf("9P answered %s, the POSIX operation: %v", wire.TypeName(r.Type), terr))
				continue
			}
			fn, e1 := os.Lstat(filepath.Join(roots[0], "x"))
			ft, e2 := os.Lstat(filepath.Join(roots[1], "x"))
			if (e1 == nil) != (e2 == nil) {
				bad(fmt.Sprintf("object exists through 9P: %v, on the twin: %v", e1 == nil, e2 == nil))
				continue
			}
			if e1 == nil && fn.Mode() != ft.Mode() {
				bad(fmt.Sprintf("mode of the object %v, after the POSIX operation on the twin %v", fn.Mode(), ft.Mode()))
			}
		}
		rep.Cases++
	}
	rep.Distinct = rep.Cases
	rep.Stats["steps_executed"] = steps
	if err := rep.Write(); err != nil {
		t.Fatal(err)
	}
}
