package ufstree

import (
	"fmt"
	"io"
	"log"
	"os"
	"path/filepath"
	"syscall"
	"testing"
	"time"

	"verif/harness/wire"
)

// TestSpecialStat (C16): qid and stat of every kind of object the host can hold -- FIFOs, a socket, live and
// dangling symlinks, set-id files and directories next to files and directories -- against os.Lstat, in both
// dialects: first stat, then a second stat of the SAME fid after the object was changed on the host (length,
// permission bits, mtime, set-id bits), then through a fresh fid reached by a multi-element walk.
func TestSpecialStat(t *testing.T) {
	log.SetOutput(io.Discard)
	syscall.Umask(0o022)
	base := scratch()
	defer os.RemoveAll(base)
	rep := &Report{Engine: "ufstree.specialstat", Stats: map[string]any{}}
	seen := map[string]bool{}
	evals := 0
	for _, dotu := range []bool{true, false} {
		root := filepath.Join(base, fmt.Sprintf("root%v", dotu))
		objects := buildSpecialTree(t, root)
		u := StartUfs(root, dotu)
		se, err := NewSess(u, dotu)
		if err != nil {
			t.Fatal(err)
		}
		rpc := func(m *wire.Msg) *wire.Msg {
			r, err := se.Rpc(m)
			if err != nil {
				rep.Inconclusive = append(rep.Inconclusive, fmt.Sprintf("dotu=%v %s: %v", dotu, wire.TypeName(m.Type), err))
				return nil
			}
			return r
		}
		if r := rpc(&wire.Msg{Type: wire.Tattach, Fid: 0, Afid: wire.NOFID, Uname: "root"}); r == nil || r.Type != wire.Rattach {
			t.Fatalf("attach: %v", r)
		}
		qidOf := map[uint64]uint64{} // qid.path -> inode
		compare := func(stage string, p []string, q wire.Qid, st *wire.Stat) {
			host := filepath.Join(append([]string{root}, p...)...)
			fi, err := os.Lstat(host)
			if err != nil {
				return
			}
			evals++
			kind := fi.Mode().Type().String()
			if fi.Mode()&(os.ModeSetuid|os.ModeSetgid) != 0 {
				kind += "+setid"
			}
			bad := func(field, what string) {
				key := fmt.Sprintf("c16:special-stat:%s:%s", field, kind)
				if !seen[key] {
					seen[key] = true
					rep.Violations = append(rep.Violations, Violation{Key: key, What: fmt.Sprintf("%s of %v (host kind %s, dotu=%v): %s", stage, p, kind, dotu, what),
						Replay: map[string]any{"engine": "ufstree.specialstat", "dotu": dotu, "path": p, "stage": stage}})
				}
			}
			in := fi.Sys().(*syscall.Stat_t).Ino
			if prev, ok := qidOf[q.Path]; ok && prev != in {
				bad("qid-shared", fmt.Sprintf("qid.path %d denotes the coexisting inodes %d and %d", q.Path, prev, in))
			}
			qidOf[q.Path] = in
			if (q.Type&QTDIR != 0) != fi.IsDir() {
				bad("qid-dir", fmt.Sprintf("qid.type %#x", q.Type))
			}
			if st == nil {
				return
			}
			if st.Qid.Path != q.Path {
				bad("qid-path", fmt.Sprintf("Rstat qid.path %d, walk qid.path %d", st.Qid.Path, q.Path))
			}
			if (st.Mode&DMDIR != 0) != fi.IsDir() {
				bad("dir-bit", fmt.Sprintf("mode %#x", st.Mode))
			}
			if dotu {
				var want uint32
				m := fi.Mode()
				for _, b := range []struct {
					h os.FileMode
					n uint32
				}{{os.ModeSymlink, 0x02000000}, {os.ModeNamedPipe, 0x00200000}, {os.ModeSocket, 0x00100000}, {os.ModeSetuid, 0x00080000}, {os.ModeSetgid, 0x00040000}} {
					if m&b.h != 0 {
						want |= b.n
					}
				}
				if got := st.Mode & dotuOnlyBits; got != want {
					bad("kind-bits", fmt.Sprintf("mode %#x, kind bits of the host object %#x", st.Mode, want))
				}
			} else if st.Mode&dotuOnlyBits != 0 {
				bad("kind-bits", fmt.Sprintf("mode %#x carries 9P2000.u bits on a plain connection", st.Mode))
			}
			if fi.Mode()&os.ModeSymlink == 0 && st.Mode&0o777 != uint32(fi.Mode().Perm()) {
				bad("perm", fmt.Sprintf("perm %o, host %o", st.Mode&0o777, fi.Mode().Perm()))
			}
			if st.Length != uint64(fi.Size()) {
				bad("length", fmt.Sprintf("length %d, host %d", st.Length, fi.Size()))
			}
			if int64(st.Mtime) != fi.ModTime().Unix() {
				bad("mtime", fmt.Sprintf("mtime %d, host %d", st.Mtime, fi.ModTime().Unix()))
			}
			if len(p) > 0 && st.Name != p[len(p)-1] {
				bad("name", fmt.Sprintf("name %q", st.Name))
			}
		}
		statFid := func(fid uint32) *wire.Stat {
			r := rpc(&wire.Msg{Type: wire.Tstat, Fid: fid})
			if r == nil || r.Type != wire.Rstat {
				return nil
			}
			return &r.Stat
		}
		fid := uint32(100)
		for _, p := range objects {
			fid++
			w := rpc(&wire.Msg{Type: wire.Twalk, Fid: 0, Newfid: fid, Wname: p})
			if w == nil || w.Type != wire.Rwalk || len(w.Wqid) != len(p) {
				continue
			}
			q := wire.Qid{Type: QTDIR}
			host := filepath.Join(append([]string{root}, p...)...)
			if len(p) > 0 {
				q = w.Wqid[len(p)-1]
			} else if fi, e := os.Lstat(root); e == nil {
				q.Path = fi.Sys().(*syscall.Stat_t).Ino
			}
			compare("first stat", p, q, statFid(fid))
			// the same fid after the object changed on the host
			if fi, e := os.Lstat(host); e == nil && len(p) > 0 && fi.Mode()&os.ModeSymlink == 0 {
				if fi.Mode().IsRegular() {
					_ = os.WriteFile(host, []byte("longer than before"), 0)
				}
				_ = os.Chmod(host, (fi.Mode().Perm()^0o111)|fi.Mode()&(os.ModeSetuid|os.ModeSetgid))
				_ = os.Chtimes(host, time.Unix(1234567890, 0), time.Unix(1234567890+int64(fid), 0))
				compare("second stat of the fid after a host-side change", p, q, statFid(fid))
				if fi.Mode()&(os.ModeSetuid|os.ModeSetgid) != 0 {
					_ = os.Chmod(host, fi.Mode().Perm()|(fi.Mode()&(os.ModeSetuid|os.ModeSetgid))^(os.ModeSetuid|os.ModeSetgid))
					compare("stat after the set-id bits were swapped", p, q, statFid(fid))
				}
			}
			// a fresh fid, reached from a sibling directory by a longer path
			if len(p) > 0 {
				fid++
				long := append([]string{"d", "..", "sgd", ".."}, p...)
				if w2 := rpc(&wire.Msg{Type: wire.Twalk, Fid: 0, Newfid: fid, Wname: long}); w2 != nil && w2.Type == wire.Rwalk && len(w2.Wqid) == len(long) {
					compare("stat through a longer walk", p, w2.Wqid[len(long)-1], statFid(fid))
				}
			}
		}
		// the entries of the directories that hold these objects: each host name exactly once, each record agreeing
		// with the host object like an Rstat does
		for di, dp := range [][]string{{}, {"d"}} {
			dfid := uint32(900 + di)
			if w := rpc(&wire.Msg{Type: wire.Twalk, Fid: 0, Newfid: dfid, Wname: dp}); w == nil || w.Type != wire.Rwalk {
				continue
			}
			if o := rpc(&wire.Msg{Type: wire.Topen, Fid: dfid, Mode: 0}); o == nil || o.Type != wire.Ropen {
				continue
			}
			got := map[string]int{}
			off := uint64(0)
			for k := 0; k < 100; k++ {
				r := rpc(&wire.Msg{Type: wire.Tread, Fid: dfid, Offset: off, Count: 700})
				if r == nil || r.Type != wire.Rread || len(r.Data) == 0 {
					break
				}
				off += uint64(len(r.Data))
				for b := r.Data; len(b) > 0; {
					st, n, err := wire.DecodeStat(b, dotu)
					if err != nil {
						key := "c16:special-stat:dir-entry-undecodable"
						if !seen[key] {
							seen[key] = true
							rep.Violations = append(rep.Violations, Violation{Key: key, What: fmt.Sprintf("directory %v, dotu=%v: %v", dp, dotu, err), Replay: map[string]any{"engine": "ufstree.specialstat", "dotu": dotu, "dir": dp}})
						}
						break
					}
					got[st.Name]++
					compare("directory entry", append(append([]string{}, dp...), st.Name), st.Qid, st)
					b = b[n:]
				}
			}
			des, _ := os.ReadDir(filepath.Join(append([]string{root}, dp...)...))
			for _, de := range des {
				if got[de.Name()] != 1 {
					key := "c16:special-stat:dir-entry-count"
					if !seen[key] {
						seen[key] = true
						rep.Violations = append(rep.Violations, Violation{Key: key, What: fmt.Sprintf("directory %v, dotu=%v: host entry %q listed %d times", dp, dotu, de.Name(), got[de.Name()]), Replay: map[string]any{"engine": "ufstree.specialstat", "dotu": dotu, "dir": dp}})
					}
				}
				delete(got, de.Name())
			}
			for n := range got {
				key := "c16:special-stat:dir-entry-extra"
				if !seen[key] {
					seen[key] = true
					rep.Violations = append(rep.Violations, Violation{Key: key, What: fmt.Sprintf("directory %v, dotu=%v: entry %q is not on the host", dp, dotu, n), Replay: map[string]any{"engine": "ufstree.specialstat", "dotu": dotu, "dir": dp}})
				}
			}
			rpc(&wire.Msg{Type: wire.Tclunk, Fid: dfid})
		}
		se.Close()
		rep.Cases++
	}
	rep.Distinct = rep.Cases
	rep.Stats["steps_executed"] = evals
	if err := rep.Write(); err != nil {
		t.Fatal(err)
	}
}
