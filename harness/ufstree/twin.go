package ufstree

import (
	"fmt"
	"os"
	"strconv"
	"strings"
	"syscall"
)

// Observations of one step, in the vocabulary of the model (spec/UfsTree.tla `obs`).
type QidObs struct {
	K   string     `json:"k"`
	Cls [][]string `json:"cls"` // all model paths of the object (hard-link class)
	Ino uint64     `json:"-"`   // twin: inode; 9P: qid.path
}

type StatObs struct {
	K    string     `json:"k"`
	Perm int        `json:"perm"`
	Len  int        `json:"len"`
	Name string     `json:"name"`
	Mt   int        `json:"mt"`
	Tgt  string     `json:"tgt"`
	Cls  [][]string `json:"cls"`

	Ino     uint64 `json:"-"`
	Mtime   int64  `json:"-"`
	Size    int64  `json:"-"`
	RawName string `json:"-"`
	RawTgt  string `json:"-"`
	QK      string `json:"-"` // 9P: kind according to qid.type (K is from the mode bits)
}

type Obs struct {
	Res   string   `json:"res"`  // ok | err
	Perr  int      `json:"perr"` // twin: errno of the failing POSIX call (0: none); 9P: ecode
	Qids  []QidObs `json:"qids"`
	St    *StatObs `json:"st"`
	Ename string   `json:"-"`
}

func okObs() Obs          { return Obs{Res: "ok", Qids: []QidObs{}} }
func errObs(perr int) Obs { return Obs{Res: "err", Perr: perr, Qids: []QidObs{}} }
func toInt(v any) int     { f, _ := v.(float64); return int(f) }
func toStr(v any) string  { s, _ := v.(string); return s }
func toStrs(v any) []string {
	a, _ := v.([]any)
	out := make([]string, 0, len(a))
	for _, x := range a {
		out = append(out, toStr(x))
	}
	return out
}

// TFid is the twin's idea of a fid: the host path it designates (components from Top, as walked:
// "." and "" elements are kept, as ufs.go keeps them), the recorded type and the open file.
type TFid struct {
	Used bool
	Path []string
	Qt   string
	Open int
	F    *os.File
}

type Twin struct {
	W    *World
	Fids map[int]*TFid
	Dotu bool
}

func NewTwin(w *World, dotu bool) *Twin { return &Twin{W: w, Fids: map[int]*TFid{}, Dotu: dotu} }

func (t *Twin) fid(f int) *TFid {
	x := t.Fids[f]
	if x == nil {
		x = &TFid{Open: -1}
		t.Fids[f] = x
	}
	return x
}

func (t *Twin) CloseAll() {
	for _, f := range t.Fids {
		if f.F != nil {
			_ = f.F.Close()
		}
	}
}

var rootPath = []string{"mid", "root"}

// norm: lexical evaluation of comps on acc; ".." never pops below floor elements.
func norm(acc, comps []string, floor int) []string {
	out := append([]string{}, acc...)
	for _, c := range comps {
		switch c {
		case "", ".":
		case "..":
			if len(out) > floor {
				out = out[:len(out)-1]
			}
		default:
			out = append(out, c)
		}
	}
	return out
}

func clean(p []string) []string { return norm(nil, p, 0) }

func dotted(p []string) bool {
	if len(p) == 0 {
		return false
	}
	l := p[len(p)-1]
	return l == "" || l == "." || l == ".."
}

func kindOf(fi os.FileInfo) string {
	switch {
	case fi.Mode()&os.ModeSymlink != 0:
		return "L"
	case fi.IsDir():
		return "D"
	case fi.Mode().IsRegular():
		return "F"
	}
	return "?"
}

func ino(fi os.FileInfo) uint64 { return fi.Sys().(*syscall.Stat_t).Ino }

func oflags(m int) int {
	fl := 0
	switch m & 3 {
	case 0, 3:
		fl = os.O_RDONLY
	case 1:
		fl = os.O_WRONLY
	case 2:
		fl = os.O_RDWR
	}
	if m&16 != 0 {
		fl |= os.O_TRUNC
	}
	return fl
}

func validName(s string) bool { return s != "" && s != "." && s != ".." && !strings.Contains(s, "/") }

func (t *Twin) qid(p []string) QidObs {
	fi, err := os.Lstat(t.W.Host(p))
	if err != nil {
		return QidObs{K: "-"}
	}
	return QidObs{K: kindOf(fi), Ino: ino(fi)}
}

// StatPath: the stat observation of host path p (components from Top) in world w.
func StatPath(w *World, p []string, dotu bool) (*StatObs, error) {
	fi, err := os.Lstat(w.Host(p))
	if err != nil {
		return nil, err
	}
	s := &StatObs{K: kindOf(fi), Perm: int(fi.Mode().Perm()), Ino: ino(fi), Mtime: fi.ModTime().Unix(), Size: fi.Size()}
	if len(p) > 0 {
		s.RawName = p[len(p)-1]
	}
	s.Name = w.NM.Back(s.RawName)
	switch s.K {
	case "F":
		s.Len = int(fi.Size())
		s.Mt = w.mtToken(s.Mtime)
	case "D":
		s.Mt = w.mtToken(s.Mtime)
	case "L":
		s.Perm = 511
		s.RawTgt, _ = os.Readlink(w.Host(p))
		if dotu {
			s.Tgt = w.backPath(s.RawTgt)
		}
	}
	return s, nil
}

// Do executes one model action on the twin tree with the os package, as the repaired Ufs is
// meant to serve it, and returns the observation.
func (t *Twin) Do(step []any) (Obs, error) {
	w := t.W
	nm := w.NM
	act := toStr(step[0])
	F := t.fid(toInt(step[1]))
	if !F.Used && act != "Attach" {
		return Obs{}, fmt.Errorf("twin: %v on a fid that is not in use (behaviour not valid for this configuration)", step)
	}
	switch act {
	case "Attach":
		p := norm(rootPath, strings.Split(nm.Raw(toStr(step[2])), "/"), len(rootPath))
		fi, err := os.Lstat(w.Host(p))
		if err != nil {
			return errObs(0), nil
		}
		*F = TFid{Used: true, Path: p, Qt: kindOf(fi), Open: -1}
		o := okObs()
		o.Qids = []QidObs{{K: kindOf(fi), Ino: ino(fi)}}
		return o, nil

	case "Walk":
		nf := t.fid(toInt(step[2]))
		names := toStrs(step[3])
		n := len(names)
		if _, err := os.Lstat(w.Host(F.Path)); (n > 0 && F.Qt != "D") || F.Open >= 0 || err != nil {
			return errObs(0), nil
		}
		path := F.Path
		o := okObs()
		for _, name := range names {
			hn := nm.Raw(name)
			var p []string
			switch {
			case hn == "..":
				p = clean(path)
				if len(p) > len(rootPath) {
					p = p[:len(p)-1]
				}
			case strings.Contains(hn, "/"):
				p = nil
			default:
				p = append(append([]string{}, path...), hn)
			}
			if p == nil {
				break
			}
			fi, err := os.Lstat(w.Host(p))
			if err != nil {
				break
			}
			o.Qids = append(o.Qids, QidObs{K: kindOf(fi), Ino: ino(fi)})
			path = p
		}
		k := len(o.Qids)
		if k == 0 && n > 0 {
			return errObs(0), nil
		}
		if k == n {
			qt := F.Qt
			if k > 0 {
				qt = o.Qids[k-1].K
			}
			if nf != F && nf.F != nil {
				_ = nf.F.Close()
			}
			*nf = TFid{Used: true, Path: path, Qt: qt, Open: -1}
		}
		return o, nil

	case "Stat":
		s, err := StatPath(w, F.Path, t.Dotu)
		if err != nil {
			return errObs(0), nil
		}
		if len(clean(F.Path)) == len(rootPath) && !dotted(F.Path) {
			s.Name = "root"
		}
		o := okObs()
		o.St = s
		return o, nil

	case "Open":
		m := toInt(step[2])
		if _, err := os.Lstat(w.Host(F.Path)); F.Open >= 0 || (F.Qt == "D" && m != 0) || err != nil {
			return errObs(0), nil
		}
		f, err := os.OpenFile(w.Host(F.Path), oflags(m), 0)
		if err != nil {
			return errObs(0), nil
		}
		F.Open, F.F = m, f
		o := okObs()
		o.Qids = []QidObs{t.qid(F.Path)}
		return o, nil

	case "Create":
		name, kind, perm, m, ext, g := toStr(step[2]), toStr(step[3]), toInt(step[4]), toInt(step[5]), toStr(step[6]), toInt(step[7])
		if F.Open >= 0 || F.Qt != "D" || ((kind == "L" || kind == "H" || kind == "P") && !t.Dotu) {
			return errObs(0), nil
		}
		if _, err := os.Lstat(w.Host(F.Path)); err != nil {
			return errObs(Errno(err)), nil
		}
		hn := nm.Raw(name)
		if !validName(hn) {
			return errObs(0), nil
		}
		p := append(append([]string{}, F.Path...), hn)
		hp := w.Host(p)
		var file *os.File
		var err error
		switch kind {
		case "D":
			err = os.Mkdir(hp, os.FileMode(perm&0o777))
		case "L":
			err = os.Symlink(nm.Raw(ext), hp)
		case "H":
			G := t.fid(g)
			err = os.Link(w.Host(G.Path), hp)
		case "P":
			// a named pipe: nothing is created; the name is then opened like the other special kinds
		default:
			file, err = os.OpenFile(hp, oflags(m)|os.O_CREATE, os.FileMode(perm&0o777))
		}
		if err != nil {
			return errObs(Errno(err)), nil
		}
		if file == nil {
			file, err = os.OpenFile(hp, oflags(m), 0)
			if err != nil && kind != "L" {
				return errObs(Errno(err)), nil
			}
		}
		fi, err := os.Lstat(hp)
		if err != nil {
			return Obs{}, fmt.Errorf("twin: created object vanished: %v", err)
		}
		*F = TFid{Used: true, Path: p, Qt: kindOf(fi), Open: m, F: file}
		o := okObs()
		o.Qids = []QidObs{{K: kindOf(fi), Ino: ino(fi)}}
		return o, nil

	case "Remove":
		if F.F != nil {
			_ = F.F.Close()
		}
		p := F.Path
		*F = TFid{Open: -1}
		if _, err := os.Lstat(w.Host(p)); err != nil {
			return errObs(Errno(err)), nil
		}
		if err := os.Remove(w.Host(p)); err != nil {
			return errObs(Errno(err)), nil
		}
		return okObs(), nil

	case "Rename":
		hn := nm.Raw(toStr(step[2]))
		if _, err := os.Lstat(w.Host(F.Path)); err != nil {
			return errObs(0), nil
		}
		var dest []string
		if hn[0] == '/' {
			dest = norm(rootPath, strings.Split(hn, "/"), len(rootPath))
		} else {
			c := clean(F.Path)
			dest = norm(c[:len(c)-1], strings.Split(hn, "/"), len(rootPath))
		}
		if err := syscall.Rename(w.Host(F.Path), w.Host(dest)); err != nil {
			return errObs(0), nil
		}
		F.Path = dest
		return okObs(), nil

	case "Truncate", "Chmod", "Mtime":
		v := toInt(step[2])
		if _, err := os.Lstat(w.Host(F.Path)); err != nil {
			return errObs(0), nil
		}
		var err error
		switch act {
		case "Truncate":
			err = os.Truncate(w.Host(F.Path), int64(v))
		case "Chmod":
			err = os.Chmod(w.Host(F.Path), os.FileMode(v&0o777))
		case "Mtime":
			err = os.Chtimes(w.Host(F.Path), MtTime(v), MtTime(v))
		}
		if err != nil {
			return errObs(0), nil
		}
		return okObs(), nil

	case "Wstat": // several fields in one Twstat: chmod, rename, truncate, times, in ufs.go's order
		nn, n, perm, m := nm.Raw(toStr(step[2])), toInt(step[3]), toInt(step[4]), toInt(step[5])
		if _, err := os.Lstat(w.Host(F.Path)); err != nil {
			return errObs(0), nil
		}
		if perm >= 0 {
			if err := os.Chmod(w.Host(F.Path), os.FileMode(perm&0o777)); err != nil {
				return errObs(0), nil
			}
		}
		if nn != "" {
			var dest []string
			if nn[0] == '/' {
				dest = norm(rootPath, strings.Split(nn, "/"), len(rootPath))
			} else {
				c := clean(F.Path)
				dest = norm(c[:len(c)-1], strings.Split(nn, "/"), len(rootPath))
			}
			if err := syscall.Rename(w.Host(F.Path), w.Host(dest)); err != nil {
				return errObs(0), nil
			}
			F.Path = dest
		}
		if n >= 0 {
			if err := os.Truncate(w.Host(F.Path), int64(n)); err != nil {
				return errObs(0), nil
			}
		}
		if m > 0 {
			if err := os.Chtimes(w.Host(F.Path), MtTime(m), MtTime(m)); err != nil {
				return errObs(0), nil
			}
		}
		return okObs(), nil

	case "Write":
		off, n := toInt(step[2]), toInt(step[3])
		if _, err := os.Lstat(w.Host(F.Path)); F.F == nil || F.Open&3 == 0 || F.Qt == "D" || err != nil {
			return errObs(0), nil
		}
		b := make([]byte, n)
		for i := range b {
			b[i] = 2
		}
		if _, err := F.F.WriteAt(b, int64(off)); err != nil {
			return errObs(0), nil
		}
		return okObs(), nil

	case "Clunk":
		if F.F != nil {
			_ = F.F.Close()
		}
		*F = TFid{Open: -1}
		return okObs(), nil
	}
	return Obs{}, fmt.Errorf("twin: unknown action %q", act)
}

// modelPath: host components -> model names.
func (w *World) modelPath(p []string) []string {
	out := make([]string, len(p))
	for i, c := range p {
		out[i] = w.NM.Back(c)
	}
	return out
}

func itoa(i int) string { return strconv.Itoa(i) }
