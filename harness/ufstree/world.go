// Package ufstree binds spec/UfsTree.tla (C16, C17, C18) to the real go9p.Ufs.
//
// Every behaviour is executed three ways: by the model (TLC validates the logged twin
// observations against UfsTree), directly with the os package on a TWIN tree (twin.go), and
// through raw 9P against a real go9p.Ufs exporting an identical tree (nine.go).  The twin and the
// 9P tree are compared recursively after every step, together with the surroundings of the
// exported root (canaries next to and above it).
package ufstree

import (
	"errors"
	"fmt"
	"os"
	"path/filepath"
	"sort"
	"strings"
	"syscall"
	"time"
)

// MtBase + k (k = 1..9) are the "set" mtimes; anything >= session start is "now" (token 0).
const MtBase = 1_000_000_000

func MtTime(k int) time.Time { return time.Unix(MtBase+int64(k), 0) }

// NameMap maps the model's abstract names to host names (and back).
type NameMap struct {
	ID  int
	Fwd map[string]string
	Rev map[string]string
}

func rep(s string, n int) string { return strings.Repeat(s, n) }

// Alphabets: identity; spaces / non-ASCII bytes / dots; 255-byte names; dotfiles and blanks.
func NewNameMap(id int) *NameMap {
	tabs := []map[string]string{
		{"a": "a", "b": "b", "c": "c", "x": "x", "zz": "zz"},
		{"a": "a b", "b": "\xffb\xfe", "c": "..c.", "x": "x.y z", "zz": "z z"},
		{"a": rep("a", 255), "b": rep("b", 254) + ".", "c": rep("é", 127) + "c", "x": rep("x", 255), "zz": rep("z", 255)},
		{"a": ".a", "b": "b.", "c": "...", "x": " ", "zz": "日本"},
	}
	t := tabs[id%len(tabs)]
	m := &NameMap{ID: id % len(tabs), Fwd: map[string]string{}, Rev: map[string]string{}}
	for k, v := range t {
		m.Fwd[k] = v
		m.Rev[v] = k
	}
	// the canaries next to the exported directory ("root") have host names that begin with the root's own name: a
	// confinement test that compares path prefixes without a separator takes them for part of the tree
	for k, v := range map[string]string{"cs": "root.s", "cd": "rootd"} {
		m.Fwd[k] = v
		m.Rev[v] = k
	}
	return m
}

func (m *NameMap) comp(c string) string {
	if v, ok := m.Fwd[c]; ok {
		return v
	}
	return c
}

// Raw maps a raw 9P name of the model (possibly containing '/') component-wise.
func (m *NameMap) Raw(n string) string {
	cs := strings.Split(n, "/")
	for i := range cs {
		cs[i] = m.comp(cs[i])
	}
	return strings.Join(cs, "/")
}

func (m *NameMap) Back(c string) string {
	if v, ok := m.Rev[c]; ok {
		return v
	}
	if _, ok := m.Fwd[c]; ok { // a host name that collides with a model name
		return "?" + c
	}
	return c
}

// World is one host tree: Top{ca, mid{cs, cd{cf}, root{...}}}.
type World struct {
	Top   string
	Root  string
	NM    *NameMap
	Start int64 // unix seconds when the world was built ("now" threshold)
}

type nodeDef struct {
	path string // relative to root, model names, '/'-separated
	kind byte   // 'F' 'D' 'L' 'H'(hard link to .tgt path)
	perm os.FileMode
	data []byte
	tgt  string
}

var treeDefs = map[string][]nodeDef{
	"T0": {},
	"T1": {
		{"a", 'D', 0o755, nil, ""}, {"a/a", 'F', 0o644, []byte{1}, ""}, {"a/b", 'L', 0, nil, "a"},
		{"a/c", 'D', 0o700, nil, ""}, {"a/c/a", 'F', 0o600, nil, ""}, {"b", 'H', 0, nil, "a/a"}, {"c", 'L', 0, nil, "zz"},
	},
	"T2": {{"a", 'D', 0o755, nil, ""}, {"a/a", 'F', 0o644, []byte{1, 1}, ""}, {"b", 'F', 0o600, []byte{1}, ""}},
	"T3": {{"a", 'D', 0o755, nil, ""}, {"a/b", 'F', 0o644, []byte{1}, ""}, {"cs", 'F', 0o644, nil, ""}},
	"T4": {{"a", 'D', 0o755, nil, ""}, {"a/a", 'F', 0o644, []byte{1}, ""}, {"b", 'L', 0, nil, "a"}, {"c", 'L', 0, nil, "."}},
}

func (w *World) Host(comps []string) string {
	return w.Top + "/" + strings.Join(comps, "/")
}

// BuildWorld creates base/{ca, mid/{cs, cd/cf, root/<tree>}} and sets every mtime to MtTime(1).
func BuildWorld(base, tree string, nm *NameMap) (*World, error) {
	w := &World{Top: base, Root: base + "/mid/root", NM: nm}
	def, ok := treeDefs[tree]
	if !ok {
		return nil, fmt.Errorf("unknown tree %q", tree)
	}
	if err := os.MkdirAll(w.Root, 0o755); err != nil {
		return nil, err
	}
	wr := func(p string, perm os.FileMode, data []byte) error {
		if err := os.WriteFile(p, data, perm); err != nil {
			return err
		}
		return os.Chmod(p, perm)
	}
	if err := wr(base+"/ca", 0o644, []byte{1}); err != nil {
		return nil, err
	}
	if err := wr(base+"/mid/"+nm.comp("cs"), 0o644, []byte{1, 1}); err != nil {
		return nil, err
	}
	if err := os.Mkdir(base+"/mid/"+nm.comp("cd"), 0o755); err != nil {
		return nil, err
	}
	if err := wr(base+"/mid/"+nm.comp("cd")+"/cf", 0o644, []byte{1}); err != nil {
		return nil, err
	}
	for _, d := range def {
		p := w.Root + "/" + nm.Raw(d.path)
		var err error
		switch d.kind {
		case 'D':
			if err = os.Mkdir(p, d.perm); err == nil {
				err = os.Chmod(p, d.perm)
			}
		case 'F':
			err = wr(p, d.perm, d.data)
		case 'L':
			err = os.Symlink(nm.Raw(d.tgt), p)
		case 'H':
			err = os.Link(w.Root+"/"+nm.Raw(d.tgt), p)
		}
		if err != nil {
			return nil, err
		}
	}
	if err := SetAllMtimes(base, MtTime(1)); err != nil {
		return nil, err
	}
	w.Start = time.Now().Unix()
	return w, nil
}

// RawNode describes one object of a generated tree: host path relative to the root.
type RawNode struct {
	Path string
	Kind byte // F D L H
	Perm os.FileMode
	Data []byte
	Tgt  string // L: link text; H: path (relative to the root) of the file to link to
}

// BuildRawWorld: like BuildWorld for a generated tree.
func BuildRawWorld(base string, nodes []RawNode, nm *NameMap) (*World, error) {
	w, err := BuildWorld(base, "T0", nm)
	if err != nil {
		return nil, err
	}
	for _, d := range nodes {
		p := w.Root + "/" + d.Path
		switch d.Kind {
		case 'D':
			if err = os.Mkdir(p, 0o755); err == nil {
				err = os.Chmod(p, d.Perm)
			}
		case 'F':
			if err = os.WriteFile(p, d.Data, 0o644); err == nil {
				err = os.Chmod(p, d.Perm)
			}
		case 'L':
			err = os.Symlink(d.Tgt, p)
		case 'H':
			err = os.Link(w.Root+"/"+d.Tgt, p)
		}
		if err != nil {
			return nil, err
		}
	}
	if err := SetAllMtimes(base, MtTime(1)); err != nil {
		return nil, err
	}
	w.Start = time.Now().Unix()
	return w, nil
}

// SetAllMtimes sets the mtime of every file and directory below (and including) top, children first.
func SetAllMtimes(top string, t time.Time) error {
	var paths []string
	err := filepath.Walk(top, func(p string, fi os.FileInfo, err error) error {
		if err != nil {
			return err
		}
		if fi.Mode()&os.ModeSymlink == 0 {
			paths = append(paths, p)
		}
		return nil
	})
	if err != nil {
		return err
	}
	for i := len(paths) - 1; i >= 0; i-- {
		if err := os.Chtimes(paths[i], t, t); err != nil {
			return err
		}
	}
	return nil
}

// Ent is one object of a listing.
type Ent struct {
	P    []string `json:"p"`    // model names from Top
	K    string   `json:"k"`    // F D L (or ? for anything else)
	Perm int      `json:"perm"` // permission bits (511 for symlinks)
	Data []int    `json:"data"` // file bytes
	Tgt  string   `json:"tgt"`  // link target (model names)
	Mt   int      `json:"mt"`   // mtime token: k for MtBase+k, 0 for "now", -1 otherwise; 0 for symlinks

	HostP  string `json:"-"` // host path relative to Top
	Ino    uint64 `json:"-"`
	Mtime  int64  `json:"-"`
	Size   int64  `json:"-"`
	RawTgt string `json:"-"`
	Big    bool   `json:"-"` // content too large to list byte by byte (random trees): Sum is compared
	Sum    string `json:"-"`
}

type Listing struct {
	Ents  []Ent
	ByIno map[uint64][]int // indexes into Ents
}

func (w *World) mtToken(sec int64) int {
	if sec > MtBase && sec <= MtBase+9 {
		return int(sec - MtBase)
	}
	if sec >= w.Start-2 {
		return 0
	}
	return -1
}

// List walks the whole world (without following symlinks).
func (w *World) List() (*Listing, error) {
	l := &Listing{ByIno: map[uint64][]int{}}
	var rec func(host string, model []string) error
	rec = func(host string, model []string) error {
		fi, err := os.Lstat(w.Top + host)
		if err != nil {
			return err
		}
		st := fi.Sys().(*syscall.Stat_t)
		e := Ent{P: append([]string{}, model...), Perm: int(fi.Mode().Perm()), Data: []int{}, HostP: host,
			Ino: st.Ino, Mtime: fi.ModTime().Unix(), Size: fi.Size()}
		switch {
		case fi.Mode()&os.ModeSymlink != 0:
			e.K = "L"
			e.Perm = 511
			e.RawTgt, _ = os.Readlink(w.Top + host)
			e.Tgt = w.backPath(e.RawTgt)
		case fi.IsDir():
			e.K = "D"
			e.Mt = w.mtToken(e.Mtime)
		case fi.Mode().IsRegular():
			e.K = "F"
			e.Mt = w.mtToken(e.Mtime)
			b, err := os.ReadFile(w.Top + host)
			if err != nil {
				return err
			}
			if len(b) > 64 {
				e.Big = true
				e.Sum = fmt.Sprintf("%d:%x", len(b), fnv(b))
			} else {
				for _, c := range b {
					e.Data = append(e.Data, int(c))
				}
			}
		default:
			e.K = "?"
		}
		if len(model) > 0 { // Top itself is not listed (its name is scratch-specific)
			l.ByIno[e.Ino] = append(l.ByIno[e.Ino], len(l.Ents))
			l.Ents = append(l.Ents, e)
		}
		if e.K == "D" {
			des, err := os.ReadDir(w.Top + host)
			if err != nil {
				return err
			}
			names := make([]string, 0, len(des))
			for _, de := range des {
				names = append(names, de.Name())
			}
			sort.Strings(names)
			for _, n := range names {
				if err := rec(host+"/"+n, append(model, w.NM.Back(n))); err != nil {
					return err
				}
			}
		}
		return nil
	}
	if err := rec("", nil); err != nil {
		return nil, err
	}
	return l, nil
}

func fnv(b []byte) uint64 {
	h := uint64(14695981039346656037)
	for _, c := range b {
		h ^= uint64(c)
		h *= 1099511628211
	}
	return h
}

func (w *World) backPath(t string) string {
	cs := strings.Split(t, "/")
	for i := range cs {
		cs[i] = w.NM.Back(cs[i])
	}
	return strings.Join(cs, "/")
}

// Class returns the model paths of all names of inode ino.
func (l *Listing) Class(ino uint64) [][]string {
	out := [][]string{}
	for _, i := range l.ByIno[ino] {
		out = append(out, l.Ents[i].P)
	}
	return out
}

// Links returns the hard-link classes with more than one name.
func (l *Listing) Links() [][][]string {
	out := [][][]string{}
	inos := make([]uint64, 0)
	for ino, ix := range l.ByIno {
		if len(ix) > 1 {
			inos = append(inos, ino)
		}
	}
	sort.Slice(inos, func(i, j int) bool { return l.ByIno[inos[i]][0] < l.ByIno[inos[j]][0] })
	for _, ino := range inos {
		out = append(out, l.Class(ino))
	}
	return out
}

func inside(hostP string) bool { return hostP == "/mid/root" || strings.HasPrefix(hostP, "/mid/root/") }

// OutsideInos: inodes of everything that is not the exported root or below it.
func (l *Listing) OutsideInos() map[uint64]string {
	m := map[uint64]string{}
	for _, e := range l.Ents {
		if !inside(e.HostP) {
			m[e.Ino] = e.HostP
		}
	}
	return m
}

// DiffListings compares two worlds' listings; only != "" on difference.  Mtimes are compared as
// tokens (a set mtime must be equal; "now" matches "now").  where: "in" | "out" | "" (both).
func DiffListings(a, b *Listing, where string) string {
	sel := func(l *Listing) map[string]Ent {
		m := map[string]Ent{}
		for _, e := range l.Ents {
			in := inside(e.HostP)
			if where == "in" && !in || where == "out" && in {
				continue
			}
			if where == "out" && e.HostP == "/mid" {
				// the directory holding the root: its own mtime/perm count, entries are listed separately
			}
			m[e.HostP] = e
		}
		return m
	}
	ma, mb := sel(a), sel(b)
	keys := map[string]bool{}
	for k := range ma {
		keys[k] = true
	}
	for k := range mb {
		keys[k] = true
	}
	ks := make([]string, 0, len(keys))
	for k := range keys {
		ks = append(ks, k)
	}
	sort.Strings(ks)
	for _, k := range ks {
		ea, oka := ma[k]
		eb, okb := mb[k]
		switch {
		case !oka:
			return fmt.Sprintf("%q exists only in the twin tree (%s)", k, eb.K)
		case !okb:
			return fmt.Sprintf("%q exists only in the 9P tree (%s)", k, ea.K)
		case ea.K != eb.K:
			return fmt.Sprintf("%q kind %s vs twin %s", k, ea.K, eb.K)
		case ea.Perm != eb.Perm:
			return fmt.Sprintf("%q perm %o vs twin %o", k, ea.Perm, eb.Perm)
		case ea.RawTgt != eb.RawTgt:
			return fmt.Sprintf("%q link target %q vs twin %q", k, ea.RawTgt, eb.RawTgt)
		case ea.Big != eb.Big || ea.Sum != eb.Sum || fmt.Sprint(ea.Data) != fmt.Sprint(eb.Data):
			return fmt.Sprintf("%q content %v%s vs twin %v%s", k, ea.Data, ea.Sum, eb.Data, eb.Sum)
		case ea.Mt != eb.Mt:
			return fmt.Sprintf("%q mtime %d (token %d) vs twin %d (token %d)", k, ea.Mtime, ea.Mt, eb.Mtime, eb.Mt)
		}
	}
	// hard-link structure
	la, lb := fmt.Sprint(linkSig(a, where)), fmt.Sprint(linkSig(b, where))
	if la != lb {
		return fmt.Sprintf("hard-link classes %s vs twin %s", la, lb)
	}
	return ""
}

func linkSig(l *Listing, where string) []string {
	var out []string
	for _, ix := range l.ByIno {
		if len(ix) < 2 {
			continue
		}
		var ps []string
		for _, i := range ix {
			if in := inside(l.Ents[i].HostP); where == "in" && !in || where == "out" && in {
				continue
			}
			ps = append(ps, l.Ents[i].HostP)
		}
		if len(ps) < 2 {
			continue
		}
		sort.Strings(ps)
		out = append(out, strings.Join(ps, "="))
	}
	sort.Strings(out)
	return out
}

func Errno(err error) int {
	var en syscall.Errno
	if errors.As(err, &en) {
		return int(en)
	}
	return -1
}
