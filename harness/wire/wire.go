// Package wire is an independent 9P2000 / 9P2000.u codec: a small interpreter of a
// field-layout table written from the protocol manual (intro(5), the 9P2000.u
// draft), not from go9p's packer. It is the harness's eyes on the byte stream and
// is itself cross-checked on every C01 run against the vectors TLC evaluates from
// spec/Wire9P.tla.
package wire

import (
	"encoding/binary"
	"errors"
	"fmt"
)

const (
	Tversion = 100 + iota
	Rversion
	Tauth
	Rauth
	Tattach
	Rattach
	Terror
	Rerror
	Tflush
	Rflush
	Twalk
	Rwalk
	Topen
	Ropen
	Tcreate
	Rcreate
	Tread
	Rread
	Twrite
	Rwrite
	Tclunk
	Rclunk
	Tremove
	Rremove
	Tstat
	Rstat
	Twstat
	Rwstat
)

const (
	NOTAG = 0xFFFF
	NOFID = 0xFFFFFFFF
)

type Qid struct {
	Type uint8
	Vers uint32
	Path uint64
}

type Stat struct {
	Size   uint16 // as found on the wire (decode) / computed (encode)
	Type   uint16
	Dev    uint32
	Qid    Qid
	Mode   uint32
	Atime  uint32
	Mtime  uint32
	Length uint64
	Name   string
	Uid    string
	Gid    string
	Muid   string
	// 9P2000.u
	Ext     string
	Uidnum  uint32
	Gidnum  uint32
	Muidnum uint32
}

type Msg struct {
	Size     uint32
	Type     uint8
	Tag      uint16
	Msize    uint32
	Version  string
	Afid     uint32
	Uname    string
	Aname    string
	Unamenum uint32
	Ename    string
	Ecode    uint32
	Oldtag   uint16
	Fid      uint32
	Newfid   uint32
	Wname    []string
	Wqid     []Qid
	Qid      Qid
	Mode     uint8
	Iounit   uint32
	Name     string
	Perm     uint32
	Ext      string
	Offset   uint64
	Count    uint32
	Data     []byte
	Stat     Stat
	Nstat    uint16 // the outer stat[n] length prefix of Rstat/Twstat as found
}

// field kinds
const (
	kU8 = iota
	kU16
	kU32
	kU64
	kStr
	kQid
	kNames // nwname[2] nwname*(wname[s])
	kQids  // nwqid[2] nwqid*(qid[13])
	kData  // count[4] data[count]
	kStatN // n[2] stat[n]
)

type field struct {
	name string
	kind int
	dotu bool // present only in 9P2000.u
}

// Layouts after size[4] type[1] tag[2].
var Layouts = map[uint8][]field{
	Tversion: {{"msize", kU32, false}, {"version", kStr, false}},
	Rversion: {{"msize", kU32, false}, {"version", kStr, false}},
	Tauth:    {{"afid", kU32, false}, {"uname", kStr, false}, {"aname", kStr, false}, {"unamenum", kU32, true}},
	Rauth:    {{"qid", kQid, false}},
	Tattach:  {{"fid", kU32, false}, {"afid", kU32, false}, {"uname", kStr, false}, {"aname", kStr, false}, {"unamenum", kU32, true}},
	Rattach:  {{"qid", kQid, false}},
	Rerror:   {{"ename", kStr, false}, {"ecode", kU32, true}},
	Tflush:   {{"oldtag", kU16, false}},
	Rflush:   {},
	Twalk:    {{"fid", kU32, false}, {"newfid", kU32, false}, {"wname", kNames, false}},
	Rwalk:    {{"wqid", kQids, false}},
	Topen:    {{"fid", kU32, false}, {"mode", kU8, false}},
	Ropen:    {{"qid", kQid, false}, {"iounit", kU32, false}},
	Tcreate:  {{"fid", kU32, false}, {"name", kStr, false}, {"perm", kU32, false}, {"mode", kU8, false}, {"ext", kStr, true}},
	Rcreate:  {{"qid", kQid, false}, {"iounit", kU32, false}},
	Tread:    {{"fid", kU32, false}, {"offset", kU64, false}, {"count", kU32, false}},
	Rread:    {{"data", kData, false}},
	Twrite:   {{"fid", kU32, false}, {"offset", kU64, false}, {"data", kData, false}},
	Rwrite:   {{"count", kU32, false}},
	Tclunk:   {{"fid", kU32, false}},
	Rclunk:   {},
	Tremove:  {{"fid", kU32, false}},
	Rremove:  {},
	Tstat:    {{"fid", kU32, false}},
	Rstat:    {{"stat", kStatN, false}},
	Twstat:   {{"fid", kU32, false}, {"stat", kStatN, false}},
	Rwstat:   {},
}

var TypeNames = map[uint8]string{
	Tversion: "Tversion", Rversion: "Rversion", Tauth: "Tauth", Rauth: "Rauth", Tattach: "Tattach", Rattach: "Rattach",
	Rerror: "Rerror", Tflush: "Tflush", Rflush: "Rflush", Twalk: "Twalk", Rwalk: "Rwalk", Topen: "Topen", Ropen: "Ropen",
	Tcreate: "Tcreate", Rcreate: "Rcreate", Tread: "Tread", Rread: "Rread", Twrite: "Twrite", Rwrite: "Rwrite",
	Tclunk: "Tclunk", Rclunk: "Rclunk", Tremove: "Tremove", Rremove: "Rremove", Tstat: "Tstat", Rstat: "Rstat",
	Twstat: "Twstat", Rwstat: "Rwstat",
}

func TypeName(t uint8) string {
	if s, ok := TypeNames[t]; ok {
		return s
	}
	return fmt.Sprintf("type%d", t)
}

var le = binary.LittleEndian

func (m *Msg) u32p(n string) *uint32 {
	switch n {
	case "msize":
		return &m.Msize
	case "afid":
		return &m.Afid
	case "unamenum":
		return &m.Unamenum
	case "ecode":
		return &m.Ecode
	case "fid":
		return &m.Fid
	case "newfid":
		return &m.Newfid
	case "iounit":
		return &m.Iounit
	case "perm":
		return &m.Perm
	case "count":
		return &m.Count
	}
	panic("u32 " + n)
}

func (m *Msg) strp(n string) *string {
	switch n {
	case "version":
		return &m.Version
	case "uname":
		return &m.Uname
	case "aname":
		return &m.Aname
	case "ename":
		return &m.Ename
	case "name":
		return &m.Name
	case "ext":
		return &m.Ext
	}
	panic("str " + n)
}

func putStr(b []byte, s string) []byte {
	b = le.AppendUint16(b, uint16(len(s)))
	return append(b, s...)
}

func putQid(b []byte, q Qid) []byte {
	b = append(b, q.Type)
	b = le.AppendUint32(b, q.Vers)
	return le.AppendUint64(b, q.Path)
}

// EncodeStat returns size[2] followed by the stat body.
func EncodeStat(s *Stat, dotu bool) []byte {
	var b []byte
	b = le.AppendUint16(b, s.Type)
	b = le.AppendUint32(b, s.Dev)
	b = putQid(b, s.Qid)
	b = le.AppendUint32(b, s.Mode)
	b = le.AppendUint32(b, s.Atime)
	b = le.AppendUint32(b, s.Mtime)
	b = le.AppendUint64(b, s.Length)
	b = putStr(b, s.Name)
	b = putStr(b, s.Uid)
	b = putStr(b, s.Gid)
	b = putStr(b, s.Muid)
	if dotu {
		b = putStr(b, s.Ext)
		b = le.AppendUint32(b, s.Uidnum)
		b = le.AppendUint32(b, s.Gidnum)
		b = le.AppendUint32(b, s.Muidnum)
	}
	out := le.AppendUint16(nil, uint16(len(b)))
	return append(out, b...)
}

// Encode builds the packet for m (Type, Tag and the fields of its layout).
func Encode(m *Msg, dotu bool) []byte {
	lay, ok := Layouts[m.Type]
	if !ok {
		panic("no layout")
	}
	b := make([]byte, 7)
	b[4] = m.Type
	le.PutUint16(b[5:], m.Tag)
	for _, f := range lay {
		if f.dotu && !dotu {
			continue
		}
		switch f.kind {
		case kU8:
			b = append(b, m.Mode)
		case kU16:
			b = le.AppendUint16(b, m.Oldtag)
		case kU32:
			b = le.AppendUint32(b, *m.u32p(f.name))
		case kU64:
			b = le.AppendUint64(b, m.Offset)
		case kStr:
			b = putStr(b, *m.strp(f.name))
		case kQid:
			b = putQid(b, m.Qid)
		case kNames:
			b = le.AppendUint16(b, uint16(len(m.Wname)))
			for _, s := range m.Wname {
				b = putStr(b, s)
			}
		case kQids:
			b = le.AppendUint16(b, uint16(len(m.Wqid)))
			for _, q := range m.Wqid {
				b = putQid(b, q)
			}
		case kData:
			b = le.AppendUint32(b, uint32(len(m.Data)))
			b = append(b, m.Data...)
		case kStatN:
			st := EncodeStat(&m.Stat, dotu)
			b = le.AppendUint16(b, uint16(len(st)))
			b = append(b, st...)
		}
	}
	le.PutUint32(b, uint32(len(b)))
	return b
}

var ErrShort = errors.New("wire: field runs past the end of the packet")

type rd struct {
	b   []byte
	err error
}

func (r *rd) take(n int) []byte {
	if r.err != nil {
		return nil
	}
	if n < 0 || n > len(r.b) {
		r.err = ErrShort
		return nil
	}
	x := r.b[:n]
	r.b = r.b[n:]
	return x
}
func (r *rd) u8() uint8 {
	if x := r.take(1); x != nil {
		return x[0]
	}
	return 0
}
func (r *rd) u16() uint16 {
	if x := r.take(2); x != nil {
		return le.Uint16(x)
	}
	return 0
}
func (r *rd) u32() uint32 {
	if x := r.take(4); x != nil {
		return le.Uint32(x)
	}
	return 0
}
func (r *rd) u64() uint64 {
	if x := r.take(8); x != nil {
		return le.Uint64(x)
	}
	return 0
}
func (r *rd) str() string { n := r.u16(); return string(r.take(int(n))) }
func (r *rd) qid() Qid   { return Qid{r.u8(), r.u32(), r.u64()} }

// DecodeStat decodes one size[2]-prefixed stat record from b; returns bytes consumed.
// The record must fill its declared size exactly.
func DecodeStat(b []byte, dotu bool) (*Stat, int, error) {
	r := &rd{b: b}
	sz := r.u16()
	body := r.take(int(sz))
	if r.err != nil {
		return nil, 0, r.err
	}
	q := &rd{b: body}
	s := &Stat{Size: sz}
	s.Type = q.u16()
	s.Dev = q.u32()
	s.Qid = q.qid()
	s.Mode = q.u32()
	s.Atime = q.u32()
	s.Mtime = q.u32()
	s.Length = q.u64()
	s.Name = q.str()
	s.Uid = q.str()
	s.Gid = q.str()
	s.Muid = q.str()
	if dotu {
		s.Ext = q.str()
		s.Uidnum = q.u32()
		s.Gidnum = q.u32()
		s.Muidnum = q.u32()
	}
	if q.err != nil {
		return nil, 0, q.err
	}
	if len(q.b) != 0 {
		return nil, 0, fmt.Errorf("wire: %d stray bytes inside stat record", len(q.b))
	}
	return s, 2 + int(sz), nil
}

// Decode parses exactly one packet occupying all of b (len(b) == size).
func Decode(b []byte, dotu bool) (*Msg, error) {
	if len(b) < 7 {
		return nil, errors.New("wire: shorter than a header")
	}
	m := &Msg{Size: le.Uint32(b), Type: b[4], Tag: le.Uint16(b[5:])}
	if int(m.Size) != len(b) {
		return nil, fmt.Errorf("wire: size field %d but %d bytes", m.Size, len(b))
	}
	lay, ok := Layouts[m.Type]
	if !ok {
		return nil, fmt.Errorf("wire: undefined type %d", m.Type)
	}
	r := &rd{b: b[7:]}
	for _, f := range lay {
		if f.dotu && !dotu {
			continue
		}
		switch f.kind {
		case kU8:
			m.Mode = r.u8()
		case kU16:
			m.Oldtag = r.u16()
		case kU32:
			*m.u32p(f.name) = r.u32()
		case kU64:
			m.Offset = r.u64()
		case kStr:
			*m.strp(f.name) = r.str()
		case kQid:
			m.Qid = r.qid()
		case kNames:
			n := r.u16()
			for i := 0; i < int(n) && r.err == nil; i++ {
				m.Wname = append(m.Wname, r.str())
			}
		case kQids:
			n := r.u16()
			for i := 0; i < int(n) && r.err == nil; i++ {
				m.Wqid = append(m.Wqid, r.qid())
			}
		case kData:
			m.Count = r.u32()
			m.Data = r.take(int(m.Count))
		case kStatN:
			m.Nstat = r.u16()
			body := r.take(int(m.Nstat))
			if r.err == nil {
				st, n, err := DecodeStat(body, dotu)
				if err != nil {
					return nil, err
				}
				if n != len(body) {
					return nil, errors.New("wire: stat[n] length disagrees with the record size")
				}
				m.Stat = *st
			}
		}
	}
	if r.err != nil {
		return nil, r.err
	}
	if len(r.b) != 0 {
		return nil, fmt.Errorf("wire: %d stray bytes after the last field", len(r.b))
	}
	return m, nil
}

// Framer splits a byte stream into size-prefixed frames.
type Framer struct{ buf []byte }

func (f *Framer) Feed(b []byte) { f.buf = append(f.buf, b...) }

// Next returns the next complete frame, or nil if none is complete yet.
// A declared size below 7 is returned as an error.
func (f *Framer) Next() ([]byte, error) {
	if len(f.buf) < 4 {
		return nil, nil
	}
	sz := le.Uint32(f.buf)
	if sz < 7 {
		return nil, fmt.Errorf("wire: frame declares size %d", sz)
	}
	if uint64(len(f.buf)) < uint64(sz) {
		return nil, nil
	}
	fr := append([]byte(nil), f.buf[:sz]...)
	f.buf = f.buf[sz:]
	return fr, nil
}

func (f *Framer) Pending() int { return len(f.buf) }
