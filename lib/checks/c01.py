"""C01 Wire-format fidelity of the message codec in both dialects.

spec/Wire9P.tla (job "enc") is the byte layout of all 27 message types and of stat records in both
dialects, written from the protocol manual.  TLC enumerates, per type x dialect, the product of the
field value classes, evaluates the expected encoding (segments + size) of every vector, checks the
specification's own consistency on each (sizes add up, Parse inverts Enc, dialects differ exactly
where the layout says) and exports them as ndjson.  The Go engine harness/codec TestEncVectors
executes every vector on go9p (Pack*, SetTag, Unpack, InitRread+SetRreadCount, PackDir/UnpackDir)
and compares bytes and fields; the independent codec harness/wire is cross-checked against every
vector; seeded random values are then checked against harness/wire.
"""
import json
import os
from concurrent.futures import ThreadPoolExecutor

ALL = ["Tversion", "Rversion", "Tauth", "Rauth", "Tattach", "Rattach", "Rerror", "Tflush", "Rflush",
       "Twalk", "Rwalk", "Topen", "Ropen", "Tcreate", "Rcreate", "Tread", "Rread", "Twrite", "Rwrite",
       "Tclunk", "Rclunk", "Tremove", "Rremove", "Tstat", "Rstat", "Twstat", "Rwstat", "stat"]
BOTH = {True, False}


def enc_shards():
    heavy = [({"Tattach"}, BOTH), ({"Tcreate"}, BOTH),
             ({"Rstat"}, {True}), ({"Twstat"}, {True}), ({"stat"}, {True}),
             ({"Rstat", "Twstat", "stat"}, {False})]
    used = set().union(*[s for s, _ in heavy])
    rest = set(ALL) - used
    return heavy + [(rest, BOTH)]


def known_patterns(ctx):
    return [k["match"] for k in ctx.known_findings()
            if k.get("property") == ctx.prop and k.get("status") == "open" and k.get("match")]


def run_tlc_shards(ctx, job, shards, full, timeout):
    """Run one TLC per shard concurrently.  Returns (list of ndjson paths, list of TLCResult)."""
    sdir = ctx._spec_dir()
    jobs = []
    for i, (types, dialects) in enumerate(shards):
        out = "wire_%s_%d.ndjson" % (job, i)
        cfg = ctx.write_cfg("Wire9P_%s_%d.cfg" % (job, i),
                            {"Job": job, "Sel": set(types), "Dialects": set(dialects), "Full": full, "OutFile": out},
                            invariants=["VecOK"], deadlock=False)
        jobs.append((cfg, out))
    nw = max(1, min(4, (os.cpu_count() or 4) // max(1, len(jobs))))

    def one(j):
        cfg, out = j
        return ctx.tlc_must_pass("Wire9P", cfg, workers=nw, timeout=timeout, heap="6g", name=cfg)

    with ThreadPoolExecutor(max_workers=len(jobs)) as ex:
        results = list(ex.map(one, jobs))
    files = [os.path.join(sdir, out) for _, out in jobs]
    return files, results


def apply_replay(ctx):
    """--replay <file>: re-run the (deterministic) check with the seed and tier recorded in the replay
    file and keep only the violation with the recorded key."""
    if not ctx.replay:
        return None
    rp = json.load(open(ctx.replay))
    ctx.seed = int(rp.get("seed", ctx.seed))
    ctx.tier = rp.get("tier", ctx.tier)
    ctx.quick = ctx.tier == "quick"
    ctx.log("replaying %s (seed %d, tier %s)" % (rp.get("key"), ctx.seed, ctx.tier))
    return rp.get("key")


def filter_replay(ctx, key):
    if key is None:
        return
    hit = [v for v in ctx.violations if v["key"] == key]
    ctx.log("replay: %s" % ("reproduced" if hit else "NOT reproduced (the violation is gone on this tree)"))
    ctx.violations = hit[:1]


def run(ctx):
    replay_key = apply_replay(ctx)
    full = not ctx.quick
    files, results = run_tlc_shards(ctx, "enc", enc_shards(), full, timeout=240 if ctx.quick else 720)
    states = sum(r.distinct for r in results)
    transitions = sum(r.generated for r in results)
    if not all(r.ok for r in results) or not all(os.path.exists(f) for f in files):
        ctx.inconclusive.append("TLC did not produce all Wire9P vectors")
        return ctx.finish("exploration", {"states": states, "transitions": transitions,
                                          "traces_validated_against_impl": 0, "samples": [],
                                          "evaluations": 0, "distinct_nontrivial": 0, "rule": "n/a"})
    nvec = 0
    for f in files:
        with open(f) as fh:
            nvec += sum(1 for _ in fh)
    ctx.log("Wire9P enc: %d vectors (%d distinct TLC states) from %d shards" % (nvec, states, len(files)))
    nrand = int(os.environ.get("VERIF_RANDOM", "20000" if ctx.quick else "2000000"))
    rep = ctx.go_engine("codec", "TestEncVectors",
                        env={"VERIF_VECTORS": ":".join(files), "VERIF_RANDOM": nrand,
                             "VERIF_KNOWN_RE": json.dumps(known_patterns(ctx))},
                        timeout=300 if ctx.quick else 800)
    filter_replay(ctx, replay_key)
    st = rep.get("stats", {})
    if rep.get("cases") is not None and st.get("spec_vectors") != nvec:
        ctx.inconclusive.append("engine executed %s of %d vectors" % (st.get("spec_vectors"), nvec))
    coverage = {
        "states": states, "transitions": transitions,
        "traces_validated_against_impl": st.get("spec_vectors", 0),
        "evaluations": rep.get("cases", 0),
        "distinct_nontrivial": rep.get("distinct", 0),
        "rule": "a case is one message (or stat record) value: packed by the go9p constructor, compared byte for "
                "byte with the specification's encoding, re-tagged with SetTag, decoded with Unpack (alternately "
                "with trailing bytes) and compared field by field; distinct = distinct (dialect, packet bytes); "
                "all are non-trivial (every case has a full packet comparison)",
        "samples": rep.get("samples", [])[:6],
        "spec_vectors": st.get("spec_vectors", 0),
        "random_cases": st.get("random_cases", 0),
        "vectors_per_type_dialect": st.get("per_type", {}),
        "violating_cases": st.get("violating_cases", 0),
        "violating_groups": st.get("violating_groups", {}),
        "wire_crosscheck_failures": st.get("wire_crosscheck_failures", 0),
        "bounds": {"int classes": "0, 1, max per field", "string lengths": [0, 1, 2, 255, 256, 65535],
                   "names/qids": "0..3 and 16 elements", "payload": [0, 1, 65536, 1048576],
                   "stat records": "covering of the class product (int vectors x string vectors), see docs/wire.md",
                   "stat string product classes": [0, 1, 2, 255, 256] if full else [0, 1, 256]},
    }
    assumptions = [
        "compiling /repo with go1.26.8 (harness module) instead of go1.23.12 does not change the codec's behaviour",
        "the *Akaros flag (PackRerror prefixes the error text) is at its default false",
        "values not representable on the wire (strings > 65535 bytes, stat records > 65535 bytes, PackTwrite with "
        "count != len(data)) are outside the property",
        "Dir.Size / Fcall.Size are length prefixes, not field values: they are checked as bytes, not as struct fields",
    ]
    return ctx.finish("exploration", coverage, assumptions)
