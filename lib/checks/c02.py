"""C02 Decoding is total and bounded on arbitrary bytes.

spec/Wire9P.tla (job "dec") defines Parse, the recogniser of well-formed messages / stat records.
TLC enumerates, for two canonical packets (short fields; minimal) of every type x dialect and for
bare stat records: every truncation, every cut (complete frame that ends early), every declared
size 0..len+2 and extreme sizes, every type-byte class, and the substitution of every count/length
field by 0, 1, cur-1, cur, cur+1, 16, 255, 256 and the extreme values, each with Parse's verdict
(well-formed with fields / malformed).  TLC also checks the specification's own consistency on
every vector.  The Go engine harness/codec TestDecVectors feeds each byte string to go9p.Unpack /
go9p.UnpackDir under recover() and applies the property's clauses (see harness/codec/c02_test.go).
Then seeded random mutants (VERIF_SEED) of random small well-formed packets go through the same
oracle (clauses a-d; the specification gives no verdict for them).
Thorough tier: Go native fuzzing (FuzzDecode, corpus seeded with the vectors) with the same oracle
for a bounded time -- random byte generation is outside the TLA+ specification.
"""
import json
import os
import re
import subprocess
import time

from checks.c01 import ALL, BOTH, apply_replay, filter_replay, known_patterns, run_tlc_shards


def dec_shards():
    a = {"Rstat", "Twstat"}
    b = {"stat", "Tattach", "Tauth", "Tcreate"}
    c = {"Twalk", "Rwalk", "Twrite", "Rread", "Rerror", "Tversion", "Rversion"}
    rest = set(ALL) - a - b - c
    return [(a, {True}), (a, {False}), (b, BOTH), (c, BOTH), (rest, BOTH)]


def run_fuzz(ctx, files, seconds):
    """go test -fuzz in the scratch copy of the harness. Returns dict(execs, new, failed, keys)."""
    d = ctx.harness_dir()
    env = ctx.go_env()
    env["VERIF_VECTORS"] = ":".join(files)
    par = max(2, min(12, (os.cpu_count() or 4) - 2))
    cmd = ["go", "test", "-tags", "verif", "-vet=off", "-run", "^$", "-fuzz", "^FuzzDecode$",
           "-fuzztime", "%ds" % seconds, "-parallel", str(par), "./codec"]
    t = time.time()
    try:
        p = subprocess.run(cmd, cwd=d, env=env, stdout=subprocess.PIPE, stderr=subprocess.STDOUT, text=True,
                           errors="replace", timeout=seconds + 240)
        out, code = p.stdout, p.returncode
    except subprocess.TimeoutExpired as ex:
        out = ex.stdout.decode("utf8", "replace") if isinstance(ex.stdout, bytes) else (ex.stdout or "")
        code = -9
    wall = time.time() - t
    execs = 0
    new = 0
    for m in re.finditer(r"execs: (\d+) \(\d+/sec\)(?:, new interesting: (\d+))?", out):
        execs = int(m.group(1))
        if m.group(2):
            new = int(m.group(2))
    res = {"execs": execs, "new_interesting": new, "exit": code, "wall_s": round(wall, 1), "parallel": par,
           "fuzztime_s": seconds}
    ctx.engine_runs.append({"engine": "FuzzDecode", "exit": code, "cases": execs, "distinct": new,
                            "violations": 0, "wall_s": round(wall, 1)})
    ctx.log("fuzz FuzzDecode: exit=%d execs=%d new=%d %.1fs" % (code, execs, new, wall))
    vio = re.findall(r"VERIF-VIOLATION (\S+) :: (.*)", out)
    if vio:
        key, what = vio[0]
        failing = None
        fm = re.search(r"Failing input written to (\S+)", out)
        if fm:
            fp = os.path.join(d, "codec", fm.group(1))
            if os.path.exists(fp):
                failing = open(fp).read()
        ctx.violation(key, what, {"engine": "codec-c02-fuzz", "corpus_entry": failing})
        ctx.engine_runs[-1]["violations"] = 1
    elif code != 0:
        ctx.log("fuzz output tail:\n" + "\n".join(out.splitlines()[-30:]))
        ctx.inconclusive.append("go test -fuzz exited %d without a violation line" % code)
    return res


def run(ctx):
    replay_key = apply_replay(ctx)
    files, results = run_tlc_shards(ctx, "dec", dec_shards(), not ctx.quick, timeout=240)
    states = sum(r.distinct for r in results)
    transitions = sum(r.generated for r in results)
    if not all(r.ok for r in results) or not all(os.path.exists(f) for f in files):
        ctx.inconclusive.append("TLC did not produce all Wire9P vectors")
        return ctx.finish("exploration", {"states": states, "transitions": transitions,
                                          "traces_validated_against_impl": 0, "samples": [],
                                          "evaluations": 0, "distinct_nontrivial": 0, "rule": "n/a"})
    nvec = 0
    for f in files:
        with open(f) as fh:
            nvec += sum(1 for _ in fh)
    ctx.log("Wire9P dec: %d vectors (%d distinct TLC states) from %d shards" % (nvec, states, len(files)))
    rep = ctx.go_engine("codec", "TestDecVectors",
                        env={"VERIF_VECTORS": ":".join(files), "VERIF_KNOWN_RE": json.dumps(known_patterns(ctx)),
                             "VERIF_RANDOM": int(os.environ.get("VERIF_RANDOM", "30000" if ctx.quick else "600000"))},
                        timeout=600)
    st = rep.get("stats", {})
    if rep.get("cases") is not None and st.get("spec_vectors") != nvec:
        ctx.inconclusive.append("engine executed %s of %d vectors" % (st.get("spec_vectors"), nvec))
    fuzz = None
    if not ctx.quick and (replay_key is None or ":fuzz:" in replay_key):
        if rep.get("violations") and not os.environ.get("VERIF_FORCE_FUZZ"):
            ctx.log("fuzzing skipped: the specification's vectors already violate the property "
                    "(the fuzzer would stop at the same inputs)")
        else:
            fuzz = run_fuzz(ctx, files, int(os.environ.get("VERIF_FUZZTIME", "300")))
    filter_replay(ctx, replay_key)
    coverage = {
        "states": states, "transitions": transitions,
        "traces_validated_against_impl": st.get("spec_vectors", 0),
        "evaluations": rep.get("cases", 0) + (fuzz["execs"] if fuzz else 0),
        "spec_vectors": st.get("spec_vectors", 0),
        "random_mutants": st.get("random_mutants", 0),
        "distinct_nontrivial": rep.get("distinct", 0),
        "rule": "a case is one byte string decoded by Unpack (or UnpackDir) under recover() with the allocation "
                "measured, decoded three more times with different bytes after the declared size, and on success "
                "re-encoded with the constructors and decoded again; distinct = distinct (dialect, kind, bytes); "
                "fuzz executions are counted in evaluations only",
        "samples": rep.get("samples", [])[:6],
        "spec_wellformed": st.get("spec_wellformed", 0),
        "code_accepted": st.get("code_accepted", 0),
        "max_alloc_per_call": st.get("max_alloc_per_call", 0),
        "alloc_bound": "64*len(input) + 65536 bytes",
        "violating_cases": st.get("violating_cases", 0),
        "violating_groups": st.get("violating_groups", {}),
        "wire_crosscheck_failures": st.get("wire_crosscheck_failures", 0),
        "fuzz": fuzz if fuzz else ("not run in the quick tier" if ctx.quick else "skipped: vectors already violate"),
        "bounds": {"canonical packets": "2 per type x dialect (short fields; minimal) + 2 bare stat records per dialect",
                   "mutations": "trunc@0..len-1, cut@4..len-1, size=0..len+2 and 6 extreme sizes, extend@len+1..3, "
                                "type byte in {0,1,99,100,106,127,128,129,133,255}, every count/length field := "
                                "{0,1,cur-1,cur,cur+1,16,255,256} and extremes, as is and in a frame padded by 300 bytes"},
    }
    assumptions = [
        "compiling /repo with go1.26.8 (harness module) instead of go1.23.12 does not change the codec's behaviour",
        "allocation is measured as the runtime.MemStats.TotalAlloc delta around the call in a single-goroutine test "
        "binary (re-measured twice when the bound is exceeded by less than 4 MiB)",
        "'declared size' of a bare stat record is 2 + its size[2] prefix",
        "a fixed-width field that is absent at the end of an accepted packet (go9p accepts a 9P2000.u Tauth/Tattach "
        "without n_uname) is not a variable-length field outside the packet; such packets are accepted by the oracle "
        "if re-encoding round-trips",
        "random byte generation (Go native fuzzing, thorough tier) is outside the TLA+ specification; only its corpus "
        "seeds come from the specification",
    ]
    return ctx.finish("exploration", coverage, assumptions)
