"""C03 -- exactly one correctly tagged reply per request under any concurrency."""
import json

import srvfam

INVS = ["TypeOK", "NoCrash", "AtMostOneReply", "ReplyMatches", "AllAnswered", "NoStuckThread"]
PROPS = {"C03"}


def run(ctx):
    if ctx.replay:
        return srvfam.replay_file(ctx, PROPS)
    q = ctx.quick
    # 1. exhaustive model checking of the model of the code as it is
    c2 = srvfam.consts(ctx, NReq=2, Kinds={"Attach", "Stat", "Flush"}, Extra=True, Late=True, InitFids=set())
    ctx.write_cfg("c03_core2.cfg", c2, invariants=INVS)
    r2 = ctx.tlc_must_pass("Srv9P", "c03_core2.cfg", timeout=600, name="core2")
    states, trans = r2.distinct, r2.generated
    if not q:
        c3 = srvfam.consts(ctx, NReq=3, Tags={1, 2, 3}, Kinds={"Stat", "Flush"}, Extra=True, Late=False, InitFids={1})
        ctx.write_cfg("c03_core3.cfg", c3, invariants=INVS)
        r3 = ctx.tlc_must_pass("Srv9P", "c03_core3.cfg", timeout=1500, name="core3")
        states += r3.distinct
        trans += r3.generated
    # 2. spec -> code: transition tour of core2 replayed on the real server
    paths, cov, total, _ = srvfam.behaviours_tour(ctx, c2, "core2", sample_edges=6000 if q else None, known_size=r2)
    rep, tpath, epath, bpath = srvfam.replay(ctx, paths, c2, "core2")
    rejects, tlines = srvfam.run_trace_validation(ctx, tpath, c2)
    verdicts, elines = srvfam.run_monitor(ctx, epath)
    nviol = srvfam.report_verdicts(ctx, verdicts, PROPS, bpath, c2, "TestReplay")
    traces = rep.get("cases_total", 0)
    samples = list(rep.get("samples", []))[:2]
    selftest = srvfam.binding_selftest(ctx, tpath, epath, c2)
    # 3. code -> spec: random sessions beyond TLC's bounds (many outstanding requests, pool overflow)
    runs = [dict(nreq=8, nt=8, cases=150 if q else 1500), dict(nreq=16, nt=16, cases=60 if q else 600)]
    # one long delay per case (every hook in turn, first/second/third request) while the session goes on
    runs += [dict(nreq=5, nt=5, cases=360 if q else 3600, hold=True), dict(nreq=5, nt=5, cases=360 if q else 3600, hold=True)]
    if not q:
        runs += [dict(nreq=40, nt=64, cases=60), dict(nreq=70, nt=70, cases=20)]
    rdrift = 0
    maxout = 0
    for i, rr in enumerate(runs):
        ver = bool(rr.get("version"))
        cr = srvfam.consts(ctx, NReq=rr["nreq"], Tags=set(range(1, rr["nt"] + (2 if ver else 1))), Fids={1, 2, 3},
                           Kinds={"Attach", "Stat", "Clunk", "Walk", "Flush"} | ({"Version"} if ver else set()), Extra=not ver, Late=True,
                           InitFids={1}, SharedTags=ver, NoTag=(rr["nt"] + 1) if ver else 0)
        rc = {"cases": rr["cases"], "nreq": rr["nreq"], "kinds": ["Attach", "Stat", "Stat", "Clunk", "Walk", "Flush"] + (["Version", "Stat"] if ver else []),
              "shared": ver, "close": False, "extra": not ver, "latep": 15, "sendp": 35 if rr["nreq"] < 40 else 70, "probe": False, "hold": rr.get("hold", False)}
        tag = "rand%d" % i
        # every second run goes through the SrvReqProcessOps override path (same specification)
        rrep, tpath, epath, bpath = srvfam.random_run(ctx, cr, rc, tag, 100000 * (i + 1), processops=(i % 2 == 1))
        rj, tl = srvfam.run_trace_validation(ctx, tpath, cr, name="Srv9PTrace:" + tag)
        vd, el = srvfam.run_monitor(ctx, epath, name="Mon9P:" + tag)
        nviol += srvfam.report_verdicts(ctx, vd, PROPS, bpath, cr, "TestRandom")
        rejects += rj
        tlines += tl
        elines += el
        traces += rrep.get("cases_total", 0)
        rdrift += int(rrep.get("stats", {}).get("drift_cases", 0) or 0)
        maxout = max(maxout, int(rrep.get("stats", {}).get("max_outstanding", 0) or 0))
        samples += list(rrep.get("samples", []))[:1]
    cov_d = {
        "states": states, "transitions": trans,
        "traces_validated_against_impl": traces,
        "samples": samples[:4],
        "evaluations": traces, "distinct_nontrivial": len(paths) + sum(r["cases"] for r in runs),
        "rule": "behaviours = paths of a transition tour over the exhaustive Srv9P state graph (each path distinct by "
                "construction) replayed step by step on the real server, plus seeded random sessions/schedules; every "
                "one has >= 1 request and is run to quiescence",
        "tour_edges_covered": cov, "tour_edges_total": total, "tour_paths": len(paths),
        "trace_lines_validated": tlines, "trace_rejects": len(rejects), "trace_reject_samples": [list(x) for x in rejects[:5]],
        "external_events_monitored": elines, "monitor_verdicts_all_properties": len(verdicts),
        "replay_drift_cases": int(rep.get("stats", {}).get("drift_cases", 0) or 0) + rdrift,
        "max_outstanding_requests": maxout,
        "exhaustive": not q,
        "binding_selftest": selftest,
    }
    return ctx.finish("model_checking", cov_d, assumptions=[
        "client reuses a tag only after its reply or the Rflush of a flush naming it (flush(5)); Tversion only at session start",
        "an extra answer by the implementation happens while the request still owns its reply buffer (before the reply is read by the client)",
        "go1.26.8 (harness, testing/synctest) compiles /repo to the same behaviour as go1.23.12",
        "model constants follow the code: " + json.dumps(srvfam.detect_fixes(ctx.repo)),
    ])
