"""C04 -- the fid table follows the protocol history exactly."""
import fidfam
import srvfam


def run(ctx):
    cov = fidfam.run_family(ctx, {"C04"})
    # "no later than the reply that invalidates the fid" needs the reply and the destruction notice ordered against
    # each other: clunk-heavy sessions under the gate controller, judged by the Mon9P monitors
    q = ctx.quick
    n = 6
    cr = srvfam.consts(ctx, NReq=n, Tags=set(range(1, n + 1)), Fids={1, 2, 3}, Kinds={"Attach", "Stat", "Clunk", "Walk", "Flush"},
                       Late=True, InitFids={1})
    rc = {"cases": 150 if q else 1500, "nreq": n, "kinds": ["Attach", "Clunk", "Clunk", "Stat", "Walk"], "shared": False, "close": False,
          "extra": False, "latep": 10, "sendp": 40, "probe": False, "cbgatealways": True}
    rrep, tp, ep, bp = srvfam.random_run(ctx, cr, rc, "c04rand", 400000)
    rj = []      # FidDestroy is slow here (parked inside the callback), which Srv9P does not describe: monitors only
    vd, el = srvfam.run_monitor(ctx, ep)
    srvfam.report_verdicts(ctx, vd, {"C04"}, bp, cr, "TestRandom")
    cov["traces_validated_against_impl"] += int(rrep.get("cases_total", 0) or 0)
    cov["gated_sessions"] = int(rrep.get("cases_total", 0) or 0)
    cov["distinct_nontrivial"] += cov["gated_sessions"]
    cov["evaluations"] += cov["gated_sessions"]
    cov["gated_trace_rejects"] = len(rj)
    # "every fid it was shown, exactly once" across a disconnect: sessions cut at a random step with slow FidDestroy /
    # ConnClosed callbacks (fids being created while the close sweep runs)
    cc = srvfam.consts(ctx, NReq=5, Tags=set(range(1, 6)), Fids={1, 2, 3}, Kinds={"Attach", "Stat", "Clunk", "Walk"}, Late=True, InitFids={1, 2},
                       CanClose=True)
    rcc = {"cases": 150 if q else 1500, "nreq": 5, "kinds": ["Attach", "Attach", "Walk", "Stat", "Clunk"], "shared": False, "close": True,
           "extra": False, "latep": 20, "sendp": 50, "probe": False, "closevariants": True, "cbgate": True}
    crep, tpc, epc, bpc = srvfam.random_run(ctx, cc, rcc, "c04close", 450000)
    vdc, elc = srvfam.run_monitor(ctx, epc, name="Mon9P:c04close")
    srvfam.report_verdicts(ctx, vdc, {"C04"}, bpc, cc, "TestRandom")
    cov["close_sessions"] = int(crep.get("cases_total", 0) or 0)
    cov["traces_validated_against_impl"] += cov["close_sessions"]
    cov["distinct_nontrivial"] += cov["close_sessions"]
    cov["evaluations"] += cov["close_sessions"]
    return ctx.finish("model_checking", cov, assumptions=[
        "histories are sequential (one request at a time) for the table/refusal rules; the ordering of FidDestroy against the invalidating "
        "reply is observed in clunk-heavy concurrent sessions under the gate controller",
        "in 9P2000 (non-.u) mode only user 0 is used: the attach user is taken from n_uname, which that dialect lacks",
        "error texts other than 'unknown fid' and 'fid already in use' are not compared",
    ])
