"""C04 -- the fid table follows the protocol history exactly."""
import fidfam


def run(ctx):
    cov = fidfam.run_family(ctx, {"C04"})
    return ctx.finish("model_checking", cov, assumptions=[
        "requests are issued one at a time (histories); concurrent use of one fid is the subject of C03/C07/C19",
        "in 9P2000 (non-.u) mode only user 0 is used: the attach user is taken from n_uname, which that dialect lacks",
        "error texts other than 'unknown fid' and 'fid already in use' are not compared",
    ])
