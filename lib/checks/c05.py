"""C05 -- protocol rules are enforced before the implementation is called."""
import fidfam


def run(ctx):
    cov = fidfam.run_family(ctx, {"C05"})
    return ctx.finish("model_checking", cov, assumptions=[
        "requests are issued one at a time; 'effects visible to every request sent after its reply' is checked by the next "
        "request of the history being judged against the reference table",
        "counts: boundary classes 0, lim-1, lim, lim+1, 2^31, 2^32-24, 2^32-1 with lim = msize-IOHDRSZ (Twrite only up to lim+1, "
        "a larger Twrite does not fit a frame of msize)",
        "requests on which the property text is silent are not generated (see spec/FidRef.tla header)",
    ])
