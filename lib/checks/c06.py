"""C06 -- no client behaviour can crash the server."""
import json
import os

import fidfam
import srvfam
import tour
from checks.c01 import run_tlc_shards
from checks.c02 import dec_shards


def run(ctx):
    q = ctx.quick
    states = trans = 0
    # 1. the server model with an unconstrained (hostile) choice of fids and kinds: the crash sites the model knows
    #    (nil fid in a post-handler, SetTag on an unpacked reply) are unreachable
    # (measured: 3 requests, 2 tags, 5 kinds = 98 M distinct states, 34 min on 10 busy cores; the thorough tier drops Stat, which
    # differs from Clunk only by not unbinding)
    ch = srvfam.consts(ctx, NReq=2 if q else 3, Tags={1, 2}, Fids={1, 2},
                       Kinds={"Attach", "Stat", "Clunk", "Walk", "Flush"} if q else {"Attach", "Clunk", "Walk", "Flush"},
                       Late=False, InitFids={1}, CanClose=q)
    ctx.write_cfg("c06_hostile.cfg", ch, invariants=["TypeOK", "NoCrash"])
    r = ctx.tlc_must_pass("Srv9P", "c06_hostile.cfg", timeout=3600, name="hostile-model")
    states += r.distinct
    trans += r.generated
    # 2. every (fid state, request) edge of the reference machine, incl. NOFID / stale / reused fids and extreme counts
    crashes_total = 0
    cases = 0
    samples = []
    for i, (dotu, auth) in enumerate([(True, False), (False, True)]):
        c = fidfam.consts(dotu, auth, fidfam.detect_oexec(ctx.repo))
        name = "c06fid_%d%d" % (dotu, auth)
        ctx.write_cfg(name + ".cfg", c, view="View")
        rg, dot = ctx.tlc_dump_graph("FidRef", name + ".cfg", timeout=900)
        if not rg.ok:
            ctx.inconclusive.append("FidRef graph dump failed")
            continue
        states += rg.distinct
        trans += rg.generated
        init, adj = tour.load(dot)
        os.remove(dot)
        paths, cov, total = tour.cover(init, adj, seed=ctx.seed + 17 * i, sample_edges=(5000 if q else None), max_len=60)
        bpath = ctx.path("beh_%s.ndjson" % name)
        tour.write_behaviours(paths, bpath)
        fc = {"dotu": dotu, "hasauth": auth, "msize": 256, "nofid": 9, "twoconn": True}
        rep, crashes = ctx.go_engine_resilient("srvh", "TestFidRef", env={"VERIF_BEHAVIOURS": bpath, "VERIF_FIDCFG": json.dumps(fc),
                                               "VERIF_TRACE_OUT": ctx.path("t_%s.ndjson" % name)}, timeout=1500, name="TestFidRef:" + name)
        cases += rep.get("cases_total", 0)
        for cr in crashes:
            crashes_total += 1
            ctx.violation("c06:server-crash:%s:fidref" % cr["func"], "server panicked during reference history %s: %s" % (cr["case"], cr["panic"]),
                          {"engine": "TestFidRef", "fidcfg": fc, "behaviour": fidfam.case_of(bpath, cr["case"])})
        for v in rep.get("violations") or []:
            pass
    # drop what TestFidRef itself reported (other-connection checks belong to C04)
    ctx.violations = [v for v in ctx.violations if v["key"].startswith("c06:")]
    # 3. hostile frames (the Wire9P mutation vectors), adversarial sessions, mutated sessions and random bytes,
    #    against the scripted implementation and against the Unix file server on a scratch tree
    files, results = run_tlc_shards(ctx, "dec", dec_shards(), not q, timeout=240)
    states += sum(x.distinct for x in results)
    trans += sum(x.generated for x in results)
    files = [f for f in files if os.path.exists(f)]
    for ufs in (0, 1):
        env = {"VERIF_UFS": ufs, "VERIF_VECTORS": ":".join(files), "VERIF_SESSIONS": 150 if q else 3000,
               "VERIF_MAXFRAMES": 1500 if q else 0}
        rep, crashes = ctx.go_engine_resilient("srvh", "TestHostile", env=env, timeout=2400, name="TestHostile:ufs=%d" % ufs, max_restarts=40)
        cases += rep.get("cases_total", 0)
        samples += (rep.get("samples") or [])[:2]
        for cr in crashes:
            crashes_total += 1
            ctx.violation("c06:server-%s:%s:%s" % ("stall" if cr.get("kind") == "stall" else "crash", cr["func"], "ufs" if ufs else "scripted"),
                          "server %s in hostile case %s: %s" % ("stopped serving" if cr.get("kind") == "stall" else "panicked", cr["case"], cr["panic"]),
                          {"engine": "TestHostile", "ufs": ufs, "case": cr["case"], "seed": ctx.seed})
    # 4. concurrency-dependent crash sites (a request cancelled before it starts, late and extra answers, disconnects in
    #    mid-flight): seeded sessions under the gate controller, with a client that also misuses fids
    for i, (n, close, hold) in enumerate([(8, False, False), (6, True, False), (4, False, True)]):
        # hold: one goroutine delayed at one specification action per case (every hook in turn) while the session goes on
        cr = srvfam.consts(ctx, NReq=n, Tags=set(range(1, n + 1)), Fids={1, 2, 3}, Kinds={"Attach", "Stat", "Clunk", "Walk", "Flush"},
                           Extra=not hold, Late=True, InitFids={1}, CanClose=close)
        rc = {"cases": (360 if hold else 200) if q else (3600 if hold else 2500), "nreq": n,
              "kinds": ["Attach", "Attach", "Stat", "Clunk", "Walk", "Flush", "Flush"], "shared": False,
              "close": close, "extra": not hold, "latep": 15, "sendp": 40, "probe": False, "insane": not hold, "hold": hold}
        rrep, tp, ep, bp = srvfam.random_run(ctx, cr, rc, "c06rand%d" % i, 900000 + 50000 * i)
        cases += int(rrep.get("cases_total", 0) or 0)
        for crs in rrep.get("crashes") or []:
            crashes_total += 1
            ctx.violation("c06:server-crash:%s:gated" % crs["func"], "server panicked in gated session %s: %s" % (crs["case"], crs["panic"]),
                          {"engine": "TestRandom", "constants": {k: (sorted(v) if isinstance(v, (set, frozenset)) else v) for k, v in cr.items()},
                           "config": srvfam.harness_cfg(cr), "behaviour": srvfam.case_replay(bp, crs["case"])})
    # 5. directory reads at arbitrary offsets (UfsData part B): TLC checks that the transcribed window of Ufs.Read keeps
    #    its slice expressions in bounds for EVERY offset and count (WindowSafe); a tour of the graph with the off-rule
    #    read DReadAt(off, count) is executed on real directories; the trace tells TLC what the transcription answers
    from checks import c15
    dc = c15.consts(DirImpl=True, DirMutate=False, **(dict(MaxEntries=3, MaxCount=10) if q else {}))
    ctx.write_cfg("c06_dir_window.cfg", dc, invariants=["WindowSafe", "WindowRefines"], spec="DirSpec")
    rw = ctx.tlc_must_pass("UfsData", "c06_dir_window.cfg", timeout=600, heap="4g", name="dir:window-safe")
    states += rw.distinct
    trans += rw.generated
    ctx.write_cfg("c06_dir_tour.cfg", dc, invariants=["WindowSafe"], spec="DirAnyTourSpec", view="DView")
    rg, dot = ctx.tlc_dump_graph("UfsData", "c06_dir_tour.cfg", timeout=600)
    dirstats = {}
    if not rg.ok or not os.path.exists(dot):
        ctx.inconclusive.append("no off-rule directory tour graph")
    else:
        states += rg.distinct
        trans += rg.generated
        init, adj = tour.load(dot)
        os.remove(dot)
        paths, dcov, dtotal = tour.cover(init, adj, seed=ctx.seed + 5, sample_edges=5000 if q else 60000)
        tpath = ctx.path("c06_dir_tour.ndjson")
        tour.write_behaviours(paths, tpath)
        t1 = ctx.path("c06_dir_trace.ndjson")
        nv = len(ctx.violations)
        drep = c15.engine(ctx, "c06", "TestC15Tour", env={"VERIF_TOUR": tpath, "VERIF_UNIT": c15.UNIT, "VERIF_TRACE_OUT": t1}, timeout=900)
        # listing-rule deviations seen on the way are C15's business
        ctx.violations = ctx.violations[:nv] + [v for v in ctx.violations[nv:] if v["key"].startswith("c06:")]
        crashes_total += sum(1 for v in ctx.violations[nv:] if ":panic:" in v["key"])
        drift = 0
        lines = 0
        if "cases" in drep:
            ctx.write_cfg("c06_dir_trace.cfg", c15.consts(DirImpl=False), spec="DirTraceSpec")
            rt = ctx.tlc("UfsDataTrace", "c06_dir_trace.cfg", workers=1, timeout=800, name="trace:dir-offrule", env={"IN_FILE": t1}, heap="4g")
            import re as _re
            m = _re.search(r'<<"CONSUMED", (\d+)>>', rt.out)
            if not rt.ok or not m:
                ctx.inconclusive.append("off-rule directory trace not consumed by TLC (%s)" % (rt.violated or rt.error))
            else:
                lines = int(m.group(1))
                rej = _re.findall(r'<<"REJECT", (\d+), (\d+), "(\w+)">>', rt.out)
                drift = len(rej)
                for a, b, act in rej[:5]:
                    ctx.log("NOTE off-rule directory read: trace line %s (%s) is not what the transcribed window answers (model drift, no verdict)" % (b, act))
            cases += drep.get("cases", 0)
        ds = drep.get("stats", {})
        dirstats = {"tour_edges_covered": dcov, "tour_edges_total": dtotal, "tour_paths": len(paths), "offrule_treads": ds.get("offrule_treads", 0),
                    "treads": ds.get("treads", 0), "directories": ds.get("directories", 0), "trace_lines_validated": lines, "trace_drift": drift}
        if "cases" in drep and not ds.get("offrule_treads"):
            ctx.inconclusive.append("the directory tour executed no off-rule read")
    cov = {"states": states, "transitions": trans, "traces_validated_against_impl": cases, "directory_offsets": dirstats, "samples": samples[:4] or [{"note": "no sample"}],
           "evaluations": cases, "distinct_nontrivial": cases,
           "rule": "reference-machine histories (tour) + one case per Wire9P mutation vector sent as a frame + seeded adversarial / mutated / "
                   "random-byte sessions; every case ends with a liveness probe on a fresh connection and on a bystander connection",
           "server_crashes": crashes_total}
    return ctx.finish("exploration", cov, assumptions=[
        "a panic in any goroutine of the server kills the hosting test process; the driver attributes it to the case in progress and restarts after it",
        "generation of random bytes and of adversarial field values is seeded Go code, outside the TLA+ specifications; the expected "
        "behaviour (reply or dropped connection, other connections unaffected) is the specifications'",
        "the Unix file server runs as uid 0 on a scratch tree",
    ])
