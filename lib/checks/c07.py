"""C07 -- Tflush is always answered and truly cancels."""
import json

import srvfam

INVS = ["TypeOK", "NoCrash", "AtMostOneReply", "ReplyMatches", "AllAnswered", "FlushOrder", "NoCallAfterCancel",
        "FlushAnswered", "CancelLeavesNothing", "NoStuckThread"]
PROPS = {"C07"}


def run(ctx):
    if ctx.replay:
        return srvfam.replay_file(ctx, PROPS)
    q = ctx.quick
    states = trans = 0
    # 1. exhaustive: flush arriving at every stage of every target kind; with and without FlushOp
    exh = [
        ("flush2", dict(NReq=2, Kinds={"Attach", "Stat", "Clunk", "Flush"}, Late=not q, InitFids={1}, Fids={1, 2})),
        ("flush2op", dict(NReq=2, Kinds={"Attach", "Stat", "Flush"}, Late=True, HasFlushOp=True, InitFids={1}, Fids={1, 2})),
        ("flushwalk", dict(NReq=2, Kinds={"Walk", "Flush"}, Late=False, InitFids={1}, Fids={1, 2})),
    ]
    # the target still QUEUED behind an older request of its tag (tag groups): flush of the newest member
    exh.append(("flushq", dict(NReq=3, Tags={1, 2}, Kinds={"Stat", "Flush"}, SharedTags=True, Late=False, InitFids={1})))
    if not q:
        exh += [
            ("flush3", dict(NReq=3, Tags={1, 2, 3}, Kinds={"Stat", "Flush"}, Late=False, InitFids={1})),  # flush of a flush, two flushes of one request
            ("flush3op", dict(NReq=3, Tags={1, 2, 3}, Kinds={"Attach", "Flush"}, Late=False, HasFlushOp=True, InitFids=set())),
        ]
    for name, over in exh:
        c = srvfam.consts(ctx, **over)
        ctx.write_cfg("c07_%s.cfg" % name, c, invariants=INVS + (["TagGroupFIFO", "NoQueuedForever"] if over.get("SharedTags") else []))
        r = ctx.tlc_must_pass("Srv9P", "c07_%s.cfg" % name, timeout=2400, name=name)
        states += r.distinct
        trans += r.generated
    if not q:
        # four requests with tag groups and flushes (two flushes in one group, a late joiner): too large to exhaust; random walks
        c4 = srvfam.consts(ctx, NReq=4, Tags={1, 2, 3}, Kinds={"Stat", "Flush"}, SharedTags=True, Late=False, InitFids={1})
        ctx.write_cfg("c07_flushq4_sim.cfg", c4, invariants=INVS + ["TagGroupFIFO", "NoQueuedForever"])
        r4 = ctx.tlc("Srv9P", "c07_flushq4_sim.cfg", workers=None, timeout=300, name="flushq4:simulate",
                     extra=["-simulate", "num=100000000", "-depth", "80"], expect_violation=True)
        if r4.violated:
            ctx.inconclusive.append("TLC simulation of the 4-request tag-group flush model violates %s" % r4.violated)
    # 2. spec -> code: complete transition tours of small flush models replayed on the real server
    tours = [
        ("tA", dict(NReq=2, Kinds={"Attach", "Stat", "Flush"}, Late=False, InitFids={1}), 4000 if q else None),
        ("tB", dict(NReq=2, Kinds={"Attach", "Flush"}, Late=False, HasFlushOp=True, InitFids=set()), 3000 if q else None),
        ("tC", dict(NReq=2, Kinds={"Clunk", "Flush"}, Late=True, InitFids={1}), 1500 if q else None),
        ("tD", dict(NReq=2, Kinds={"Walk", "Flush"}, Late=False, InitFids={1}, Fids={1, 2}), 1500 if q else None),
    ]
    traces = 0
    samples = []
    rejects = []
    verdicts = []
    tlines = elines = 0
    tour_paths = tour_cov = tour_total = 0
    for name, over, sample in tours:
        c = srvfam.consts(ctx, **over)
        paths, cov, total, rt = srvfam.behaviours_tour(ctx, c, name, sample_edges=sample)
        states += rt.distinct
        trans += rt.generated
        rep, tpath, epath, bpath = srvfam.replay(ctx, paths, c, name)
        rj, tl = srvfam.run_trace_validation(ctx, tpath, c, name="Srv9PTrace:" + name)
        vd, el = srvfam.run_monitor(ctx, epath, name="Mon9P:" + name)
        srvfam.report_verdicts(ctx, vd, PROPS, bpath, c, "TestReplay")
        rejects += rj
        verdicts += vd
        tlines += tl
        elines += el
        traces += rep.get("cases_total", 0)
        samples += list(rep.get("samples", []))[:1]
        tour_paths += len(paths)
        tour_cov += cov
        tour_total += total
    # 2b. random walks of the queued-target model (too large for a tour), replayed the same way
    cq = srvfam.consts(ctx, NReq=3, Tags={1, 2}, Kinds={"Stat", "Flush"}, SharedTags=True, Late=False, InitFids={1})
    sims, rs = srvfam.behaviours_sim(ctx, cq, "flushq", num=400 if q else 4000, depth=60)
    srep, stp, sep, sbp = srvfam.replay(ctx, sims, cq, "flushq-sim", id_base=50000)
    rj, tl = srvfam.run_trace_validation(ctx, stp, cq, name="Srv9PTrace:flushq-sim")
    vd, el = srvfam.run_monitor(ctx, sep, name="Mon9P:flushq-sim")
    srvfam.report_verdicts(ctx, vd, PROPS, sbp, cq, "TestReplay")
    rejects += rj
    verdicts += vd
    tlines += tl
    elines += el
    traces += srep.get("cases_total", 0)
    # 3. code -> spec: flush-heavy random sessions, with fid probes after quiescence (CancelLeavesNothing)
    runs = [dict(nreq=6, cases=120 if q else 1200, op=False), dict(nreq=6, cases=120 if q else 1200, op=True)]
    # one long delay per case: a request's goroutine stays parked at one action (every hook in turn) while the session goes on
    runs += [dict(nreq=4, cases=360 if q else 3600, op=False, hold=True), dict(nreq=4, cases=360 if q else 3600, op=True, hold=True)]
    # requests issued under a tag that is still outstanding (tag groups), flushed
    runs += [dict(nreq=6, cases=150 if q else 1500, op=False, shared=True)]
    if not q:
        runs += [dict(nreq=14, cases=400, op=False), dict(nreq=14, cases=400, op=True)]
    for i, rr in enumerate(runs):
        cr = srvfam.consts(ctx, NReq=rr["nreq"], Tags=set(range(1, rr["nreq"] + 1)), Fids={1, 2, 3}, HasFlushOp=rr["op"],
                           Kinds={"Attach", "Stat", "Clunk", "Walk", "Flush"}, Extra=False, Late=True, InitFids={1},
                           SharedTags=bool(rr.get("shared")))
        rc = {"cases": rr["cases"], "nreq": rr["nreq"], "kinds": ["Attach", "Stat", "Clunk", "Walk", "Flush", "Flush", "Flush"],
              "shared": bool(rr.get("shared")), "close": False, "extra": False, "latep": 20, "sendp": 40, "probe": not rr.get("shared"),
              "hold": rr.get("hold", False)}
        tag = "frand%d" % i
        rrep, tpath, epath, bpath = srvfam.random_run(ctx, cr, rc, tag, 300000 + 20000 * i)
        rj, tl = srvfam.run_trace_validation(ctx, tpath, cr, name="Srv9PTrace:" + tag)
        vd, el = srvfam.run_monitor(ctx, epath, name="Mon9P:" + tag)
        srvfam.report_verdicts(ctx, vd, PROPS, bpath, cr, "TestRandom")
        rejects += rj
        verdicts += vd
        tlines += tl
        elines += el
        traces += rrep.get("cases_total", 0)
        samples += list(rrep.get("samples", []))[:1]
    cov_d = {
        "states": states, "transitions": trans, "traces_validated_against_impl": traces, "samples": samples[:4],
        "evaluations": traces, "distinct_nontrivial": tour_paths + sum(r["cases"] for r in runs),
        "rule": "tour paths over the exhaustive state graphs of the flush models (target kinds Attach/Stat/Clunk/Walk, with and "
                "without FlushOp) + seeded random flush-heavy sessions with fid probes; all contain >= 1 request",
        "tour_edges_covered": tour_cov, "tour_edges_total": tour_total, "tour_paths": tour_paths,
        "trace_lines_validated": tlines, "trace_rejects": len(rejects), "trace_reject_samples": [list(x) for x in rejects[:5]],
        "external_events_monitored": elines, "monitor_verdicts_all_properties": len(verdicts),
        "exhaustive": not q,
    }
    return ctx.finish("model_checking", cov_d, assumptions=[
        "a Tflush names a tag that is outstanding when it is sent or has been answered (never its own tag); oldtag is not reused "
        "before the Rflush (flush(5))",
        "a Tflush that is itself cancelled by a later Tflush gets no Rflush (a flushed request gets at most one reply)",
        "FlushOp implementations cancel only requests they have been given and not yet answered",
        "model constants follow the code: " + json.dumps(srvfam.detect_fixes(ctx.repo)),
    ])
