"""C08 -- independent requests progress independently; shared tags run FIFO."""
import json

import srvfam

INVS = ["TypeOK", "NoCrash", "AtMostOneReply", "ReplyMatches", "AllAnswered", "TagGroupFIFO", "NoQueuedForever", "NoStuckThread"]
PROPS = {"C08"}


def held_run(ctx, c, hc, tag, id_base, bystander=True):
    tpath = ctx.path("trace_%s.ndjson" % tag)
    epath = ctx.path("ext_%s.ndjson" % tag)
    bpath = ctx.path("beh_%s.ndjson" % tag)
    env = {"VERIF_CFG": json.dumps(srvfam.harness_cfg(c, bystander=bystander)), "VERIF_HELD": json.dumps(hc),
           "VERIF_TRACE_OUT": tpath, "VERIF_EXT_OUT": epath, "VERIF_BEH_OUT": bpath, "VERIF_ID_BASE": str(id_base)}
    rep, crashes = ctx.go_engine_resilient("srvh", "TestHeld", env=env, ext_out=epath, timeout=1500, name="TestHeld:%s" % tag)
    return rep, tpath, epath, bpath


def run(ctx):
    if ctx.replay:
        return srvfam.replay_file(ctx, PROPS)
    q = ctx.quick
    # 1. model checking: tag groups (safety), then liveness with one request held for ever
    cg = srvfam.consts(ctx, NReq=3, Tags={1, 2}, Kinds={"Stat"}, SharedTags=True, Late=not q, InitFids={1})
    ctx.write_cfg("c08_groups.cfg", cg, invariants=INVS)
    rg = ctx.tlc_must_pass("Srv9P", "c08_groups.cfg", timeout=2400, name="groups3")
    states, trans = rg.distinct, rg.generated
    cl = srvfam.consts(ctx, NReq=2, Tags={1, 2}, Kinds={"Stat"}, SharedTags=True, InitFids={1}, Held={1})
    ctx.write_cfg("c08_live.cfg", cl, spec="FairSpec", properties=["Progress"])
    rl = ctx.tlc_must_pass("Srv9P", "c08_live.cfg", timeout=1500, name="live(Held={1})")
    states += rl.distinct
    trans += rl.generated
    # 2. spec -> code: tours of the tag-group models
    ct2 = srvfam.consts(ctx, NReq=2, Tags={1, 2}, Kinds={"Stat"}, SharedTags=True, Late=True, InitFids={1})
    ct3 = srvfam.consts(ctx, NReq=3, Tags={1} if q else {1, 2}, Kinds={"Stat"}, SharedTags=True, Late=False, InitFids={1})
    traces = 0
    samples = []
    rejects = []
    verdicts = []
    tlines = elines = 0
    cov = total = 0
    paths = []
    for name, c, sample, me in [("groups2", ct2, 2500 if q else 25000, 600000), ("groups3", ct3, 1500 if q else 25000, 2000000)]:
        ps, cv, tt, rt = srvfam.behaviours_tour(ctx, c, name, sample_edges=sample, max_edges=me)
        states += rt.distinct
        trans += rt.generated
        rep, tpath, epath, bpath = srvfam.replay(ctx, ps, c, name)
        rj, tl = srvfam.run_trace_validation(ctx, tpath, c, name="Srv9PTrace:" + name)
        vd, el = srvfam.run_monitor(ctx, epath, name="Mon9P:" + name)
        srvfam.report_verdicts(ctx, vd, PROPS, bpath, c, "TestReplay")
        rejects += rj
        verdicts += vd
        tlines += tl
        elines += el
        traces += rep.get("cases_total", 0)
        samples += list(rep.get("samples", []))[:1]
        paths += ps
        cov += cv
        total += tt
    # 3. held sets on the real server: every subset of up to hmax requests blocked in the implementation
    plans = 0
    runs = []
    for mp in ([0, 4] if q else [0, 1, 4]):
        runs.append(dict(mp=mp, groups=False, n=4 if q else 6, hmax=3 if q else 6, permmax=3, maxcases=60 if q else 700))
        runs.append(dict(mp=mp, groups=True, n=5 if q else 8, hmax=2 if q else 3, permmax=2 if q else 3, maxcases=40 if q else 500))
    runs.append(dict(mp=0, groups=True, n=5 if q else 7, hmax=2 if q else 3, permmax=2, maxcases=40 if q else 400, eventloop=True))
    runs.append(dict(mp=0, groups=False, n=4 if q else 6, hmax=2 if q else 3, permmax=2, maxcases=30 if q else 300, eventloop=True))
    # slow FidDestroy callbacks (a clunk blocked in the implementation) while other tags must complete
    runs.append(dict(mp=0, groups=False, n=4 if q else 6, hmax=2, permmax=2, maxcases=60 if q else 600, cbhold=True))
    for i, rr in enumerate(runs):
        nt = rr["n"] + 3
        cb = bool(rr.get("cbhold"))
        # in the runs without tag groups the request under model tag 2 carries the tag 0xFFFF (NOTAG) on the wire
        ch = srvfam.consts(ctx, NReq=rr["n"] + 2, Tags=set(range(1, nt + 1)), Fids={1, 2, 3} if cb else {1, 2},
                           Kinds={"Stat", "Clunk"} if cb else {"Stat"}, SharedTags=rr["groups"],
                           Late=False, InitFids={1, 2, 3} if cb else {1}, Maxpend=rr["mp"], NoTag=0 if rr["groups"] else 2)
        hc = {"n": rr["n"], "m": 2, "hmax": rr["hmax"], "groups": rr["groups"], "close": False, "partial": False,
              "kinds": ["Stat", "Clunk"] if cb else ["Stat"], "maxcases": rr["maxcases"], "permmax": rr["permmax"], "unknownfids": not cb,
              "eventloop": bool(rr.get("eventloop")), "cbhold": cb}
        tag = "held%d" % i
        hrep, tp, ep, bp = held_run(ctx, ch, hc, tag, 500000 + 10000 * i)
        rj, tl = srvfam.run_trace_validation(ctx, tp, ch, name="Srv9PTrace:" + tag)
        vd, el = srvfam.run_monitor(ctx, ep, name="Mon9P:" + tag)
        srvfam.report_verdicts(ctx, vd, PROPS, bp, ch, "TestHeld")
        rejects += rj
        tlines += tl
        elines += el
        verdicts += vd
        traces += hrep.get("cases_total", 0)
        plans += int(hrep.get("stats", {}).get("plans", 0) or 0)
        samples += list(hrep.get("samples", []))[:1]
    cov_d = {
        "states": states, "transitions": trans, "traces_validated_against_impl": traces, "samples": samples[:4],
        "evaluations": traces, "distinct_nontrivial": len(paths) + plans,
        "rule": "tour paths of the tag-group model (distinct by construction) + one execution per (held subset, release order, "
                "Maxpend, shared-tags) plan; each holds >= 0 requests in the implementation while others must complete",
        "tour_edges_covered": cov, "tour_edges_total": total, "tour_paths": len(paths), "held_plans": plans,
        "trace_lines_validated": tlines, "trace_rejects": len(rejects), "trace_reject_samples": [list(x) for x in rejects[:5]],
        "external_events_monitored": elines, "monitor_verdicts_all_properties": len(verdicts),
        "liveness": "Progress under FairSpec with Held={1}: %s" % ("ok" if rl.ok else rl.violated or rl.error),
    }
    return ctx.finish("model_checking", cov_d, assumptions=[
        "the tag-group runs of this check contain no Tflush (the Tag client interface has no flush); flushes inside tag groups "
        "(a target queued behind an older request of its tag) are model-checked, simulated and replayed by C07",
        "Tversion, handled synchronously in the receive goroutine, is excepted as the property says",
        "model constants follow the code: " + json.dumps(srvfam.detect_fixes(ctx.repo)),
    ])
