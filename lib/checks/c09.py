"""C09  Client calls get their own reply, with distinct and recycled tags.

S  spec/Clnt9P.tla, repaired design, healthy connection, peer answering in every order and kind:
   OwnReply, DistinctTags, Recycling, FIFOPerTag, no deadlock (K <= 3 callers, <= 2 calls each,
   with and without a Tag-interface caller).
B  (1) transition tours of the Clnt9P state graph and simulated behaviours are replayed step by step
       on the real client under the gate controller (harness/clnth) against a scripted peer; the
       abstraction observed after every step (caller/receiver/sender control state, request list
       tags, cached tags, tags out of the pool, every return value so far) is validated by TLC
       against spec/Clnt9PTrace.tla;
   (2) seeded random controlled schedules, validated the same way;
   (3) free-running sessions: every reply order for 1..5 outstanding calls, 1..64 callers with
       random orders, segmented replies and partial writes, Rerror / mismatched replies, the Tag
       interface, and > 65535 calls on one connection (thorough) with tag accounting.
O  external: each call's return value must be the payload derived from its own request content;
   tags seen by the independent decoder pairwise distinct among unanswered requests.
(The helper functions here are shared with c10.py.)"""
import glob
import json
import os
import re
import sys

sys.path.insert(0, os.path.dirname(os.path.dirname(os.path.abspath(__file__))))
import tour

ALL_KINDS = ["ok", "rerror", "wrongtype"]
C09_INVS = ["TypeOK", "OwnReply", "DistinctTags", "Recycling", "FIFOPerTag", "SenderSanity", "NoPanic"]
C10_INVS = ["TypeOK", "NoFalseSuccess", "CompleteReplyDelivered", "NoPanic", "OwnReply", "Recycling", "SenderSanity"]
ASSUMPTIONS = [
    "the repository compiled with go1.26.8 (harness toolchain, needed for testing/synctest) behaves like the go1.23.12 build",
    "the peer answers only requests it has received, each at most once, and requests sharing a tag in arrival order",
    "rendezvous steps are scheduled only when the partner is ready; a goroutine that would block forever is detected after all gates are opened at the end of each case",
    "the transport has stream-socket semantics: Read returns (0, nil) only for an empty buffer; a local Close fails pending Read/Write; a dead peer fails writes and ends the read stream after the bytes already sent",
    "tag pool modelled with NTags = calls+1 tags handed out FIFO (the real pool has 65535 and never wraps inside a replayed behaviour)",
]


def consts(K, NCalls, tagcallers=(), faults=(), maxfaults=1, ntags=None, cachecap=16, kinds=ALL_KINDS, fix=None):
    fx = {"FixHandoff": True, "FixLeak": True, "FixOversize": True, "FixTagNil": True, "FixFanNext": True,
          "WaitSender": True, "CloseOnFail": True}
    if fix:
        fx.update(fix)
    c = {"K": K, "NCalls": NCalls, "NTags": ntags if ntags is not None else K * NCalls + 1 + len(tagcallers),
         "CacheCap": cachecap, "TagCallers": set(tagcallers), "Kinds": set(kinds), "Faults": set(faults),
         "MaxFaults": maxfaults}
    c.update(fx)
    return c


def go_cfg(c, dotu=True):
    return json.dumps({"K": c["K"], "NCalls": c["NCalls"], "NTags": c["NTags"], "TagCallers": sorted(c["TagCallers"]),
                       "Kinds": sorted(c["Kinds"]), "Faults": sorted(c["Faults"]), "MaxFaults": c["MaxFaults"],
                       "FixHandoff": c["FixHandoff"], "Dotu": dotu})


def library_panic(stdout):
    """If the engine process died of a panic raised in the library (first non-runtime frame of the
    panicking goroutine is a go9p function other than the verif accessors), return that function."""
    if "panic:" not in stdout:
        return None
    m = re.search(r"^goroutine \d+ \[running[^\n]*\n(.*?)(?:\n\s*\n|\Z)", stdout[stdout.index("panic:"):], re.S | re.M)
    if not m:
        return None
    for fm in re.finditer(r"^([\w./*()\[\]·-]+)\(.*\)\s*$", m.group(1), re.M):
        fn = fm.group(1)
        if fn.startswith("runtime.") or fn.startswith("panic") or fn.startswith("internal/") or fn.startswith("testing"):
            continue
        lm = re.match(r"github\.com/rminnich/go9p\.(.*)", fn)
        if lm and not lm.group(1).startswith("Verif"):
            return lm.group(1)
        return None
    return None


def library_stall(stdout):
    """The harness watchdog (exit 3) dumps all goroutines when no case has started for a while.  If the dump shows the
    driver waiting for quiescence (synctest.Wait) while a goroutine is inside the library waiting for a mutex, or running
    (spinning) there, the library has stopped making progress: returns (kind, function), else None."""
    if "WATCHDOG: no progress" not in stdout:
        return None
    dump = stdout[stdout.index("WATCHDOG: no progress"):]
    if "synctest.Wait" not in dump:
        return None
    for g in dump.split("\n\n"):
        head = g.split("\n", 1)[0]
        lock = "sync.(*Mutex).Lock" in g or "sync.(*RWMutex)" in g
        spin = "[running" in head or "[runnable" in head
        if not (lock or spin) or "runtime.Stack" in g:
            continue
        for fm in re.finditer(r"^github\.com/rminnich/go9p\.([^\s(]*(?:\([^)]*\))?[^\s(]*)\(", g, re.M):
            fn = fm.group(1)
            if fn.startswith("Verif"):
                continue
            return ("lock-wait" if lock else "spin"), fn
    return None


def engine(ctx, test, env=None, timeout=900, name=None, what="healthy connection"):
    """Run a harness engine; a process crash caused by a panic inside the library is a violation
    (the calls in flight never return), any other death is inconclusive."""
    rep = ctx.go_engine("clnth", test, env=env or {}, timeout=timeout, name=name or test, allow_crash=True)
    if rep.get("_exit") != 0 or "cases" not in rep:
        out = rep.get("_stdout", "")
        fn = library_panic(out)
        if fn:
            pm = re.search(r"panic: ([^\n]*)", out)
            ctx.violation("panic:%s" % fn, "engine %s (%s): the client panics in %s: %s" % (
                name or test, what, fn, pm.group(1)[:160] if pm else ""), {"engine": test, "env": env or {}})
        elif library_stall(out):
            kind, sfn = library_stall(out)
            ctx.violation("hang:library-%s:%s" % (kind, sfn), "engine %s (%s): the client stopped making progress: a goroutine is %s in %s "
                          "(goroutine dump of the harness watchdog); the calls in flight never return" % (
                              name or test, what, "waiting for a lock for ever" if kind == "lock-wait" else "spinning", sfn),
                          {"engine": test, "env": env or {}})
        else:
            ctx.log("engine output tail:\n" + "\n".join(out.splitlines()[-40:]))
            ctx.inconclusive.append("engine %s exited %s without a complete report" % (name or test, rep.get("_exit")))
    return rep


def exhaustive(ctx, name, c, invs, stats, timeout=800):
    cfg = ctx.write_cfg(name + ".cfg", c, invariants=invs, deadlock=True)
    r = ctx.tlc_must_pass("Clnt9P", cfg, timeout=timeout, name=name)
    stats["states"] += r.distinct
    stats["transitions"] += r.generated
    return r


def validate_trace(ctx, name, c, trace_path, stats):
    """TLC validates an implementation trace against Clnt9PTrace. Returns (consumed, [reject lines])."""
    if not os.path.exists(trace_path) or os.path.getsize(trace_path) == 0:
        if not ctx.violations:
            ctx.inconclusive.append("%s: no trace was recorded" % name)
        return 0, []
    cfg = ctx.write_cfg(name + "-trace.cfg", c, spec="TraceSpec", deadlock=False,
                        invariants=["OwnReply", "DistinctTags", "Recycling", "FIFOPerTag", "NoFalseSuccess",
                                    "CompleteReplyDelivered"])
    r = ctx.tlc("Clnt9PTrace", cfg, workers=1, timeout=900, env={"TRACE_FILE": trace_path}, name=name + ":trace",
                heap="6g")
    rejects = re.findall(r'<<"REJECT",[^\n]*>>', r.out)
    m = re.search(r'<<"CONSUMED", (\d+)>>', r.out)
    consumed = int(m.group(1)) if m else 0
    nlines = sum(1 for _ in open(trace_path))
    if r.violated or r.error or consumed != nlines:
        ctx.inconclusive.append("%s: trace validation did not complete (%s, consumed %d of %d lines)" % (
            name, r.violated or r.error, consumed, nlines))
    if rejects:
        # drift between code and specification is a note in the evidence, never a verdict by itself:
        # every case is still run to quiescence and judged by the external oracle
        note = "%s: %d case(s) drifted from Clnt9P (implementation state differs from the specification), first: %s" % (
            name, len(rejects), rejects[0][:200])
        ctx.log("note: " + note)
        stats["drift_notes"].append(note)
    stats["trace_lines"] += consumed
    stats["rejects"] += len(rejects)
    return consumed, rejects


def replay(ctx, name, c, behaviours_path, stats, dotu=True, trace=True, timeout=900):
    tpath = ctx.path(name + "-trace.ndjson")
    env = {"VERIF_BEHAVIOURS": behaviours_path, "VERIF_CFG": go_cfg(c, dotu)}
    if trace:
        env["VERIF_TRACE_OUT"] = tpath
    rep = engine(ctx, "TestReplay", env=env, timeout=timeout, name=name + ":replay", what="replay of Clnt9P behaviours")
    st = rep.get("stats", {})
    if st.get("drift_cases"):
        note = "%s: %d behaviour(s) could not be replayed step by step (drift; each was run on to quiescence and judged), e.g. %s" % (
            name, st["drift_cases"], json.dumps([s for s in rep.get("samples", []) if "drift" in s][:1])[:300])
        ctx.log("note: " + note)
        stats["drift_notes"].append(note)
    stats["replayed"] += rep.get("cases", 0)
    stats["steps"] += st.get("steps", 0)
    for s in rep.get("samples", [])[:1]:
        if "steps" in s and len(stats["samples"]) < 6:
            stats["samples"].append({"source": name, "behaviour": s["steps"], "results": s.get("results")})
    if trace:
        validate_trace(ctx, name, c, tpath, stats)
    return rep


def tour_bind(ctx, name, c, stats, sample_edges=None, dotu=True):
    """Dump the state graph of configuration c, compute a transition tour, replay it on the real
    client and validate the recorded trace."""
    cfg = ctx.write_cfg(name + "-graph.cfg", c, invariants=["TypeOK"], deadlock=False)
    r, dot = ctx.tlc_dump_graph("Clnt9P", cfg, timeout=600)
    if not r.ok:
        ctx.inconclusive.append("%s: could not dump the state graph: %s" % (name, r.violated or r.error))
        return None
    init, adj = tour.load(dot)
    paths, covered, total = tour.cover(init, adj, seed=ctx.seed, sample_edges=sample_edges)
    os.remove(dot)
    bpath = ctx.path(name + "-tour.ndjson")
    tour.write_behaviours(paths, bpath)
    ctx.log("%s: tour of %d paths covers %d of %d transitions (%d steps)" % (
        name, len(paths), covered, total, sum(len(p) for p in paths)))
    stats["tour_edges_covered"] += covered
    stats["tour_edges_total"] += total
    return replay(ctx, name, c, bpath, stats, dotu=dotu)


def sim_bind(ctx, name, c, stats, num, depth=300, dotu=True):
    cfg = ctx.write_cfg(name + "-sim.cfg", c, invariants=["TypeOK"], deadlock=False)
    d = ctx.path(name + "-sim")
    os.makedirs(d, exist_ok=True)
    r = ctx.tlc("Clnt9P", cfg, workers=1, timeout=300, name=name + ":sim",
                extra=["-simulate", "file=%s/s,num=%d" % (d, num), "-depth", str(depth), "-seed", str(ctx.seed)])
    files = sorted(glob.glob(os.path.join(d, "s_*")))
    if not files:
        ctx.inconclusive.append("%s: TLC simulation wrote no behaviours (%s)" % (name, r.error))
        return None
    bs = tour.behaviours_from_sim(files)
    bpath = ctx.path(name + "-sim.ndjson")
    tour.write_behaviours(bs, bpath)
    for f in files:
        os.remove(f)
    return replay(ctx, name, c, bpath, stats, dotu=dotu)


def random_bind(ctx, name, c, stats, n, dotu=True):
    tpath = ctx.path(name + "-trace.ndjson")
    rep = engine(ctx, "TestRandom", env={"VERIF_CFG": go_cfg(c, dotu), "VERIF_N": n, "VERIF_TRACE_OUT": tpath},
                 timeout=900, name=name + ":random", what="random controlled schedules")
    stats["random_schedules"] += rep.get("cases", 0)
    stats["steps"] += rep.get("stats", {}).get("steps", 0)
    for s in rep.get("samples", [])[:1]:
        if "steps" in s and len(stats["samples"]) < 6:
            stats["samples"].append({"source": name, "behaviour": s["steps"], "results": s.get("results")})
    validate_trace(ctx, name, c, tpath, stats)
    return rep


def new_stats():
    return {"states": 0, "transitions": 0, "replayed": 0, "steps": 0, "trace_lines": 0, "rejects": 0,
            "tour_edges_covered": 0, "tour_edges_total": 0, "random_schedules": 0, "free_cases": 0, "samples": [],
            "drift_notes": []}


def free_engine(ctx, test, stats, env=None, timeout=900, name=None, allow_crash=False):
    if allow_crash:
        rep = ctx.go_engine("clnth", test, env=env or {}, timeout=timeout, name=name or test, allow_crash=True)
    else:
        rep = engine(ctx, test, env=env, timeout=timeout, name=name, what="free-running sessions")
    stats["free_cases"] += rep.get("cases", 0) or 0
    for s in (rep.get("samples") or [])[:1]:
        if len(stats["samples"]) < 8:
            stats["samples"].append({"source": name or test, "case": s})
    return rep


def finish(ctx, stats, rule, extra=None):
    cov = {
        "states": stats["states"], "transitions": stats["transitions"],
        "traces_validated_against_impl": stats["replayed"] + stats["random_schedules"],
        "samples": stats["samples"],
        "evaluations": stats["steps"] + stats["free_cases"],
        "distinct_nontrivial": stats["tour_edges_covered"] + stats["random_schedules"] + stats["free_cases"],
        "rule": rule,
        "controller_steps_executed": stats["steps"], "trace_lines_accepted_by_tlc": stats["trace_lines"] - stats["rejects"],
        "trace_cases_rejected": stats["rejects"], "drift_notes": stats["drift_notes"][:20],
        "tour_transitions_covered": stats["tour_edges_covered"], "tour_transitions_total": stats["tour_edges_total"],
        "random_controlled_schedules": stats["random_schedules"], "free_running_sessions": stats["free_cases"],
    }
    if extra:
        cov.update(extra)
    return ctx.finish("model_checking", cov, ASSUMPTIONS)


def replay_file(ctx):
    """bin/vcheck Cxx --replay <file>: re-execute one recorded case deterministically."""
    data = json.load(open(ctx.replay))
    rp = data.get("replay") or {}
    st = new_stats()
    if "steps" in rp:
        bpath = ctx.path("replay.ndjson")
        with open(bpath, "w") as f:
            f.write(json.dumps({"id": 1, "steps": rp["steps"]}) + "\n")
        engine(ctx, "TestReplay", env={"VERIF_BEHAVIOURS": bpath, "VERIF_CFG": json.dumps(rp["cfg"])}, name="replay")
    elif rp.get("engine") == "free":
        engine(ctx, "TestFreeReplay", env={"VERIF_FREECFG": json.dumps(rp["cfg"])}, name="free-replay")
    elif "engine" in rp:
        free_engine(ctx, rp["engine"], st, env=rp.get("env") or {}, allow_crash=True)
        ctx.log("re-ran engine %s (a process crash shows in the output above)" % rp["engine"])
    else:
        ctx.inconclusive.append("replay file has no executable case")
    st["replayed"] = 1
    return finish(ctx, st, "single replayed case")


def run(ctx):
    if ctx.replay:
        return replay_file(ctx)
    st = new_stats()
    q = ctx.quick
    # ---- S: the repaired design, healthy connection
    exhaustive(ctx, "c09-k2n2", consts(2, 2), C09_INVS, st)
    exhaustive(ctx, "c09-k2n2-tag", consts(2, 2, tagcallers=[1]), C09_INVS, st)
    exhaustive(ctx, "c09-k3n1", consts(3, 1), C09_INVS, st)
    exhaustive(ctx, "c09-k2n2-smallcache", consts(2, 2, cachecap=1, ntags=3), C09_INVS, st)
    if not q:
        exhaustive(ctx, "c09-k3n2", consts(3, 2, kinds=["ok", "rerror"]), C09_INVS, st, timeout=840)
        exhaustive(ctx, "c09-k2n3", consts(2, 3), C09_INVS, st, timeout=600)
        exhaustive(ctx, "c09-k3n1-tag", consts(3, 1, tagcallers=[2]), C09_INVS, st, timeout=600)
        exhaustive(ctx, "c09-k2n3-nocache", consts(2, 3, cachecap=0, ntags=3), C09_INVS, st, timeout=600)
    # ---- B1: transition tours and simulated behaviours replayed on the real client
    tour_bind(ctx, "c09-tour-k2n2", consts(2, 2), st, sample_edges=4000 if q else None)
    tour_bind(ctx, "c09-tour-k2n2-tag", consts(2, 2, tagcallers=[1]), st, sample_edges=3000 if q else None, dotu=False)
    sim_bind(ctx, "c09-sim-k3n2", consts(3, 2), st, num=150 if q else 1500)
    if not q:
        sim_bind(ctx, "c09-sim-k3n2-tag", consts(3, 2, tagcallers=[2]), st, num=1000, dotu=False)
    # ---- B2: random controlled schedules beyond TLC's bounds
    random_bind(ctx, "c09-rand-k4n3", consts(4, 3, tagcallers=[2]), st, n=150 if q else 1200)
    # ---- B3: free-running
    free_engine(ctx, "TestOrders", st)
    free_engine(ctx, "TestStress", st, env={"VERIF_SESSIONS": 60 if q else 400}, timeout=840)
    # a peer that answers after the header and reads the rest later, requests taken in pieces: what reaches the peer is what was issued
    free_engine(ctx, "TestEarlyReply", st, env={"VERIF_SESSIONS": 40 if q else 400}, timeout=600)
    return finish(ctx, st, "tour transitions covered on the real client + distinct random schedules + free-running sessions; "
                           "every one judged by the external own-payload / distinct-tag oracle and (gated ones) validated by TLC")
