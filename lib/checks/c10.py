"""C10  Client calls fail promptly, never hang, when the connection fails.

S  spec/Clnt9P.tla, repaired design, with the peer closing / cutting a reply / sending garbage, an
   unknown tag or an oversize frame, and the application unmounting, at any point: no deadlock
   (= NoHang: every terminal state has every call returned), NoFalseSuccess, CompleteReplyDelivered,
   NoPanic (K <= 3).  The as-coded variants of the four named deviations (FixHandoff, FixLeak,
   FixOversize, FixTagNil) are checked too; TLC must find their counterexamples, which are then
   re-executed on the real client: reproduced => violation, not reproduced => the code is repaired
   and the conformance runs use the repaired variant of the specification.
B  transition tours / simulated behaviours / random controlled schedules with faults, replayed on
   the real client under the gate controller and validated by TLC against Clnt9PTrace (failure
   injected at every client schedule point: the tour covers every (state, fault) transition of the
   K=2 graph); free-running crash points: reply stream cut after every byte offset with 0..4
   outstanding calls, fault sequences (close, unmount, unknown tag, six garbage classes, oversize)
   with 0..4 outstanding and 0..n answered, calls entering after the failure, > 65535 calls on a
   failed connection, Tag-interface requests outstanding at the failure.
O  at quiescence every call has returned (goroutines left blocked in the synctest bubble = hang,
   exact); no success without the complete reply; a completely received reply is delivered;
   no panic."""
import collections
import json
import os
import re
import sys

sys.path.insert(0, os.path.dirname(os.path.dirname(os.path.abspath(__file__))))
import tour
from checks import c09 as h

FAULTS = ["close", "cut", "garbage", "unknown", "oversize", "unmount", "halfclose", "wfail"]


def dead_end_paths(dot, limit=3, last=None):
    """Shortest labelled paths from the initial state to states without successors (optionally only
    those entered by an action whose label starts with `last`)."""
    init, adj = tour.load(dot)
    parent = {init: None}
    q = collections.deque([init])
    dead = []
    while q:
        u = q.popleft()
        succ = adj.get(u, ())
        if not succ and (last is None or (parent[u] and adj[parent[u][0]][parent[u][1]][1].startswith(last))):
            dead.append(u)
            if len(dead) >= limit:
                break
        for i, (v, _) in enumerate(succ):
            if v not in parent:
                parent[v] = (u, i)
                q.append(v)
    out = []
    for d in dead:
        seq = []
        u = d
        while parent[u] is not None:
            pu, i = parent[u]
            seq.append(tour.parse_label(adj[pu][i][1]))
            u = pu
        seq.reverse()
        out.append(seq)
    return out


def go9p_frame(stdout):
    """First library function on the stack of a crashed engine (stable across line changes)."""
    m = re.search(r"github\.com/rminnich/go9p\.(\(\*\w+\)\.\w+|\w+)", stdout)
    return m.group(1) if m else "unknown"


def child_probe(ctx, st, test, what, key_prefix, env=None):
    """Run an engine that crashes the process when the defect is present. Returns True if the code
    survived (defect absent)."""
    rep = h.free_engine(ctx, test, st, env=env, allow_crash=True, timeout=300)
    out = rep.get("_stdout", "")
    if rep.get("_exit") == 0 and "cases" in rep:
        return True
    if "panic:" in out or "fatal error:" in out:
        fn = go9p_frame(out)
        m = re.search(r"panic: ([^\n]*)", out)
        ctx.violation("%s:%s" % (key_prefix, fn), "%s: the process panics in %s: %s" % (what, fn, m.group(1)[:160] if m else ""),
                      {"engine": test, "env": env or {}})
        return False
    st_ = h.library_stall(out)
    if st_:
        ctx.violation("hang:library-%s:%s" % st_, "%s: the client stopped making progress (%s in %s, goroutine dump of the harness "
                      "watchdog); the calls in flight never return" % (what, st_[0], st_[1]), {"engine": test, "env": env or {}})
        return False
    ctx.inconclusive.append("engine %s died without a panic message (exit %s)" % (test, rep.get("_exit")))
    return False


def expect_cex(ctx, name, c, invs, st, what):
    """The as-coded variant must have a counterexample (else the model lost its teeth)."""
    cfg = ctx.write_cfg(name + ".cfg", c, invariants=invs, deadlock=True)
    r = ctx.tlc("Clnt9P", cfg, timeout=300, name=name, expect_violation=True)
    if not r.violated:
        ctx.inconclusive.append("%s: TLC found no counterexample for the as-coded variant (%s): %s" % (
            name, what, r.error or "no error"))
    return r


def run(ctx):
    if ctx.replay:
        return h.replay_file(ctx)
    st = h.new_stats()
    q = ctx.quick
    notes = {}
    # ---- S: the repaired design under every fault
    h.exhaustive(ctx, "c10-k2n1", h.consts(2, 1, faults=FAULTS), h.C10_INVS, st)
    h.exhaustive(ctx, "c10-k2n2", h.consts(2, 2, faults=FAULTS), h.C10_INVS, st)
    if not q:
        h.exhaustive(ctx, "c10-k2n2-tag", h.consts(2, 2, tagcallers=[1], faults=FAULTS), h.C10_INVS + ["FIFOPerTag"], st)
    h.exhaustive(ctx, "c10-k3n1", h.consts(3, 1, faults=FAULTS), h.C10_INVS, st)
    h.exhaustive(ctx, "c10-k2n2-fewtags", h.consts(2, 2, faults=["close", "unmount"], ntags=2, cachecap=0), h.C10_INVS, st)
    if not q:
        h.exhaustive(ctx, "c10-k2n2-2faults", h.consts(2, 2, faults=FAULTS, maxfaults=2), h.C10_INVS, st, timeout=600)
        h.exhaustive(ctx, "c10-k3n1-2faults", h.consts(3, 1, faults=FAULTS, maxfaults=2), h.C10_INVS, st, timeout=600)
        h.exhaustive(ctx, "c10-k3n1-tag", h.consts(3, 1, tagcallers=[1], faults=FAULTS), h.C10_INVS + ["FIFOPerTag"], st, timeout=600)
        h.exhaustive(ctx, "c10-k2n3", h.consts(2, 3, faults=FAULTS, kinds=["ok", "rerror"]), h.C10_INVS, st, timeout=600)

    # ---- named deviations: TLC counterexample of the as-coded variant, re-executed on the code
    fix = {}
    # (1) hand-off deadlock
    c_bug = h.consts(2, 1, faults=["close"], fix={"FixHandoff": False})
    gcfg = ctx.write_cfg("c10-ascoded-handoff-graph.cfg", c_bug, invariants=["TypeOK"], deadlock=False)
    r, dot = ctx.tlc_dump_graph("Clnt9P", gcfg, timeout=300)
    cex = dead_end_paths(dot, limit=4) if r.ok else []
    if os.path.exists(dot):
        os.remove(dot)
    if not cex:
        ctx.inconclusive.append("TLC found no deadlock in the as-coded hand-off variant (the model lost its teeth)")
        fix["FixHandoff"] = True
    else:
        bpath = ctx.path("c10-handoff-cex.ndjson")
        tour.write_behaviours(cex, bpath)
        rep = h.replay(ctx, "c10-handoff-cex", c_bug, bpath, st, trace=False)
        hung = rep.get("stats", {}).get("hung_cases", 0)
        fix["FixHandoff"] = hung == 0
        notes["handoff_counterexample"] = {"steps": [[a] + list(args) for a, args in cex[0]], "reproduced_on_code": hung > 0}
        ctx.log("hand-off counterexample (%d steps) %s on the code" % (len(cex[0]), "REPRODUCED" if hung else "not reproduced"))
    # (2) tag leak on refused calls -> tagpool.Get blocks
    expect_cex(ctx, "c10-ascoded-leak", h.consts(2, 2, faults=["close", "unmount"], ntags=2, cachecap=0,
                                                 fix={"FixLeak": False}), h.C10_INVS, st, "refused requests leak their tag")
    rep = h.free_engine(ctx, "TestLateCalls", st, env={"VERIF_N": 70000}, timeout=300)
    fix["FixLeak"] = not any(v["key"].startswith("hang:many-late-calls") for v in rep.get("violations") or [])
    # (3) oversize frame / empty read -> nil error dereference
    expect_cex(ctx, "c10-ascoded-oversize", h.consts(2, 1, faults=["oversize"], fix={"FixOversize": False}),
               h.C10_INVS, st, "oversize frame")
    fix["FixOversize"] = child_probe(ctx, st, "TestOversize", "a frame announcing more than the receive buffer, with 0..4 calls outstanding",
                                     "panic:oversize-frame")
    # (4) Tag.reqproc on a request failed without a reply
    expect_cex(ctx, "c10-ascoded-tagnil", h.consts(2, 2, tagcallers=[1], faults=["close"], fix={"FixTagNil": False}),
               h.C10_INVS, st, "Tag request failed by the fan-out")
    fix["FixTagNil"] = child_probe(ctx, st, "TestTagFailure", "Tag-interface requests outstanding when the connection fails",
                                   "panic:tag-request-failed")
    # (5) the fan-out loop reads r.next after the woken caller may have recycled r (a race; it is
    #     forced deterministically when the repository has the crecv_fanned schedule point)
    c_fan = h.consts(2, 1, faults=["unmount"], fix=dict(fix, FixFanNext=False))
    gcfg = ctx.write_cfg("c10-ascoded-fannext-graph.cfg", c_fan, invariants=["TypeOK"], deadlock=False)
    r, dot = ctx.tlc_dump_graph("Clnt9P", gcfg, timeout=300)
    cex = dead_end_paths(dot, limit=2, last="RFanout(TRUE") if r.ok else []
    if os.path.exists(dot):
        os.remove(dot)
    fix["FixFanNext"] = True
    if not cex:
        ctx.inconclusive.append("TLC found no deadlock after RFanout(TRUE) in the as-coded fan-out variant (the model lost its teeth)")
    else:
        bpath = ctx.path("c10-fannext-cex.ndjson")
        tour.write_behaviours(cex * 150, bpath)
        rep = h.replay(ctx, "c10-fannext-cex", c_fan, bpath, st, trace=False)
        hung = rep.get("stats", {}).get("hung_cases", 0)
        # only hangs with the receiver gone are this defect (the hand-off deadlock leaves it in the fan-out)
        lost = [v for v in rep.get("violations") or [] if "recv@exited" in v["key"]]
        fix["FixFanNext"] = not lost
        notes["fannext_counterexample"] = {"steps": [[a] + list(args) for a, args in cex[0]], "repetitions": len(cex) * 150,
                                           "hung_cases": hung, "reproduced_on_code": bool(lost)}
        ctx.log("fan-out counterexample (%d steps x %d) %s on the code" % (len(cex[0]), len(cex) * 150,
                                                                            "REPRODUCED" if lost else "not reproduced"))
    # (6) the failure path must close the socket: a writer blocked towards a peer that ended its
    #     sending direction and stopped reading is released by nothing else
    expect_cex(ctx, "c10-noclose-halfclose", h.consts(2, 1, faults=["halfclose"], fix={"CloseOnFail": False}), h.C10_INVS, st,
               "failure path without conn.Close under a half-closed peer")
    notes["code_variant"] = dict(fix)
    ctx.log("code variant measured: %s" % fix)

    # ---- B: conformance under faults, against the variant of the specification the code implements
    fl = [f for f in FAULTS if f != "oversize" or fix["FixOversize"]]
    cfix = dict(fix)
    cfix["WaitSender"] = True
    h.tour_bind(ctx, "c10-tour-k2n1", h.consts(2, 1, faults=fl, fix=cfix), st, sample_edges=5000 if q else None)
    if fix["FixTagNil"]:
        h.tour_bind(ctx, "c10-tour-k2n2-tag", h.consts(2, 2, tagcallers=[1], faults=["close"] if q else ["close", "unknown", "unmount"],
                                                       fix=cfix), st, sample_edges=1200 if q else 30000, dotu=False)
    if not q:
        h.tour_bind(ctx, "c10-tour-k2n2", h.consts(2, 2, faults=fl, fix=cfix), st, sample_edges=40000)
    h.sim_bind(ctx, "c10-sim-k3n2", h.consts(3, 2, faults=fl, fix=cfix), st, num=150 if q else 2000)
    tagc = [2] if fix["FixTagNil"] else []
    h.random_bind(ctx, "c10-rand-k4n3", h.consts(4, 3, tagcallers=tagc, faults=fl, fix=cfix), st, n=200 if q else 1500)

    # ---- free-running crash points and fault sequences
    h.free_engine(ctx, "TestCut", st, env={"VERIF_VARIANTS": 2 if q else 6}, timeout=600)
    h.free_engine(ctx, "TestFaults", st, env={"VERIF_OVERSIZE": 1 if fix["FixOversize"] else 0}, timeout=600)

    return h.finish(ctx, st, "tour transitions (every state x fault of the K=2 graph) and random fault schedules executed on the real "
                             "client and validated by TLC + enumerated crash points (cut after every byte, fault sequences); "
                             "fault_enumeration flavour: crash points are enumerated, schedules at them explored by the tour",
                    extra={"c10": notes})
