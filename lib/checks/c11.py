"""C11 -- a disconnect releases everything the connection held."""
import json

import srvfam
from checks.c08 import held_run

INVS = ["TypeOK", "NoCrash", "ClosedOnce", "NoStuckThread"]
PROPS = {"C11"}


def run(ctx):
    if ctx.replay:
        return srvfam.replay_file(ctx, PROPS)
    q = ctx.quick
    # 1. exhaustive: disconnect at every point of every interleaving of <= 2 requests
    c2 = srvfam.consts(ctx, NReq=2, Kinds={"Attach", "Stat", "Clunk"}, Late=not q, CanClose=True, InitFids={1}, Fids={1, 2})
    ctx.write_cfg("c11_close2.cfg", c2, invariants=INVS)
    r2 = ctx.tlc_must_pass("Srv9P", "c11_close2.cfg", timeout=1500, name="close2")
    states, trans = r2.distinct, r2.generated
    # 2. spec -> code: behaviours of close2 (simulation: the graph is too large for a full tour in quick)
    cs = srvfam.consts(ctx, NReq=2, Kinds={"Attach", "Stat", "Clunk"}, Late=False, CanClose=True, InitFids={1}, Fids={1})
    paths, cov, total, rs = srvfam.behaviours_tour(ctx, cs, "close2s", sample_edges=(4000 if q else 60000), max_edges=3000000)
    rep, tpath, epath, bpath = srvfam.replay(ctx, paths, cs, "close2s")
    rejects, tlines = srvfam.run_trace_validation(ctx, tpath, cs)
    verdicts, elines = srvfam.run_monitor(ctx, epath)
    srvfam.report_verdicts(ctx, verdicts, PROPS, bpath, cs, "TestReplay", ext_path=epath)
    traces = rep.get("cases_total", 0)
    samples = list(rep.get("samples", []))[:1]
    states += rs.distinct
    trans += rs.generated
    # 3. disconnect with 0..4 requests blocked in the implementation, released afterwards in every order; bystander
    plans = 0
    runs = [dict(kinds=["Stat"], partial=False), dict(kinds=["Stat", "Clunk", "Attach"], partial=True),
            # slow ConnClosed / FidDestroy callbacks of the victim while the bystander connection is used
            dict(kinds=["Stat", "Clunk"], partial=False, cbhold=True)]
    for i, rr in enumerate(runs):
        ch = srvfam.consts(ctx, NReq=8, Tags=set(range(1, 9)), Fids={1}, Kinds={"Stat", "Clunk", "Attach"}, InitFids={1}, CanClose=True)
        hc = {"n": 4 if q else 5, "m": 1, "hmax": 3 if q else 4, "groups": False, "close": True, "partial": rr["partial"],
              "kinds": rr["kinds"], "maxcases": (30 if rr.get("cbhold") else 50) if q else 600, "permmax": 3 if q else 4, "closevariants": True,
              "cbhold": bool(rr.get("cbhold"))}
        tag = "closeheld%d" % i
        hrep, tp, ep, bp = held_run(ctx, ch, hc, tag, 700000 + 10000 * i)
        rj, tl = srvfam.run_trace_validation(ctx, tp, ch, name="Srv9PTrace:" + tag)
        vd, el = srvfam.run_monitor(ctx, ep, name="Mon9P:" + tag)
        srvfam.report_verdicts(ctx, vd, PROPS, bp, ch, "TestHeld", ext_path=ep)
        rejects += rj
        verdicts += vd
        tlines += tl
        elines += el
        traces += hrep.get("cases_total", 0)
        plans += int(hrep.get("stats", {}).get("plans", 0) or 0)
        samples += list(hrep.get("samples", []))[:1]
    # 4. random sessions cut at a random step
    for i, (n, hold, op) in enumerate([(6, False, False), (4, True, False), (4, True, True)] if q else
                                      [(6, False, False), (4, True, False), (4, True, True), (12, False, False), (6, False, True)]):
        # hold: one long delay per case (a request's goroutine parked at one action, every hook in turn) across the disconnect;
        # op: the implementation has a FlushOp and cancels requests it is executing
        cr = srvfam.consts(ctx, NReq=n, Tags=set(range(1, n + 1)), Fids={1, 2, 3}, Kinds={"Attach", "Stat", "Clunk", "Walk", "Flush"},
                           Late=True, InitFids={1}, CanClose=True, HasFlushOp=op)
        rc = {"cases": (360 if hold else 150) if q else (3600 if hold else 1500), "nreq": n,
              "kinds": ["Attach", "Stat", "Clunk", "Walk", "Flush"] + (["Flush"] if op else []), "shared": False,
              "close": True, "extra": False, "latep": 20, "sendp": 40, "probe": False, "closevariants": True, "hold": hold}
        tag = "crand%d" % i
        rrep, tp, ep, bp = srvfam.random_run(ctx, cr, rc, tag, 800000 + 20000 * i)
        rj, tl = srvfam.run_trace_validation(ctx, tp, cr, name="Srv9PTrace:" + tag)
        vd, el = srvfam.run_monitor(ctx, ep, name="Mon9P:" + tag)
        srvfam.report_verdicts(ctx, vd, PROPS, bp, cr, "TestRandom", ext_path=ep)
        rejects += rj
        verdicts += vd
        tlines += tl
        elines += el
        traces += rrep.get("cases_total", 0)
        samples += list(rrep.get("samples", []))[:1]
    # 5. slow FidDestroy / ConnClosed callbacks (parked inside the callback while other goroutines run): the close sweep
    #    is then not atomic, which the model does not describe, so these runs are judged by the monitors only
    cr = srvfam.consts(ctx, NReq=5, Tags=set(range(1, 6)), Fids={1, 2, 3}, Kinds={"Attach", "Stat", "Clunk", "Walk"}, Late=True, InitFids={1, 2},
                       CanClose=True)
    rc = {"cases": 150 if q else 1500, "nreq": 5, "kinds": ["Attach", "Attach", "Walk", "Stat", "Clunk"], "shared": False, "close": True,
          "extra": False, "latep": 20, "sendp": 50, "probe": False, "closevariants": True, "cbgate": True}
    rrep, tp, ep, bp = srvfam.random_run(ctx, cr, rc, "cbgate", 1000000)
    vd, el = srvfam.run_monitor(ctx, ep, name="Mon9P:cbgate")
    srvfam.report_verdicts(ctx, vd, PROPS, bp, cr, "TestRandom", ext_path=ep)
    verdicts += vd
    elines += el
    traces += rrep.get("cases_total", 0)
    # 6. ungated pile-up: replies waiting behind a send goroutine stuck in Write when the connection ends
    cf = srvfam.consts(ctx, NReq=16, Tags=set(range(1, 17)), Fids={1}, InitFids={1}, CanClose=True)
    env = {"VERIF_CFG": json.dumps(srvfam.harness_cfg(cf)), "VERIF_CASES": 150 if q else 2000, "VERIF_ID_BASE": 1200000}
    tpf, epf, bpf = ctx.path("trace_cf.ndjson"), ctx.path("ext_cf.ndjson"), ctx.path("beh_cf.ndjson")
    env.update({"VERIF_TRACE_OUT": tpf, "VERIF_EXT_OUT": epf, "VERIF_BEH_OUT": bpf})
    frep, crashes = ctx.go_engine_resilient("srvh", "TestCloseFree", env=env, ext_out=epf, timeout=1500, name="TestCloseFree")
    vd, el = srvfam.run_monitor(ctx, epf, name="Mon9P:closefree")
    srvfam.report_verdicts(ctx, vd, PROPS, bpf, cf, "TestCloseFree", ext_path=epf)
    verdicts += vd
    elines += el
    traces += frep.get("cases_total", 0)
    samples += list(frep.get("samples", []))[:1]
    # 7. the Unix file server: histories of the UfsTree model (opens, creates of every kind incl. hard links that fail, walks)
    #    executed on a real Ufs; when the client has gone no file of the exported tree may still be open in the server
    from checks import c16
    fam = c16.Family(ctx, "C11")
    ucfg = c16.cfg(InitTree="T2", Names={"a", "b"}, Fids={1, 2}, AttachNames={""}, MaxWalk=1, Ops={"Attach", "Walk", "Open", "Create", "Clunk"},
                   CreateKinds={"F", "D", "L", "H"}, Perms={420}, Modes={0, 1}, Lens={0}, LinkTargets={"a"}, MaxIds=12)
    ubeh = fam.simulate("c11ufs", ucfg, num=200 if q else 2500, depth=14)
    # hard links onto free and onto occupied names, from open and unopened fids: every transition of a small model
    lcfg = c16.cfg(InitTree="T2", Names={"b"}, Fids={1, 2}, AttachNames={""}, MaxWalk=1, Ops={"Attach", "Walk", "Open", "Create"},
                   CreateKinds={"H"}, Perms={420}, Modes={0}, Lens={0}, MaxIds=11)
    lbeh = fam.tour("c11links", lcfg, sample_edges=2500 if q else None)
    ufs_cases = 0
    for ubeh_i, only_dotu in ((ubeh, False), (lbeh, True)):
        if ubeh_i is None:
            continue
        ubeh = ubeh_i
        for dotu in ((True,) if only_dotu else (True, False)):
            ecfg = {"tree": "T2", "dotu": dotu, "fids": [1, 2], "prop": "C11", "alphabets": [], "max_cases": 0 if dotu else (80 if q else 600)}
            urep = ctx.go_engine("ufstree", "TestReplay", timeout=780, name="ufs-teardown:dotu=%d" % int(dotu),
                                 env={"VERIF_BEH": ubeh, "VERIF_CFGJSON": json.dumps(ecfg), "VERIF_TRACE": ctx.path("c11ufs-trace-%d.ndjson" % int(dotu))})
            if "cases" not in urep:
                ctx.inconclusive.append("Ufs teardown engine did not report")
                continue
            ufs_cases += urep["cases"]
            for leak in (urep.get("stats", {}).get("fd_leaks") or [])[:3]:
                ctx.violation("C11:ufs-file-left-open:dotu=%d" % int(dotu), leak, {"engine": "ufstree.TestReplay", "config": "c11ufs", "dotu": dotu})
    traces += ufs_cases
    cov_d = {
        "ufs_histories_closed": ufs_cases,
        "states": states, "transitions": trans, "traces_validated_against_impl": traces, "samples": samples[:4],
        "evaluations": traces, "distinct_nontrivial": len(paths) + plans,
        "rule": "tour paths of the close model + one execution per (held subset, release order) disconnect plan + seeded random "
                "sessions cut at a random step; each ends with the client gone and is run until nothing can move",
        "tour_edges_covered": cov, "tour_edges_total": total, "tour_paths": len(paths), "disconnect_plans": plans,
        "trace_lines_validated": tlines, "trace_rejects": len(rejects), "trace_reject_samples": [list(x) for x in rejects[:5]],
        "external_events_monitored": elines, "monitor_verdicts_all_properties": len(verdicts),
    }
    return ctx.finish("model_checking", cov_d, assumptions=[
        "goroutines left blocked when the synctest bubble ends = goroutines that never end (exact, no timeouts); the Logger "
        "goroutine lives outside the bubble",
        "the Unix file server's file descriptors are covered by the FidDestroy accounting (Ufs.FidDestroy closes the file)",
        "model constants follow the code: " + json.dumps(srvfam.detect_fixes(ctx.repo)),
    ])
