"""C12 -- version and msize negotiation is honoured in both directions."""
import itertools
import json
import os
import random
import re


def run(ctx):
    q = ctx.quick
    rng = random.Random(ctx.seed)
    try:
        fixclip = "req.Rc.Buf[:conn.Msize]" in open(os.path.join(ctx.repo, "srv_conn.go")).read()
    except OSError:
        fixclip = False
    srv_ms = [24, 25, 128, 4096, 8216] + ([] if q else [64, 1048600])
    cli_ms = [0, 1, 23, 24, 25, 127, 128, 129, 4095, 4096, 4097, 8216, 65536, 1048600, 1048601, 2 ** 31 - 1, 2 ** 31, 2 ** 32 - 1]
    versions = ["9P2000", "9P2000.u", "9P1999", "9P2000.L", "", "9P2000.u2", "9P2000.ufoo", "9P2000.U"]
    announce = [0, 1, 6, 7, 8, 23, 24]     # plus msize-1, msize, msize+1, 2^31, 2^32-1 per case
    # 1. the model: min / refusal / dialect / frames within msize with recycled buffers, exhaustively for small steps
    c = dict(SrvMsizes={24, 128, 8192}, CliMsizes={0, 23, 24, 25, 127, 128, 129, 8192, 8193, 1048600, 2147483647},
             Versions={"9P2000", "9P2000.u", "9P1999", "9P2000.u2"}, Needs={7, 24, 25, 128, 129, 200, 8192},
             Announce={0, 6, 7, 24, 128, 129, 8193, 2147483647}, FixClip=fixclip, MaxSteps=4 if q else 5)
    ctx.write_cfg("c12_nego.cfg", c, invariants=["TypeOK", "FrameWithinMsize", "MsizeOnlyShrinks", "MsizeCarriesHeader", "DialectNeedsBoth"])
    r = ctx.tlc_must_pass("Nego", "c12_nego.cfg", timeout=900, name="nego")
    # 2. the grid on the real server
    grid = list(itertools.product(srv_ms, [False, True], cli_ms, versions))
    if q:
        must = [g for g in grid if g[3] in ("9P2000", "9P2000.u", "9P2000.u2") and g[2] in (23, 24, 128, 2 ** 32 - 1)]
        rest = [g for g in grid if g not in must]
        grid = must + rng.sample(rest, 140)
    cases = []
    for i, (sm, sd, m, v) in enumerate(grid):
        neg = min(sm, m)
        hdr = []
        if m >= 24 and (q is False or i % 4 == 0):
            hdr = sorted(set(announce + [neg - 1, neg, neg + 1, 2 ** 31, 2 ** 32 - 1]))
        cases.append({"id": i + 1, "smsize": sm, "sdotu": sd, "m": m, "v": v, "hdr": hdr})
    npath = ctx.path("nego_cases.json")
    json.dump(cases, open(npath, "w"))
    tpath = ctx.path("nego_trace.ndjson")
    rep, crashes = ctx.go_engine_resilient("srvh", "TestNego", env={"VERIF_NEGO": npath, "VERIF_TRACE_OUT": tpath}, timeout=1500, name="TestNego")
    for cr in crashes:
        ctx.violation("c12:server-crash:%s" % cr["func"], "server panicked in negotiation case %s: %s" % (cases[cr["case"] - 1], cr["panic"]),
                      {"engine": "TestNego", "case": cases[cr["case"] - 1]})
    # 3. the client's Connect against a scripted peer
    ccases = []
    k = 0
    for cm in [24, 128, 8216, 65536 + 24]:
        for cd in (False, True):
            for rm in [24, 100, cm - 1, cm, cm + 1, 2 ** 31 - 1]:
                for rv in ["9P2000", "9P2000.u", "unknown"]:
                    k += 1
                    ccases.append({"id": 100000 + k, "cm": cm, "cdotu": cd, "rm": max(rm, 24), "rv": rv})
    cpath = ctx.path("connect_cases.json")
    json.dump(ccases, open(cpath, "w"))
    ctpath = ctx.path("connect_trace.ndjson")
    crep = ctx.go_engine("srvh", "TestConnect", env={"VERIF_CONNECT": cpath, "VERIF_TRACE_OUT": ctpath}, timeout=600, name="TestConnect")
    # 3b. the Unix file server: stats and directory entries of every kind of host object in both dialects
    utpath = ctx.path("negoufs_trace.ndjson")
    urep = ctx.go_engine("ufstree", "TestNegoUfs", env={"VERIF_TRACE_OUT": utpath}, timeout=600, name="TestNegoUfs")
    # 4. TLC validates what was observed against Nego
    lines = 0
    mism = 0
    both = ctx.path("nego_all.ndjson")
    with open(both, "w") as g:
        for p in (tpath, ctpath, utpath):
            if os.path.exists(p):
                for line in open(p):
                    g.write(line)
                    lines += 1
    ctx.write_cfg("c12_trace.cfg", {}, spec="Spec")
    rt = ctx.tlc("NegoTrace", "c12_trace.cfg", workers=1, timeout=1200, env={"TRACE_FILE": both}, name="NegoTrace")
    consumed = re.search(r'<<"CONSUMED", (\d+)>>', rt.out)
    if not consumed or int(consumed.group(1)) != lines:
        ctx.inconclusive.append("NegoTrace did not consume the trace (%s of %d): %s" % (consumed.group(1) if consumed else "?", lines, rt.error))
        ctx.log("\n".join(rt.out.splitlines()[-25:]))
    bycase = {c["id"]: c for c in cases}
    bycase.update({c["id"]: c for c in ccases})
    uid = 200000
    for sd in (False, True):            # the order of TestNegoUfs
        for v in ("9P2000", "9P2000.u"):
            for cm in (8216, 256, 120):
                uid += 1
                bycase[uid] = {"id": uid, "engine": "TestNegoUfs", "sdotu": sd, "v": v, "m": cm}
    for line in rt.out.splitlines():
        line = line.strip()
        if line.startswith('"MISMATCH '):
            m = json.loads(json.loads(line)[len("MISMATCH "):])
            mism += 1
            got = m.get("got", {})
            cs = bycase.get(m.get("case"), {})
            what = m.get("what", "?")
            detail = ""
            if got.get("act") == "frame":
                detail = "%s" % got.get("kind")
            elif got.get("act") == "version":
                detail = "m%s%s" % ("<24" if got.get("m", 0) < 24 else ">=24", ":" + got.get("v", ""))
            elif got.get("act") == "header":
                detail = "s%s" % ("<7" if got.get("s", 0) < 7 else ">msize")
            key = "c12:%s:%s" % (re.sub(r"\W+", "-", what), detail)
            ctx.violation(key, "%s: expected %s, observed %s (case %s)" % (what, m.get("expected"), got, cs),
                          {"engine": "TestNego/TestConnect", "case": cs, "line": got})
    cov = {"states": r.distinct, "transitions": r.generated,
           "traces_validated_against_impl": int(rep.get("cases_total", 0)) + int(crep.get("cases", 0) or 0) + int(urep.get("cases", 0) or 0),
           "samples": (rep.get("samples") or [])[:1] + (crep.get("samples") or [])[:2],
           "evaluations": lines, "distinct_nontrivial": len(cases) + len(ccases),
           "rule": "grid of (server msize, server dialect, client msize, version string) cases; each distinct by construction; every later "
                   "reply frame and every announced frame size is one validated line",
           "frames_checked": int(rep.get("stats", {}).get("frames", 0) or 0), "lines_validated": lines, "mismatches": mism,
           "grid_cases": len(cases), "ufs_dialect_sessions": int(urep.get("cases", 0) or 0), "ufs_stat_frames": int(urep.get("stats", {}).get("stats", 0) or 0),
           "ufs_dir_entries": int(urep.get("stats", {}).get("dir_entries", 0) or 0), "connect_cases": len(ccases), "model_fixclip": fixclip,
           "reads_held_across_a_second_tversion": int(rep.get("stats", {}).get("held_across_version", 0) or 0)}
    return ctx.finish("model_checking", cov, assumptions=[
        "sizes >= 2^31 are represented as 2^31-1 in the TLA+ trace (the server msize is always below)",
        "the scripted implementation never offers more data than a Tread asked for (the Unix file server is covered by C14)",
        "an oversize announcement is observed with only 5 bytes of the frame sent (a dropped connection then shows nothing was buffered or executed); an undersize one with the complete 7-byte header",
    ])
