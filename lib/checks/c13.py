"""C13 -- behaviour depends on the byte stream, not on how it is cut into transport reads.

1. spec/RecvLoop.tla (both receive loops, transcribed) is model-checked exhaustively for scaled
   constants: every stream of <= N frames (legal, too short, too long, version messages lowering
   msize) under every segmentation.
2. Self-test: seeded wrong loops (Variant) must be refuted by the same invariants.
3. Segmentation sweeps on the real server (scripted implementation) and the real client (scripted
   peer): same stream, every single split point, byte-wise, per-message, inside every size prefix,
   seeded random multi-way splits; observations compared with what the specification predicts for
   the stream (its messages, once, in order, intact) and with the unsplit run.
4. The recv_read/recv_advance/crecv_* events of those runs (real constants, msize 64..4096) are
   validated by TLC against spec/RecvLoopTrace.tla.
"""
import concurrent.futures as cf
import json
import os
import re

SCALED = dict(HDR=2, MINSZ=4, Variant="code")
INVS = ["DeliveredPrefix", "NoZeroRead", "PosWithinCap", "NoClobber", "BufferHoldsNext", "DropOnlyBad", "Complete", "Prompt", "GateLive"]
TRACE_INVS = ["TraceInv", "TraceInvClosed", "TraceInvEnd"]
VARIANTS = {  # seeded wrong loop -> instances on which it must be refuted
    "rewind": (True, False),   # copy(buf, buf[fcsize:pos]) instead of advancing the slice: clobbers aliased payloads
    "adv1": (True, False),     # pos -= fcsize without buf = buf[fcsize:]
    "notop": (True, False),    # no reallocation at the top of the loop
    "peek7": (True, False),    # inner loop entered only when pos > 7 (size of the smallest frame)
    "nolimit": (True,),        # server without the size > msize test
}


def mc_consts(server, maxmsgs, variant="code"):
    c = dict(SCALED)
    c.update(Server=server, Msizes={4, 5, 6, 7}, Factors={2, 3}, MaxMsgs=maxmsgs,
             Sizes={1, 3, 4, 5, 6, 7, 8} if server else {4, 5, 6, 7}, Vers={4, 6}, Variant=variant)
    return c


def trace_consts(server):
    return dict(Server=server, HDR=4, MINSZ=7, Msizes=set(), Factors=set(), MaxMsgs=0, Sizes=set(), Vers=set(), Variant="code")


def split_cases(path, shards, outdir, tag):
    """Split an ndjson trace at Reset lines into <= shards files of similar size."""
    cases = []
    cur = None
    with open(path) as f:
        for line in f:
            if line.startswith('{"cap0"') or '"ev":"Reset"' in line[:400]:
                cur = []
                cases.append(cur)
            if cur is not None:
                cur.append(line)
    total = sum(len(c) for c in cases)
    if not cases:
        return [], 0, 0
    shards = max(1, min(shards, len(cases)))
    target = total / shards
    out, buf, n = [], [], 0
    for c in cases:
        buf += c
        n += len(c)
        if n >= target and len(out) < shards - 1:
            out.append(buf)
            buf, n = [], 0
    if buf:
        out.append(buf)
    files = []
    for i, b in enumerate(out):
        p = os.path.join(outdir, "trace-%s-%d.ndjson" % (tag, i))
        with open(p, "w") as f:
            f.writelines(b)
        files.append((p, len(b)))
    return files, len(cases), total


def validate(ctx, files, cfg, tag):
    """Run RecvLoopTrace on every shard in parallel. Returns (rejects, lines consumed)."""
    rejects, consumed = [], 0

    def one(item):
        p, n = item
        return n, ctx.tlc("RecvLoopTrace", cfg, workers=1, timeout=900, env={"TRACE_FILE": p}, heap="3g",
                          name="%s:%s" % (tag, os.path.basename(p)))
    with cf.ThreadPoolExecutor(max_workers=8) as ex:
        for n, r in ex.map(one, files):
            rj = re.findall(r'"REJECT (\d+) (\d+) (.*)', r.out)
            rejects += [(int(a), int(b), c[:400]) for a, b, c in rj]
            m = re.search(r'<<"CONSUMED", (\d+)>>', r.out)
            if r.violated:
                ctx.inconclusive.append("RecvLoopTrace (%s): invariant %s failed on a trace of the real loop -- the loop left the "
                                        "envelope of the specification (internal evidence only, see the trace)" % (tag, r.violated))
            elif not r.ok or not m or int(m.group(1)) != n:
                ctx.log("RecvLoopTrace output tail (%s):\n%s" % (tag, "\n".join(r.out.splitlines()[-25:])))
                ctx.inconclusive.append("RecvLoopTrace (%s) did not consume its trace: %s" % (tag, r.error or "no CONSUMED line"))
            else:
                consumed += n
    return rejects, consumed


def panic_line(out):
    m = re.search(r"^(panic: .*|fatal error: .*)$", out or "", re.M)
    return m.group(1)[:300] if m else "no panic line"


def crashed(ctx, rep, eng, progress):
    """The engine process died (a goroutine of the library panicked).  Attribute the crash to the
    case in the progress file; it is a C13 violation only if the same stream sent unsplit does
    not crash (the process dying is externally observable and then depends on the segmentation)."""
    if rep.get("_exit") == 0 and "cases" in rep:
        return
    first = panic_line(rep.get("_stdout"))
    if not os.path.exists(progress):
        ctx.log("engine output tail:\n" + "\n".join((rep.get("_stdout") or "").splitlines()[-40:]))
        ctx.inconclusive.append("engine %s exited %s without a report and without a current case (%s)" % (eng, rep.get("_exit"), first))
        return
    case = json.load(open(progress))
    side = case.get("engine")
    unsplit = dict(case)
    unsplit["seg"] = {"class": "unsplit", "cuts": []}
    r0 = ctx.go_engine("recvh", eng, env={"VERIF_REPLAY_CASE": json.dumps(unsplit)}, timeout=300, name=eng + ":crash-unsplit", allow_crash=True)
    if (r0.get("_exit") != 0 or "cases" not in r0) and re.search(r"go9p\.\(\*(Clnt|Conn)\)\.recv", r0.get("_stdout") or ""):
        # the receive loop itself panics on a legal stream even in the most benign delivery: what it does is then not what the
        # specification predicts for that stream (the messages, in order), whatever the segmentation
        ctx.violation("%s:crash:seg=unsplit" % side,
                      "the receive loop of the real %s panics (%s) on a legal stream even when it is sent unsplit" % (
                          "server" if side == "srv" else "client", panic_line(r0.get("_stdout"))), unsplit)
        return
    if r0.get("_exit") != 0 or "cases" not in r0:
        ctx.log("engine output tail:\n" + "\n".join((r0.get("_stdout") or "").splitlines()[-40:]))
        ctx.inconclusive.append("engine %s: the process dies on the stream of %s even when it is sent unsplit (%s): not a "
                                "segmentation effect, C13 cannot be judged on this tree" % (eng, json.dumps(case.get("cfg")), panic_line(r0.get("_stdout"))))
        return
    r1 = ctx.go_engine("recvh", eng, env={"VERIF_REPLAY_CASE": json.dumps(case)}, timeout=300, name=eng + ":crash-case", allow_crash=True)
    if r1.get("_exit") != 0 or "cases" not in r1:
        cls = (case.get("seg") or {}).get("class")
        ctx.violation("%s:crash:seg=%s" % (side, cls),
                      "the process running the real %s dies (%s) when the stream is cut by segmentation %s; the same stream sent "
                      "unsplit is handled" % ("server" if side == "srv" else "client", panic_line(r1.get("_stdout")), cls), case)
    else:
        ctx.inconclusive.append("engine %s died once on case %s (%s) but neither the unsplit nor the same case reproduces it" % (
            eng, json.dumps(case)[:300], first))


def replay(ctx):
    rp = json.load(open(ctx.replay))
    case = rp.get("replay") or {}
    eng = "TestSrvSweep" if case.get("engine") == "srv" else "TestClntSweep"
    rep = ctx.go_engine("recvh", eng, env={"VERIF_REPLAY_CASE": json.dumps(case)}, timeout=300, name=eng + ":replay")
    return ctx.finish("model_checking", {"states": 0, "transitions": 0, "traces_validated_against_impl": rep.get("cases", 0),
                                         "samples": rep.get("samples", []), "evaluations": rep.get("cases", 0),
                                         "distinct_nontrivial": rep.get("cases", 0), "rule": "replay of one recorded case"})


def run(ctx):
    if ctx.replay:
        return replay(ctx)
    q = ctx.quick
    ctx._spec_dir()
    # ------------------------------------------------------------ 1. exhaustive model checking
    n_srv, n_clt = (3, 3) if q else (4, 5)
    ctx.write_cfg("c13_srv.cfg", mc_consts(True, n_srv), invariants=INVS)
    ctx.write_cfg("c13_clt.cfg", mc_consts(False, n_clt), invariants=INVS)
    rs = ctx.tlc_must_pass("RecvLoop", "c13_srv.cfg", timeout=800, name="server-instance")
    rc = ctx.tlc_must_pass("RecvLoop", "c13_clt.cfg", timeout=800, name="client-instance")
    # ------------------------------------------------------------ 2. the invariants refute wrong loops
    todo = [(v, s) for v, insts in VARIANTS.items() for s in insts]
    if q:
        todo = [("rewind", True), ("adv1", False), ("nolimit", True)]
    refuted = {}

    def variant(item):
        v, server = item
        name = "c13_var_%s_%s.cfg" % (v, "srv" if server else "clt")
        ctx.write_cfg(name, mc_consts(server, 2, v), invariants=INVS)
        r = ctx.tlc("RecvLoop", name, workers=2, timeout=300, heap="2g", expect_violation=True, name="variant:%s:%s" % (v, "srv" if server else "clt"))
        return v, server, r
    with cf.ThreadPoolExecutor(max_workers=8) as ex:
        for v, server, r in ex.map(variant, todo):
            refuted["%s:%s" % (v, "srv" if server else "clt")] = r.violated
            if not r.violated:
                ctx.inconclusive.append("self-test: the wrong loop %r (%s instance) was not refuted by the RecvLoop invariants" % (v, "server" if server else "client"))
    # ------------------------------------------------------------ 3. sweeps on the real code
    ctx.build_harness("recvh")
    budget = 45000 if q else 420000
    tsrv, tclt = ctx.path("recv-srv.ndjson"), ctx.path("recv-clt.ndjson")
    psrv, pclt = ctx.path("progress-srv.json"), ctx.path("progress-clt.json")
    with cf.ThreadPoolExecutor(max_workers=2) as ex:
        fs = ex.submit(ctx.go_engine, "recvh", "TestSrvSweep", env={"VERIF_TRACE_OUT": tsrv, "VERIF_TRACE_LINES": budget,
                                                                    "VERIF_PROGRESS": psrv}, timeout=700, allow_crash=True)
        fc = ex.submit(ctx.go_engine, "recvh", "TestClntSweep", env={"VERIF_TRACE_OUT": tclt, "VERIF_TRACE_LINES": budget,
                                                                     "VERIF_PROGRESS": pclt}, timeout=700, allow_crash=True)
        rep_s, rep_c = fs.result(), fc.result()
    crashed(ctx, rep_s, "TestSrvSweep", psrv)
    crashed(ctx, rep_c, "TestClntSweep", pclt)
    for note in (rep_s.get("stats", {}).get("c12_notes") or []):
        ctx.log("note for C12 (not judged here):", note)
    # ------------------------------------------------------------ 4. code -> spec with the real constants
    ctx.write_cfg("c13_trace_srv.cfg", trace_consts(True), invariants=TRACE_INVS, spec="TraceSpec")
    ctx.write_cfg("c13_trace_clt.cfg", trace_consts(False), invariants=TRACE_INVS, spec="TraceSpec")
    rejects, consumed, tcases = [], 0, 0
    shard_files = {}
    jobs = []
    for tag, path, cfg in (("srv", tsrv, "c13_trace_srv.cfg"), ("clt", tclt, "c13_trace_clt.cfg")):
        if not os.path.exists(path):
            ctx.inconclusive.append("no %s trace was written" % tag)
            continue
        files, ncases, nlines = split_cases(path, 6 if q else 8, ctx.scratch, tag)
        shard_files[tag] = files
        tcases += ncases
        jobs.append((tag, files, cfg))
    with cf.ThreadPoolExecutor(max_workers=2) as ex:
        for (tag, files, cfg), (rj, n) in zip(jobs, ex.map(lambda j: validate(ctx, j[1], j[2], j[0]), jobs)):
            rejects += [(tag,) + x for x in rj]
            consumed += n
    for tag, case, line, txt in rejects[:5]:
        ctx.log("trace reject (%s case %d line %d): %s" % (tag, case, line, txt[:300]))
    if rejects:
        # drift: the loop no longer follows the specification step by step.  By the verdict rules this is
        # not a violation (no externally visible difference unless a VIOLATION line says so); it is
        # reported and lowers the number of validated traces.
        ctx.log("DRIFT: %d recorded case(s) of the real receive loop were not accepted by RecvLoopTrace; first: %s" % (
            len(rejects), str(rejects[0])[:300]))
        ctx.notes.append("trace drift: %d cases" % len(rejects))
        if len(rejects) >= tcases and tcases > 0:
            ctx.inconclusive.append("no recorded trace of the real receive loop was accepted by RecvLoopTrace: the specification "
                                    "no longer describes the loop; first: %s" % str(rejects[0])[:300])
    # self-test of the binding: one corrupted field must be rejected
    corrupt_ok = None
    if shard_files.get("srv"):
        src = shard_files["srv"][0][0]
        lines = open(src).read().splitlines()
        end = next((i for i, l in enumerate(lines) if '"ev":"end"' in l), None)
        advs = [i for i, l in enumerate(lines[:end or 0]) if '"ev":"adv"' in l]
        if end and advs:
            k = advs[len(advs) // 2]
            e = json.loads(lines[k])
            e["cap"] += 1
            sub = lines[:end + 1]
            sub[k] = json.dumps(e)
            p = ctx.path("trace-corrupt.ndjson")
            open(p, "w").write("\n".join(sub) + "\n")
            r = ctx.tlc("RecvLoopTrace", "c13_trace_srv.cfg", workers=1, timeout=300, env={"TRACE_FILE": p}, heap="2g",
                        name="selftest:corrupted-trace", expect_violation=True)
            corrupt_ok = bool(re.search(r'"REJECT \d+ \d+ ', r.out))
            if not corrupt_ok:
                ctx.inconclusive.append("self-test: a trace with one corrupted len(buf) value was accepted by RecvLoopTrace")
    sweep_cases = int(rep_s.get("cases", 0) or 0) + int(rep_c.get("cases", 0) or 0)
    samples = list(rep_s.get("samples", []))[:2] + list(rep_c.get("samples", []))[:2]
    st_s, st_c = rep_s.get("stats", {}), rep_c.get("stats", {})
    cov = {
        "states": rs.distinct + rc.distinct, "transitions": rs.generated + rc.generated,
        "states_server_instance": rs.distinct, "transitions_server_instance": rs.generated,
        "states_client_instance": rc.distinct, "transitions_client_instance": rc.generated,
        "model_constants": {"server": {k: sorted(v) if isinstance(v, set) else v for k, v in mc_consts(True, n_srv).items()},
                            "client": {k: sorted(v) if isinstance(v, set) else v for k, v in mc_consts(False, n_clt).items()}},
        "traces_validated_against_impl": (tcases - len(rejects)) + sweep_cases,
        "event_traces_validated_by_tlc": tcases - len(rejects), "event_trace_lines": consumed, "trace_rejects": len(rejects),
        "sweep_cases_server": rep_s.get("cases", 0), "sweep_cases_client": rep_c.get("cases", 0),
        "sweep_classes_server": st_s.get("classes"), "sweep_classes_client": st_c.get("classes"),
        "requests_parsed_by_server": st_s.get("requests_parsed"), "calls_completed_by_client": st_c.get("calls_completed"),
        "buffer_reallocations_observed": (st_s.get("reallocations_observed") or 0) + (st_c.get("reallocations_observed") or 0),
        "samples": samples,
        "evaluations": sweep_cases + consumed, "distinct_nontrivial": sweep_cases,
        "rule": "one case = one (stream, segmentation, answer mode) triple executed on the real server or client; streams are "
                "seeded per VERIF_SEED, segmentations within a stream are pairwise different by construction, every stream has "
                ">= 20 messages mixing 7..11-byte and msize-sized frames",
        "wrong_loops_refuted": refuted, "corrupted_trace_rejected": corrupt_ok,
        "c12_notes": st_s.get("c12_notes"),
    }
    return ctx.finish("model_checking", cov, assumptions=[
        "transport reads return between 1 and len(buf)-pos bytes of the stream in order (net.Conn contract); the sweeps use net.Pipe",
        "requests of the swept part of a session are independent (distinct tags, established fids), so the order in which worker "
        "goroutines run cannot change an answer; arrival order is taken from the recv_advance trace point",
        "scaled constants (prefix 2, smallest frame 4, msize 4..7, factor 2..3) exhibit every arithmetic relation of the real ones "
        "(prefix < smallest frame <= msize < factor*msize); the real constants are covered by trace validation",
        "client: after an Rversion the peer sends nothing until the next request (Connect has stored the msize by then)",
        "go1.26.8 (harness, testing/synctest) compiles /repo to the same behaviour as go1.23.12",
    ])
