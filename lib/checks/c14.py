"""C14 -- file data read and written through the client and Ufs is exact.

spec/UfsData.tla (part A) decides every expected result:
  1. TLC model-checks the scaled state machine FileSpec (every write helper from every reachable
     file state, every read helper at every File offset / offset / count as state invariants);
  2. TLC evaluates the same operators on the concrete boundary grid for the real msizes
     (UfsData!Cases, via UfsDataTrace!TableSpec) -> case tables replayed by the Go engine
     TestC14Cases through the real client against real Ufs, both dialects;
  3. seeded random operation sequences over many files open at once are chosen here, TLC
     (UfsDataTrace!ExpectSpec) computes the expectation of every step, TestC14Seq executes them.
Every observation is also compared with the os package on the same path (twin).
"""
import glob
import json
import os
import re
import random

MSIZES = [128, 256, 4096, 8216, 65536]
READ_OPS = ["CRead", "Read", "ReadAt", "Readn"]
WRITE_OPS = ["CWrite", "Write", "WriteAt", "Written"]


def consts(**kw):
    c = dict(Iounit=3, InitLens=set(range(0, 8)), MaxOff=9, MaxCnt=10, NFiles=1, MaxWrites=1, ReadnFix=True,
             DSizes={2, 3, 5}, MaxEntries=1, MaxCount=1, DirImpl=False, DirMutate=False)
    c.update(kw)
    return c


FILE_INVS = ["FileTypeOK", "NormSame", "LastMeets", "ReadsMeet", "WriteExact", "OffsetAdvance"]


def boundary(rng, iu, hi):
    """a number in 0..hi, biased to the iounit boundaries"""
    r = rng.random()
    if r < 0.55:
        k = rng.randint(0, max(1, hi // iu))
        v = k * iu + rng.choice([-1, 0, 1])
    elif r < 0.65:
        v = rng.choice([0, 1, 2])
    else:
        v = rng.randint(0, hi)
    return min(max(v, 0), hi)


def gen_sequences(ctx, path, ncases, nops, maxfiles):
    rng = random.Random(ctx.seed * 7919 + 14)
    lines = []
    nlines = 0
    for c in range(1, ncases + 1):
        r = rng.random()
        if r < 0.6:
            msize = rng.choice(MSIZES[:4])
        elif r < 0.7:
            msize = 65536
        else:
            msize = rng.randint(128, 20000)
        iu = msize - 24
        nf = rng.randint(2, maxfiles)
        lens = [boundary(rng, iu, 4 * iu + 1) if rng.random() < 0.8 else 0 for _ in range(nf)]
        lines.append({"act": "Reset", "case": c, "iu": iu, "dotu": rng.random() < 0.5, "lens": lens})
        for k in range(nops):
            op = rng.choice(READ_OPS if rng.random() < 0.55 else WRITE_OPS)
            lines.append({"act": "Op", "op": op, "f": rng.randint(1, nf), "off": boundary(rng, iu, 5 * iu),
                          "cnt": max(1, boundary(rng, iu, 3 * iu + 1)), "w": 100 + k})
    with open(path, "w") as f:
        for l in lines:
            f.write(json.dumps(l) + "\n")
            nlines += 1
    return nlines


def engine(ctx, prefix, run, **kw):
    """ctx.go_engine, but a crash of the engine process caused by a panic inside go9p (server or client
    goroutine) while executing a legal case is an observable failure of the property, not a dead driver"""
    rep = ctx.go_engine("ufsdata", run, allow_crash=True, **kw)
    if rep.get("_exit", 0) == 0 and "cases" in rep:
        return rep
    out = rep.get("_stdout", "")
    m = re.search(r"^(panic: .*|fatal error: .*)$", out, re.M)
    fm = re.search(r"goroutine \d+ \[running\]:\n(?:panic\(.*\n\s+.*\n)?(\S+)\([^()\n]*\)\n", out)
    first = fm.group(1) if fm else ""
    if m and first.startswith("github.com/rminnich/go9p."):
        prog = {}
        try:
            import glob as _g
            cands = sorted(_g.glob(ctx.path("out-*.json.progress")), key=os.path.getmtime)
            if cands:
                prog = json.load(open(cands[-1]))
        except Exception:
            prog = {}
        fn = first.split("go9p.", 1)[1]
        ctx.violation("%s:panic:%s:%s" % (prefix, fn, prog.get("cls", "?")),
                      "%s: the process crashed inside go9p (%s) while executing %s: %s" % (run, fn, json.dumps(prog)[:400], m.group(1)),
                      {"engine": run, "progress": prog, "panic": m.group(1)})
    else:
        ctx.log("engine output tail:\n" + "\n".join(out.splitlines()[-40:]))
        ctx.inconclusive.append("engine %s exited %s without a complete report" % (run, rep.get("_exit")))
    return rep


def run(ctx):
    if ctx.replay:
        # every case is a deterministic function of (seed, tier): re-execute the run that found it
        saved = json.load(open(ctx.replay))
        ctx.seed = int(saved.get("seed", ctx.seed))
        ctx.tier = saved.get("tier", ctx.tier)
        ctx.quick = ctx.tier == "quick"
        ctx.log("replaying seed=%d tier=%s for %s" % (ctx.seed, ctx.tier, saved.get("key")))
    q = ctx.quick
    states = trans = 0
    # 1. the scaled model
    cfgs = [("c14_file_iu3.cfg", consts())]
    if not q:
        cfgs.append(("c14_file_iu3_w2.cfg", consts(InitLens={0, 2, 7}, MaxWrites=2)))
        cfgs.append(("c14_file_iu4_f2.cfg", consts(Iounit=4, InitLens={0, 3, 5}, MaxOff=9, MaxCnt=9, NFiles=2)))
    for name, c in cfgs:
        ctx.write_cfg(name, c, invariants=FILE_INVS, spec="FileSpec")
        r = ctx.tlc_must_pass("UfsData", name, timeout=800, heap="4g", name=name)
        states += r.distinct
        trans += r.generated
    # the transcription of File.Readn as found must be refuted by the same invariants (binding of
    # the invariants to the defect the engine reports)
    ctx.write_cfg("c14_file_asfound.cfg", consts(ReadnFix=False, InitLens={0, 1, 4}), invariants=FILE_INVS, spec="FileSpec")
    ra = ctx.tlc("UfsData", "c14_file_asfound.cfg", timeout=300, heap="4g", name="asfound", expect_violation=True)
    if ra.violated != "ReadsMeet":
        ctx.inconclusive.append("the model of File.Readn as found was not refuted by ReadsMeet (%s)" % (ra.violated or ra.error))
    # 2. concrete case tables
    tab = ctx.path("c14_table")
    ctx.write_cfg("c14_table.cfg", consts(), spec="TableSpec")
    rt = ctx.tlc_must_pass("UfsDataTrace", "c14_table.cfg", workers=1, timeout=300, heap="4g", name="tables",
                           env={"TABLE_OUT": tab, "IN_FILE": os.devnull})
    ntab = 0
    for m in MSIZES:
        p = "%s.%d" % (tab, m)
        if not os.path.exists(p):
            ctx.inconclusive.append("TLC wrote no case table for msize %d" % m)
        else:
            ntab += sum(1 for _ in open(p))
    rep1 = engine(ctx, "c14", "TestC14Cases", env={
        "VERIF_TABLE": tab, "VERIF_MSIZES": ",".join(map(str, MSIZES)), "VERIF_SAMPLE_PCT": 45 if q else 100},
        timeout=700)
    # 3. random sequences, many files open at once
    ops = ctx.path("c14_ops.ndjson")
    exp = ctx.path("c14_expect")
    nlines = gen_sequences(ctx, ops, 40 if q else 400, 40 if q else 90, 8 if q else 40)
    ctx.write_cfg("c14_expect.cfg", consts(), spec="ExpectSpec")
    re_ = ctx.tlc_must_pass("UfsDataTrace", "c14_expect.cfg", workers=1, timeout=600, heap="4g", name="expect",
                            env={"IN_FILE": ops, "OUT_FILE": exp})
    if "CONSUMED" not in re_.out:
        ctx.inconclusive.append("TLC did not consume the operation sequences")
    nmodel = re_.out.count('"MODEL"')
    if nmodel:
        ctx.inconclusive.append("transcription and demand disagree on %d random operations" % nmodel)
    nexp = sum(sum(1 for _ in open(p)) for p in glob.glob(exp + ".*"))
    rep2 = engine(ctx, "c14", "TestC14Seq", env={"VERIF_OPS": ops, "VERIF_EXPECT": exp}, timeout=700)
    # 4. beyond the model's bounds, the os package on the same path as the oracle: zero-length writes, offsets >= 2^32 on
    #    a sparse file, several reads of one fid in progress at once
    rep3 = engine(ctx, "c14", "TestC14Extra", env={"VERIF_ROUNDS": 40 if q else 400}, timeout=600)
    executed = rep1.get("cases", 0) + rep2.get("stats", {}).get("steps", 0)
    cov = {
        "states": states, "transitions": trans,
        "traces_validated_against_impl": executed,
        "samples": (rep1.get("samples", [])[:3] + rep2.get("samples", [])[:3]),
        "evaluations": executed,
        "distinct_nontrivial": rep1.get("distinct", 0) + rep2.get("cases", 0),
        "rule": "a table case = (msize, op, length, offset, count) from UfsData!Cases (each distinct by construction, every one "
                "transfers or must refuse >= 1 byte), executed in both dialects; a sequence = one seeded random run of helper "
                "calls over 2..N files open at once, every step compared with the TLC-computed expectation",
        "case_table_records": ntab, "table_cases_executed": rep1.get("cases", 0),
        "random_sequences": rep2.get("cases", 0), "random_steps_executed": rep2.get("stats", {}).get("steps", 0),
        "random_ops_generated": nlines, "expectations_computed_by_tlc": nexp,
        "max_files_open_at_once": rep2.get("stats", {}).get("max_files_open", 0),
        "within_demand_but_not_as_transcribed": int(rep1.get("stats", {}).get("drift", 0) or 0) + int(rep2.get("stats", {}).get("drift", 0) or 0),
        "violation_keys": {**rep1.get("stats", {}).get("violation_keys", {}), **rep2.get("stats", {}).get("violation_keys", {})},
        "beyond_the_model": {"level": "exploration", "cases": rep3.get("cases", 0), "stats": rep3.get("stats", {}),
                             "what": "zero-length writes, offsets around and beyond 2^32 on a sparse file, 4 Treads of one fid at once; oracle: os package"},
        "msizes": MSIZES, "spec_refutes_readn_as_found": ra.violated == "ReadsMeet",
        "exhaustive": not q,
    }
    return ctx.finish("model_checking", cov, assumptions=[
        "runs as uid 0 on a local file system; regular files only; no concurrent writers to the exported tree",
        "Tread/Twrite counts above iounit are sent only through the client helpers (the raw overflow of the framework guard belongs to C05/C06)",
        "single-message helpers (Clnt.Read/Write, File.Read/ReadAt/Write/WriteAt) given more than one iounit must move at least "
        "one full message (or up to EOF) and at most what was asked; Readn/Written must move everything asked up to EOF",
        "an end-of-file error value is accepted only when fewer bytes than asked were moved because the file ended",
        "the File offset is observed externally: a marker byte written through the File lands at its offset in the underlying file",
        "go1.26.8 (harness) compiles /repo to the same behaviour as go1.23.12",
    ])
