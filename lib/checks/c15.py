"""C15 -- directory reads return whole entries, each exactly once.

spec/UfsData.tla (part B):
  1. TLC model-checks DirSpec for every directory of 0..4 entries over three sizes and every
     count, in two modes: any allowed outcome (the property itself) and the window arithmetic of
     Ufs.Read / the loop of File.Readdir(0) transcribed (WindowRefines, Readdir0Complete);
  2. the state graph of the transcribed mode is dumped; a transition tour (every (state, read)
     pair: offset 0 or next, every count, restart at 0 mid-listing, Readdir(0)) is replayed by
     TestC15Tour on real directories whose record sizes are the model's sizes times UNIT;
  3. TestC15Explore lists real directories of 0, 1, 2, ~50 and thousands of entries (names of
     1..255 bytes) with fixed, random and too-small counts, restarts, mutations, msize 256..64 KiB,
     both dialects.
Both engines decode every reply record by record with the independent decoder, check the names
against os.ReadDir (each exactly once), and write the sizes/offsets/counts/reply kinds to a trace
that TLC validates against the specification (UfsDataTrace!DirTraceSpec): a rejected line is a
reply the property does not permit.
"""
import json
import os
import re
import sys

sys.path.insert(0, os.path.dirname(os.path.dirname(os.path.abspath(__file__))))
import tour

UNIT = 50
DIR_INVS = ["WholeEntries", "EachExactlyOnce", "TooSmallIsError", "RereadFromZero", "WindowRefines", "FastAgrees",
            "Readdir0Complete"]


def consts(**kw):
    c = dict(Iounit=3, InitLens={0}, MaxOff=1, MaxCnt=1, NFiles=1, MaxWrites=0, ReadnFix=True,
             DSizes={2, 3, 5}, MaxEntries=4, MaxCount=12, DirImpl=True, DirMutate=True)
    c.update(kw)
    return c


def validate(ctx, trace, name):
    """TLC trace validation; returns (rejects [(case, line, act)], lines)"""
    if not os.path.exists(trace) or os.path.getsize(trace) == 0:
        ctx.inconclusive.append("%s: no trace written" % name)
        return [], 0
    ctx.write_cfg("c15_trace.cfg", consts(DirImpl=False), spec="DirTraceSpec")
    r = ctx.tlc("UfsDataTrace", "c15_trace.cfg", workers=1, timeout=800, name=name, env={"IN_FILE": trace}, heap="4g")
    m = re.search(r'<<"CONSUMED", (\d+)>>', r.out)
    if not r.ok or not m:
        ctx.inconclusive.append("%s: TLC did not consume the trace (%s)" % (name, r.violated or r.error))
        return [], 0
    rej = [(int(a), int(b), c) for a, b, c in re.findall(r'<<"REJECT", (\d+), (\d+), "(\w+)">>', r.out)]
    return rej, int(m.group(1))


def report_rejects(ctx, trace, rejects, engine):
    if not rejects:
        return
    want = {l for _, l, _ in rejects}
    lines = {}
    dirs = {}
    cur = None
    with open(trace) as f:
        for i, ln in enumerate(f, 1):
            if '"act":"Dir"' in ln:
                cur = i
            if i in want:
                lines[i] = json.loads(ln)
                dirs[i] = cur
    dcache = {}
    with open(trace) as f:
        need = set(dirs.values())
        for i, ln in enumerate(f, 1):
            if i in need:
                dcache[i] = json.loads(ln)
    for case, l, act in rejects:
        ln = lines.get(l, {})
        d = dcache.get(dirs.get(l), {})
        r = ln.get("r", ln.get("k"))
        kind = "err" if r == -1 else ("empty" if r == 0 else "data")
        sizes = d.get("sizes", [])
        key = "c15:spec-reject:%s:%s:%s" % (act, kind, d.get("cls", "?"))
        what = ("%s: the specification does not permit this reply: %s on a directory of %d entries (%s), sizes %s%s"
                % (engine, json.dumps(ln), len(sizes), d.get("cfg", ""), sizes[:12], "..." if len(sizes) > 12 else ""))
        ctx.violation(key, what, {"engine": engine, "trace_line": l, "line": ln, "dir": {"cfg": d.get("cfg"), "sizes": sizes[:200]}})


def engine(ctx, prefix, run, **kw):
    """ctx.go_engine, but a crash of the engine process caused by a panic inside go9p (server or client
    goroutine) while executing a legal case is an observable failure of the property, not a dead driver"""
    rep = ctx.go_engine("ufsdata", run, allow_crash=True, **kw)
    if rep.get("_exit", 0) == 0 and "cases" in rep:
        return rep
    out = rep.get("_stdout", "")
    m = re.search(r"^(panic: .*|fatal error: .*)$", out, re.M)
    fm = re.search(r"goroutine \d+ \[running\]:\n(?:panic\(.*\n\s+.*\n)?(\S+)\([^()\n]*\)\n", out)
    first = fm.group(1) if fm else ""
    if m and first.startswith("github.com/rminnich/go9p."):
        prog = {}
        try:
            import glob as _g
            cands = sorted(_g.glob(ctx.path("out-*.json.progress")), key=os.path.getmtime)
            if cands:
                prog = json.load(open(cands[-1]))
        except Exception:
            prog = {}
        fn = first.split("go9p.", 1)[1]
        ctx.violation("%s:panic:%s:%s" % (prefix, fn, prog.get("cls", "?")),
                      "%s: the process crashed inside go9p (%s) while executing %s: %s" % (run, fn, json.dumps(prog)[:400], m.group(1)),
                      {"engine": run, "progress": prog, "panic": m.group(1)})
    else:
        ctx.log("engine output tail:\n" + "\n".join(out.splitlines()[-40:]))
        ctx.inconclusive.append("engine %s exited %s without a complete report" % (run, rep.get("_exit")))
    return rep


def run(ctx):
    if ctx.replay:
        # every case is a deterministic function of (seed, tier): re-execute the run that found it
        saved = json.load(open(ctx.replay))
        ctx.seed = int(saved.get("seed", ctx.seed))
        ctx.tier = saved.get("tier", ctx.tier)
        ctx.quick = ctx.tier == "quick"
        ctx.log("replaying seed=%d tier=%s for %s" % (ctx.seed, ctx.tier, saved.get("key")))
    q = ctx.quick
    # 1. model checking: the property, and the transcribed code against it
    small = dict(MaxEntries=3, MaxCount=10) if q else {}
    ctx.write_cfg("c15_dir_allowed.cfg", consts(DirImpl=False, **small), invariants=DIR_INVS, spec="DirSpec")
    ra = ctx.tlc_must_pass("UfsData", "c15_dir_allowed.cfg", timeout=600, heap="4g", name="dir:any-allowed-outcome")
    ctx.write_cfg("c15_dir_impl.cfg", consts(DirImpl=True), invariants=[i for i in DIR_INVS if i != "FastAgrees"] + ["WindowSafe"], spec="DirSpec")
    ri = ctx.tlc_must_pass("UfsData", "c15_dir_impl.cfg", timeout=600, heap="4g", name="dir:transcribed-window")
    states = ra.distinct + ri.distinct
    trans = ra.generated + ri.generated
    if not q:
        # larger directories for the transcribed window (the tour stays on 0..4 entries)
        ctx.write_cfg("c15_dir_impl5.cfg", consts(DirImpl=True, MaxEntries=5, MaxCount=14, DirMutate=False),
                      invariants=[i for i in DIR_INVS if i != "FastAgrees"], spec="DirSpec")
        r5 = ctx.tlc_must_pass("UfsData", "c15_dir_impl5.cfg", timeout=800, heap="4g", name="dir:transcribed-window-5")
        states += r5.distinct
        trans += r5.generated
    # 2. transition tour of the transcribed mode on real directories
    ctx.write_cfg("c15_dir_tour.cfg", consts(DirImpl=True, DirMutate=False), invariants=DIR_INVS[:3], spec="DirTourSpec",
                  view="DView")
    rg, dot = ctx.tlc_dump_graph("UfsData", "c15_dir_tour.cfg", timeout=600)
    if not rg.ok or not os.path.exists(dot):
        ctx.inconclusive.append("no tour graph")
        return ctx.finish("model_checking", {"states": states, "transitions": trans, "traces_validated_against_impl": 0, "samples": []})
    init, adj = tour.load(dot)
    paths, covered, total = tour.cover(init, adj, seed=ctx.seed, sample_edges=6000 if q else None)
    tpath = ctx.path("c15_tour.ndjson")
    tour.write_behaviours(paths, tpath)
    os.remove(dot)
    t1 = ctx.path("c15_trace_tour.ndjson")
    rep1 = engine(ctx, "c15", "TestC15Tour", env={"VERIF_TOUR": tpath, "VERIF_UNIT": UNIT, "VERIF_TRACE_OUT": t1}, timeout=700)
    rej1, lines1 = validate(ctx, t1, "trace:tour") if "cases" in rep1 else ([], 0)
    report_rejects(ctx, t1, rej1, "TestC15Tour")
    # 3. exploration beyond the model's bounds
    t2 = ctx.path("c15_trace_explore.ndjson")
    rep2 = engine(ctx, "c15", "TestC15Explore", env={"VERIF_TRACE_OUT": t2}, timeout=800)
    rej2, lines2 = validate(ctx, t2, "trace:explore") if "cases" in rep2 else ([], 0)
    report_rejects(ctx, t2, rej2, "TestC15Explore")
    s1, s2 = rep1.get("stats", {}), rep2.get("stats", {})
    cov = {
        "states": states, "transitions": trans,
        "traces_validated_against_impl": rep1.get("cases", 0),
        "samples": rep1.get("samples", [])[:3] + rep2.get("samples", [])[:3],
        "evaluations": rep1.get("cases", 0) + rep2.get("cases", 0),
        "distinct_nontrivial": rep1.get("distinct", 0) + rep2.get("distinct", 0),
        "rule": "tour: one case = one path of the transition tour (distinct by construction) replayed in one dialect on a real "
                "directory, distinct = distinct (directory, dialect, read kind, count class, position); exploration: one case = "
                "one listing of one real directory under one read-size policy, msize and dialect; every case sends >= 1 Tread",
        "tour_edges_covered": covered, "tour_edges_total": total, "tour_paths": len(paths),
        "tour_steps_executed": s1.get("steps", 0), "tour_trace_lines_validated": lines1, "tour_trace_rejects": len(rej1),
        "tour_directories": s1.get("directories", 0),
        "exploration": {"listings": rep2.get("cases", 0), "directories": s2.get("directories", 0),
                        "max_entries": s2.get("max_entries", 0), "treads": s2.get("treads", 0),
                        "readdir0_calls": s2.get("readdir0", 0), "trace_lines_validated": lines2, "trace_rejects": len(rej2),
                        "level": "exploration"},
        "treads_total": int(s1.get("treads", 0) or 0) + int(s2.get("treads", 0) or 0),
        "readdir0_total": int(s1.get("readdir0", 0) or 0) + int(s2.get("readdir0", 0) or 0),
        "served_order_differs_from_twin": int(s1.get("served_order_differs_from_twin", 0) or 0) + int(s2.get("served_order_differs_from_twin", 0) or 0),
        "violation_keys": {**s1.get("violation_keys", {}), **s2.get("violation_keys", {})},
        "unit": UNIT, "exhaustive": not q,
    }
    return ctx.finish("model_checking", cov, assumptions=[
        "offsets follow the protocol rule (0, or the previous offset plus the bytes returned); an offset past the end of the "
        "listing is illegal and belongs to C06",
        "the directory does not change during a listing; after a change the listing restarts at offset 0",
        "the order in which an unchanged directory is listed is stable (getdents); the engine takes it from the os package when "
        "offset 0 is read; if the served order differs the size-level validation of that listing is skipped and counted",
        "record sizes come from the independent encoder applied to what the twin knows (name, uid 0, gid 0); runs as uid 0",
        "File.Readdir(0) through a client whose msize-24 is smaller than the largest record must fail, never return a partial set",
        "go1.26.8 (harness) compiles /repo to the same behaviour as go1.23.12",
    ])
