"""C16 -- Ufs names and metadata mirror the exported tree.

Also holds the machinery shared by C16/C17/C18 (one specification, spec/UfsTree.tla, one harness
package, harness/ufstree): per configuration
  1. TLC checks UfsTree exhaustively (tour configs) with every property of the family,
  2. behaviours are taken from the dumped state graph (transition tour, lib/tour.py) or from
     `tlc -simulate` (larger configs),
  3. harness/ufstree TestReplay executes them on a twin tree (os package) and through raw 9P on
     a real go9p.Ufs, compares twin and 9P after every step, and logs the twin's observations,
  4. TLC validates that log against UfsTree (spec/UfsTreeTrace.tla): model = twin.
A discrepancy 9P/twin in a case TLC accepted is a violation; a rejected case is a model error
(inconclusive).  TestRandom adds seeded large random trees (twin versus 9P only).
"""
import concurrent.futures
import glob
import json
import os
import re
import sys

sys.path.insert(0, os.path.dirname(os.path.dirname(os.path.abspath(__file__))))
import tour  # noqa: E402

ALL_OPS = {"Attach", "Walk", "Stat", "Clunk", "Open", "Create", "Remove", "Rename", "Truncate", "Chmod", "Mtime", "Write", "Wstat"}
PROPS = ["WalkAtomic", "WalkPrefix", "QidIdentity", "StatAgrees", "MutationsMirror",
         "FailedCreateRemoveChangesNothing", "ErrnoCarried", "FidFollowsCreateRename", "Confined", "DotDotAtRoot"]
INVS = ["TypeOK", "ConfinedState"]

BASE = dict(Names={"a", "b", "c"}, Specials=set(), AttachNames={""}, RenameNames=set(), Fids={1, 2}, MaxWalk=2,
            InitTree="T1", Ops=set(ALL_OPS), Perms={420}, Modes={0}, Lens={0}, Mtimes={2}, LinkTargets={"a"},
            CreateKinds={"F"}, MaxIds=16, MaxLen=3, Dotu=True,
            FixWalk=True, FixConfine=True, FixErrno=True, FixDangling=True)

ASSUMPTIONS = [
    "the checks run as uid 0: no permission denials are exercised or modelled",
    "umask 022; Linux semantics of open/rename/truncate as observed on the scratch file system (the twin tree "
    "executes the same POSIX calls, a model/twin disagreement is reported as inconclusive, never as a violation)",
    "not compared: atime, qid.version, uid/gid names, error texts; errno only for failed create/remove in 9P2000.u",
    "trees contain no symlinks leaving the exported root; symlink targets are sibling names, '.' or dangling",
    "out of the model's scope (guards): Topen on an open fid and stale fid types (fid-table rules, C04/C05), "
    "wstat/open through symlinks, create through an existing symlink, hard links to symlinks, removing or renaming the root, "
    "remove/rename of a fid whose path leads through a symlinked directory",
    "compiling /repo with go1.26.8 (harness toolchain) instead of go1.23.12 does not change its behaviour",
]


def cfg(**kw):
    c = dict(BASE)
    c.update(kw)
    return c


def write_cfg(ctx, name, consts, trace=False):
    if trace:
        return ctx.write_cfg(name, consts, spec="TraceSpec")
    return ctx.write_cfg(name, consts, invariants=INVS, properties=PROPS, view="View")


class Family:
    def __init__(self, ctx, prop):
        self.ctx = ctx
        self.prop = prop
        self.states = 0
        self.transitions = 0
        self.behaviours = 0          # executed on the implementation
        self.validated = 0           # ... and accepted by TLC as model = twin
        self.steps = 0
        self.evals = 0
        self.distinct = 0
        self.samples = []
        self.rejects = 0
        self.drift = 0
        self.other = {}
        self.tours = []

    # ---- behaviours
    def exhaustive(self, name, consts, timeout=840):
        c = write_cfg(self.ctx, name + ".cfg", consts)
        r = self.ctx.tlc_must_pass("UfsTree", c, timeout=timeout, name=name)
        self.states += r.distinct
        self.transitions += r.generated
        return r

    def tour(self, name, consts, sample_edges=None, timeout=840, max_len=60):
        """exhaustive check + dumped graph + transition tour; returns path of the behaviours file"""
        ctx = self.ctx
        c = write_cfg(ctx, name + ".cfg", consts)
        r, dot = ctx.tlc_dump_graph("UfsTree", c, timeout=timeout)
        if not r.ok:
            ctx.inconclusive.append("TLC UfsTree/%s did not pass: %s" % (name, r.violated or r.error))
            ctx.log("\n".join(r.out.splitlines()[-40:]))
            return None
        self.states += r.distinct
        self.transitions += r.generated
        init, adj = tour.load(dot)
        paths, cov, total = tour.cover(init, adj, seed=ctx.seed, max_len=max_len, sample_edges=sample_edges)
        os.remove(dot)
        out = ctx.path("beh-%s.ndjson" % name)
        tour.write_behaviours(paths, out)
        self.tours.append({"config": name, "edges": total, "edges_covered": cov, "behaviours": len(paths),
                           "states": r.distinct})
        ctx.log("tour %s: %d behaviours cover %d/%d edges" % (name, len(paths), cov, total))
        return out

    def simulate(self, name, consts, num, depth, timeout=600):
        ctx = self.ctx
        c = write_cfg(ctx, name + ".cfg", consts)
        d = ctx.path("sim-" + name)
        os.makedirs(d, exist_ok=True)
        r = ctx.tlc("UfsTree", c, workers=1, timeout=timeout, name=name + ":sim",
                    extra=["-simulate", "file=%s/s,num=%d" % (d, num), "-depth", str(depth), "-seed", str(ctx.seed)])
        if r.violated or r.error:
            ctx.inconclusive.append("TLC simulation UfsTree/%s: %s" % (name, r.violated or r.error))
            ctx.log("\n".join(r.out.splitlines()[-40:]))
            return None
        behs = tour.behaviours_from_sim(sorted(glob.glob(d + "/s_*")))
        for f in glob.glob(d + "/s_*"):
            os.remove(f)
        out = ctx.path("beh-%s.ndjson" % name)
        tour.write_behaviours(behs, out)
        ctx.log("simulation %s: %d behaviours" % (name, len(behs)))
        return out

    # ---- execution + validation
    def replay(self, name, beh, consts, dotu=True, alphabets=None, max_cases=0, timeout=780):
        ctx = self.ctx
        if beh is None:
            return
        trace = ctx.path("trace-%s-%d.ndjson" % (name, int(dotu)))
        ecfg = {"tree": consts["InitTree"], "dotu": dotu, "fids": sorted(consts["Fids"]), "prop": self.prop,
                "alphabets": alphabets or [], "max_cases": max_cases}
        rep = ctx.go_engine("ufstree", "TestReplay", timeout=timeout, name="replay:%s:dotu=%d" % (name, int(dotu)),
                            env={"VERIF_BEH": beh, "VERIF_CFGJSON": json.dumps(ecfg), "VERIF_TRACE": trace})
        if "cases" not in rep:
            return
        st = rep.get("stats", {})
        self.behaviours += rep["cases"]
        self.steps += st.get("steps_executed", 0)
        self.evals += st.get("steps_executed", 0)
        self.distinct += rep.get("distinct", 0)
        self.drift += st.get("drift_on_special_names", 0)
        for k, v in st.get("discrepancies_of_other_properties", {}).items():
            self.other[k] = self.other.get(k, 0) + v
        if len(self.samples) < 6:
            self.samples += rep.get("samples", [])[:2]
        rejected = self.validate(name, trace, consts, dotu, rep["cases"])
        ncand = sum(1 for cand in st.get("candidates", []) for c in cand.get("cases", []))
        if rejected or ncand:
            ctx.log("replay %s dotu=%d: %d cases not understood by the model (their discrepancies are not judged), %d candidate discrepancies" % (
                name, int(dotu), len(rejected), ncand))
        self.rejected_cases = getattr(self, "rejected_cases", 0) + len(rejected)
        for cand in st.get("candidates", []):
            ok_cases = [c for c in cand.get("cases", []) if c not in rejected]
            if ok_cases:
                ctx.violation(cand["key"], cand["what"], cand.get("replay"))
        if os.path.exists(trace):
            os.remove(trace)

    def validate(self, name, trace, consts, dotu, ncases):
        """TLC trace validation of the twin log, in parallel chunks. Returns the set of rejected case ids."""
        ctx = self.ctx
        rejected = set()
        if not os.path.exists(trace):
            ctx.inconclusive.append("no trace written for %s" % name)
            return rejected
        tc = dict(consts)
        tc.update(Dotu=dotu, Ops=set(ALL_OPS), CreateKinds={"F", "D", "L", "H", "P"},
                  FixWalk=True, FixConfine=True, FixErrno=True, FixDangling=True)
        cfgname = write_cfg(ctx, "trace-%s-%d.cfg" % (name, int(dotu)), tc, trace=True)
        # split on Reset lines into ~equal chunks
        lines = open(trace).read().splitlines()
        starts = [i for i, l in enumerate(lines) if l.startswith('{"act":"Reset"')]
        nchunks = max(1, min(14, len(lines) // 1500))
        per = max(1, (len(starts) + nchunks - 1) // nchunks)
        chunks = []
        for ci in range(0, len(starts), per):
            lo = starts[ci]
            hi = starts[ci + per] if ci + per < len(starts) else len(lines)
            p = "%s.part%d" % (trace, len(chunks))
            with open(p, "w") as f:
                f.write("\n".join(lines[lo:hi]) + "\n")
            chunks.append((p, hi - lo))

        def one(ch):
            p, n = ch
            r = ctx.tlc("UfsTreeTrace", cfgname, workers=1, timeout=840, heap="3g", env={"TRACE_FILE": p},
                        name="validate:%s:%s" % (name, os.path.basename(p)))
            return p, n, r

        with concurrent.futures.ThreadPoolExecutor(max_workers=min(14, len(chunks))) as ex:
            results = list(ex.map(one, chunks))
        nrej = 0
        for p, n, r in results:
            os.remove(p)
            m = re.search(r'<<"CONSUMED", (\d+)>>', r.out)
            if not m or int(m.group(1)) != n:
                ctx.inconclusive.append("trace validation of %s did not consume its trace (%s)" % (name, r.error or r.violated or "?"))
                ctx.log("\n".join(r.out.splitlines()[-30:]))
                continue
            for rm in re.finditer(r'<<"REJECT", (\d+), (\d+), "(\w+)", (.*)>>', r.out):
                rejected.add(int(rm.group(1)))
                nrej += 1
                if nrej <= 5:
                    ctx.inconclusive.append("model/twin disagreement (model error): config %s dotu=%d case %s, %s%s"
                                            % (name, int(dotu), rm.group(1), rm.group(3), rm.group(4)[:120]))
        self.rejects += nrej
        self.validated += ncases - len(rejected)
        return rejected

    def random(self, cases, steps, timeout=780):
        ctx = self.ctx
        rep = ctx.go_engine("ufstree", "TestRandom", timeout=timeout, name="random",
                            env={"VERIF_PROP": self.prop, "VERIF_CASES": cases, "VERIF_STEPS": steps})
        st = rep.get("stats", {})
        self.evals += st.get("steps_executed", 0)
        self.random_stats = {"cases": rep.get("cases", 0), "steps": st.get("steps_executed", 0),
                             "max_depth": st.get("max_depth"), "max_walk_elements": st.get("max_walk_elements")}
        for k, v in st.get("discrepancies_of_other_properties", {}).items():
            self.other[k] = self.other.get(k, 0) + v
        if rep.get("samples"):
            self.samples.append(rep["samples"][0])

    def do_replay(self):
        """--replay <file>: re-execute the recorded case deterministically."""
        ctx = self.ctx
        rp = json.load(open(ctx.replay)).get("replay") or {}
        if rp.get("engine") == "ufstree.random":
            ctx.seed = int(rp["seed"])
            rep = ctx.go_engine("ufstree", "TestRandom", name="random:replay",
                                env={"VERIF_PROP": self.prop, "VERIF_CASES": rp["cases"], "VERIF_STEPS": rp["nsteps"],
                                     "VERIF_ONLY_CASE": rp["case"], "VERIF_SEED": rp["seed"]})
            self.evals += rep.get("stats", {}).get("steps_executed", 0)
        else:
            e = rp["cfg"]
            consts = cfg(InitTree=e["tree"], Fids=set(e["fids"]))
            beh = ctx.path("beh-replay.ndjson")
            with open(beh, "w") as f:
                f.write(json.dumps({"id": rp.get("case", 1), "steps": rp["steps"]}) + "\n")
            self.replay("replay", beh, consts, dotu=e["dotu"], alphabets=[rp.get("alphabet", 0)])
        return self.finish(RULE)

    def defect_model(self, name, consts, toggle, expect):
        """The as-is variant of the model (defect toggle off) must violate the named property:
        shows that the property is not vacuous in the specification."""
        c = dict(consts)
        c[toggle] = False
        cf = write_cfg(self.ctx, name + ".cfg", c)
        r = self.ctx.tlc("UfsTree", cf, timeout=600, name=name, expect_violation=True)
        if r.violated not in expect:
            self.ctx.inconclusive.append("defect model %s=FALSE: expected a violation of %s, got %s"
                                         % (toggle, "/".join(expect), r.violated or r.error or "none"))
        return r.violated

    def finish(self, rule):
        ctx = self.ctx
        cov = {"states": self.states, "transitions": self.transitions,
               "traces_validated_against_impl": self.validated, "behaviours_executed": self.behaviours,
               "model_twin_rejects": self.rejects, "samples": self.samples[:6],
               "evaluations": self.evals, "distinct_nontrivial": self.distinct, "rule": rule,
               "tours": self.tours, "random": getattr(self, "random_stats", None),
               "drift_on_special_names": self.drift, "special_object_stats": getattr(self, "special_stats", None),
               "discrepancies_attributed_to_other_properties": self.other}
        return ctx.finish("model_checking", cov, ASSUMPTIONS)


RULE = ("evaluations = steps executed three ways (model via TLC trace validation, twin tree via os, real Ufs via raw 9P) "
        "plus random-engine steps; distinct_nontrivial = distinct (action, arguments) steps of the replayed behaviours")

# ---------------------------------------------------------------- C16 configurations
C16_OPS = {"Attach", "Walk", "Stat", "Clunk"}
STATIC = cfg(InitTree="T1", Ops=C16_OPS, AttachNames={"", "a"}, MaxWalk=3)
LINKS = cfg(InitTree="T4", Ops=C16_OPS, AttachNames={"", "a"}, MaxWalk=3)
# a fid on a symbolic link (or anything else) that has been opened still is what it designates: stat after open
LINKSOPEN = cfg(InitTree="T4", Ops=C16_OPS | {"Open"}, Modes={0}, AttachNames={""}, MaxWalk=1)
DYN = cfg(InitTree="T2", Names={"a", "b"}, AttachNames={"", "a"}, RenameNames={"a", "b", "/b"}, MaxWalk=2,
          Ops=ALL_OPS - {"Write"}, Perms={420, 511}, Modes={0, 1, 17}, Lens={0, 2}, LinkTargets={"a", "zz"},
          CreateKinds={"F", "D", "L", "H"}, MaxIds=13)


def run(ctx):
    fam = Family(ctx, "C16")
    if ctx.replay:
        return fam.do_replay()
    q = ctx.quick
    # static trees: every transition of the model from every reachable state
    b1 = fam.tour("c16static", STATIC, sample_edges=1500 if q else None)
    fam.replay("c16static", b1, STATIC, dotu=True)
    fam.replay("c16static", b1, STATIC, dotu=False, max_cases=150 if q else 0)
    b2 = fam.tour("c16links", LINKS, sample_edges=600 if q else None)
    fam.replay("c16links", b2, LINKS, dotu=True)
    b2o = fam.tour("c16linksopen", LINKSOPEN, sample_edges=1500 if q else None)
    fam.replay("c16linksopen", b2o, LINKSOPEN, dotu=True)
    fam.replay("c16linksopen", b2o, LINKSOPEN, dotu=False, max_cases=60 if q else 0)
    # walks and stats interleaved with mutations (stale fids, renamed and removed objects)
    b3 = fam.simulate("c16dyn", DYN, num=120 if q else 2500, depth=25 if q else 30)
    fam.replay("c16dyn", b3, DYN, dotu=True)
    # large random trees, deep paths through the real client
    fam.random(cases=10 if q else 150, steps=120 if q else 250)
    # every other kind of host object (FIFO, socket, set-id files and directories, dangling links): stat against os.Lstat,
    # again on the same fid after a host-side change, and through a longer walk
    srep = ctx.go_engine("ufstree", "TestSpecialStat", timeout=300, name="specialstat")
    fam.evals += srep.get("stats", {}).get("steps_executed", 0)
    fam.special_stats = srep.get("stats", {}).get("steps_executed", 0)
    if not q:
        fam.defect_model("c16-asis-walk", STATIC, "FixWalk", ["WalkAtomic", "WalkPrefix"])
    return fam.finish(RULE)
