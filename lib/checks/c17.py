"""C17 -- mutations through Ufs equal the corresponding POSIX operations.

Specification, harness and machinery are shared with C16 (see checks/c16.py, spec/UfsTree.tla):
MutationsMirror, FailedCreateRemoveChangesNothing, ErrnoCarried, FidFollowsCreateRename are
checked by TLC; TLC behaviours are executed on a twin tree with the os package and through 9P on
a real Ufs, the two trees (names, kinds, contents, permission bits, link targets, hard-link
classes, set mtimes) and every fid are compared after every step, and TLC validates the twin's
log against the model.
"""
from checks.c16 import Family, cfg, ALL_OPS, RULE

# structure: create (file, directory, symlink, hard link) / remove / rename on an initially empty root
STRUCT = cfg(InitTree="T0", Names={"a", "b"}, AttachNames={""}, RenameNames={"b", "/b"}, MaxWalk=1,
             Ops={"Attach", "Walk", "Clunk", "Create", "Remove", "Rename"},
             CreateKinds={"F", "D", "L", "H"}, LinkTargets={"zz"}, MaxIds=9)
STRUCT_Q = dict(STRUCT, RenameNames={"b"}, CreateKinds={"F", "D", "H"})
# attributes: open modes incl. OTRUNC, write, truncate 0..beyond size, chmod, mtime on a fixed tree
ATTR = cfg(InitTree="T2", Names={"a", "b"}, Fids={1}, AttachNames={""}, MaxWalk=2,
           Ops={"Attach", "Walk", "Stat", "Clunk", "Open", "Truncate", "Chmod", "Mtime", "Write"},
           Perms={384}, Modes={0, 1, 3, 17}, Lens={0, 3}, Mtimes={2}, MaxIds=10)
ATTR_Q = dict(ATTR, Names={"b"}, MaxWalk=1, Modes={0, 1, 17}, Lens={0, 3})
# one Twstat setting several of {name, length, mode, mtime}: every combination, on files and directories,
# rename to free and occupied names (ufs.go: chmod, rename, truncate, times on the path the fid then has)
WSTAT = cfg(InitTree="T2", Names={"a", "b"}, Fids={1}, AttachNames={""}, RenameNames={"b", "c", "/c"}, MaxWalk=2,
            Ops={"Attach", "Walk", "Clunk", "Wstat"}, Perms={384}, Lens={0, 3}, Mtimes={2}, MaxIds=10)
WSTAT_Q = dict(WSTAT, Names={"b", "c"}, RenameNames={"a", "c", "/b"}, MaxWalk=1)
# everything together, larger alphabet: simulation only
FULL = cfg(InitTree="T2", Names={"a", "b", "c"}, AttachNames={"", "a"}, RenameNames={"a", "b", "c", "/b", "/a/c"}, MaxWalk=2,
           Ops=set(ALL_OPS), Perms={420, 511, 0}, Modes={0, 1, 2, 3, 16, 17, 18}, Lens={0, 1, 3}, Mtimes={2, 3},
           LinkTargets={"a", "zz", "."}, CreateKinds={"F", "D", "L", "H"}, MaxIds=14)


def run(ctx):
    fam = Family(ctx, "C17")
    if ctx.replay:
        return fam.do_replay()
    q = ctx.quick
    if q:
        fam.exhaustive("c17struct", STRUCT_Q)
        b1 = fam.simulate("c17struct-sim", STRUCT, num=150, depth=25)
        fam.replay("c17struct", b1, STRUCT, dotu=True)
        fam.exhaustive("c17attr", ATTR_Q)
        bw = fam.tour("c17wstat", WSTAT_Q, sample_edges=1200)
        fam.replay("c17wstat", bw, WSTAT_Q, dotu=True)
        fam.replay("c17wstat", bw, WSTAT_Q, dotu=False, max_cases=80)
        b3 = fam.simulate("c17full", FULL, num=150, depth=30)
        fam.replay("c17full", b3, FULL, dotu=True)
        # 9P2000: special files are refused, so the enabled behaviours differ: generated separately
        b4 = fam.simulate("c17full-9p2000", dict(FULL, Dotu=False), num=60, depth=30)
        fam.replay("c17full-9p2000", b4, FULL, dotu=False)
        fam.random(cases=8, steps=120)
    else:
        b1 = fam.tour("c17struct", STRUCT, sample_edges=15000)
        fam.replay("c17struct", b1, STRUCT, dotu=True)
        b2 = fam.tour("c17attr", ATTR_Q, sample_edges=25000)
        fam.replay("c17attr", b2, ATTR_Q, dotu=True)
        fam.exhaustive("c17attr-all", ATTR)
        bq = fam.tour("c17wstat-small", WSTAT_Q)                 # every transition
        fam.replay("c17wstat-small", bq, WSTAT_Q, dotu=True)
        fam.replay("c17wstat-small", bq, WSTAT_Q, dotu=False)
        fam.exhaustive("c17wstat", WSTAT)                         # 77k states: checked, then sampled by simulation
        bw = fam.simulate("c17wstat-sim", WSTAT, num=1500, depth=25)
        fam.replay("c17wstat", bw, WSTAT, dotu=True)
        b3 = fam.simulate("c17full", FULL, num=2500, depth=30)
        fam.replay("c17full", b3, FULL, dotu=True)
        b4 = fam.simulate("c17full-9p2000", dict(FULL, Dotu=False), num=600, depth=30)
        fam.replay("c17full-9p2000", b4, FULL, dotu=False)
        fam.random(cases=120, steps=250)
        fam.defect_model("c17-asis-errno", STRUCT, "FixErrno", ["ErrnoCarried"])
        fam.defect_model("c17-asis-dangling", STRUCT, "FixDangling", ["MutationsMirror", "FailedCreateRemoveChangesNothing"])
    # set-uid / set-gid in permission changes and creates (9P2000.u: part of the mode; plain 9P2000: not there), against a twin
    srep = ctx.go_engine("ufstree", "TestSetid", timeout=300, name="setid")
    fam.evals += srep.get("stats", {}).get("steps_executed", 0)
    return fam.finish(RULE)
