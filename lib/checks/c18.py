"""C18 -- Ufs confines clients to the exported root.

Specification, harness and machinery are shared with C16 (see checks/c16.py, spec/UfsTree.tla).
The model's host tree contains the exported root AND canaries next to and above it; attach
names, walk elements, create names and rename targets are drawn from the grammar '..', '.', '',
'/', 'a/b', '/a', '../x', '../../x', 'a/../../x', '/../x' ... at every depth.  TLC checks
ConfinedState / Confined / DotDotAtRoot; the harness executes the behaviours and reports, as C18
violations, any change next to or above the root (content, existence, permission bits, mtime of
the canaries), any reply carrying the qid of an object outside the root (inode numbers), and any
fid that Tstat shows to designate an outside object.  What a name outside the plain vocabulary
does INSIDE the root is not judged here (counted as drift if it differs from the model).
"""
from checks.c16 import Family, cfg, RULE

GRAMMAR = {"..", ".", "", "/", "a/b", "/a", "../cs", "../cd", "../../ca", "../x", "../../x", "a/../../cs",
           "/../cs", "/../x", "../cd/cf", "../root", "../..", "a/..", "a/../b"}
# every attach name and every single walk element of the grammar, at every depth of T3
WALK1 = cfg(InitTree="T3", Names={"a", "b"}, Specials=GRAMMAR, AttachNames=GRAMMAR | {"a", "a/b"}, MaxWalk=1,
            Ops={"Attach", "Walk", "Stat", "Clunk"}, MaxIds=10)
# two-element walks (mixtures with real names)
WALK2 = cfg(InitTree="T3", Names={"a"}, Specials={"..", "../cs", "a/b", "", ".", "../../ca"}, AttachNames={"", "a"}, MaxWalk=2,
            Ops={"Attach", "Walk", "Clunk"}, MaxIds=10)
# create names and rename targets
MUT = cfg(InitTree="T3", Names={"a", "x"}, Fids={1}, Specials={"..", "../x", "a/b", "../cs", "../../x", "/../x", ""},
          AttachNames={"", "a"}, RenameNames={"x", "../x", "../../x", "/../x", "/x", "../cs", "a/../../x", ".."}, MaxWalk=1,
          Ops={"Attach", "Walk", "Clunk", "Create", "Rename", "Remove"}, CreateKinds={"F", "D", "L"}, LinkTargets={"zz"}, MaxIds=11)
# every create kind, the kinds that create nothing included, with every name of a small grammar at every depth
CREATEK = cfg(InitTree="T3", Names={"a"}, Fids={1}, Specials={"..", "../cs"}, AttachNames={""}, MaxWalk=1,
              Ops={"Attach", "Walk", "Clunk", "Create"}, CreateKinds={"F", "D", "L", "P"}, LinkTargets={"zz"}, MaxIds=11)
MUT2 = dict(MUT, Fids={1, 2}, CreateKinds={"F", "D", "L", "H", "P"}, RenameNames=MUT["RenameNames"] | {"../../../ca", "/../../ca", "../cd/cf"})


def run(ctx):
    fam = Family(ctx, "C18")
    if ctx.replay:
        return fam.do_replay()
    q = ctx.quick
    if q:
        fam.exhaustive("c18walk1", WALK1)
        b1 = fam.simulate("c18walk1-sim", WALK1, num=250, depth=14)
        fam.replay("c18walk1", b1, WALK1, dotu=True)
        b2 = fam.simulate("c18walk2-sim", WALK2, num=120, depth=14)
        fam.replay("c18walk2", b2, WALK2, dotu=False)
        b3 = fam.simulate("c18mut-sim", MUT2, num=250, depth=16)
        fam.replay("c18mut", b3, MUT2, dotu=True)
        b4 = fam.tour("c18createk", CREATEK, sample_edges=None)
        fam.replay("c18createk", b4, CREATEK, dotu=True)
        fam.random(cases=8, steps=120)
    else:
        b1 = fam.tour("c18walk1", WALK1, sample_edges=20000)
        fam.replay("c18walk1", b1, WALK1, dotu=True)
        fam.replay("c18walk1", b1, WALK1, dotu=False, max_cases=500)
        b2 = fam.tour("c18walk2", WALK2, sample_edges=12000)
        fam.replay("c18walk2", b2, WALK2, dotu=True)
        b3 = fam.tour("c18mut", MUT, sample_edges=14000)
        fam.replay("c18mut", b3, MUT, dotu=True)
        b5 = fam.tour("c18createk", CREATEK, sample_edges=None)
        fam.replay("c18createk", b5, CREATEK, dotu=True)
        b4 = fam.simulate("c18mut2-sim", MUT2, num=1200, depth=20)
        fam.replay("c18mut2", b4, MUT2, dotu=True)
        fam.random(cases=100, steps=250)
        fam.defect_model("c18-asis-confine", MUT, "FixConfine", ["ConfinedState", "Confined", "DotDotAtRoot"])
    return fam.finish(RULE)
