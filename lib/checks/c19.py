"""C19 -- no data races when concurrent requests operate on different fids (oracle: the Go race detector)."""
import json
import os
import re

import tour


def parse_races(out, repo, harness_dir):
    """Split the race detector's report into races; attribute each access to the innermost frame that is not in the Go
    runtime / standard library: library (a file of the repository) or harness."""
    races = []
    rp = repo.rstrip("/") + "/"
    for blk in re.split(r"={18}\n", out):
        if "WARNING: DATA RACE" not in blk:
            continue
        stacks = re.split(r"\n\n", blk)
        tops = []
        for st in stacks[:2]:
            top = None
            for m in re.finditer(r"^\s+(\S+)\(\)\n\s+(/\S+\.go):(\d+)", st, re.M):
                fn, fl, ln = m.group(1), m.group(2), int(m.group(3))
                if fl.startswith(rp) or fl.startswith(harness_dir.rstrip("/") + "/") or "/harness/" in fl:
                    top = (fn, fl, ln)
                    break
            if top is None:
                m = re.search(r"^\s+(\S+)\(\)\n\s+(/\S+\.go):(\d+)", st, re.M)
                if m:
                    top = (m.group(1), m.group(2), int(m.group(3)))
            if top:
                tops.append(top)
        lib = [t for t in tops if t[1].startswith(rp)]
        races.append({"tops": tops, "library_both": len(lib) == 2 and len(tops) == 2, "library_any": bool(lib), "text": blk[:3000]})
    return races


def run(ctx):
    q = ctx.quick
    # 1. the workload domain: exhaustively, concurrently outstanding requests are on different fids
    c = dict(G=2 if q else 3, MaxOps=3, Aux=1)
    ctx.write_cfg("c19_work.cfg", c, invariants=["TypeOK", "DisjointFids", "DropOnlyQuiescent"])
    r = ctx.tlc_must_pass("Work19", "c19_work.cfg", timeout=900, name="work-domain")
    # 2. skeletons: simulated behaviours of a larger workload
    cs = dict(G=4 if q else 8, MaxOps=8 if q else 14, Aux=2)
    ctx.write_cfg("c19_sim.cfg", cs, invariants=["DisjointFids"])
    base = ctx.path("w19sim")
    num = 12 if q else 80
    rs = ctx.tlc_simulate("Work19", "c19_sim.cfg", num=num, depth=200, extra=["-simulate", "file=%s,num=%d" % (base, num)], name="skeletons")
    files = sorted(os.path.join(ctx.scratch, f) for f in os.listdir(ctx.scratch) if f.startswith("w19sim_"))
    behs = tour.behaviours_from_sim(files)
    for f in files:
        os.remove(f)
    spath = ctx.path("skeletons.ndjson")
    with open(spath, "w") as g:
        for i, b in enumerate(behs):
            g.write(json.dumps({"id": i + 1, "steps": [[a] + list(args) for a, args in b]}) + "\n")
    if not behs:
        ctx.inconclusive.append("TLC produced no workload skeletons")
    # 3. real goroutines under the race detector, several schedule perturbations (yield masks)
    cases = 0
    nraces = 0
    samples = []
    harness_dir = ctx.harness_dir()
    for engine in ("TestRaceUfsClient", "TestRaceRaw"):
        for rnd in range(2 if q else 6):
            rep = ctx.go_engine("raceh", engine, env={"VERIF_SKELETONS": spath, "VERIF_SEED": ctx.seed * 100 + rnd,
                                                      "GORACE": "halt_on_error=0 history_size=4"},
                                race=True, timeout=1500, allow_crash=True, name="%s:%d" % (engine, rnd))
            cases += int(rep.get("cases", 0) or 0)
            samples += (rep.get("samples") or [])[:1]
            out = rep.get("_stdout", "")
            races = parse_races(out, ctx.repo, harness_dir)
            if rep["_exit"] != 0 and not races:
                ctx.log("\n".join(out.splitlines()[-40:]))
                ctx.inconclusive.append("%s exited %s without a race report" % (engine, rep["_exit"]))
            for rc in races:
                nraces += 1
                if rc["library_both"]:
                    fns = sorted(t[0].split("/")[-1] for t in rc["tops"])
                    ctx.violation("c19:race:%s" % "+".join(fns), "data race inside the library between %s" % (rc["tops"],),
                                  {"engine": engine, "seed": ctx.seed, "round": rnd, "report": rc["text"]})
                else:
                    ctx.inconclusive.append("race report with an access outside the library (harness misuse?): %s" % (rc["tops"],))
    cov = {"states": r.distinct + rs.distinct, "transitions": r.generated + rs.generated, "traces_validated_against_impl": cases,
           "samples": samples[:3] or [{"note": "none"}], "evaluations": cases, "distinct_nontrivial": len(behs),
           "rule": "workload skeletons = simulated behaviours of Work19 (per-goroutine operation sequences on own fids, flushes of own "
                   "requests, auxiliary connections), each run as real goroutines under -race against Ufs through one shared client and "
                   "against the framework through one raw connection, with several yield patterns at the library's schedule points",
           "race_reports": nraces, "skeletons": len(behs)}
    return ctx.finish("exploration", cov, assumptions=[
        "the Go race detector is the oracle; TLC only decides which workloads satisfy the property's precondition (DisjointFids)",
        "the verif schedule points only call runtime.Gosched (no synchronisation added); harness-side bookkeeping uses its own locks "
        "around its own data only",
        "a race report is attributed to the library only if both access stacks end in files of the repository",
    ])
