"""C20 -- the message logger keeps the most recent entries in order.

spec/Logger.tla (ring, idx, channel; doLog's loops transcribed literally) is model-checked for
capacities 1..3, and bound to the real go9p.Logger in both directions:

  spec -> code  transition tour of the quiescent model (every transition from every reachable
                state) + TLC-simulated longer runs; the Filter answers are predicted by TLC
                (LoggerTrace in prediction mode); harness/logh TestReplay executes them on the real
                Logger inside a synctest bubble with synctest.Wait() after every Log call.
  code -> spec  TestTraces: seeded random Log/Filter sequences without waiting (a Filter may
                overtake up to 16 queued entries), capacities 1..64, recorded as ndjson and
                validated by TLC against LoggerTrace (silent Drain steps inferred); TestConcurrent:
                several producers/filterers, per-producer order, membership, convergence.

Verdicts come only from Filter results of the real Logger that break the text of C20 (judged by the
clauses Logger!Sound / Converges, in Go and again by TLC on the recorded traces), from calls that
never return (bubble deadlock) and from a crash of the logger goroutine.  Histories containing
Resize are outside the quantifier of C20: they are model-checked, replayed and reported as NOTE
lines / evidence `outside_quantifier_observations`, never as violations.
"""
import concurrent.futures
import glob
import json
import os
import random
import re
import sys

sys.path.insert(0, os.path.dirname(os.path.dirname(os.path.abspath(__file__))))
import tour  # noqa: E402
from vlib import parse_tla_value  # noqa: E402

INV_LF = ("TypeOK", "FilterTerminates", "FilterSound", "Converges", "WindowAtDrained", "RefWindow")


def consts(n0, maxlogs, sync, qcap=16, sizes=(), maxresize=0, fix=False):
    return {"N0": n0, "QCap": qcap, "MaxLogs": maxlogs, "Owners": {1, 2}, "Types": {1, 2},
            "Sizes": set(sizes), "MaxResize": maxresize, "Sync": sync, "FixResize": fix}


def trace_cfg(ctx, name, fix=False):
    return ctx.write_cfg(name, consts(1, 0, False, fix=fix) | {"Owners": set(), "Types": set()},
                         spec="TraceSpec", deadlock=False)


def printed(out):
    """PrintT tuples of a LoggerTrace run."""
    res = []
    for m in re.finditer(r'^<<"(PRED|PROPVIOL|REJECT|CONSUMED)".*>>$', out, re.M):
        try:
            res.append(parse_tla_value(m.group(0)))
        except Exception:
            pass
    return res


def steps_to_lines(case, cap, cls, steps, with_res=False):
    lines = [{"ev": "Reset", "case": case, "cap": cap, "cls": cls}]
    for s in steps:
        if s[0] == "LogSync":
            lines.append({"ev": "LogSync", "o": s[1], "t": s[2]})
        elif s[0] == "Resize":
            lines.append({"ev": "Resize", "sz": s[1]})
        elif s[0] == "FilterServe":
            lines.append({"ev": "Filter", "o": s[1], "t": s[2]})
    return lines


def predict(ctx, behs, name, fix=False):
    """behs: list of dicts {id, cap, cls, src, steps}; adds TLC's predicted answer to every
    FilterServe step (4th element).  Returns False if TLC did not annotate everything."""
    path = ctx.path("predict-%s.ndjson" % name)
    where = {}
    n = 0
    with open(path, "w") as f:
        for b in behs:
            for ln in steps_to_lines(b["id"], b["cap"], b["cls"], b["steps"]):
                n += 1
                f.write(json.dumps(ln) + "\n")
            # line numbers of the Filter steps
        # second pass for the map (cheap)
    n = 0
    for b in behs:
        n += 1
        for i, s in enumerate(b["steps"]):
            n += 1
            if s[0] == "FilterServe":
                where[n] = (b, i)
    cfg = trace_cfg(ctx, "LoggerTrace_predict_%s.cfg" % name, fix=fix)
    r = ctx.tlc("LoggerTrace", cfg, workers=1, timeout=900, env={"TRACE_FILE": path}, name="predict:" + name)
    got = 0
    consumed = None
    for p in printed(r.out):
        if p[0] == "PRED":
            b, i = where[p[2]]
            assert b["id"] == p[1]
            if len(b["steps"][i]) == 3:
                b["steps"][i].append(p[3])
                got += 1
        elif p[0] == "CONSUMED":
            consumed = p[1]
    if not r.ok or consumed != n or got != len(where):
        ctx.inconclusive.append("TLC prediction pass %s incomplete (%s of %s answers)" % (name, got, len(where)))
        return False
    return True


def write_behaviours(ctx, behs, name):
    p = ctx.path("behaviours-%s.ndjson" % name)
    with open(p, "w") as f:
        for b in behs:
            f.write(json.dumps(b) + "\n")
    return p


def engine(ctx, test, env, name, timeout=600):
    """Run a logh engine; a crash of the process inside the logger goroutine is an observation of
    the real code (violation), any other abnormal end is inconclusive."""
    if any(v["key"].startswith("noblock:logger-goroutine-busy") for v in ctx.violations):
        ctx.notes.append("engine %s skipped: the logger goroutine was already seen spinning" % name)
        return {}
    rep = ctx.go_engine("logh", test, env=env, timeout=timeout, name=name, allow_crash=True)
    if rep.get("_exit") == 0 and "cases" in rep:
        _progress(ctx)
        return rep
    out = rep.get("_stdout", "")
    m = re.search(r"^(panic: .*|fatal error: .*)$", out, re.M)
    prog = _progress(ctx)
    if m and "go9p.(*Logger).doLog" in out[m.start():]:
        msg = re.sub(r"\[[^\]]*\]|\d+", "", m.group(1)).strip()
        msg = re.sub(r"\s+", " ", msg)
        ctx.violation("logger-crash:%s:engine=%s" % (msg.replace(" ", "-")[:80], name),
                      "the logger goroutine crashed the process in doLog (%s); Log/Filter can no longer be served" % m.group(1),
                      {"engine": name, "case": prog, "panic": m.group(1)})
    else:
        ctx.log("engine output tail:\n" + "\n".join(out.splitlines()[-40:]))
        ctx.inconclusive.append("engine %s exited %s without a complete report" % (name, rep.get("_exit")))
    return rep


def _progress(ctx):
    """Last case an engine announced before it ended (then forget the progress files)."""
    prog = None
    for f in glob.glob(ctx.path("out-*.json.progress")):
        try:
            prog = json.loads(open(f).read().strip() or "null")
        except Exception:
            prog = None
        os.remove(f)
    return prog


def split_cases(path, k):
    """Split an ndjson trace at Reset lines into <= k files of similar size."""
    cases, cur = [], []
    with open(path) as f:
        for ln in f:
            if ln.startswith('{"case"') or '"ev":"Reset"' in ln:
                if cur:
                    cases.append(cur)
                cur = []
            cur.append(ln)
    if cur:
        cases.append(cur)
    k = max(1, min(k, len(cases)))
    bins = [[] for _ in range(k)]
    sizes = [0] * k
    for c in sorted(cases, key=len, reverse=True):
        i = sizes.index(min(sizes))
        bins[i].append(c)
        sizes[i] += len(c)
    out = []
    for i, b in enumerate(bins):
        p = "%s.part%d" % (path, i)
        with open(p, "w") as f:
            for c in b:
                f.writelines(c)
        out.append((p, len(b), sizes[i]))
    return out


def validate(ctx, path, name, fix=False, parts=8):
    """TLC trace validation of a recorded ndjson file.  Returns dict(cases, lines, propviol, reject)."""
    res = {"cases": 0, "lines": 0, "propviol": [], "reject": [], "ok": True}
    if not os.path.exists(path) or os.path.getsize(path) == 0:
        return res
    cfg = trace_cfg(ctx, "LoggerTrace_%s.cfg" % name, fix=fix)
    chunks = split_cases(path, parts)
    ctx._spec_dir()

    def one(ch):
        p, ncases, nlines = ch
        r = ctx.tlc("LoggerTrace", cfg, workers=1, timeout=900, env={"TRACE_FILE": p}, heap="2g",
                    name="validate:%s:%s" % (name, os.path.basename(p)[-5:]))
        return ch, r

    with concurrent.futures.ThreadPoolExecutor(max_workers=parts) as ex:
        for ch, r in ex.map(one, chunks):
            pr = printed(r.out)
            consumed = [p[1] for p in pr if p[0] == "CONSUMED"]
            if not r.ok or consumed != [ch[2]]:
                res["ok"] = False
                ctx.inconclusive.append("TLC trace validation %s did not consume its file (%s)" % (name, r.error or r.violated))
                continue
            res["cases"] += ch[1]
            res["lines"] += ch[2]
            lines = open(ch[0]).read().splitlines()
            for p in pr:
                if p[0] in ("PROPVIOL", "REJECT"):
                    # recover the case for the replay file
                    ln = p[2]
                    start = ln - 1
                    while start > 0 and '"Reset"' not in lines[start]:
                        start -= 1
                    case = [json.loads(x) for x in lines[start:ln]]
                    (res["propviol"] if p[0] == "PROPVIOL" else res["reject"]).append((p, case))
    return res


def clauses_of(p):
    s = p[4]
    if isinstance(s, dict):
        s = s.get("__set__", [])
    return sorted(s)


def replay(ctx):
    """vcheck C20 --replay evidence/replays/C20-<hash>.json: re-execute one reported case."""
    rp = json.load(open(ctx.replay)).get("replay") or {}
    eng = rp.get("engine", "")
    if eng.startswith("replay") and rp.get("steps"):
        b = [{"id": 1, "cap": rp["cap"], "cls": "lf", "src": "replay-file",
              "steps": [x[:3] if x[0] == "FilterServe" else x for x in rp["steps"]]}]
        if predict(ctx, b, "replay"):
            engine(ctx, "TestReplay", {"VERIF_BEHAVIOURS": write_behaviours(ctx, b, "replay")}, "replay")
    elif eng == "traces" and "seed" in rp:
        engine(ctx, "TestTraces", {"VERIF_ONLY_CASE": "%s:%s" % (rp.get("case", 1), rp["seed"])}, "traces")
    elif eng == "traces" and "trace" in rp:
        p = ctx.path("replay.ndjson")
        with open(p, "w") as f:
            for e in rp["trace"]:
                f.write(json.dumps(e) + "\n")
        v = validate(ctx, p, "replay", parts=1)
        for pv, case in v["propviol"]:
            ctx.violation("tlc:filter:%s" % "+".join(clauses_of(pv)), "recorded trace breaks C20", {"engine": "traces", "trace": case})
    else:
        ctx.inconclusive.append("this replay file (engine %r) is re-executed by running the check with the seed recorded in it" % eng)
    evp = os.path.join(os.path.dirname(os.path.dirname(os.path.dirname(os.path.abspath(__file__)))), "evidence", "C20.json")
    old = open(evp).read() if os.path.exists(evp) else None
    code = ctx.finish("model_checking", {"states": 0, "transitions": 0, "traces_validated_against_impl": 1, "samples": [rp],
                                         "evaluations": 1, "distinct_nontrivial": 1, "rule": "re-execution of one case"}, [])
    if old is not None:      # a re-execution does not replace the evidence of the last tier run
        with open(evp, "w") as f:
            f.write(old)
    return code


def run(ctx):
    if ctx.replay:
        return replay(ctx)
    quick = ctx.quick
    rng = random.Random(ctx.seed)
    states = transitions = 0
    notes = []           # outside-quantifier observations (Resize)
    samples = []
    replayed = 0
    validated = 0

    # ------------------------------------------------------------------ 1. model checking
    ml = 6 if quick else 7
    ctx._spec_dir()
    jobs = []
    for n0 in ((1, 2, 3) if quick else (1, 2, 3, 4)):
        cfg = ctx.write_cfg("Logger_async_n%d.cfg" % n0, consts(n0, ml, False, qcap=2), invariants=INV_LF,
                            properties=("NoBlockLog", "Settles"), deadlock=True)
        jobs.append((cfg, "async N=%d logs<=%d QCap=2" % (n0, ml)))
    if not quick:
        cfg = ctx.write_cfg("Logger_async_q16.cfg", consts(3, 7, False, qcap=16), invariants=INV_LF,
                            properties=("NoBlockLog", "Settles"), deadlock=True)
        jobs.append((cfg, "async N=3 logs<=7 QCap=16"))
    with concurrent.futures.ThreadPoolExecutor(max_workers=len(jobs)) as ex:
        for r in ex.map(lambda j: ctx.tlc_must_pass("Logger", j[0], timeout=400, workers=4, heap="3g", name=j[1]), jobs):
            states += r.distinct
            transitions += r.generated

    # ------------------------------------------------------------------ 2. spec -> code: tour + simulation
    behs = []
    tour_edges = tour_total = 0
    def sync_graph(n0):
        mls = 5 if quick else (7 if n0 == 3 else 6)
        cfg = ctx.write_cfg("Logger_sync_n%d.cfg" % n0, consts(n0, mls, True), invariants=INV_LF, deadlock=False)
        r, dot = ctx.tlc_dump_graph("Logger", cfg, timeout=300)
        if not r.ok:
            return n0, r, None
        init, adj = tour.load(dot)
        os.remove(dot)
        return n0, r, tour.cover(init, adj, seed=ctx.seed)

    with concurrent.futures.ThreadPoolExecutor(max_workers=3) as ex:
        graphs = list(ex.map(sync_graph, (1, 2, 3)))
    for n0, r, cv in graphs:
        if cv is None:
            ctx.inconclusive.append("TLC Logger (quiescent model N=%d) did not pass: %s" % (n0, r.violated or r.error))
            continue
        states += r.distinct
        transitions += r.generated
        paths, cov, total = cv
        tour_edges += cov
        tour_total += total
        for p in paths:
            behs.append({"id": len(behs) + 1, "cap": n0, "cls": "lf", "src": "tour",
                         "steps": [[a] + list(args) for a, args in p]})
    ntour = len(behs)
    # longer runs: TLC simulation of the quiescent model for larger capacities, Filter probes inserted
    simdir = ctx.path("sim")
    os.makedirs(simdir, exist_ok=True)
    nsim = 0
    for n0, mls, num in (((7, 60, 20),) if quick else ((4, 30, 60), (7, 60, 60), (12, 60, 40))):
        cfg = ctx.write_cfg("Logger_sim_n%d.cfg" % n0, consts(n0, mls, True), invariants=INV_LF[:4], deadlock=False)
        r = ctx.tlc("Logger", cfg, workers=1, timeout=300, name="simulate N=%d" % n0,
                    extra=["-simulate", "file=%s/s%d,num=%d" % (simdir, n0, num), "-depth", str(mls + 1), "-seed", str(ctx.seed)])
        if r.violated or r.error:
            ctx.inconclusive.append("TLC simulation N=%d: %s" % (n0, r.violated or r.error))
            continue
        for steps in tour.behaviours_from_sim(sorted(glob.glob("%s/s%d_*" % (simdir, n0)))):
            st = []
            for a, args in steps:
                st.append([a] + list(args))
                if rng.random() < 0.4:
                    for _ in range(rng.randint(1, 3)):
                        st.append(["FilterServe", rng.randint(0, 2), rng.randint(0, 2)])
            for o in range(3):
                for t in range(3):
                    st.append(["FilterServe", o, t])
            behs.append({"id": len(behs) + 1, "cap": n0, "cls": "lf", "src": "simulation", "steps": st})
            nsim += 1
    mutant_caught = None
    nfilters_replayed = 0
    if behs and predict(ctx, behs, "lf"):
        bp = write_behaviours(ctx, behs, "lf")
        rep = engine(ctx, "TestReplay", {"VERIF_BEHAVIOURS": bp}, "replay")
        replayed += rep.get("cases", 0)
        samples += rep.get("samples", [])[:3]
        st = rep.get("stats", {})
        nfilters_replayed = st.get("filters_compared", 0)
        ctx.log("replayed %s behaviours (%d tour covering %d/%d transitions, %d simulated), %s Filter answers compared" % (
            rep.get("cases"), ntour, tour_edges, tour_total, nsim, st.get("filters_compared")))
        # binding self-test: a harness-side mutant of the Logger (drops the oldest entry of every
        # answer) must be flagged by the same engine
        if any(v["key"].startswith(("noblock:", "logger-crash:")) for v in ctx.violations):
            return finish_early(ctx, states, transitions, replayed, samples)
        sub = write_behaviours(ctx, rng.sample(behs, min(300, len(behs))), "selftest")
        before = len(ctx.violations), len(ctx.inconclusive), len(ctx.engine_runs)
        mrep = ctx.go_engine("logh", "TestReplay", env={"VERIF_BEHAVIOURS": sub, "VERIF_HARNESS_MUTANT": "dropoldest"},
                             name="replay:selftest-mutant", allow_crash=True)
        mutant_caught = len(mrep.get("violations", [])) > 0
        del ctx.violations[before[0]:]
        del ctx.inconclusive[before[1]:]
        if not mutant_caught:
            ctx.inconclusive.append("self-test: the replay engine did not flag the harness-side mutant logger")

    # ------------------------------------------------------------------ 3. Resize (outside the quantifier of C20)
    rs_info = {}
    cfg = ctx.write_cfg("Logger_rs_literal.cfg", consts(2, 4, True, sizes=(1, 2, 3), maxresize=2), invariants=("TypeOK", "FilterTerminates", "FilterSound"))
    r1 = ctx.tlc("Logger", cfg, workers=1, timeout=120, expect_violation=True, name="Resize as in HEAD: FilterSound")
    cfg = ctx.write_cfg("Logger_rs_literal_w.cfg", consts(2, 4, True, sizes=(1, 2, 3), maxresize=2), invariants=("TypeOK", "FilterTerminates", "RefWindow"))
    r2 = ctx.tlc("Logger", cfg, workers=1, timeout=120, expect_violation=True, name="Resize as in HEAD: RefWindow")
    rs_info["tlc_literal_resize"] = {"FilterSound": "violated" if r1.violated else "holds", "RefWindow": "violated" if r2.violated else "holds",
                                     "counterexample_FilterSound": [a.split(" line ")[0] for a, _ in r1.trace][1:],
                                     "counterexample_RefWindow": [a.split(" line ")[0] for a, _ in r2.trace][1:]}
    cfgf = ctx.write_cfg("Logger_rs_fixed.cfg", consts(2, 4, True, sizes=(1, 2, 3), maxresize=2, fix=True),
                         invariants=("TypeOK", "FilterTerminates", "FilterSound", "RefWindow"))
    if not quick:
        r3 = ctx.tlc("Logger", cfgf, workers=1, timeout=120, name="Resize as repaired: FilterSound RefWindow")
        rs_info["tlc_repaired_resize"] = "holds" if r3.ok else (r3.violated or r3.error)
    # tour of the Resize model (literal), replayed; if the code does not follow it, try the repaired model
    code_resize = "unknown"
    for variant, fix in (("literal", False), ("repaired", True)):
        cfg = ctx.write_cfg("Logger_rs_tour_%s.cfg" % variant, consts(2, 3 if quick else 4, True, sizes=(1, 2, 3), maxresize=2, fix=fix),
                            invariants=("TypeOK", "FilterTerminates"))
        r, dot = ctx.tlc_dump_graph("Logger", cfg, timeout=300)
        if not r.ok:
            ctx.notes.append("Resize tour model %s: %s" % (variant, r.violated or r.error))
            break
        init, adj = tour.load(dot)
        paths, cov, total = tour.cover(init, adj, seed=ctx.seed)
        os.remove(dot)
        rb = [{"id": i + 1, "cap": 2, "cls": "rs", "src": "tour-resize-" + variant, "steps": [[a] + list(args) for a, args in p]}
              for i, p in enumerate(paths)]
        save = list(ctx.inconclusive)
        if not predict(ctx, rb, "rs-" + variant, fix=fix):
            ctx.inconclusive[:] = save
            break
        rep = engine(ctx, "TestReplay", {"VERIF_BEHAVIOURS": write_behaviours(ctx, rb, "rs-" + variant)}, "replay:resize-" + variant)
        st = rep.get("stats", {})
        rs_info["replay_" + variant] = {"behaviours": rep.get("cases"), "transitions_covered": "%d/%d" % (cov, total),
                                        "differs_from_prediction": st.get("rs_differs_from_prediction"),
                                        "differs_from_reference_ring": st.get("rs_differs_from_reference_ring")}
        if rep.get("cases") and st.get("rs_differs_from_prediction") == 0:
            code_resize = variant
            if variant == "literal":
                notes += (rep.get("notes") or [])
            break
    rs_info["code_follows"] = code_resize

    # ------------------------------------------------------------------ 4. code -> spec: recorded traces
    tout = ctx.path("traces")
    trep = engine(ctx, "TestTraces", {"VERIF_CASES": 400 if quick else 4000, "VERIF_TRACE_OUT": tout,
                                     "VERIF_TLC_LINES": 8000 if quick else 160000}, "traces")
    samples += trep.get("samples", [])[:3]
    notes += (trep.get("notes") or [])
    tstats = trep.get("stats", {})
    v = validate(ctx, tout + ".lf.ndjson", "lf", parts=8 if quick else 14)
    validated += v["cases"]
    lf_lines = v["lines"]
    for p, case in v["propviol"]:
        cl = clauses_of(p)
        ctx.violation("tlc:filter:%s" % "+".join(cl),
                      "recorded trace of the real Logger (capacity %s): the Filter result %s breaks clause(s) %s of C20 (Logger!Sound / Converges evaluated by TLC)" % (
                          case[0].get("cap"), case[-1].get("res"), cl), {"engine": "traces", "trace": case})
    rejected_only = [x for x in v["reject"] if not any(pp[1] == x[0][1] for pp, _ in v["propviol"])]
    for p, case in rejected_only[:5]:
        ctx.inconclusive.append("drift: LoggerTrace cannot explain line %s of recorded case %s (capacity %s, result %s) although the clauses of C20 hold" % (
            p[2], p[1], case[0].get("cap"), case[-1].get("res")))
    vr = validate(ctx, tout + ".rs.ndjson", "rs", fix=(code_resize == "repaired"), parts=4)
    rs_info["traces_validated"] = {"cases": vr["cases"], "lines": vr["lines"], "against": "repaired" if code_resize == "repaired" else "literal",
                                   "not_explained": len(vr["reject"]),
                                   "results_breaking_a_clause": len([1 for p, _ in vr["propviol"]])}
    if vr["reject"]:
        notes.append("resize:model-drift: %d recorded Resize case(s) are not explained by the %s Resize model" % (len(vr["reject"]), rs_info["traces_validated"]["against"]))
    # binding self-test: a recorded trace with one corrupted result must be flagged by TLC
    corrupt_caught = None
    try:
        corrupt_caught = selftest_corrupt(ctx, tout + ".lf.ndjson")
        if corrupt_caught is False:
            ctx.inconclusive.append("self-test: TLC accepted a recorded trace with a corrupted Filter result")
    except Exception as ex:  # noqa
        ctx.notes.append("corrupt-trace self-test not run: %s" % ex)

    # ------------------------------------------------------------------ 5. concurrent producers
    crep = engine(ctx, "TestConcurrent", {"VERIF_CASES": 400 if quick else 6000}, "concurrent")
    samples += crep.get("samples", [])[:2]
    cstats = crep.get("stats", {})

    # ------------------------------------------------------------------ verdict
    seen = set()
    for n in notes:
        k = n.split(":")[0] + ":" + n.split(":")[1] if n.count(":") >= 2 else n
        seen.add(k)
    if notes:
        print("NOTE property=C20 outside-quantifier: Resize (not part of C20) spoils the ring on this tree: %s; e.g. %s" % (
            ", ".join(sorted(seen)), min(notes, key=len)[:300]), flush=True)
    evaluations = tstats.get("filters", 0) + cstats.get("filters", 0) + nfilters_replayed
    coverage = {
        "states": states, "transitions": transitions,
        "traces_validated_against_impl": replayed + validated,
        "samples": samples[:8],
        "evaluations": evaluations,
        "distinct_nontrivial": trep.get("distinct", 0) + crep.get("distinct", 0) + replayed,
        "rule": "every Filter result of the real Logger satisfies Logger!Sound (logged, matching, log order, no duplicate, no skipped match, <= N); "
                "with the channel empty it equals the matching entries among the N most recent; no call hangs; replayed answers equal TLC's predictions",
        "replayed_behaviours": replayed, "tour_behaviours": ntour, "tour_transitions_covered": "%d/%d" % (tour_edges, tour_total),
        "simulated_behaviours": nsim,
        "validated_trace_cases": validated, "validated_trace_lines": lf_lines,
        "recorded_cases": trep.get("cases", 0), "recorded_stats": tstats,
        "concurrent_cases": crep.get("cases", 0), "concurrent_stats": cstats,
        "selftest_harness_mutant_flagged": mutant_caught, "selftest_corrupted_trace_flagged": corrupt_caught,
        "outside_quantifier_observations": {"resize": rs_info, "notes": notes[:12]},
    }
    assumptions = [
        "go9p compiled with go1.26.8 (testing/synctest) behaves as with go1.23.12",
        "model checking bounds: capacities 1..3 (thorough: 1..4), <= %d Log calls, 2 owners x 2 types, channel capacity 2 (and 16); larger capacities (1..64) only by replay/trace validation" % ml,
        "entry order for concurrent producers is observable only per producer",
        "Resize is outside the quantifier of C20: observations about it are notes, not verdicts",
    ]
    return ctx.finish("model_checking", coverage, assumptions)


def finish_early(ctx, states, transitions, replayed, samples):
    """The logger goroutine hangs/spins/crashes on the very first engine: nothing else can run."""
    return ctx.finish("model_checking", {"states": states, "transitions": transitions,
                                         "traces_validated_against_impl": replayed, "samples": samples[:4],
                                         "evaluations": 0, "distinct_nontrivial": 0,
                                         "rule": "stopped early: the logger goroutine does not serve calls"},
                      ["stopped after the first engine"])


def selftest_corrupt(ctx, path):
    """Take one recorded case, swap two ids of a Filter result (or drop one), expect PROPVIOL or REJECT."""
    if not os.path.exists(path):
        return None
    case = []
    for ln in open(path):
        e = json.loads(ln)
        if e["ev"] == "Reset":
            if any(x["ev"] == "Filter" and len(x.get("res", [])) >= 2 for x in case):
                break
            case = []
        case.append(e)
    tgt = [x for x in case if x["ev"] == "Filter" and len(x.get("res", [])) >= 2]
    if not tgt:
        return None
    x = tgt[-1]
    x["res"] = [x["res"][1], x["res"][0]] + x["res"][2:]
    p = ctx.path("corrupt.ndjson")
    with open(p, "w") as f:
        for e in case:
            f.write(json.dumps(e) + "\n")
    cfg = trace_cfg(ctx, "LoggerTrace_corrupt.cfg")
    r = ctx.tlc("LoggerTrace", cfg, workers=1, timeout=120, env={"TRACE_FILE": p}, name="selftest:corrupted-trace", heap="2g")
    pr = printed(r.out)
    return any(q[0] in ("PROPVIOL", "REJECT") for q in pr)
