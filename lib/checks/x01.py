"""X01 (extra, beyond the listed properties) -- the synthetic file server Fsrv of srv_file.go.

spec/Fsrv.tla is a sequential reference machine of the srvFile tree (Add / Remove / Rename / Find,
CheckPerm) and of the Fsrv request handlers (attach, walk, open, create, read, write, directory
reads, stat, wstat, clunk, remove, fid destruction); docs/fsrv.md is the contract in prose.
  1. TLC model-checks the machine for small trees (tree links consistent, names unique, listings
     return every entry once, refusals change nothing).
  2. The state graphs of two small configurations are dumped; a transition tour (quick: a seeded
     sample of the edges) is executed on the real Fsrv: API actions directly on srvFile values, the
     others as raw 9P over net.Pipe to a go9p.Srv whose implementation is the Fsrv.
  3. Seeded random histories over larger trees (12 nodes, 5 names, 3 users, 3 groups, 3 fids), the
     CheckPerm grid (every permission word x owner x group x user x request) and directory reads
     outside the offset rule are executed the same way.
  4. TLC validates every executed step against Fsrv!Step (spec/FsrvTrace.tla): reply class, the
     calls the file ops saw with their arguments, qids, destroyed fids, data, stat, directory
     entries, and, read back after the step, what every fid answers and how the tree is linked.
A MISMATCH line is a behaviour of the real code that the contract does not allow -> violation.
"""
import hashlib
import json
import os
import re
import sys

sys.path.insert(0, os.path.dirname(os.path.dirname(os.path.abspath(__file__))))
import tour

MEMBER = {11, 12, 22}          # u1 in g1 and g2, u2 in g2, u3 in no group
BIG = dict(NNodes=12, NFids=3, Users={1, 2, 3}, Groups={1, 2, 3}, Member=MEMBER)
RANDOM_NAMES = ["a", "bb", "ccc", "dddddddd", "e.f"]


def consts(**kw):
    c = dict(NNodes=3, Names={"a", "bb"}, NFids=2, Users={1}, Groups={1}, Member=MEMBER, Dotu=True, Modes={511},
             OpenModes={0}, Feat={"api", "walk", "open", "create", "dread", "remove", "stat"}, MaxWalk=2, Outs={"ok"},
             OpsChoices={True}, FixExec=True, FixOexec=True)
    c.update(kw)
    return c


INVS = ["TypeOK", "TreeConsistent", "UniqueNames", "FidsSound", "ListingSound"]
PROPS = ["ErrorsChangeNothing", "ListingOnce"]

# small configurations whose graphs are toured
PERM = dict(NFids=1, Users={1, 3}, Groups={1}, OpenModes={0, 1, 2, 3, 16}, Names={"a"},
            Feat={"api", "perm", "walk", "open", "create", "wstat"})
CONFIGS = {
    # tree shape, walks incl. "..", create/remove through 9P, listings with every interesting count
    "tree": consts(Feat={"api", "find", "walk", "open", "create", "dread", "remove", "stat"}),
    "tree1": consts(NFids=1, Feat={"api", "walk", "open", "create", "dread", "remove"}),     # quick: one fid
    "walk2": consts(Feat={"api", "walk", "remove"}),                                         # walks to a new fid and in place
    # permissions: two users, owner/group/other words, walk/open/create under them, chmod through wstat and the API
    "perm": consts(NNodes=3, Modes={0o700, 0o070, 0o007}, MaxWalk=2, **PERM),
    "perm2": consts(NNodes=2, Modes={0o700, 0o070, 0o007, 0o755}, MaxWalk=1, **PERM),         # quick
    # data path and op outcomes: read/write arguments and results, errors of every op, files without ops
    "io": consts(NNodes=2, NFids=1, Names={"a"}, OpenModes={0, 1, 2}, Outs={"ok", "err", "short"}, OpsChoices={True, False},
                 Feat={"api", "walk", "open", "io", "stat", "wstat", "remove", "create"}, MaxWalk=1),
}
# larger configurations that are model-checked only (thorough)
BIG_CONFIGS = {
    "tree4": consts(NNodes=4, MaxWalk=2, Feat={"api", "walk", "create", "remove", "open", "dread"}),
}


def mismatch_key(m):
    a = m.get("act", ["?"])
    op = a[0]
    exp, got = m.get("expected", {}), m.get("got", {})
    diff = ",".join(m.get("diff", []))
    ctxv = m.get("ctx", [])
    det = ""
    if op == "walk":
        names = a[3]
        inplace = a[1] == a[2]
        nexp, ngot = len(exp.get("qids", [])), len(got.get("qids", []))
        kind = "full" if nexp == len(names) else ("none" if nexp == 0 else "partial")
        det = "inplace=%d:expect=%s:qids=%s" % (inplace, kind, "same" if nexp == ngot else ("more" if ngot > nexp else "fewer"))
    elif op == "open":
        det = "mode=%d" % a[2]
    elif op == "dread":
        det = "restart=%d:whole=%d:entries=%s" % (bool(a[2]), bool(got.get("whole")),
                                                  "same" if len(got.get("ents", [])) == len(exp.get("ents", [])) else "differ")
    elif op in ("read", "write"):
        det = "off=%s:cnt=%s:out=%s" % (a[2], a[3], a[4])
    elif op in ("clunk", "remove", "stat"):
        det = "out=%s" % a[2]
    elif op == "wstat":
        det = "what=%s:out=%s" % ("name" if a[2] else "mode", a[4])
    elif op == "create":
        det = "dir=%d:out=%s" % (bool(a[4]), a[7])
    elif op == "checkperm":
        det = "need=%d" % a[3]
    elif op == "add":
        det = "dir=%d" % bool(a[4])
    return "x01:%s:%s:want=%s:got=%s:%s" % (op, diff, exp.get("reply"), str(got.get("reply")).split(":")[0], det)


class X01:
    def __init__(self, ctx):
        self.ctx = ctx
        self.q = ctx.quick
        self.states = self.trans = 0
        self.traces = 0
        self.lines = 0
        self.samples = []
        self.trace_files = {True: [], False: []}     # dotu -> [(engine name, path, case offset, behaviours path)]
        self.case_base = 0
        self.mismatches = 0
        self.tour_stats = {}
        self.keys = {}

    # -------------------------------------------------------------- engines
    def fscfg(self, dotu, msize=8192, maxpend=0):
        return {"dotu": dotu, "msize": msize, "nnodes": BIG["NNodes"], "nfids": BIG["NFids"], "member": sorted(MEMBER), "maxpend": maxpend}

    def engine(self, run, name, dotu, env, timeout=600, max_restarts=300):
        """Run an engine that may be killed by a panic of the server under test; restart after the
        crashed case.  Returns (report, trace path)."""
        ctx = self.ctx
        tag = hashlib.md5(name.encode()).hexdigest()[:8]
        tpath = ctx.path("trace_%s.ndjson" % tag)
        prog = ctx.path("progress_%s" % tag)
        env = dict(env)
        env.update({"VERIF_TRACE_OUT": tpath, "VERIF_PROGRESS": prog})
        if "VERIF_FSCFG" not in env:
            env["VERIF_FSCFG"] = json.dumps(self.fscfg(dotu))
        start = 0
        total = 0
        rep = {}
        for attempt in range(max_restarts + 1):
            if start:
                env["VERIF_START"] = str(start)
            rep = ctx.go_engine("fsrvh", run, env=env, timeout=timeout, name=name, allow_crash=True)
            total += int(rep.get("cases", 0) or 0)
            if rep["_exit"] == 0 and "cases" in rep:
                break
            out = rep.get("_stdout", "")
            m = re.search(r"^(panic: .*|fatal error: .*)$", out, re.M)
            try:
                case = int(open(prog).read().strip())
            except (OSError, ValueError):
                case = None
            if not m or case is None:
                ctx.log("engine output tail:\n" + "\n".join(out.splitlines()[-40:]))
                ctx.inconclusive.append("engine %s died without a panic attributable to a case (exit %s)" % (name, rep["_exit"]))
                break
            fn = "?"
            for fm in re.finditer(r"^github\.com/rminnich/go9p\.([^\s(]*(?:\([^)]*\))?[^\s(]*)\(", out[m.start():], re.M):
                fn = fm.group(1)
                break
            try:
                act = json.load(open(prog + ".act"))
            except Exception:
                act = None
            if fn == "?":
                ctx.inconclusive.append("engine %s panicked outside go9p: %s" % (name, m.group(1)[:200]))
                break
            what = re.sub(r":count=.*", "", act) if isinstance(act, str) else (act[0] if act else "?")
            ctx.violation("x01:server-crash:%s:%s" % (fn, what), "the server panicked (%s) executing %s in case %s of %s" % (m.group(1)[:160], act, case, name),
                          {"engine": run, "fscfg": json.loads(env["VERIF_FSCFG"]), "case": case, "act": act})
            ctx.log("server crashed in case %s (%s): %s in %s" % (case, act, m.group(1)[:100], fn))
            total += 1
            start = case + 1
        else:
            ctx.inconclusive.append("engine %s crashed more than %d times" % (name, max_restarts))
        self.traces += total
        self.samples += list(rep.get("samples", []))[:1]
        return rep, tpath

    # -------------------------------------------------------------- model checking and tours
    def model_and_tour(self, name, c, dotu, sample):
        ctx = self.ctx
        c = dict(c, Dotu=dotu)
        cfg = "fsrv_%s_%d.cfg" % (name, dotu)
        ctx.write_cfg(cfg, c, invariants=INVS, properties=PROPS, view="View")
        r, dot = ctx.tlc_dump_graph("Fsrv", cfg, timeout=900)
        self.states += r.distinct
        self.trans += r.generated
        if not r.ok:
            ctx.log("\n".join(r.out.splitlines()[-40:]))
            ctx.inconclusive.append("TLC Fsrv/%s did not pass: %s" % (name, r.violated or r.error))
            return
        init, adj = tour.load(dot)
        os.remove(dot)
        paths, cov, total = tour.cover(init, adj, seed=ctx.seed, sample_edges=sample, max_len=40)
        bpath = ctx.path("beh_%s_%d.ndjson" % (name, dotu))
        tour.write_behaviours(paths, bpath)
        self.tour_stats["%s:dotu=%d" % (name, dotu)] = {"edges": total, "edges_covered": cov, "paths": len(paths), "dotu": dotu}
        ctx.log("tour %s: %d paths cover %d of %d edges" % (name, len(paths), cov, total))
        rep, tpath = self.engine("TestFsrvReplay", "replay:%s:dotu=%d" % (name, dotu), dotu, {"VERIF_BEHAVIOURS": bpath})
        self.trace_files[dotu].append(("replay:" + name, tpath, bpath))

    def model_only(self, name, c):
        ctx = self.ctx
        cfg = "fsrv_%s.cfg" % name
        ctx.write_cfg(cfg, c, invariants=INVS, properties=PROPS, view="View")
        r = ctx.tlc_must_pass("Fsrv", cfg, timeout=1200, name=name, heap="10g")
        self.states += r.distinct
        self.trans += r.generated

    # -------------------------------------------------------------- validation
    def validate(self, dotu):
        ctx = self.ctx
        files = self.trace_files[dotu]
        if not files:
            return
        cat = ctx.path("all_%d.ndjson" % dotu)
        index = []          # (first line, last line, engine, tpath, bpath)
        n = 0
        with open(cat, "w") as out:
            for eng, tpath, bpath in files:
                if not os.path.exists(tpath):
                    continue
                first = n + 1
                with open(tpath) as f:
                    for line in f:
                        out.write(line)
                        n += 1
                index.append((first, n, eng, bpath))
        if n == 0:
            ctx.inconclusive.append("no trace lines were written (dotu=%s)" % dotu)
            return
        self.lines += n
        c = consts(Names=set(RANDOM_NAMES) | {"a", "bb", "f", "e0", "e1", "e2"}, Modes={511}, Dotu=dotu, **BIG)
        cfg = "fsrv_trace_%d.cfg" % dotu
        ctx.write_cfg(cfg, c, spec="TraceSpec")
        rt = ctx.tlc("FsrvTrace", cfg, workers=1, timeout=1500, env={"TRACE_FILE": cat}, name="FsrvTrace:dotu=%d" % dotu, heap="6g")
        consumed = re.search(r'<<"CONSUMED", (\d+)>>', rt.out)
        if not consumed or int(consumed.group(1)) != n:
            ctx.inconclusive.append("FsrvTrace did not consume the trace (dotu=%s: %s of %d lines): %s" % (
                dotu, consumed.group(1) if consumed else "?", n, rt.error or rt.violated))
            ctx.log("\n".join(rt.out.splitlines()[-25:]))
        first_of = {}
        for line in rt.out.splitlines():
            line = line.strip()
            if not line.startswith('"MISMATCH '):
                continue
            try:
                m = json.loads(json.loads(line)[len("MISMATCH "):])
            except Exception:
                ctx.inconclusive.append("unparsable MISMATCH line")
                continue
            self.mismatches += 1
            key = mismatch_key(m)
            self.keys[key] = self.keys.get(key, 0) + 1
            first_of.setdefault(key, m)
        hist = histories(cat, sorted(m.get("line", 0) for m in first_of.values()))
        for key, m in first_of.items():
            eng = "?"
            for first, last, e, b in index:
                if first <= m.get("line", 0) <= last:
                    eng = e
            ctx.violation(key, "%s case %s, step %s: differs in %s; expected %s, observed %s; read-back %s (expected %s)" % (
                eng, m.get("case"), m.get("act"), m.get("diff"), brief(m.get("expected")), brief(m.get("got")),
                m.get("post"), m.get("xpost")),
                {"engine": eng, "dotu": dotu, "fscfg": self.fscfg(dotu), "history": hist.get(m.get("line", 0)), "step": m.get("act")})

    # -------------------------------------------------------------- all
    def run(self):
        ctx, q = self.ctx, self.q
        # 1+2: model checking and tours; dialects alternate between configurations
        if q:
            plan = [("tree1", True, 4000), ("walk2", False, 3000), ("perm2", False, 4000), ("io", True, None)]
        else:
            plan = [("tree", True, 60000), ("tree1", False, None), ("walk2", False, None), ("walk2", True, 12000),
                    ("perm", False, 40000), ("perm2", True, 30000), ("io", True, None), ("io", False, None)]
        for i, (name, dotu, sample) in enumerate(plan):
            self.model_and_tour(name, CONFIGS[name], dotu, sample)
        if not q:
            for name, c in BIG_CONFIGS.items():
                self.model_only(name, c)
        # 3: random histories, permission grid, requests outside the offset rule
        for dotu in (True, False):
            gen = {"cases": (300 if q else 1500), "steps": (50 if q else 70), "names": RANDOM_NAMES, "users": [1, 2, 3], "groups": [1, 2, 3]}
            env = {"VERIF_GEN": json.dumps(gen)}
            if not dotu:
                env["VERIF_FSCFG"] = json.dumps(self.fscfg(False, msize=1024, maxpend=4))
            rep, tpath = self.engine("TestFsrvRandom", "random:dotu=%d" % dotu, dotu, env, timeout=900)
            self.trace_files[dotu].append(("random", tpath, None))
        grid = {"cases": (48 if q else 512), "steps": 0, "names": [], "users": [1, 2, 3], "groups": [1, 2, 3]}
        rep, tpath = self.engine("TestFsrvPermGrid", "permgrid", True, {"VERIF_GEN": json.dumps(grid)}, timeout=900)
        self.trace_files[True].append(("permgrid", tpath, None))
        for dotu in ((True,) if q else (True, False)):
            self.engine("TestFsrvHostile", "hostile:dotu=%d" % dotu, dotu, {}, timeout=600, max_restarts=400)
        # 4: validation
        for dotu in (True, False):
            self.validate(dotu)
        cov = {"states": self.states, "transitions": self.trans, "traces_validated_against_impl": self.traces,
               "samples": self.samples[:3], "evaluations": self.lines, "distinct_nontrivial": self.traces,
               "rule": "histories = paths of transition tours over the state graphs of Fsrv.tla (configurations tree, perm, io; "
                       "quick: seeded edge samples), seeded random histories over 12-node trees, the CheckPerm grid and reads "
                       "outside the offset rule; every step executed on the real Fsrv (srvFile API directly, requests as raw 9P) "
                       "and validated by TLC against Fsrv!Step together with the fid and tree read-back",
               "steps_validated": self.lines, "mismatches": self.mismatches, "mismatch_keys": self.keys, "tours": self.tour_stats,
               "dialects": ["9P2000.u", "9P2000"]}
        return cov


def brief(o):
    if not isinstance(o, dict):
        return o
    return {k: v for k, v in o.items() if v not in ("", [], 0, None) or k == "reply"}


def histories(cat, lines):
    """for each wanted trace line: the actions of its history up to that line"""
    out = {}
    want = set(lines)
    if not want:
        return out
    last = max(want)
    acts = []
    try:
        with open(cat) as f:
            for i, l in enumerate(f, 1):
                if i > last:
                    break
                if l.startswith('{"act":["Reset"]'):
                    acts = []
                    continue
                if i in want:
                    acts.append(json.loads(l).get("act"))
                    out[i] = list(acts)
                else:
                    acts.append(l)
    except Exception:
        pass
    for i in out:
        out[i] = [json.loads(a).get("act") if isinstance(a, str) else a for a in out[i]]
    return out


def replay(ctx, x):
    """--replay file: re-execute the recorded history (or, for a crash outside a history, the engine
    that found it) on the current tree and judge it the same way."""
    rec = json.load(open(ctx.replay))
    rp = rec.get("replay") or {}
    dotu = bool(rp.get("dotu", (rp.get("fscfg") or {}).get("dotu", True)))
    if rp.get("history"):
        bpath = ctx.path("beh_replay.ndjson")
        with open(bpath, "w") as f:
            f.write(json.dumps({"id": 1, "steps": [["Do", a] for a in rp["history"]]}) + "\n")
        env = {"VERIF_BEHAVIOURS": bpath}
        if rp.get("fscfg"):
            env["VERIF_FSCFG"] = json.dumps(rp["fscfg"])
        rep, tpath = x.engine("TestFsrvReplay", "replay:file", dotu, env)
        x.trace_files[dotu].append(("replay:file", tpath, bpath))
        x.validate(dotu)
    else:
        env = {}
        if rp.get("fscfg"):
            env["VERIF_FSCFG"] = json.dumps(rp["fscfg"])
        x.engine(rp.get("engine", "TestFsrvHostile"), "replay:engine", dotu, env, max_restarts=400)
    return {"states": 0, "transitions": 0, "traces_validated_against_impl": x.traces, "samples": x.samples[:1],
            "evaluations": x.lines, "distinct_nontrivial": x.traces, "rule": "replay of " + os.path.basename(ctx.replay)}


def run(ctx):
    x = X01(ctx)
    cov = replay(ctx, x) if ctx.replay else x.run()
    return ctx.finish("model_checking", cov, assumptions=[
        "X01 is additional coverage beyond the listed properties; its contract is docs/fsrv.md",
        "requests are issued one at a time; the API is called while no request is in progress",
        "error texts are not compared: replies are ok / the scripted error of a file op passed through / any other error",
        "users u1..u3, groups g1..g3, u1 in g1 and g2, u2 in g2, u3 in none; permission rule = union of the applicable classes (lib9p hasperm)",
        "only uses whose outcome the contract settles are generated (see Fsrv!Enabled): no re-Add of a used node, no Rename to the own name, "
        "reads/writes only through fids opened for them, directory reads that follow the offset rule with room for one entry",
        "the harness is compiled with go1.26.8 against the repository tree",
    ])
