"""X02 (beyond the listed properties) -- a Tversion in mid-session, as the code handles it: processed synchronously by the
receive goroutine, every other linked request flagged flushed (its reply is dropped), Rversion sent exactly once, no crash,
no stuck goroutine.  The 9P manual additionally wants all fids clunked by a Tversion, which go9p does not do; that is noted
in DESIGN.md 12.6, not judged here."""
import json

import srvfam

INVS = ["TypeOK", "NoCrash", "AtMostOneReply", "ReplyMatches", "NoStuckThread", "VersionAnswered", "AllAnswered"]


def run(ctx):
    q = ctx.quick
    c = srvfam.consts(ctx, NReq=3, Tags={1, 2, 3}, Kinds={"Stat", "Version"} if q else {"Stat", "Attach", "Flush", "Version"},
                      Late=False, InitFids={1}, NoTag=3)
    ctx.write_cfg("x02_version3.cfg", c, invariants=INVS)
    r = ctx.tlc_must_pass("Srv9P", "x02_version3.cfg", timeout=2400, name="version3")
    states, trans = r.distinct, r.generated
    ct = srvfam.consts(ctx, NReq=2, Tags={1, 2}, Kinds={"Stat", "Version"}, Late=True, InitFids={1}, NoTag=2)
    paths, cov, total, rt = srvfam.behaviours_tour(ctx, ct, "version2", sample_edges=(4000 if q else None))
    states += rt.distinct
    trans += rt.generated
    rep, tpath, epath, bpath = srvfam.replay(ctx, paths, ct, "version2")
    rejects, tlines = srvfam.run_trace_validation(ctx, tpath, ct)
    verdicts, elines = srvfam.run_monitor(ctx, epath)
    traces = rep.get("cases_total", 0)
    # random walks of the 3-request model (a tag reused after the Rversion that aborted its request) replayed on the code
    sims, rs = srvfam.behaviours_sim(ctx, c, "version3", num=300 if q else 3000, depth=90)
    srep, stp, sep, sbp = srvfam.replay(ctx, sims, c, "version3sim", id_base=50000)
    rj3, tl3 = srvfam.run_trace_validation(ctx, stp, c, name="Srv9PTrace:version3sim")
    vd3, el3 = srvfam.run_monitor(ctx, sep, name="Mon9P:version3sim")
    rejects += rj3
    verdicts += vd3
    tlines += tl3
    traces += srep.get("cases_total", 0)
    n = 8
    cr = srvfam.consts(ctx, NReq=n, Tags=set(range(1, n + 2)), Fids={1, 2, 3}, Kinds={"Attach", "Stat", "Clunk", "Walk", "Flush", "Version"},
                       Late=True, InitFids={1}, NoTag=n + 1)
    rc = {"cases": 150 if q else 1500, "nreq": n, "kinds": ["Attach", "Stat", "Stat", "Clunk", "Walk", "Flush", "Version"], "shared": False,
          "close": False, "extra": False, "latep": 15, "sendp": 40, "probe": False}
    rrep, tp, ep, bp = srvfam.random_run(ctx, cr, rc, "vrand", 1500000)
    rj, tl = srvfam.run_trace_validation(ctx, tp, cr, name="Srv9PTrace:vrand")
    vd, el = srvfam.run_monitor(ctx, ep, name="Mon9P:vrand")
    rejects += rj
    verdicts += vd
    traces += rrep.get("cases_total", 0)
    # judged here: crashes / stalls / replies nobody asked for / a second reply.  Requests outstanding at a Tversion
    # legitimately lose their replies.
    # (requests sent after the Rversion must be answered like any other: the monitor counts those outstanding at the
    # Tversion as aborted)
    keep = [v for v in verdicts if v[2] in ("server-crash", "stalled", "second-reply", "wrong-reply-type", "foreign-payload", "unanswered",
                                            "flush-unanswered", "late-reply-under-reused-tag")]
    # once a reply has arrived late (after the Rversion that aborted its request) the monitor's attribution of every later
    # reply of that case is off by one: those cases are reported under the one finding they are an instance of
    late_cases = {v[0] for v in verdicts if v[2] in ("reply-after-rflush", "late-reply-under-reused-tag")}
    keep = [(case, prop, ("late-reply-under-reused-tag" if case in late_cases and kind in ("foreign-payload", "wrong-reply-type", "second-reply") else kind), detail)
            for (case, prop, kind, detail) in keep]
    for (case, prop, kind, detail) in keep:
        ctx.violation("x02:%s:%s" % (kind, srvfam.classify_detail(kind, detail)), "%s %s (case %d)" % (kind, detail, case),
                      {"behaviour": srvfam.case_replay(bpath if case < 50000 else (sbp if case < 100000 else bp), case)})
    cov_d = {"states": states, "transitions": trans, "traces_validated_against_impl": traces,
             "samples": (rep.get("samples") or [])[:1] + (rrep.get("samples") or [])[:1],
             "evaluations": traces, "distinct_nontrivial": len(paths) + rc["cases"],
             "rule": "tour of the 2-request Tversion model + seeded sessions with Tversions in mid-session",
             "trace_lines_validated": tlines + tl, "trace_rejects": len(rejects), "trace_reject_samples": [list(x) for x in rejects[:5]],
             "tour_edges_covered": cov, "tour_edges_total": total,
             "observed_not_judged": {"replies_sent_after_the_Rversion_for_requests_it_aborted": sum(1 for v in verdicts if v[1] == "C03" and v[2] == "reply-after-rflush"),
                                     "implementation_called_for_a_request_the_Tversion_had_aborted": sum(1 for v in verdicts if v[2] == "call-after-cancel")}}
    return ctx.finish("model_checking", cov_d, assumptions=["Tversion is sent with tag NOTAG", "beyond the listed properties"])
