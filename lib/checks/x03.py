"""X03 (extra, beyond the listed properties) -- the file server Pipefs of srv_pipe.go.

spec/Pipefs.tla is a sequential reference machine of what one 9P client sees of a Pipefs: a real
directory tree (files, directories, symbolic and hard links), per fid the path, the open state and
a byte buffer of its own (Twrite appends, Tread on a non-directory pops from the front: a FIFO per
fid), directory reads as byte windows of a packed listing, attach / walk / open / create (all
kinds) / remove / stat / wstat / clunk; docs/pipefs.md is the prose version.
  1. TLC model-checks the machine for small trees: tree and fid invariants, FIFO exactly once in
     order per fid, Rwrite count, read bounds, slice expressions of the directory branch in bounds
     for every offset and count (WindowSafe), refusals change nothing; with each Fix* constant set
     to FALSE (the code as found) TLC must report the property that defect breaks.
  2. The state graphs of small configurations are dumped; transition tours (seeded samples of the
     edges where the graph is big) are executed on the real Pipefs as raw 9P over net.Pipe.
  3. Seeded random histories beyond the model's bounds (4 names, depth 3, 6 fids, buffers of
     kilobytes, counts around msize, directory reads at arbitrary offsets), a grid of directory
     reads inside / at the end of / beyond a listing, each on a server of its own, and one probe
     with two requests in progress (a hard link naming the new fid of a Twalk that is held at a
     schedule point of the verif build).
  4. TLC validates every executed step against Pipefs!Step (spec/PipefsTrace.tla): reply class,
     qids, byte counts, data, stat, listing, window, and, read back after the step, the real tree,
     what every fid designates, its buffer, and the open descriptors of the server.
A MISMATCH line or a server panic is a behaviour of the real code the machine does not allow ->
violation.  The machine states the repaired behaviour for the three defects docs/pipefs.md lists.
"""
import hashlib
import json
import os
import re
import sys

sys.path.insert(0, os.path.dirname(os.path.dirname(os.path.abspath(__file__))))
import tour

TOUR_NAMES = {"a", "bb"}
RANDOM_NAMES = ["a", "bb", "ccc", "dddd"]       # alphabetical order = order by length (Pipefs.tla numbers objects that way)
RANDOM = dict(NFids=6, MaxDepth=3)
MSIZE = 8192


def consts(**kw):
    c = dict(Names=TOUR_NAMES, MaxDepth=2, NFids=1, Dotu=True, Msize=MSIZE, StatBase=0,
             Feat={"walk", "open", "create", "remove", "stat"}, Kinds={"file", "dir"}, OpenModes={0, 1},
             WData={"x", "yz"}, RCounts={0, 1, 2, 100}, MaxBuf=3, MaxWalk=2, Hist=False,
             FixDirPast=True, FixWalk=True, FixDangling=True)
    c.update(kw)
    return c


INVS = ["TypeOK", "TreeOK", "FidsSound", "FifoExact", "WindowSafe"]
PROPS = ["WriteCount", "ReadBound", "ReadPops", "BuffersApart", "DirWindow", "RefusalsChangeNothing", "TreeStable", "WalkAtomic"]

CONFIGS = {
    # names and metadata: walks (complete, partial, failed, in place and to a new fid), open, create, remove, stat
    "tree1": consts(),
    # the same with two fids: a fid whose file was removed or replaced through the other one (model checking only)
    "tree2": consts(NFids=2, MaxWalk=1),
    # every kind of Tcreate: symbolic links (dangling, to files, to directories, loops), hard links by fid number, named pipe,
    # device, socket; walks and creates through links
    "links": consts(NFids=2, MaxDepth=1, Kinds={"file", "dir", "sym", "link", "pipe", "dev", "sock"}, MaxWalk=1),
    "linksq": consts(NFids=2, MaxDepth=1, Kinds={"file", "sym", "link"}, MaxWalk=1, OpenModes={0}, Feat={"walk", "open", "create", "remove"}),
    "linksd": consts(NFids=2, MaxDepth=1, Kinds={"dir", "sym", "link", "pipe"}, MaxWalk=1, OpenModes={0}, Feat={"walk", "open", "create", "remove"}),
    "links1": consts(NFids=1, MaxDepth=2, Kinds={"file", "dir", "sym", "pipe"}, MaxWalk=2),
    # the data path: two fids on one file, buffers with history variables
    "fifo": consts(NFids=2, Names={"a"}, MaxDepth=1, Kinds={"file"}, Feat={"open", "create", "io", "walk"}, OpenModes={0, 1, 2},
                   Hist=True, MaxWalk=1),
    # directory reads: every boundary offset and count, through opened and unopened fids
    "dir": consts(NFids=1, MaxDepth=1, Kinds={"file", "dir"}, Feat={"open", "create", "remove", "dread"}, OpenModes={0}),
    "dir2": consts(NFids=2, MaxDepth=1, Kinds={"file"}, Feat={"open", "create", "remove", "dread", "walk"}, OpenModes={0}, MaxWalk=0),
    # attach with an aname
    "aname": consts(NFids=2, MaxDepth=1, Kinds={"file", "dir"}, Feat={"aname", "create", "remove", "stat", "open"}, OpenModes={0}),
}
# the code as found: TLC must find the property each defect breaks
AS_FOUND = [
    ("dir", dict(FixDirPast=False), {"WindowSafe", "TypeOK"}),
    ("tree1", dict(FixWalk=False), {"WalkAtomic"}),
    ("linksq", dict(FixDangling=False), {"RefusalsChangeNothing"}),
]


def off_class(a):
    off = a[2]
    if off == 0:
        return "0"
    return "huge" if off < 0 else ">0"


def mismatch_key(m):
    a = m.get("act", ["?"])
    op = a[0]
    exp, got = m.get("expected", {}), m.get("got", {})
    diff = ",".join(m.get("diff", []))
    if "reply" in m.get("diff", []):
        diff = "reply"          # the other differences follow from the different answer
    ctxl = [str(x) for x in m.get("ctx", [])]
    if op in ("read", "dread", "write", "stat", "wstat"):
        ctxl = ctxl[:1]         # opened or not
    elif op in ("clunk", "remove"):
        ctxl = ctxl[2:]         # what the path is now
    ctxv = ",".join(ctxl)
    det = ""
    if op == "walk":
        names = a[3]
        nexp, ngot = len(exp.get("qids", [])), len(got.get("qids", []))
        kind = "full" if nexp == len(names) else ("none" if nexp == 0 else "partial")
        det = "inplace=%d:expect=%s:qids=%s" % (a[1] == a[2], kind, "same" if nexp == ngot else ("more" if ngot > nexp else "fewer"))
    elif op == "open":
        det = "mode=%d" % a[2]
    elif op == "create":
        det = "kind=%s" % a[3]
    elif op == "dread":
        total = sum(e[1] for e in exp.get("snap", []))
        off = a[2]
        cls = "0" if off == 0 else ("beyond" if off < 0 or off > total else ("end" if off == total else "inside"))
        det = "off=%s:entries=%d" % (cls, len(exp.get("snap", [])))
    elif op == "read":
        det = "buffered=%s" % ("0" if not exp.get("data") and exp.get("n", 0) == 0 else ">0")
    elif op == "attach":
        det = "aname=%d:afid=%d" % (bool(a[2]), a[4] != 0)
    return "x03:%s:%s:want=%s:got=%s:%s:fid=%s" % (op, diff, exp.get("reply"), str(got.get("reply")).split(":")[0], det, ctxv)


def crash_class(act):
    """stable class of the request that killed the server"""
    if isinstance(act, str):       # probe name of the hostile engine
        m = re.search(r"listed=(\w+):off=([^:]+)", act)
        if m:
            if m.group(2) in ("end+1", "past", "huge"):
                return "dirread:beyond-the-listing"
            if m.group(1) == "false":
                return "dirread:offset>0-before-any-read-at-offset-0"
            return "dirread:" + m.group(2)
        return re.sub(r":count=.*", "", act)
    if isinstance(act, list) and act:
        if act[0] in ("dread", "read"):
            return "%s:off=%s" % (act[0], off_class(act))
        return str(act[0])
    return "?"


class X03:
    def __init__(self, ctx):
        self.ctx = ctx
        self.q = ctx.quick
        self.states = self.trans = 0
        self.traces = 0
        self.steps = 0
        self.lines = 0
        self.samples = []
        self.groups = {}            # group name -> {"consts":…, "cfg":…, "files": [(engine, tpath)]}
        self.mismatches = 0
        self.unspec = 0
        self.tour_stats = {}
        self.keys = {}
        self.statbase = {}
        self.nopast = False
        self.crashes = 0
        self.as_found = {}
        self.linkrace_stats = {}

    # -------------------------------------------------------------- engines
    def pfcfg(self, dotu, nfids, msize=MSIZE, maxpend=0):
        return {"dotu": dotu, "msize": msize, "nfids": nfids, "maxpend": maxpend, "nopast": self.nopast}

    def engine(self, run, name, pfcfg, env, timeout=900, max_restarts=40, same_crash_limit=None):
        """Run an engine that may be killed by a panic of the server under test; restart after the
        crashed case.  Returns (report, trace path)."""
        ctx = self.ctx
        tag = hashlib.md5(name.encode()).hexdigest()[:8]
        tpath = ctx.path("trace_%s.ndjson" % tag)
        prog = ctx.path("progress_%s" % tag)
        env = dict(env)
        env.update({"VERIF_TRACE_OUT": tpath, "VERIF_PROGRESS": prog, "VERIF_PFCFG": json.dumps(pfcfg)})
        start = 0
        total = 0
        steps = 0
        rep = {}
        seen = {}
        for attempt in range(max_restarts + 1):
            if start:
                env["VERIF_START"] = str(start)
            rep = ctx.go_engine("pipefsh", run, env=env, timeout=timeout, name=name, allow_crash=True)
            total += int(rep.get("cases", 0) or 0)
            steps += int((rep.get("stats") or {}).get("steps", 0) or 0)
            if rep["_exit"] == 0 and "cases" in rep:
                break
            out = rep.get("_stdout", "")
            m = re.search(r"^(panic: .*|fatal error: .*)$", out, re.M)
            try:
                case = int(open(prog).read().strip())
            except (OSError, ValueError):
                case = None
            if not m or case is None:
                ctx.log("engine output tail:\n" + "\n".join(out.splitlines()[-40:]))
                ctx.inconclusive.append("engine %s died without a panic attributable to a case (exit %s)" % (name, rep["_exit"]))
                break
            fn = "?"
            for fm in re.finditer(r"^github\.com/rminnich/go9p\.([^\s(]*(?:\([^)]*\))?[^\s(]*)\(", out[m.start():], re.M):
                fn = fm.group(1)
                break
            try:
                act = json.load(open(prog + ".act"))
            except Exception:
                act = None
            if fn == "?":
                ctx.log("engine output tail:\n" + "\n".join(out.splitlines()[-40:]))
                ctx.inconclusive.append("engine %s panicked outside go9p: %s" % (name, m.group(1)[:200]))
                break
            key = "x03:server-crash:%s:%s" % (fn, crash_class(act))
            seen[key] = seen.get(key, 0) + 1
            self.crashes += 1
            if seen[key] == 1:
                ctx.violation(key, "the server panicked (%s) executing %s in case %s of %s" % (m.group(1)[:160], act, case, name),
                              {"engine": run, "pfcfg": pfcfg, "case": case, "act": act, "env": {k: v for k, v in env.items() if k.startswith("VERIF_GEN")}})
                ctx.log("server crashed in case %s (%s): %s in %s" % (case, act, m.group(1)[:100], fn))
            total += 1
            start = case + 1
            if same_crash_limit and sum(seen.values()) >= same_crash_limit:
                ctx.log("%d crashes in %s: not restarting it again" % (sum(seen.values()), name))
                break
        else:
            ctx.inconclusive.append("engine %s crashed more than %d times" % (name, max_restarts))
        self.traces += total
        self.steps += steps
        self.samples += list(rep.get("samples", []))[:1]
        rep["_crash_keys"] = seen
        return rep, tpath

    def calibrate(self):
        for dotu in (True, False):
            rep, _ = self.engine("TestPipefsCalibrate", "calibrate:dotu=%d" % dotu, self.pfcfg(dotu, 1), {}, max_restarts=0)
            sb = (rep.get("stats") or {}).get("statbase")
            if not isinstance(sb, int) or (rep.get("stats") or {}).get("rootname") != "root":
                self.ctx.inconclusive.append("the stat record of the root could not be measured (dotu=%s): %s" % (dotu, rep.get("stats")))
                sb = 71 if dotu else 57
            self.statbase[dotu] = sb
        self.traces -= 2

    def linkrace(self):
        """Tcreate(DMLINK) naming the new fid of a Twalk that is held at a schedule point: must be answered"""
        rep, _ = self.engine("TestPipefsLinkRace", "linkrace", self.pfcfg(True, 6), {}, max_restarts=1)
        self.linkrace_stats = rep.get("stats") or {}

    def probe(self, dotu):
        """directory reads inside / at the end of / beyond a listing; tells whether the tree answers reads beyond a listing"""
        rep, _ = self.engine("TestPipefsHostile", "hostile:dotu=%d" % dotu, self.pfcfg(dotu, 1), {}, max_restarts=200,
                             same_crash_limit=(6 if self.q else 24))
        if any("dirread" in k for k in rep.get("_crash_keys", {})):
            self.nopast = True

    # -------------------------------------------------------------- model checking and tours
    def group(self, name, c):
        g = self.groups.get(name)
        if g is None:
            g = self.groups[name] = {"consts": c, "files": []}
        return g

    def model_and_tour(self, name, dotu, sample):
        ctx = self.ctx
        c = dict(CONFIGS[name], Dotu=dotu, StatBase=self.statbase[dotu])
        cfg = "pipefs_%s_%d.cfg" % (name, dotu)
        ctx.write_cfg(cfg, c, invariants=INVS, properties=PROPS, view="View")
        r, dot = ctx.tlc_dump_graph("Pipefs", cfg, timeout=900)
        self.states += r.distinct
        self.trans += r.generated
        if not r.ok:
            ctx.log("\n".join(r.out.splitlines()[-40:]))
            ctx.inconclusive.append("TLC Pipefs/%s did not pass: %s" % (name, r.violated or r.error))
            return
        init, adj = tour.load(dot)
        os.remove(dot)
        paths, cov, total = tour.cover(init, adj, seed=ctx.seed, sample_edges=sample, max_len=40)
        bpath = ctx.path("beh_%s_%d.ndjson" % (name, dotu))
        tour.write_behaviours(paths, bpath)
        self.tour_stats["%s:dotu=%d" % (name, dotu)] = {"edges": total, "edges_covered": cov, "paths": len(paths),
                                                       "steps": sum(len(p) for p in paths), "dotu": dotu}
        ctx.log("tour %s: %d paths cover %d of %d edges" % (name, len(paths), cov, total))
        rep, tpath = self.engine("TestPipefsReplay", "replay:%s:dotu=%d" % (name, dotu), self.pfcfg(dotu, 2), {"VERIF_BEHAVIOURS": bpath})
        g = self.group("tours:dotu=%d" % dotu, dict(consts(NFids=2, MaxDepth=2), Dotu=dotu, StatBase=self.statbase[dotu]))
        g["files"].append(("replay:" + name, tpath))

    def model_only(self, name, dotu=True):
        ctx = self.ctx
        c = dict(CONFIGS[name], Dotu=dotu, StatBase=self.statbase[dotu])
        cfg = "pipefs_%s.cfg" % name
        ctx.write_cfg(cfg, c, invariants=INVS, properties=PROPS, view="View")
        r = ctx.tlc_must_pass("Pipefs", cfg, timeout=1200, name=name, heap="6g", workers=4)
        self.states += r.distinct
        self.trans += r.generated

    def code_as_found(self):
        """non-vacuity: with a Fix* constant FALSE the machine describes the code as found and TLC must report the
        property that defect breaks"""
        ctx = self.ctx
        for name, over, expect in AS_FOUND:
            c = dict(CONFIGS[name], Dotu=True, StatBase=self.statbase[True])
            c.update(over)
            cfg = "pipefs_asfound_%s.cfg" % "".join(over)
            ctx.write_cfg(cfg, c, invariants=INVS, properties=PROPS, view="View")
            r = ctx.tlc("Pipefs", cfg, timeout=600, name="as-found:" + ",".join(over), heap="4g", workers=4, expect_violation=True)
            self.as_found[",".join(over)] = r.violated
            if r.violated not in expect:
                ctx.inconclusive.append("with %s the machine should violate %s, TLC says: %s" % (over, sorted(expect), r.violated or r.error or "no violation"))

    # -------------------------------------------------------------- validation
    def validate(self, gname):
        ctx = self.ctx
        g = self.groups[gname]
        cat = ctx.path("all_%s.ndjson" % hashlib.md5(gname.encode()).hexdigest()[:8])
        index = []
        n = 0
        with open(cat, "w") as out:
            for eng, tpath in g["files"]:
                if not os.path.exists(tpath):
                    continue
                first = n + 1
                with open(tpath) as f:
                    for line in f:
                        out.write(line)
                        n += 1
                index.append((first, n, eng))
        if n == 0:
            ctx.inconclusive.append("no trace lines were written (%s)" % gname)
            return
        self.lines += n
        c = dict(g["consts"], Feat=set(), Kinds=set(), OpenModes=set(), WData=set(), RCounts=set(), Hist=False)
        cfg = "pipefs_trace_%s.cfg" % hashlib.md5(gname.encode()).hexdigest()[:8]
        ctx.write_cfg(cfg, c, spec="TraceSpec")
        rt = ctx.tlc("PipefsTrace", cfg, workers=1, timeout=1500, env={"TRACE_FILE": cat}, name="PipefsTrace:" + gname, heap="6g")
        consumed = re.search(r'<<"CONSUMED", (\d+)>>', rt.out)
        if not consumed or int(consumed.group(1)) != n:
            ctx.inconclusive.append("PipefsTrace did not consume the trace (%s: %s of %d lines): %s" % (
                gname, consumed.group(1) if consumed else "?", n, rt.error or rt.violated))
            ctx.log("\n".join(rt.out.splitlines()[-25:]))
        first_of = {}
        for line in rt.out.splitlines():
            line = line.strip()
            if line.startswith('"UNSPEC '):
                self.unspec += 1
                continue
            if not line.startswith('"MISMATCH '):
                continue
            try:
                m = json.loads(json.loads(line)[len("MISMATCH "):])
            except Exception:
                ctx.inconclusive.append("unparsable MISMATCH line")
                continue
            self.mismatches += 1
            key = mismatch_key(m)
            self.keys[key] = self.keys.get(key, 0) + 1
            first_of.setdefault(key, m)
        hist = histories(cat, sorted(m.get("line", 0) for m in first_of.values()))
        jc = {k: (sorted(v) if isinstance(v, (set, frozenset)) else v) for k, v in g["consts"].items()}
        for key, m in first_of.items():
            eng = "?"
            for first, last, e in index:
                if first <= m.get("line", 0) <= last:
                    eng = e
            ctx.violation(key, "%s case %s, step %s: differs in %s; expected %s, observed %s; read-back %s (expected %s)" % (
                eng, m.get("case"), m.get("act"), m.get("diff"), brief(m.get("expected")), brief(m.get("got")),
                m.get("post"), m.get("xpost")),
                {"engine": eng, "group": gname, "consts": jc, "pfcfg": g.get("pfcfg"), "history": hist.get(m.get("line", 0)), "step": m.get("act")})

    # -------------------------------------------------------------- all
    def random(self, dotu, msize, cases, steps, maxbuf):
        gen = {"cases": cases, "steps": steps, "names": RANDOM_NAMES, "maxdepth": RANDOM["MaxDepth"], "maxbuf": maxbuf}
        pf = self.pfcfg(dotu, RANDOM["NFids"], msize=msize, maxpend=(0 if dotu else 4))
        rep, tpath = self.engine("TestPipefsRandom", "random:dotu=%d:msize=%d" % (dotu, msize), pf, {"VERIF_GEN": json.dumps(gen)})
        gname = "random:dotu=%d:msize=%d" % (dotu, msize)
        g = self.group(gname, dict(consts(Names=set(RANDOM_NAMES), Msize=msize, **RANDOM), Dotu=dotu, StatBase=self.statbase[dotu]))
        g["pfcfg"] = pf
        g["files"].append(("random", tpath))

    def run(self):
        ctx, q = self.ctx, self.q
        self.calibrate()
        if ctx.inconclusive:
            return self.coverage()
        # directory reads around and beyond the listing, one server per read: does this tree survive them?
        self.probe(True)
        if not q:
            self.probe(False)
        self.linkrace()
        if self.nopast:
            ctx.log("this tree dies on directory reads beyond the listing: histories are cut before such a read")
        # 1+2: model checking and tours; dialects alternate between configurations (links need 9P2000.u)
        if q:
            plan = [("tree1", False, 3000), ("fifo", True, 4000), ("dir", False, 4000), ("aname", False, 1500),
                    ("linksq", True, 4000), ("linksd", True, 3000)]
        else:
            plan = [("tree1", True, None), ("tree1", False, 12000), ("fifo", True, 30000), ("fifo", False, 12000), ("dir", True, None),
                    ("dir", False, None), ("dir2", False, 40000), ("dir2", True, 20000), ("aname", True, None), ("aname", False, 5000),
                    ("linksq", True, 40000), ("linksd", True, 40000), ("links1", True, 20000)]
        for name, dotu, sample in plan:
            self.model_and_tour(name, dotu, sample)
        self.code_as_found()
        if not q:
            self.model_only("tree2")
            self.model_only("links")
        # 3: random histories beyond the bounds of the model
        if q:
            self.random(True, 1024, 150, 40, 3000)
            self.random(False, 512, 120, 40, 1500)
        else:
            self.random(True, 1024, 1200, 60, 3000)
            self.random(False, 512, 1000, 60, 1500)
            self.random(True, 8192, 150, 40, 20000)
        # 4: validation
        for gname in list(self.groups):
            self.validate(gname)
        return self.coverage()

    def coverage(self):
        return {"states": self.states, "transitions": self.trans, "traces_validated_against_impl": self.traces,
                "samples": self.samples[:3], "evaluations": self.lines, "distinct_nontrivial": self.traces,
                "rule": "histories = paths of transition tours over the state graphs of Pipefs.tla (configurations tree1, fifo, dir, dir2, "
                        "aname, links*; seeded edge samples where the graph is big), seeded random histories (4 names, depth 3, 6 fids, "
                        "buffers of kilobytes, counts around msize, directory reads at arbitrary offsets) and a grid of directory reads "
                        "inside / at the end of / beyond a listing; every step executed on the real Pipefs as raw 9P over net.Pipe and "
                        "validated by TLC against Pipefs!Step together with the read-back of tree, fids, buffers and descriptors",
                "steps_executed": self.steps, "steps_validated": self.lines, "mismatches": self.mismatches, "mismatch_keys": self.keys,
                "steps_outside_the_machine": self.unspec, "server_crashes": self.crashes,
                "histories_cut_before_reads_beyond_a_listing": self.nopast, "tours": self.tour_stats,
                "stat_record_base": {("9P2000.u" if k else "9P2000"): v for k, v in self.statbase.items()},
                "code_as_found_violates": self.as_found, "link_to_fid_of_walk_in_progress": self.linkrace_stats, "dialects": ["9P2000.u", "9P2000"]}


def brief(o):
    if not isinstance(o, dict):
        return o
    return {k: v for k, v in o.items() if v not in ("", [], 0, None) or k == "reply"}


def histories(cat, lines):
    """for each wanted trace line: the actions of its history up to that line"""
    out = {}
    want = set(lines)
    if not want:
        return out
    last = max(want)
    acts = []
    try:
        with open(cat) as f:
            for i, l in enumerate(f, 1):
                if i > last:
                    break
                if l.startswith('{"act":["Reset"]'):
                    acts = []
                    continue
                acts.append(l)
                if i in want:
                    out[i] = [json.loads(a).get("act") for a in acts]
    except Exception:
        pass
    return out


def replay(ctx, x):
    """--replay file: re-execute the recorded history (or, for a crash outside a history, the engine
    that found it) on the current tree and judge it the same way."""
    rec = json.load(open(ctx.replay))
    rp = rec.get("replay") or {}
    x.calibrate()
    if rp.get("history"):
        c = dict(rp.get("consts") or {})
        for k in ("Names", "Feat", "Kinds", "OpenModes", "WData", "RCounts"):
            if k in c:
                c[k] = set(c[k])
        dotu = bool(c.get("Dotu", True))
        c["StatBase"] = x.statbase[dotu]
        pf = rp.get("pfcfg") or x.pfcfg(dotu, int(c.get("NFids", 2)), msize=int(c.get("Msize", MSIZE)))
        pf["nopast"] = False
        bpath = ctx.path("beh_replay.ndjson")
        with open(bpath, "w") as f:
            f.write(json.dumps({"id": 1, "steps": rp["history"]}) + "\n")
        rep, tpath = x.engine("TestPipefsReplay", "replay:file", pf, {"VERIF_BEHAVIOURS": bpath})
        g = x.group("replay", c)
        g["pfcfg"] = pf
        g["files"].append(("replay:file", tpath))
        x.validate("replay")
    else:
        pf = rp.get("pfcfg") or x.pfcfg(True, 1)
        pf["nopast"] = False
        x.engine(rp.get("engine", "TestPipefsHostile"), "replay:engine", pf, rp.get("env") or {}, max_restarts=200, same_crash_limit=6)
    return {"states": 0, "transitions": 0, "traces_validated_against_impl": x.traces, "samples": x.samples[:1],
            "evaluations": x.lines, "distinct_nontrivial": x.traces, "rule": "replay of " + os.path.basename(ctx.replay)}


def run(ctx):
    x = X03(ctx)
    cov = replay(ctx, x) if ctx.replay else x.run()
    return ctx.finish("model_checking", cov, assumptions=[
        "X03 is additional coverage beyond the listed properties; its contract is docs/pipefs.md",
        "requests are issued one at a time by one client on one connection",
        "error texts and errno values are not compared: a reply is ok or an error",
        "names are plain (no '/', '.', '..'); the target of a symbolic link is a name, resolved in the link's directory",
        "only requests whose outcome the machine settles are generated (trees up to the modelled depth, the root is not removed); "
        "a step outside it ends its history without a verdict and is counted (steps_outside_the_machine)",
        "the harness reads the fid structure of Pipefs (path, data, file, dirents) by read-only reflection and the framework's "
        "fid table through the accessors of the verif build tag",
        "while a tree dies on directory reads beyond the listing (reported as x03:server-crash) histories are cut before such a read",
        "the harness is compiled with go1.26.8 against the repository tree; the server runs as the user of the check (root: "
        "permission bits do not refuse anything)",
    ])
