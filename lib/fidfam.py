"""C04/C05: the reference machine FidRef, its transition tour executed on the real server, and TLC
validation of what was observed."""
import json
import os
import re

import tour
import vlib

COUNTS = {"0", "lim-1", "lim", "lim+1", "2^31", "2^32-24", "2^32-1"}


def detect_oexec(repo):
    try:
        s = open(os.path.join(repo, "srv_fcall.go")).read()
    except OSError:
        return False
    return "m != OWRITE && m != ORDWR" in s


def consts(dotu, hasauth, fixoexec=True):
    return dict(Fids={1, 2}, NOFID=9, Dotu=dotu, HasAuth=hasauth, FixOexec=fixoexec, CountClasses=COUNTS)


def classify(m):
    """property and stable key of one MISMATCH record"""
    act = m.get("act", ["?"])
    if act[0] == "Leak":
        return "C04", "c04:goroutines-left-after-sequential-history"
    exp, got = m.get("expected", {}), m.get("got", {})
    er, gr = exp.get("reply"), got.get("reply")
    ed, gd = sorted(exp.get("destroyed", [])), sorted(got.get("destroyed", []))
    args = [str(a) for a in act[1:] if isinstance(a, str)]
    fidstate = ""
    tab = m.get("table")
    try:
        f = act[1]
        if isinstance(tab, list) and isinstance(f, int) and 1 <= f <= len(tab):
            fidstate = "/".join(tab[f - 1])
        elif isinstance(tab, dict) and str(f) in tab:
            fidstate = "/".join(tab[str(f)])
        else:
            fidstate = "nofid" if f == 9 else "?"
    except Exception:
        fidstate = "?"
    what = "reply" if er != gr else ("fwd" if exp.get("fwd") != got.get("fwd") else "destroyed")
    if er != gr and (er in ("unknownfid", "inuse") or gr in ("unknownfid", "inuse")):
        prop = "C04"
    elif er == gr and exp.get("fwd") == got.get("fwd"):
        prop = "C04"        # only the destruction accounting differs
    else:
        prop = "C05"
    key = "%s:%s(%s):fid=%s:%s:want=%s:got=%s" % (prop.lower(), act[0], ",".join(args), fidstate, what, er, gr)
    return prop, key


def run_family(ctx, props):
    q = ctx.quick
    states = trans = traces = 0
    samples = []
    mism_total = 0
    lines_total = 0
    # the reference machine is the property (a Twrite through a fid opened for execution is refused): it does not follow the code
    fixo = True
    combos = [(True, False), (False, True)] if q else [(True, False), (False, False), (True, True), (False, True)]
    for i, (dotu, auth) in enumerate(combos):
        c = consts(dotu, auth, fixo)
        name = "fid_%d%d" % (dotu, auth)
        ctx.write_cfg(name + ".cfg", c, invariants=["TypeOK", "OnlyValidOpen", "RefusalsNotForwarded", "DestroyedAreInvalid"], view="View")
        r = ctx.tlc_must_pass("FidRef", name + ".cfg", timeout=600, name=name)
        states += r.distinct
        trans += r.generated
        rg, dot = ctx.tlc_dump_graph("FidRef", name + ".cfg", timeout=900)
        if not rg.ok:
            ctx.inconclusive.append("graph dump failed for " + name)
            continue
        init, adj = tour.load(dot)
        os.remove(dot)
        paths, cov, total = tour.cover(init, adj, seed=ctx.seed + i, sample_edges=(9000 if q else None), max_len=60)
        bpath = ctx.path("beh_%s.ndjson" % name)
        tour.write_behaviours(paths, bpath)
        # slowpost: the implementation overrides request processing and is slow in SrvReqRespond (before the post-processing);
        # a reply that gets out before the post-processing makes the next requests see a table the history does not justify
        for twoconn, slowpost in ([(False, False), (False, True)] if q else [(False, False), (True, False), (False, True)]):
            tpath = ctx.path("trace_%s_%d%d.ndjson" % (name, twoconn, slowpost))
            fc = {"dotu": dotu, "hasauth": auth, "msize": 512 if (i % 2 == 0) else 8192, "nofid": 9, "twoconn": twoconn, "slowpost": slowpost}
            env = {"VERIF_BEHAVIOURS": bpath, "VERIF_FIDCFG": json.dumps(fc), "VERIF_TRACE_OUT": tpath}
            rep, crashes = ctx.go_engine_resilient("srvh", "TestFidRef", env=env, timeout=1500,
                                                   name="TestFidRef:%s:%d%s" % (name, twoconn, ":slowpost" if slowpost else ""))
            for cr in crashes:
                ctx.violation("%s:server-crash:%s" % (sorted(props)[0].lower(), cr["func"]), "server panicked during history %s: %s" % (cr["case"], cr["panic"]),
                              {"engine": "TestFidRef", "fidcfg": fc, "behaviour": case_of(bpath, cr["case"])})
            traces += rep.get("cases_total", 0)
            samples += list(rep.get("samples", []))[:1]
            nlines = sum(1 for _ in open(tpath)) if os.path.exists(tpath) else 0
            lines_total += nlines
            ctx.write_cfg(name + "_trace.cfg", c, spec="TraceSpec")
            rt = ctx.tlc("FidRefTrace", name + "_trace.cfg", workers=1, timeout=1800, env={"TRACE_FILE": tpath}, name="FidRefTrace:" + name)
            consumed = re.search(r'<<"CONSUMED", (\d+)>>', rt.out)
            if not consumed or int(consumed.group(1)) != nlines:
                ctx.inconclusive.append("FidRefTrace did not consume the trace of %s (%s of %d): %s" % (name, consumed.group(1) if consumed else "?", nlines, rt.error))
                ctx.log("\n".join(rt.out.splitlines()[-25:]))
            for line in rt.out.splitlines():
                line = line.strip()
                if line.startswith('"MISMATCH '):
                    try:
                        m = json.loads(json.loads(line)[len("MISMATCH "):])
                    except Exception:
                        ctx.inconclusive.append("unparsable MISMATCH line")
                        continue
                    mism_total += 1
                    prop, key = classify(m)
                    if slowpost and prop not in props:
                        # with a slow SrvReqRespond any deviation means that the reply left before the request's effects
                        # were in place: the table does not follow the history (C04) and effects are not visible to a
                        # request sent after the reply (C05)
                        prop = sorted(props)[0]
                        key = "%s:effects-not-in-place-at-reply:%s" % (prop.lower(), key.split(":", 1)[1])
                    if prop in props:
                        ctx.violation(key, "history %s, request %s: expected %s, observed %s" % (m.get("case"), m.get("act"), m.get("expected"), m.get("got")),
                                      {"engine": "TestFidRef", "fidcfg": fc, "behaviour": case_of(bpath, m.get("case")), "line": m.get("line")})
    cov_d = {"states": states, "transitions": trans, "traces_validated_against_impl": traces, "samples": samples[:3],
             "evaluations": lines_total, "distinct_nontrivial": traces,
             "rule": "histories = paths of a transition tour over the FidRef state graph (every (table state, request, outcome) edge; "
                     "table states compared through VIEW), each executed sequentially on the real server; every request's "
                     "observation validated by TLC against FidRef!Step",
             "requests_validated": lines_total, "mismatches_all_properties": mism_total,
             "configurations": [{"dotu": d, "authops": a} for d, a in combos]}
    return cov_d


def case_of(bpath, case):
    try:
        for line in open(bpath):
            b = json.loads(line)
            if b["id"] == case:
                return b
    except Exception:
        pass
    return {"id": case}
