#!/usr/bin/env python3
"""Regenerates /verif/MANIFEST.json from the table below (single place to edit)."""
import json, os
V = os.path.dirname(os.path.dirname(os.path.abspath(__file__)))
ALL = ["C%02d" % i for i in range(1, 21)]

def chk(pid, cat, text, note, technique, engine, design):
    return {"property_id": pid, "quick_cmd": "bin/vcheck %s --tier quick" % pid,
            "thorough_cmd": "bin/vcheck %s --tier thorough" % pid,
            "evidence_file": "evidence/%s.json" % pid,
            "replay_cmd_template": "bin/vcheck %s --replay {path}" % pid, "engine": engine,
            "level_claimed": {"category": cat, "text": text, "design_ref": design},
            "level_note": note, "technique": technique}

SRVNOTE = ("Trusted base: TLC, the Srv9P model's abstraction (one action per code segment between verif schedule points; "
           "fid reference counts per fid number), testing/synctest quiescence, the independent codec harness/wire, go1.26.8 compiling "
           "/repo as go1.23.12 does. Bounds: exhaustive for the small constants named in the evidence; beyond them only the seeded runs.")
SRVTECH = ("TLA+/TLC model checking of Srv9P; transition tour of its state graph replayed step by step on the real server under a "
           "deterministic gate controller (synctest); every real execution trace-validated by TLC against Srv9PTrace (abstraction "
           "equality after each step) and judged by the TLA+ monitors Mon9P over the externally observed history")

CHECKS = [
    chk("C03", "model_checking",
        "Srv9P (process/Respond/flush/send/recv at schedule-point grain) is model-checked exhaustively for 2 (thorough: 3) requests "
        "incl. extra and late answers and the reply-buffer pool; every transition of that model is then executed on the real server "
        "(transition tour) and the recorded executions are validated against the model by TLC; larger sessions (up to 70 outstanding "
        "requests) under seeded random schedules. Exactly-one/right-tag/right-content is decided by TLA+ monitors over wire bytes and "
        "the scripted implementation's log. Besides uniform random schedules, 'hold' runs delay one request's goroutine at one "
        "specification action (every hook in turn) until nothing else can happen while the session goes on.", SRVNOTE, SRVTECH, "srv-family", "DESIGN.md 4.1, 5, 6 C03, 12.5"),

    chk("C07", "model_checking",
        "Srv9P flush models (target kinds Attach/Stat/Clunk/Walk, with and without FlushOp, a target still queued behind an older request "
        "of its tag, thorough: flush of a flush and two flushes of one request with 3 requests, 4-request tag groups by simulation) "
        "model-checked for FlushOrder, NoCallAfterCancel, FlushAnswered, CancelLeavesNothing; complete "
        "transition tours of the small flush models replayed on the real server (every interleaving of the flusher's schedule points "
        "with the target's is a path of the graph), executions trace-validated and judged by the TLA+ monitors incl. fid probes after "
        "the Rflush (is the fid known to requests, is its number free); flush-heavy seeded random sessions, also in 'hold' mode "
        "(one goroutine delayed at one specification action per case).", SRVNOTE, SRVTECH, "srv-family", "DESIGN.md 4.1, 6 C07, 12.5"),
    chk("C08", "model_checking",
        "Tag-group models (shared tags, 2-3 requests) model-checked for TagGroupFIFO/NoQueuedForever and, under fairness with one request "
        "held for ever, the liveness property Progress; tours replayed on the real server; then every subset of up to 3 (thorough 6) "
        "requests is held inside the scripted implementation while the others, later ones and a request on a second connection must "
        "complete at exact quiescence (no timeouts), released in every order, Maxpend 0/1/4, with and without shared tags, one request "
        "carrying tag 0xFFFF, and with slow (parked) FidDestroy callbacks as further blocked requests.",
        SRVNOTE, SRVTECH + "; held-set engine with exact quiescence", "srv-family", "DESIGN.md 4.1, 6 C08"),
    chk("C11", "model_checking",
        "Srv9P with ClientClose/CloseEnter/CloseDestroy model-checked (disconnect at every point of every interleaving of 2 requests: "
        "ClosedOnce, NoStuckThread, NoCrash); tour of the close model replayed; disconnect with 0..4 requests blocked in the "
        "implementation released afterwards in every order, mid-frame cuts, a bystander connection; ConnClosed/FidDestroy accounting and "
        "leftover goroutines (exact: goroutines still blocked when the synctest bubble ends) judged by the TLA+ monitors.",
        SRVNOTE + " Disconnects also by oversize/unparsable frames, with FlushOp cancellations, with one goroutine delayed across the "
        "disconnect ('hold'), and with slow callbacks; a crash after the client has gone is judged here too.",
        SRVTECH, "srv-family", "DESIGN.md 4.1, 6 C11, 12.5"),
    chk("C04", "model_checking",
        "FidRef.tla is the property as a sequential reference machine (fid table x request x implementation outcome -> reply class, calls "
        "forwarded, fids destroyed). Its full state graph is covered by a transition tour (every (table state, request, outcome) edge; "
        "quick: a seeded sample), each history executed on the real server with a scripted implementation, one and two connections, both "
        "dialects, with and without AuthOps; TLC validates every observed reply/forwarding/destruction against FidRef!Step. The same "
        "histories are repeated with an implementation that is slow in SrvReqRespond (a reply that leaves before the post-processing "
        "shows). Destruction-before-reply and exactly-once across disconnects: gated sessions with slow callbacks, judged by Mon9P.",
        "Trusted base: TLC, the reading of the property encoded in FidRef (only 'unknown fid' and 'fid already in use' are compared "
        "literally), harness/wire. Table rules on sequential histories; ordering clauses on gated concurrent sessions.",
        "TLA+ reference machine + TLC transition tour executed on the real server + TLC trace validation of the observations",
        "fid-family", "DESIGN.md 4.2, 6 C04"),
    chk("C05", "model_checking",
        "Same machine and engine as C04: the product (fid state) x (request, mode, perm class, count class incl. 2^31 and 2^32-24..2^32-1) is "
        "the edge set of the FidRef graph, covered by the tour; refusal-before-forwarding, exactly-once forwarding with fid/user, effects "
        "visible to the next request (also with the implementation slow in SrvReqRespond), and AuthCheck-before-Attach are validated by "
        "TLC on the observations of the real server; one perm class per special-file bit.",
        "Trusted base as C04. Requests on which the property is silent are not generated (listed in the spec header).",
        "TLA+ reference machine + TLC transition tour executed on the real server + TLC trace validation of the observations",
        "fid-family", "DESIGN.md 4.2, 6 C05"),
    chk("C01", "exploration",
        "spec/Wire9P.tla gives the byte layout of all 27 message types in both dialects and of bare stat records; TLC evaluates the class "
        "product per type x dialect (16k quick / 47k thorough vectors, each also an initial state on which the spec's own consistency "
        "invariant VecOK is checked); every vector is executed on go9p Pack*/SetTag/Unpack/InitRread+SetRreadCount/PackDir/UnpackDir with "
        "byte-for-byte comparison; plus seeded random values against the independent codec, itself cross-checked against every vector.",
        "Trusted base: TLC, Wire9P's layout table (written from the manual), harness/wire. states/transitions in the evidence are vector "
        "counts of one-step graphs, not a transition-system exploration.",
        "TLA+ layout-as-data, TLC vector enumeration (ndjson export), conformance replay on the real codec, independent-codec cross-check",
        "codec", "DESIGN.md 4.5, 6 C01, docs/wire.md"),
    chk("C02", "exploration",
        "TLC enumerates ~11k mutations (every truncation, cut, declared size, type byte, count/length substitution) of canonical packets of "
        "every type x dialect and of bare stat records, each with the verdict of the specification's recogniser Parse; each is decoded by "
        "Unpack/UnpackDir under recover with allocation measured, decoded again with different tails, and on success re-encoded; seeded "
        "random mutants; thorough adds Go native fuzzing with the same oracle (random byte generation is outside the specification).",
        "Trusted base: TLC, Wire9P!Parse, Go runtime allocation statistics (bound 64*len+64KiB).",
        "TLA+ recogniser as oracle, TLC mutation enumeration, conformance replay with panic/allocation/tail-independence/round-trip oracle",
        "codec", "DESIGN.md 4.5, 6 C02, docs/wire.md"),
    chk("C13", "model_checking",
        "RecvLoop.tla transcribes Conn.recv and Clnt.recv (buffer contents as segments, reallocation, advance, version lowering msize) and is "
        "model-checked with scaled constants for both instances (delivered prefix, no zero-length read, no clobbering of delivered "
        "payloads, illegal frames dropped); the recv_* events of real sessions (msize 64..4096, buffers wrapping many times) are validated "
        "by TLC against RecvLoopTrace with the real constants; the same request/reply stream is replayed under every single split, "
        "byte-wise, many-per-write and random splits against the real server and client and compared with the spec's prediction.",
        "Trusted base: TLC, scaled constants for the exhaustive part (real constants only through trace validation), harness/wire.",
        "TLA+/TLC model checking + TLC trace validation of recorded receive-loop events + segmentation sweep against the spec's prediction",
        "recvloop", "DESIGN.md 4.4, 6 C13, docs/recvloop.md"),
    chk("C14", "model_checking",
        "UfsData.tla part A: files as extent lists; operators stating the property and a transcription of the client helper loops; the scaled "
        "state machine is model-checked; TLC computes the boundary case tables for five real msizes (24k cases) and the expectations of "
        "seeded random operation sequences over many open files; all replayed through the real client against real Ufs, both dialects, "
        "compared with the model and with a twin file.",
        "Trusted base: TLC, the twin (os package) as second oracle, runs as uid 0 on the sandbox file system.",
        "TLA+/TLC model checking + TLC-computed case tables replayed through the real client and Ufs + twin-file comparison",
        "ufsdata", "DESIGN.md 4.6, 6 C14, docs/ufsdata.md"),
    chk("C15", "model_checking",
        "UfsData.tla part B: directories as sequences of record sizes under the offset rule; Allowed (the property) and a transcription of "
        "Ufs.Read's window and File.Readdir are model-checked (0..4 entries, every count, restart at 0); the transition tour is replayed on "
        "real directories; larger directories (to several thousand entries, names 1..255, msize 256..64K, both dialects) by exploration, "
        "every reply decoded record by record with the independent decoder and validated by TLC against the size/offset/count trace.",
        "Trusted base: TLC, harness/wire, os.ReadDir. Model-checking evidence covers directories of <= 4-5 entries; larger ones are exploration "
        "(both counts in the evidence).",
        "TLA+/TLC model checking + tour replay on real directories + TLC validation of recorded directory-read traces",
        "ufsdata", "DESIGN.md 4.6, 6 C15, docs/ufsdata.md"),
]
for pid, title in [("C16", "names and metadata (WalkAtomic, WalkPrefix, QidIdentity, StatAgrees)"),
                   ("C17", "mutations (MutationsMirror, FailedCreateRemoveChangesNothing, ErrnoCarried, FidFollowsCreateRename)"),
                   ("C18", "confinement (Confined over the name grammar '..', '.', '', '/', 'a/b', '/abs', '../x' at every depth; canaries)")]:
    CHECKS.append(chk(pid, "model_checking",
        "UfsTree.tla models the host tree (incl. canaries outside the root), POSIX path resolution and the Ufs layer (fids, one action per "
        "request); TLC model-checks " + title + " on small trees; tours/simulated behaviours are executed three ways -- model, the same "
        "operation with the os package on a twin tree, and raw 9P against a real Ufs -- and compared after every step (replies, errno in .u, "
        "qids vs inodes, Rstat vs Lstat, recursive tree comparison, canaries, Tstat probes of every fid); TLC validates the twin log against "
        "the model (a model/twin disagreement is inconclusive, never a violation)." + {
            "C16": " Outside the model: qid, Rstat and directory records of every other kind of host object (FIFO, socket, dangling links, set-id files "
                   "and directories) against os.Lstat in both dialects, again on the same fid after a host-side change and through a longer walk.",
            "C17": " Outside the model: ten permission changes and creates involving set-uid/set-gid through 9P and with the os package on a twin, "
                   "in both dialects.", "C18": ""}[pid],
        "Trusted base: TLC, the twin (os/syscall) as second oracle, harness/wire, uid 0 on the sandbox file system (no permission denials). "
        "Scope guards are listed as assumptions in the evidence.",
        "TLA+/TLC model checking + tour/simulation replay on real Ufs with twin-tree comparison + TLC trace validation of the twin log",
        "ufstree", "DESIGN.md 4.6, 6 " + pid + ", docs/ufstree.md"))
CHECKS += [
    chk("C09", "model_checking",
        "Clnt9P.tla models callers (ReqAlloc, Rpcnb enqueue, hand-off, wait, ReqFree), the receive and send goroutines and an arbitrary "
        "peer at schedule-point grain; OwnReply, DistinctTags, Recycling, FIFOPerTag are model-checked for up to 3 callers / 3 calls each "
        "(incl. a Tag-interface caller); complete transition tours of the healthy-connection graphs are replayed on the real client under a "
        "client-side gate controller with a scripted peer and validated by TLC (Clnt9PTrace); free-running engines cover 1..64 callers, every "
        "reply order for up to 5 calls, arbitrary segmentation and >65 535 consecutive calls (thorough), and a peer that answers after the first bytes of a request taken in segments while the caller packs its next request (what reaches the peer must be the request issued).",
        "Trusted base: TLC, testing/synctest, the scripted peer and harness/wire. The peer answers only requests it has received, each once.",
        "TLA+/TLC model checking + transition-tour replay on the real client under a gate controller + TLC trace validation + free-running "
        "stress with an external payload oracle", "client", "DESIGN.md 4.3, 6 C09, docs/client.md"),
    chk("C10", "model_checking",
        "Clnt9P with six fault kinds (peer close, cut, garbage, oversize, unknown tag, Unmount) at any point: NoHang is TLC's deadlock check, "
        "NoFalseSuccess, CompleteReplyDelivered, NoPanic; the fault graphs are replayed on the real client (every transition of the K=2 graph, "
        "samples of the larger ones) with failures injected at every client schedule point; the reply stream is cut after every byte offset; "
        "a hang is a goroutine still blocked when the synctest bubble ends (exact, no timeouts).",
        "Trusted base as C09. Transports whose Read returns data together with an error are not covered.",
        "TLA+/TLC model checking (deadlock = hang) + fault-graph replay on the real client under a gate controller + TLC trace validation + "
        "cut-at-every-byte sweeps", "client", "DESIGN.md 4.3, 6 C10, docs/client.md"),
    chk("C19", "exploration",
        "The property is defined by the Go race detector, which is the oracle. Work19.tla specifies the workload domain (goroutines on "
        "their own fids, walks from a shared fid, flushes of own requests, quiescent connections opened and dropped) and TLC checks that "
        "every reachable state satisfies the precondition DisjointFids; simulated behaviours of it are expanded into real goroutines "
        "against Ufs through one shared client and against the framework through one raw connection, built -race, with several yield "
        "patterns at the library's schedule points.",
        "Trusted base: the Go race detector (dynamic: only races on executed interleavings are seen); attribution to the library requires "
        "both access stacks in repository files.",
        "TLA+ workload-domain model (TLC simulation for skeletons) + race-detector runs of the expanded workloads on the real code",
        "race", "DESIGN.md 6 C19"),
    chk("C12", "model_checking",
        "Nego.tla models Tversion (min, refusal below IOHDRSZ, dialect only if both asked), later replies packed into fresh or recycled "
        "reply buffers, and announced frame sizes; FrameWithinMsize/MsizeOnlyShrinks/DialectNeedsBoth are model-checked. The grid of server "
        "msize x client msize (24..2^32-1 incl. equal, +-1) x server dialect x version string is executed on the real server; every later "
        "reply frame (large Rstat, 16-qid Rwalk, long Rerror, reads up to the limit) and every announced size 0..2^32-1 is one line that TLC "
        "validates against Nego (NegoTrace), incl. a Tread held inside the implementation across a second Tversion that lowers the msize; "
        "the client's Connect is run against a scripted peer and validated the same way; the Unix file server's Rstat and directory entries for every kind of host object (FIFO, socket, symlinks, set-id files and directories) in both dialects at three msizes are validated as frames too (a plain-9P2000 record carrying a mode bit only 9P2000.u defines counts as not in the dialect).",
        "Trusted base: TLC, harness/wire (dialect of Rerror/Rstat is told by strict decoding in both dialects). Sizes >= 2^31 are clamped in "
        "the TLA+ trace.",
        "TLA+/TLC model checking + grid execution on the real server/client + TLC trace validation of every observed frame",
        "srv-family", "DESIGN.md 6 C12"),
    chk("C06", "exploration",
        "Srv9P with an unconstrained client is model-checked for NoCrash (the crash sites the model knows are unreachable); every edge of the "
        "reference machine FidRef (incl. NOFID, stale and reused fids, counts up to 2^32-1) is executed on the real server; every Wire9P "
        "mutation vector is sent as a frame, plus seeded adversarial sessions (every message type with boundary values, names with '/', "
        "'..', empty and long names, msize from 24), byte-mutated sessions and random bytes, against the scripted implementation and the "
        "Unix file server, plus structured boundary-grid sessions (counts x offsets x fid states after an optional second Tversion) and "
        "msize-ladder sessions (pipelined bursts after repeated Tversions); UfsData!WindowSafe is model-checked for every offset and the "
        "off-rule directory reads of its graph are executed on real directories; after each case a fresh connection and a bystander "
        "connection must still be served.",
        "Trusted base: process-level observation (a panic kills the test binary; the driver attributes it to the case in progress). The "
        "generation of hostile values is seeded Go code, not TLA+.",
        "TLC model checking of NoCrash + spec-derived hostile inputs (FidRef tour, Wire9P mutation vectors) + seeded adversarial sessions "
        "executed on the real server with crash/liveness/bystander oracle", "srv-family", "DESIGN.md 6 C06"),
    chk("C20", "model_checking",
        "Logger.tla (ring, index, buffered channel; the three doLog loops transcribed literally) exhaustively checked for capacities "
        "1..3 (thorough 1..4), <=6/7 Log calls, 2x2 owners/types incl. liveness under WF(Drain) and deadlock; every transition of the "
        "quiescent model replayed on the real go9p.Logger with TLC-predicted Filter answers; seeded random Log/Filter traces "
        "(capacities 1..64, no waiting, several goroutines) validated by TLC against LoggerTrace with inferred silent Drain steps.",
        "Trusted base: TLC, testing/synctest, the trace recorder in harness/logh. Capacities above 4 and long/wrapping/concurrent "
        "histories only by replay and trace validation. Resize is outside C20 (reported as NOTE lines only).",
        "TLA+/TLC model checking + transition-tour replay on the real Logger in synctest bubbles + TLC trace validation of recorded "
        "Log/Filter histories (LoggerTrace) + TLA+ clause monitors", "logger", "DESIGN.md 4.7, 6 C20, docs/logger.md"),
]

def main():
    claimed = {c["property_id"] for c in CHECKS}
    m = {"version": 1, "setup_cmd": "bin/vsetup",
         "hooks": {"guard": "verif",
                   "enable": "go test -tags verif in a scratch copy of /verif/harness whose go.mod replaces github.com/rminnich/go9p => /repo (VERIF_REPO)",
                   "baseline_off_cmd": "cd /repo && GOFLAGS=-mod=mod GOPROXY=off go test -vet=off -count=1 ./...",
                   "source_commits": ["c6647c5", "25462cb"], "add_only": True},
         "engines": [
             {"name": "srv-family", "path": "harness/srvh + spec/Srv9P.tla, Srv9PTrace.tla, Mon9P.tla + lib/srvfam.py",
              "serves_properties": ["C03", "C07", "C08", "C11"],
              "kind_free_text": "gate controller on testing/synctest, scripted implementation, TLC tours/trace validation/monitors"},
             {"name": "fid-family", "path": "harness/srvh (fidref_test.go) + spec/FidRef.tla, FidRefTrace.tla + lib/fidfam.py",
              "serves_properties": ["C04", "C05"], "kind_free_text": "reference machine, tour replay, TLC validation of observations"},
             {"name": "codec", "path": "harness/codec + spec/Wire9P.tla", "serves_properties": ["C01", "C02"],
              "kind_free_text": "TLC-enumerated vectors executed on the real codec"},
             {"name": "recvloop", "path": "harness/recvh + spec/RecvLoop.tla, RecvLoopTrace.tla", "serves_properties": ["C13"],
              "kind_free_text": "segmentation sweeps and receive-loop trace validation"},
             {"name": "ufsdata", "path": "harness/ufsdata + spec/UfsData.tla, UfsDataTrace.tla", "serves_properties": ["C14", "C15"],
              "kind_free_text": "real client + real Ufs on a scratch tree"},
             {"name": "ufstree", "path": "harness/ufstree + spec/UfsTree.tla, UfsTreeTrace.tla", "serves_properties": ["C16", "C17", "C18"],
              "kind_free_text": "raw 9P + twin tree + model"},
             {"name": "client", "path": "harness/clnth + spec/Clnt9P.tla, Clnt9PTrace.tla", "serves_properties": ["C09", "C10"],
              "kind_free_text": "client-side gate controller, scripted peer, scripted net.Conn"},
             {"name": "race", "path": "harness/raceh + spec/Work19.tla", "serves_properties": ["C19"],
              "kind_free_text": "-race builds of workload skeletons"},
             {"name": "logger", "path": "harness/logh + spec/Logger.tla, LoggerTrace.tla", "serves_properties": ["C20"],
              "kind_free_text": "tour replay and recorded-trace validation of go9p.Logger"},
         ],
         "checks": CHECKS,
         "not_applicable": [{"property_id": p, "reason": "check under construction in this session (not yet registered)"}
                            for p in ALL if p not in claimed],
         "notes": "All checks: exit 0 held / 1 VIOLATION / 2 inconclusive. VERIF_SEED selects the random choices; VERIF_REPO (default /repo) the tree."}
    json.dump(m, open(os.path.join(V, "MANIFEST.json"), "w"), indent=1)

if __name__ == "__main__":
    main()
