#!/usr/bin/env python3
"""Regenerates /verif/MANIFEST.json from the table below (single place to edit)."""
import json, os
V = os.path.dirname(os.path.dirname(os.path.abspath(__file__)))
ALL = ["C%02d" % i for i in range(1, 21)]

def chk(pid, cat, text, note, technique, engine, design):
    return {"property_id": pid, "quick_cmd": "bin/vcheck %s --tier quick" % pid,
            "thorough_cmd": "bin/vcheck %s --tier thorough" % pid,
            "evidence_file": "evidence/%s.json" % pid,
            "replay_cmd_template": "bin/vcheck %s --replay {path}" % pid, "engine": engine,
            "level_claimed": {"category": cat, "text": text, "design_ref": design},
            "level_note": note, "technique": technique}

SRVNOTE = ("Trusted base: TLC, the Srv9P model's abstraction (one action per code segment between verif schedule points; "
           "fid reference counts per fid number), testing/synctest quiescence, the independent codec harness/wire, go1.26.8 compiling "
           "/repo as go1.23.12 does. Bounds: exhaustive for the small constants named in the evidence; beyond them only the seeded runs.")
SRVTECH = ("TLA+/TLC model checking of Srv9P; transition tour of its state graph replayed step by step on the real server under a "
           "deterministic gate controller (synctest); every real execution trace-validated by TLC against Srv9PTrace (abstraction "
           "equality after each step) and judged by the TLA+ monitors Mon9P over the externally observed history")

CHECKS = [
    chk("C03", "model_checking",
        "Srv9P (process/Respond/flush/send/recv at schedule-point grain) is model-checked exhaustively for 2 (thorough: 3) requests "
        "incl. extra and late answers and the reply-buffer pool; every transition of that model is then executed on the real server "
        "(transition tour) and the recorded executions are validated against the model by TLC; larger sessions (up to 70 outstanding "
        "requests) under seeded random schedules. Exactly-one/right-tag/right-content is decided by TLA+ monitors over wire bytes and "
        "the scripted implementation's log.", SRVNOTE, SRVTECH, "srv-family", "DESIGN.md 4.1, 5, 6 C03"),
    chk("C20", "model_checking",
        "Logger.tla (ring, index, buffered channel; the three doLog loops transcribed literally) exhaustively checked for capacities "
        "1..3 (thorough 1..4), <=6/7 Log calls, 2x2 owners/types incl. liveness under WF(Drain) and deadlock; every transition of the "
        "quiescent model replayed on the real go9p.Logger with TLC-predicted Filter answers; seeded random Log/Filter traces "
        "(capacities 1..64, no waiting, several goroutines) validated by TLC against LoggerTrace with inferred silent Drain steps.",
        "Trusted base: TLC, testing/synctest, the trace recorder in harness/logh. Capacities above 4 and long/wrapping/concurrent "
        "histories only by replay and trace validation. Resize is outside C20 (reported as NOTE lines only).",
        "TLA+/TLC model checking + transition-tour replay on the real Logger in synctest bubbles + TLC trace validation of recorded "
        "Log/Filter histories (LoggerTrace) + TLA+ clause monitors", "logger", "DESIGN.md 4.7, 6 C20, docs/logger.md"),
]

def main():
    claimed = {c["property_id"] for c in CHECKS}
    m = {"version": 1, "setup_cmd": "bin/vsetup",
         "hooks": {"guard": "verif",
                   "enable": "go test -tags verif in a scratch copy of /verif/harness whose go.mod replaces github.com/rminnich/go9p => /repo (VERIF_REPO)",
                   "baseline_off_cmd": "cd /repo && GOFLAGS=-mod=mod GOPROXY=off go test -vet=off -count=1 ./...",
                   "source_commits": ["c6647c5", "25462cb"], "add_only": True},
         "engines": [
             {"name": "srv-family", "path": "harness/srvh + spec/Srv9P.tla, Srv9PTrace.tla, Mon9P.tla + lib/srvfam.py",
              "serves_properties": ["C03", "C07", "C08", "C11"],
              "kind_free_text": "gate controller on testing/synctest, scripted implementation, TLC tours/trace validation/monitors"},
             {"name": "logger", "path": "harness/logh + spec/Logger.tla, LoggerTrace.tla", "serves_properties": ["C20"],
              "kind_free_text": "tour replay and recorded-trace validation of go9p.Logger"},
         ],
         "checks": CHECKS,
         "not_applicable": [{"property_id": p, "reason": "check under construction in this session (not yet registered)"}
                            for p in ALL if p not in claimed],
         "notes": "All checks: exit 0 held / 1 VIOLATION / 2 inconclusive. VERIF_SEED selects the random choices; VERIF_REPO (default /repo) the tree."}
    json.dump(m, open(os.path.join(V, "MANIFEST.json"), "w"), indent=1)

if __name__ == "__main__":
    main()
