"""Shared pipeline of the server family (C03 C07 C08 C11): Srv9P model checking, behaviour generation
(transition tours / simulation), replay on the real server under the gate controller, TLC trace
validation (Srv9PTrace) and TLC evaluation of the property monitors (Mon9P) over the external
history of the real executions."""
import json
import os
import re

import tour
import vlib

NOFID = 4294967295

# Constants describing the code as it is in /repo now.  A Fix* flag is TRUE when the corresponding
# repair is present in the tree; detect_fixes() reads the source so that the model follows the code
# (a model that assumed a fix the code lacks would only produce drift, never a false alarm, but the
# exhaustive TLC run is only meaningful for the model of the actual code).
def detect_fixes(repo):
    def src(name):
        try:
            return open(os.path.join(repo, name)).read()
        except OSError:
            return ""
    srv = src("srv_srv.go")
    conn = src("srv_conn.go")
    fc = src("srv_fcall.go")
    m = re.search(r"if flushed \{\s*req\.Respond\(\)\s*(return)?", srv)
    fallthrough = bool(m and m.group(1))
    stale = bool(re.search(r"Rc\.Type\s*=\s*0", conn)) or bool(re.search(r"Rc\.Type\s*=\s*0", srv))
    close = "close(conn.done)" in conn
    i_enq = srv.find("conn.reqout <- req")
    i_del = srv.find("delete(conn.reqs, req.Tc.Tag)")
    order = 0 <= i_enq < i_del
    chain = "flushnext" in srv
    boundfix = "func (fid *SrvFid) bind()" in srv
    pending = bool(re.search(r"if fid\.pending \{", srv))
    return {"FixFallthrough": fallthrough, "FixStale": stale, "FixClose": close, "FixOrder": order, "FixChain": chain,
            "FixBound": boundfix, "FixPending": pending,
            "FixQueued": bool(re.search(r"queued\s*:?=\s*r\.next != nil", fc)),
            "FixAppend": "p.flushnext = req.flushreq" in srv}


BASE = dict(NReq=2, Tags={1, 2}, Fids={1}, Kinds={"Stat", "Flush"}, FixFallthrough=False, FixStale=False,
            FixClose=False, FixOrder=False, FixChain=False, FixBound=False, FixPending=False, FixQueued=False, FixAppend=False, SharedTags=False, HasFlushOp=False, Extra=False, Late=False, PoolCap=4, Maxpend=0,
            InitFids={1}, CanClose=False, Held=set(), NoTag=0)


def consts(ctx, **over):
    c = dict(BASE)
    c.update(detect_fixes(ctx.repo))
    c.update(over)
    c["PoolCap"] = max(c.get("PoolCap", 0), c["NReq"] + 1)
    return c


def harness_cfg(c, handshake=True, bystander=False, processops=False):
    return {"NT": max(c["Tags"]), "NF": max(c["Fids"]), "HasFlushOp": c["HasFlushOp"],
            "InitFids": sorted(c["InitFids"]), "Maxpend": c["Maxpend"], "Dotu": True, "Handshake": handshake,
            "Bystander": bystander, "FixClose": bool(c.get("FixClose")), "ProcessOps": processops, "NoTag": int(c.get("NoTag", 0) or 0)}


def normalise_ext(src, dst):
    """Rewrite the external trace to the fixed schema Mon9P expects (TLC needs uniform records and
    32-bit integers)."""
    def fid(v):
        if v is None or v == NOFID:
            return -1
        return int(v)
    n = 0
    with open(src) as f, open(dst, "w") as g:
        for line in f:
            line = line.strip()
            if not line:
                continue
            e = json.loads(line)
            ev = e.get("ev")
            if e.get("c", 0) not in (0, None) and ev not in ("reset",):
                continue      # traffic and callbacks of the bystander connection are judged in the harness
            parked = e.get("parked") or []
            held = e.get("held")
            if held is None:
                held = [int(p.split(":")[1]) for p in parked if p.startswith("impl:")]
            ename = e.get("ename", "") or ""
            o = {"ev": ev, "case": int(e.get("case", 0)), "c": int(e.get("c", 0)), "n": int(e.get("n", 0)),
                 "tag": int(e.get("tag", 0)), "type": e.get("type", ""), "fid": fid(e.get("fid")),
                 "newfid": fid(e.get("newfid")), "afid": fid(e.get("afid")), "oldtag": int(e.get("oldtag", 0)),
                 "payload": int(e.get("payload", 0)) if int(e.get("payload", 0)) < 2**31 else -2,
                 "fw": bool(ev == "R" and e.get("type") == "Rerror" and not re.fullmatch(r"E\d+", ename)),
                 "bad": e.get("bad", "") or "", "out": e.get("out", "") or "", "op": e.get("op", "") or "",
                 "parked": [p for p in parked if not p.startswith("impl:")], "held": held,
                 "valid": bool(e.get("valid", False)), "ok": bool(e.get("ok", True)), "initial": bool(e.get("initial", False)), "closed": bool(e.get("closed", False)),
                 "what": re.sub(r"[^A-Za-z0-9 _.:,/()-]+", " ", (e.get("what", "") or ""))[:200]}
            g.write(json.dumps(o) + "\n")
            n += 1
    return n


_verdict = re.compile(r'^"VERDICT <<(-?\d+), \\"(C\d+)\\", \\"([^"\\]*)\\", (.*)>>"\s*$')
_reject = re.compile(r'^<<"REJECT", (-?\d+), (\d+), "([^"]*)", (.*)>>\s*$')


def run_monitor(ctx, ext_path, name="Mon9P"):
    """TLC evaluates the monitors over the external history; returns list of (case, prop, kind, detail)."""
    norm = ext_path + ".norm"
    nlines = normalise_ext(ext_path, norm)
    ctx.write_cfg("Mon9P_run.cfg", {}, spec="Spec")
    # write_cfg emits an empty CONSTANTS section, which TLC accepts
    r = ctx.tlc("Mon9P", "Mon9P_run.cfg", workers=1, timeout=1800, env={"EXT_FILE": norm}, name=name)
    out = []
    for line in r.out.splitlines():
        m = _verdict.match(line.strip())
        if m:
            out.append((int(m.group(1)), m.group(2), m.group(3), m.group(4)))
    kinds = {}
    for (_, pr, kd, _) in out:
        kinds["%s:%s" % (pr, kd)] = kinds.get("%s:%s" % (pr, kd), 0) + 1
    if kinds:
        ctx.log("monitor verdicts (all properties) in %s: %s" % (name, kinds))
    consumed = re.search(r'<<"CONSUMED", (\d+)>>', r.out)
    if not consumed or int(consumed.group(1)) != nlines:
        ctx.inconclusive.append("Mon9P did not consume the whole external trace (%s of %d lines): %s" % (
            consumed.group(1) if consumed else "?", nlines, r.error or r.violated))
        ctx.log("\n".join(r.out.splitlines()[-30:]))
    return out, nlines


def run_trace_validation(ctx, trace_path, c, name="Srv9PTrace"):
    """TLC validates the internal traces against Srv9P; returns (rejects, lines)."""
    nlines = sum(1 for _ in open(trace_path))
    tc = dict(c)
    tc["Extra"] = True
    tc["Late"] = True
    tc["CanClose"] = True
    nmax = tc["NReq"]
    ctx.write_cfg("Srv9PTrace_run.cfg", tc, spec="TraceSpec")
    r = ctx.tlc("Srv9PTrace", "Srv9PTrace_run.cfg", workers=1, timeout=1800, env={"TRACE_FILE": trace_path}, name=name)
    rejects = []
    for line in r.out.splitlines():
        m = _reject.match(line.strip())
        if m:
            rejects.append((int(m.group(1)), int(m.group(2)), m.group(3), m.group(4)))
    for line in r.out.splitlines():
        if line.startswith('"REJECT-STATE') and len(getattr(ctx, "reject_states", [])) < 5:
            ctx.__dict__.setdefault("reject_states", []).append(line[:1500])
    consumed = re.search(r'<<"CONSUMED", (\d+)>>', r.out)
    if not consumed or int(consumed.group(1)) != nlines:
        ctx.inconclusive.append("Srv9PTrace did not consume the whole trace (%s of %d lines): %s" % (
            consumed.group(1) if consumed else "?", nlines, r.error or r.violated))
        ctx.log("\n".join(r.out.splitlines()[-30:]))
    return rejects, nlines


def behaviours_tour(ctx, c, tag, sample_edges=None, max_paths=None, max_edges=600000, known_size=None):
    """Exhaustive graph of config c, transition tour over it.  Returns (paths, covered, total, TLCResult)."""
    cfg = "Srv9P_%s_graph.cfg" % tag
    ctx.write_cfg(cfg, c, spec="Spec")
    # guard: a dumped graph costs ~1 KB per edge on disk; measure the model first
    pre = known_size if known_size is not None else ctx.tlc("Srv9P", cfg, timeout=900, name=cfg + ":size")
    if not pre.ok or pre.generated > max_edges:
        ctx.inconclusive.append("state graph of %s too large for a transition tour (%d transitions)" % (tag, pre.generated))
        return [], 0, 0, pre
    r, dot = ctx.tlc_dump_graph("Srv9P", cfg, timeout=1500)
    if not r.ok:
        ctx.inconclusive.append("graph dump of %s failed: %s" % (tag, r.error or r.violated))
        return [], 0, 0, r
    init, adj = tour.load(dot)
    paths, cov, total = tour.cover(init, adj, seed=ctx.seed, sample_edges=sample_edges, limit_paths=max_paths)
    os.remove(dot)
    return paths, cov, total, r


def behaviours_sim(ctx, c, tag, num, depth):
    cfg = "Srv9P_%s_sim.cfg" % tag
    ctx.write_cfg(cfg, c, spec="Spec")
    base = ctx.path("sim_%s" % tag)
    r = ctx.tlc_simulate("Srv9P", cfg, num=num, depth=depth, extra=["-simulate", "file=%s,num=%d" % (base, num)])
    files = []
    d = os.path.dirname(base)
    for f in os.listdir(d):
        if f.startswith(os.path.basename(base) + "_"):
            files.append(os.path.join(d, f))
    bs = tour.behaviours_from_sim(sorted(files))
    for f in files:
        os.remove(f)
    return bs, r


def replay(ctx, paths, c, tag, engine="TestReplay", extra_env=None, id_base=0):
    """Replay behaviours on the real server.  Returns (report, trace_path, ext_path)."""
    bpath = ctx.path("beh_%s.ndjson" % tag)
    with open(bpath, "w") as f:
        for i, p in enumerate(paths):
            f.write(json.dumps({"id": id_base + i + 1, "steps": [[a] + list(args) for a, args in p]}) + "\n")
    tpath = ctx.path("trace_%s.ndjson" % tag)
    epath = ctx.path("ext_%s.ndjson" % tag)
    env = {"VERIF_BEHAVIOURS": bpath, "VERIF_CFG": json.dumps(harness_cfg(c)), "VERIF_TRACE_OUT": tpath,
           "VERIF_EXT_OUT": epath}
    if extra_env:
        env.update(extra_env)
    rep, crashes = ctx.go_engine_resilient("srvh", engine, env=env, ext_out=epath, timeout=1500, name="%s:%s" % (engine, tag))
    return rep, tpath, epath, bpath


def random_run(ctx, c, rc, tag, id_base, processops=False):
    """Seeded random sessions/schedules on the real server.  Returns (report, trace, ext, behaviours)."""
    tpath = ctx.path("trace_%s.ndjson" % tag)
    epath = ctx.path("ext_%s.ndjson" % tag)
    bpath = ctx.path("beh_%s.ndjson" % tag)
    env = {"VERIF_CFG": json.dumps(harness_cfg(c, processops=processops)), "VERIF_RAND": json.dumps(rc), "VERIF_TRACE_OUT": tpath,
           "VERIF_EXT_OUT": epath, "VERIF_BEH_OUT": bpath, "VERIF_ID_BASE": str(id_base)}
    rep, crashes = ctx.go_engine_resilient("srvh", "TestRandom", env=env, ext_out=epath, timeout=1500, name="TestRandom:%s" % tag)
    return rep, tpath, epath, bpath


def case_replay(bpath, case_id):
    """The behaviour of a case, for the replay file of a violation."""
    try:
        with open(bpath) as f:
            for line in f:
                b = json.loads(line)
                if b["id"] == case_id:
                    return b
    except OSError:
        pass
    return {"id": case_id}


def inflight_at_close(ext_path):
    """Per case: the T-message types unanswered when the client disconnected (for C11 keys)."""
    out = {}
    if not ext_path or not os.path.exists(ext_path):
        return out
    case = None
    pend = []
    with open(ext_path) as f:
        for line in f:
            e = json.loads(line)
            ev = e.get("ev")
            if ev == "reset":
                case = e.get("case")
                pend = []
            elif ev == "T" and e.get("c", 0) == 0:
                pend.append([e.get("tag"), e.get("type")])
            elif ev == "R" and e.get("c", 0) == 0:
                for p in pend:
                    if p[0] == e.get("tag"):
                        pend.remove(p)
                        break
            elif ev == "cclose" and e.get("c", 0) == 0:
                out[case] = "+".join(sorted(set(p[1] for p in pend))) or "none"
    return out


def report_verdicts(ctx, verdicts, props, bpath, c, engine, ext_path=None):
    """Register monitor verdicts of the given properties as violations of the running check."""
    n = 0
    infl = inflight_at_close(ext_path) if "C11" in props else {}
    for (case, prop, kind, detail) in verdicts:
        if prop not in props:
            continue
        n += 1
        key = "%s:%s:%s" % (prop, kind, classify_detail(kind, detail))
        if prop == "C11":
            key += "inflight=" + infl.get(case, "?")
        ctx.violation(key, "%s %s (case %d of %s)" % (kind, detail, case, engine),
                      {"engine": engine, "config": harness_cfg(c), "constants": {k: (sorted(v) if isinstance(v, (set, frozenset)) else v) for k, v in c.items()},
                       "behaviour": case_replay(bpath, case)})
    return n


def classify_detail(kind, detail):
    """A stable, schedule-independent classification of a verdict for known-findings matching: the
    message types involved, not request numbers or tags."""
    types = sorted(set(re.findall(r'([TR][a-z]+)\\?"', detail)))
    return ",".join(types)


def replay_file(ctx, props):
    """vcheck --replay: re-execute the recorded behaviour of a violation on the current tree."""
    ctx.replay_handled = True
    d = json.load(open(ctx.replay))
    rp = d["replay"]
    c = dict(rp["constants"])
    for k, v in list(c.items()):
        if isinstance(v, list):
            c[k] = set(v)
    c.update(detect_fixes(ctx.repo))
    b = rp["behaviour"]
    steps = b.get("steps", [])
    paths = [[(st[0], st[1:]) for st in steps]]
    hc = rp.get("config", {})
    bpath = ctx.path("beh_replay.ndjson")
    with open(bpath, "w") as f:
        f.write(json.dumps({"id": 1, "steps": steps}) + "\n")
    tpath = ctx.path("trace_replay.ndjson")
    epath = ctx.path("ext_replay.ndjson")
    cfg = harness_cfg(c, bystander=bool(hc.get("Bystander")))
    env = {"VERIF_BEHAVIOURS": bpath, "VERIF_CFG": json.dumps(cfg), "VERIF_TRACE_OUT": tpath, "VERIF_EXT_OUT": epath}
    ctx.go_engine_resilient("srvh", "TestReplay", env=env, ext_out=epath, timeout=300, name="TestReplay:replay")
    verdicts, _ = run_monitor(ctx, epath)
    report_verdicts(ctx, verdicts, props, bpath, c, "TestReplay", ext_path=epath)
    if os.environ.get("VERIF_SHOW"):
        print(open(epath).read())
    cov = {"states": 1, "transitions": 1, "traces_validated_against_impl": 1, "samples": [steps[:40]],
           "evaluations": 1, "distinct_nontrivial": 2, "rule": "replay of one recorded behaviour", "replay_of": d.get("key")}
    # a replay must not overwrite the evidence of the last real run
    ev = os.path.join(vlib.VERIF, "evidence", "%s.json" % ctx.prop)
    keep = open(ev).read() if os.path.exists(ev) else None
    code = ctx.finish("model_checking", cov, assumptions=["replay"])
    if keep is not None:
        open(ev, "w").write(keep)
    return code


def binding_selftest(ctx, trace_path, ext_path, c):
    """Demonstrates that the binding has teeth (DESIGN 5.7): a recorded trace with ONE field corrupted must be rejected by
    Srv9PTrace, and an external history with ONE reply duplicated must produce a C03 verdict.  Returns a dict for the
    evidence; a self-test that does not fire makes the check inconclusive (the machinery would be blind)."""
    out = {}
    # 1. corrupt one status bit of one post-state in the first case
    lines = []
    with open(trace_path) as f:
        for line in f:
            lines.append(line)
            if len(lines) >= 400:
                break
    # cut at a case boundary
    last_reset = max(i for i, l in enumerate(lines) if '"Reset"' in l)
    if last_reset > 0:
        lines = lines[:last_reset]
    done = False
    for i, l in enumerate(lines):
        e = json.loads(l)
        rq = (e.get("post") or {}).get("rq")
        if e.get("act") not in (None, "Reset") and rq:
            rq[0][2] = not rq[0][2]          # the responded bit of request 1
            lines[i] = json.dumps(e) + "\n"
            done = True
            break
    cp = ctx.path("selftest_trace.ndjson")
    open(cp, "w").writelines(lines)
    rj, n = run_trace_validation(ctx, cp, c, name="selftest:corrupted-trace")
    out["corrupted_trace_rejected"] = bool(done and rj)
    if not out["corrupted_trace_rejected"]:
        ctx.inconclusive.append("binding self-test: a trace with a corrupted status bit was not rejected by Srv9PTrace")
    # 2. duplicate the first R event of the external history
    elines = []
    with open(ext_path) as f:
        for line in f:
            elines.append(line)
            if len(elines) >= 300:
                break
    last_reset = max(i for i, l in enumerate(elines) if '"reset"' in l)
    if last_reset > 0:
        elines = elines[:last_reset]
    for i, l in enumerate(elines):
        if '"ev":"R"' in l.replace(" ", ""):
            elines.insert(i + 1, l)
            break
    ep = ctx.path("selftest_ext.ndjson")
    open(ep, "w").writelines(elines)
    vd, _ = run_monitor(ctx, ep, name="selftest:duplicated-reply")
    out["duplicated_reply_flagged"] = any(v[1] == "C03" and v[2] in ("second-reply", "reply-without-request") for v in vd)
    if not out["duplicated_reply_flagged"]:
        ctx.inconclusive.append("binding self-test: a duplicated reply in the external history was not flagged by Mon9P")
    return out
