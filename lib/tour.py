"""Transition tours of a TLC state graph dumped with `-dump dot,actionlabels`.

Only node ids and edge labels are read (no state parsing).  cover() returns a list of paths from
the initial state (each a list of (action, args)) that together traverse every edge of the graph."""
import collections
import json
import random
import re
import sys

sys.path.insert(0, __file__.rsplit("/", 1)[0])
from vlib import parse_tla_value

_edge = re.compile(r'^(-?\d+) -> (-?\d+) \[label="((?:[^"\\]|\\.)*)"')
_node = re.compile(r'^(-?\d+) \[label=')


def parse_label(lbl):
    lbl = lbl.replace('\\"', '"').replace("\\\\", "\\")
    m = re.match(r"\s*([A-Za-z_][A-Za-z0-9_]*)\s*(?:\((.*)\))?\s*$", lbl, re.S)
    if not m:
        return lbl, []
    args = []
    if m.group(2) is not None and m.group(2).strip():
        args = parse_tla_value("<<" + m.group(2) + ">>")
    return m.group(1), args


def load(dot_path):
    """Returns (init_node, adj) with adj[u] = list of (v, label_string)."""
    adj = collections.defaultdict(list)
    init = None
    with open(dot_path, errors="replace") as f:
        for line in f:
            m = _edge.match(line)
            if m:
                u, v, lbl = m.group(1), m.group(2), m.group(3)
                if u == v and not lbl:
                    continue
                adj[u].append((v, lbl))
                continue
            if init is None:
                m = _node.match(line)
                if m and "style = filled" in line[-40:]:
                    init = m.group(1)
    if init is None:
        raise ValueError("no initial node in %s" % dot_path)
    return init, adj


def cover(init, adj, seed=1, max_len=400, limit_paths=None, sample_edges=None):
    """Greedy edge cover.  If sample_edges is given, only that many (seeded-random) edges are
    required to be covered (quick tier); the count of covered edges is returned with the paths."""
    rng = random.Random(seed)
    # BFS parents for shortest paths
    parent = {init: None}
    q = collections.deque([init])
    while q:
        u = q.popleft()
        for i, (v, _) in enumerate(adj.get(u, ())):
            if v not in parent:
                parent[v] = (u, i)
                q.append(v)
    all_edges = [(u, i) for u in adj for i in range(len(adj[u])) if u in parent]
    total = len(all_edges)
    if sample_edges is not None and sample_edges < total:
        need = set(rng.sample(all_edges, sample_edges))
    else:
        need = set(all_edges)
    covered = set()
    paths = []

    def path_to(u):
        seq = []
        while parent[u] is not None:
            pu, i = parent[u]
            seq.append((pu, i))
            u = pu
        seq.reverse()
        return seq

    order = list(need)
    rng.shuffle(order)
    # prefer deep edges first so that shallow ones get covered on the way
    for (u, i) in order:
        if (u, i) in covered:
            continue
        seq = path_to(u) + [(u, i)]
        cur = adj[u][i][0]
        # greedy continuation over needed, uncovered edges
        onpath = set(seq)
        while len(seq) < max_len:
            cands = [j for j in range(len(adj.get(cur, ()))) if (cur, j) in need and (cur, j) not in covered and (cur, j) not in onpath]
            if not cands:
                break
            j = rng.choice(cands)
            seq.append((cur, j))
            onpath.add((cur, j))
            cur = adj[cur][j][0]
        for e in seq:
            covered.add(e)
        paths.append([parse_label(adj[a][b][1]) for (a, b) in seq])
        if limit_paths and len(paths) >= limit_paths:
            break
    return paths, len(covered), total


def write_behaviours(paths, out_path):
    with open(out_path, "w") as f:
        for i, p in enumerate(paths):
            f.write(json.dumps({"id": i + 1, "steps": [[a] + list(args) for a, args in p]}) + "\n")


_simstep = re.compile(r"^\\\* <([A-Za-z_][A-Za-z0-9_]*)(?:\((.*)\))? line \d+")


def behaviours_from_sim(files):
    """Action sequences from `tlc -simulate file=...` outputs."""
    out = []
    for fp in files:
        steps = []
        with open(fp, errors="replace") as f:
            for line in f:
                m = _simstep.match(line)
                if not m or m.group(1) == "Init":
                    continue
                args = parse_tla_value("<<" + m.group(2) + ">>") if m.group(2) else []
                steps.append((m.group(1), args))
        if steps:
            out.append(steps)
    return out


if __name__ == "__main__":
    init, adj = load(sys.argv[1])
    paths, cov, total = cover(init, adj, seed=int(sys.argv[3]) if len(sys.argv) > 3 else 1)
    write_behaviours(paths, sys.argv[2])
    print("paths=%d covered=%d/%d steps=%d" % (len(paths), cov, total, sum(len(p) for p in paths)))
