"""Common machinery for /verif checks: scratch space, TLC, Go harness, verdicts, evidence.

Every check is `lib/checks/cNN.py` with `run(ctx)`.  A check
  * runs TLC on its specification(s) (ctx.tlc / ctx.tlc_simulate / ctx.tlc_trace_validate),
  * runs one or more Go engines against the repository's *current working tree*
    (ctx.go_engine), which report cases, samples and violations as JSON,
  * registers violations (ctx.violation), which are classified against
    /verif/known_findings.json,
  * and finishes with ctx.finish(...) which writes /verif/evidence/<id>.json,
    prints KNOWN-FINDING / VIOLATION lines and chooses the exit code
    (0 held, 1 unlisted violation, 2 inconclusive).
"""
import hashlib
import json
import os
import re
import shutil
import subprocess
import sys
import tempfile
import time

VERIF = os.path.dirname(os.path.dirname(os.path.abspath(__file__)))
REPO = os.environ.get("VERIF_REPO", "/repo")
TLA_JAR = "/opt/veriftools/tla/tla2tools.jar"
COMMUNITY = "/opt/veriftools/tla/CommunityModules-deps.jar"
NCPU = os.cpu_count() or 4


def _community_cp():
    d = "/opt/veriftools/tla"
    jars = [TLA_JAR]
    if os.path.isdir(d):
        for f in sorted(os.listdir(d)):
            if f.endswith(".jar") and f != "tla2tools.jar":
                jars.append(os.path.join(d, f))
    return ":".join(jars)


def tla_lit(v):
    """Python value -> TLA+ literal for a .cfg file (bool, int, str, set/frozenset, list/tuple)."""
    if isinstance(v, bool):
        return "TRUE" if v else "FALSE"
    if isinstance(v, int):
        return str(v)
    if isinstance(v, str):
        return '"%s"' % v
    if isinstance(v, (set, frozenset)):
        return "{" + ", ".join(tla_lit(x) for x in sorted(v, key=lambda x: (str(type(x)), x))) + "}"
    if isinstance(v, (list, tuple)):
        return "<<" + ", ".join(tla_lit(x) for x in v) + ">>"
    raise ValueError(v)


class Inconclusive(Exception):
    pass


class TLCResult:
    def __init__(self):
        self.ok = False            # finished without violation or error
        self.violated = None       # name of violated invariant/property (or "deadlock")
        self.error = None          # other error text
        self.generated = 0
        self.distinct = 0
        self.depth = 0
        self.out = ""
        self.trace = []            # list of (action label, state text) for counterexamples
        self.coverage_zero = []    # action names never taken (with -coverage)
        self.wall = 0.0
        self.exit = None

    def summary(self):
        return {"ok": self.ok, "violated": self.violated, "generated": self.generated,
                "distinct": self.distinct, "depth": self.depth, "wall_s": round(self.wall, 2)}


def parse_tlc_output(out, res):
    m = None
    for m in re.finditer(r"(\d+) states generated, (\d+) distinct states found", out):
        pass
    if m:
        res.generated = int(m.group(1))
        res.distinct = int(m.group(2))
    m = re.search(r"The depth of the complete state graph search is (\d+)", out)
    if m:
        res.depth = int(m.group(1))
    m = re.search(r"Invariant (\S+) is violated", out)
    if m:
        res.violated = m.group(1)
    m2 = re.search(r"Action property (\S+) is violated", out)
    if m2:
        res.violated = m2.group(1)
    if "Temporal properties were violated" in out:
        res.violated = res.violated or "temporal"
    if re.search(r"Deadlock reached", out):
        res.violated = "deadlock"
    m3 = re.search(r"Postcondition .* is false|Evaluating postcondition .* failed|The postcondition", out)
    if m3 and "false" in out[m3.start():m3.start() + 200]:
        res.violated = res.violated or "postcondition"
    if re.search(r"Assumption .* is false", out):
        res.violated = res.violated or "assumption"
    # counterexample trace
    for sm in re.finditer(r"State (\d+): <([^>\n]*)>\n(.*?)(?=\n\s*\n|\nState \d+:|\Z)", out, re.S):
        label = sm.group(2).strip()
        res.trace.append((label, sm.group(3).strip()))
    if res.violated is None:
        em = re.search(r"Error: (.*)", out)
        if em and "Model checking completed. No error has been found" not in out:
            res.error = em.group(1)[:500]
    if "No error has been found" in out or (res.violated is None and res.error is None
                                             and "Finished in" in out):
        res.ok = res.violated is None and res.error is None


class Ctx:
    def __init__(self, prop, tier, seed, replay=None):
        self.prop = prop
        self.tier = tier
        self.seed = seed
        self.replay = replay
        self.t0 = time.time()
        self.repo = REPO
        self.scratch = tempfile.mkdtemp(prefix="verif-%s-" % prop.lower(), dir=os.environ.get("VERIF_SCRATCH_BASE", "/var/tmp"))
        self.violations = []      # dicts {key, what, replay}
        self.inconclusive = []    # strings
        self.notes = []
        self.tlc_runs = []
        self.engine_runs = []
        self._harness_bin = {}
        self._kf = None
        self.quick = tier == "quick"
        self.replay_key = None
        self.replay_handled = False      # set by checks that re-execute the recorded case themselves
        if replay:
            # default replay: re-run the (deterministic, seeded) check with the recorded seed and tier and keep only
            # the recorded violation
            try:
                d = json.load(open(replay))
                self.seed = int(d.get("seed", seed))
                self.tier = d.get("tier", tier)
                self.quick = self.tier == "quick"
                self.replay_key = d.get("key")
            except Exception:
                pass

    # ------------------------------------------------------------ utilities
    def log(self, *a):
        print("[%s %6.1fs]" % (self.prop, time.time() - self.t0), *a, flush=True)

    def path(self, *p):
        return os.path.join(self.scratch, *p)

    def cleanup(self):
        if os.environ.get("VERIF_KEEP"):
            self.log("scratch kept at", self.scratch)
            return
        shutil.rmtree(self.scratch, ignore_errors=True)

    # ------------------------------------------------------------ TLC
    def _spec_dir(self):
        d = self.path("spec")
        if not os.path.isdir(d):
            shutil.copytree(os.path.join(VERIF, "spec"), d)
        return d

    def tlc(self, module, cfg, workers=None, timeout=600, extra=None, env=None, jvm=None,
            deadlock=None, name=None, expect_violation=False, heap=None):
        """Run TLC on spec/<module>.tla with spec/<cfg> in a scratch copy. Returns TLCResult."""
        d = self._spec_dir()
        workers = workers or NCPU
        meta = tempfile.mkdtemp(prefix="meta-", dir=self.scratch)
        cmd = ["java", "-XX:+UseParallelGC", "-Xss64m"]
        if heap:
            cmd.append("-Xmx%s" % heap)
        else:
            cmd.append("-Xmx12g")
        if jvm:
            cmd += jvm
        cmd += ["-cp", _community_cp(), "tlc2.TLC", "-metadir", meta, "-workers", str(workers),
                "-config", cfg, "-noGenerateSpecTE"]
        if deadlock is False:
            cmd.append("-deadlock")   # -deadlock = do NOT check deadlock
        if extra:
            cmd += extra
        cmd.append(module)
        e = dict(os.environ)
        if env:
            e.update(env)
        res = TLCResult()
        t = time.time()
        try:
            p = subprocess.run(cmd, cwd=d, env=e, stdout=subprocess.PIPE, stderr=subprocess.STDOUT,
                               timeout=timeout, text=True, errors="replace")
            res.out = p.stdout
            res.exit = p.returncode
        except subprocess.TimeoutExpired as ex:
            res.out = (ex.stdout or b"").decode("utf8", "replace") if isinstance(ex.stdout, bytes) else (ex.stdout or "")
            res.error = "timeout after %ds" % timeout
            subprocess.run(["pkill", "-f", meta], check=False)
        res.wall = time.time() - t
        parse_tlc_output(res.out, res)
        if res.error and res.error.startswith("timeout"):
            res.ok = False
        shutil.rmtree(meta, ignore_errors=True)
        rec = {"module": module, "cfg": cfg, "name": name or cfg}
        rec.update(res.summary())
        if res.error:
            rec["error"] = res.error
        self.tlc_runs.append(rec)
        self.log("TLC %s/%s: generated=%d distinct=%d depth=%d %s %.1fs" % (
            module, cfg, res.generated, res.distinct, res.depth,
            ("VIOLATED " + res.violated) if res.violated else ("ERROR " + res.error if res.error else "ok"),
            res.wall))
        if not expect_violation and not res.ok and res.error:
            tail = "\n".join(res.out.splitlines()[-40:])
            self.log("TLC output tail:\n" + tail)
        return res

    def write_cfg(self, name, constants, invariants=(), properties=(), spec="Spec", deadlock=False,
                  view=None, constraint=None, postcondition=None, extra_lines=()):
        """Generate spec/<name>.cfg in the scratch copy from a dict of constants (Python values)."""
        d = self._spec_dir()
        lines = ["SPECIFICATION %s" % spec, "CONSTANTS"]
        for k, v in constants.items():
            lines.append("  %s = %s" % (k, tla_lit(v)))
        if invariants:
            lines.append("INVARIANTS " + " ".join(invariants))
        if properties:
            lines.append("PROPERTIES " + " ".join(properties))
        if view:
            lines.append("VIEW " + view)
        if constraint:
            lines.append("CONSTRAINT " + constraint)
        if postcondition:
            lines.append("POSTCONDITION " + postcondition)
        lines.append("CHECK_DEADLOCK %s" % ("TRUE" if deadlock else "FALSE"))
        lines += list(extra_lines)
        with open(os.path.join(d, name), "w") as f:
            f.write("\n".join(lines) + "\n")
        return name

    def tlc_must_pass(self, module, cfg, **kw):
        """Exhaustive check that must finish with no violation; else inconclusive (spec-level
        problems are never reported as code violations)."""
        r = self.tlc(module, cfg, **kw)
        if not r.ok:
            tail = "\n".join(r.out.splitlines()[-60:])
            self.log("TLC output tail:\n" + tail)
            self.inconclusive.append("TLC %s/%s did not pass: %s" % (module, cfg, r.violated or r.error))
        return r

    def tlc_simulate(self, module, cfg, num, depth, timeout=600, extra=None, env=None, name=None):
        ex = ["-simulate", "num=%d" % num, "-depth", str(depth), "-seed", str(self.seed)]
        if extra:
            ex += extra
        return self.tlc(module, cfg, workers=1, timeout=timeout, extra=ex, env=env, name=name or (cfg + ":sim"))

    def tlc_dump_graph(self, module, cfg, timeout=600, env=None):
        """Run exhaustively with -dump dot,actionlabels; returns (TLCResult, path to dot file)."""
        dot = self.path("graph-%s" % hashlib.md5((module + cfg + str(time.time())).encode()).hexdigest()[:8])
        r = self.tlc(module, cfg, workers=1, timeout=timeout,
                     extra=["-dump", "dot,actionlabels", dot], env=env, name=cfg + ":graph")
        return r, dot + ".dot"

    # ------------------------------------------------------------ Go harness
    def harness_dir(self):
        d = self.path("harness")
        if not os.path.isdir(d):
            shutil.copytree(os.path.join(VERIF, "harness"), d,
                            ignore=shutil.ignore_patterns("*.test", "go.mod", "go.sum"))
            with open(os.path.join(d, "go.mod"), "w") as f:
                f.write("module verif/harness\n\ngo 1.26.8\n\nrequire github.com/rminnich/go9p v0.0.0\n\n"
                        "replace github.com/rminnich/go9p => %s\n" % self.repo)
        return d

    def go_env(self):
        e = dict(os.environ)
        e["GOFLAGS"] = "-mod=mod"
        e["GOPROXY"] = "off"
        e.pop("GOTOOLCHAIN", None)
        e.pop("GOSUMDB", None)
        e["CGO_ENABLED"] = e.get("CGO_ENABLED", "1")
        return e

    def build_harness(self, pkg, race=False, tags="verif"):
        key = (pkg, race, tags)
        if key in self._harness_bin:
            return self._harness_bin[key]
        d = self.harness_dir()
        out = self.path("bin-%s%s.test" % (pkg.replace("/", "_"), "-race" if race else ""))
        cmd = ["go", "test", "-c", "-vet=off", "-o", out]
        if tags:
            cmd += ["-tags", tags]
        if race:
            cmd.append("-race")
        cmd.append("./" + pkg)
        t = time.time()
        p = subprocess.run(cmd, cwd=d, env=self.go_env(), stdout=subprocess.PIPE, stderr=subprocess.STDOUT, text=True)
        if p.returncode != 0 or not os.path.exists(out):
            self.log("harness build failed:\n" + p.stdout[-4000:])
            raise Inconclusive("harness build failed for %s (does /repo still compile with -tags verif?)" % pkg)
        self.log("built harness %s%s in %.1fs" % (pkg, " (-race)" if race else "", time.time() - t))
        self._harness_bin[key] = out
        return out

    def go_engine(self, pkg, run, env=None, timeout=600, race=False, name=None, args=None,
                  allow_crash=False, cwd=None):
        """Run test function(s) `run` of harness package `pkg`. The engine writes its JSON report to
        $VERIF_OUT. Returns the parsed report (dict) with extra keys _exit, _stdout."""
        binp = self.build_harness(pkg, race=race)
        outp = self.path("out-%s.json" % hashlib.md5((pkg + run + str(time.time())).encode()).hexdigest()[:10])
        e = self.go_env()
        e["VERIF_OUT"] = outp
        e["VERIF_SEED"] = str(self.seed)
        e["VERIF_TIER"] = self.tier
        e["VERIF_SCRATCH"] = self.scratch
        e["VERIF_DIR"] = VERIF
        if env:
            e.update({k: str(v) for k, v in env.items()})
        cmd = [binp, "-test.run", "^(%s)$" % run, "-test.count=1", "-test.timeout", "%ds" % (timeout + 30)]
        if args:
            cmd += args
        t = time.time()
        try:
            p = subprocess.run(cmd, cwd=cwd or self.scratch, env=e, stdout=subprocess.PIPE, stderr=subprocess.STDOUT,
                               timeout=timeout + 60, text=True, errors="replace")
            stdout, code = p.stdout, p.returncode
        except subprocess.TimeoutExpired as ex:
            so = ex.stdout
            stdout = so.decode("utf8", "replace") if isinstance(so, bytes) else (so or "")
            code = -9
        rep = {}
        if os.path.exists(outp):
            try:
                rep = json.load(open(outp))
            except Exception as ex:  # truncated report
                rep = {"_badjson": str(ex)}
        for kk in ("violations", "inconclusive", "samples"):
            if rep.get(kk) is None and ("cases" in rep or kk != "samples"):
                rep[kk] = []
        rep["_exit"] = code
        rep["_stdout"] = stdout
        rep["_wall"] = time.time() - t
        nm = name or run
        self.engine_runs.append({"engine": nm, "exit": code, "cases": rep.get("cases", 0),
                                 "distinct": rep.get("distinct", 0), "violations": len(rep.get("violations", [])),
                                 "wall_s": round(rep["_wall"], 2)})
        self.log("engine %s: exit=%d cases=%s distinct=%s violations=%d %.1fs" % (
            nm, code, rep.get("cases"), rep.get("distinct"), len(rep.get("violations", [])), rep["_wall"]))
        if (code != 0 or "cases" not in rep) and not allow_crash:
            self.log("engine output tail:\n" + "\n".join(stdout.splitlines()[-60:]))
            self.inconclusive.append("engine %s exited %d without a complete report" % (nm, code))
        for v in rep.get("violations", []):
            self.violation(v.get("key", "?"), v.get("what", ""), v.get("replay"))
        for s in rep.get("inconclusive", []):
            self.inconclusive.append("%s: %s" % (nm, s))
        return rep

    def go_engine_resilient(self, pkg, run, env, ext_out=None, crash_key="server-crash", max_restarts=25, **kw):
        """Run an engine whose subject (the server under test) may panic and kill the test process.
        The engine records the id of the case it is running in $VERIF_PROGRESS and appends its
        outputs when restarted with VERIF_START=<id+1>.  Every crash is registered as a violation
        `<crash_key>:<innermost go9p function>`; returns (last report, list of crashes)."""
        prog = self.path("progress-%s" % hashlib.md5((pkg + run + str(time.time())).encode()).hexdigest()[:8])
        env = dict(env)
        env["VERIF_PROGRESS"] = prog
        env["VERIF_STALL"] = prog + ".stall"
        crashes = []
        total_cases = 0
        rep = {}
        start = 0
        for attempt in range(max_restarts + 1):
            if start:
                env["VERIF_START"] = str(start)
            rep = self.go_engine(pkg, run, env=env, allow_crash=True, **kw)
            total_cases += int(rep.get("cases", 0) or 0)
            if rep["_exit"] == 0 and "cases" in rep:
                break
            out = rep.get("_stdout", "")
            case = None
            closed = False
            try:
                words = open(prog).read().split()
                case = int(words[0])
                closed = "closed" in words[1:]
            except (OSError, ValueError, IndexError):
                pass
            stallp = env.get("VERIF_STALL")
            if rep["_exit"] == 97 and case is not None:
                # the watchdog: the system under test never became quiescent (a lock held across a schedule point, a spin)
                dump = ""
                try:
                    dump = open(stallp).read()
                except OSError:
                    pass
                fn = "?"
                for g in dump.split("\n\n"):
                    if "sync.(*Mutex).Lock" in g or "sync.(*RWMutex)" in g or "[running" in g.split("\n")[0] or "[runnable" in g.split("\n")[0]:
                        fm = re.search(r"^github\.com/rminnich/go9p\.([^\s(]*(?:\([^)]*\))?[^\s(]*)\(", g, re.M)
                        if fm:
                            fn = fm.group(1)
                            break
                crashes.append({"case": case, "panic": "stall: not quiescent (goroutine waiting for a lock or spinning in %s)" % fn, "func": fn, "kind": "stall"})
                self.log("system under test stalled in case %s (%s)" % (case, fn))
                if ext_out:
                    with open(ext_out, "a") as f:
                        f.write(json.dumps({"ev": "reset", "case": case}) + "\n")
                        f.write(json.dumps({"ev": "stall", "what": "not quiescent: lock wait or spin in %s" % fn, "closed": closed}) + "\n")
                start = case + 1
                if sum(1 for c in crashes if c.get("kind") == "stall") >= 3:
                    self.log("three stalls in this engine: not restarting it again")
                    break
                continue
            m = re.search(r"^(panic: .*|fatal error: .*)$", out, re.M)
            if not m or case is None:
                self.log("engine output tail:\n" + "\n".join(out.splitlines()[-40:]))
                self.inconclusive.append("engine %s died without a panic attributable to a case (exit %s)" % (run, rep["_exit"]))
                break
            fn = "?"
            for fm in re.finditer(r"^github\.com/rminnich/go9p\.([^\s(]*(?:\([^)]*\))?[^\s(]*)\(", out[m.start():], re.M):
                fn = fm.group(1)
                break
            crashes.append({"case": case, "panic": m.group(1)[:200], "func": fn, "closed": closed})
            self.log("server under test crashed in case %s: %s in %s" % (case, m.group(1)[:120], fn))
            if ext_out:
                with open(ext_out, "a") as f:
                    f.write(json.dumps({"ev": "reset", "case": case}) + "\n")
                    f.write(json.dumps({"ev": "crash", "what": m.group(1)[:200], "func": fn, "closed": closed}) + "\n")
            start = case + 1
        else:
            # every crash is registered (and judged); the cases after the last one were not executed
            self.log("engine %s crashed more than %d times: the remaining cases are not executed" % (run, max_restarts))
            rep["gave_up_after_crashes"] = len(crashes)
            if not crashes:
                self.inconclusive.append("engine %s was restarted more than %d times" % (run, max_restarts))
        rep["cases_total"] = total_cases + len(crashes)
        rep["crashes"] = crashes
        return rep, crashes

    # ------------------------------------------------------------ verdicts
    def violation(self, key, what, replay=None):
        self.violations.append({"key": key, "what": what, "replay": replay})

    def known_findings(self):
        if self._kf is None:
            self._kf = []
            p = os.path.join(VERIF, "known_findings.json")
            if os.path.exists(p):
                self._kf += json.load(open(p)).get("findings", [])
            d = os.path.join(VERIF, "known_findings.d")
            if os.path.isdir(d):
                for f in sorted(os.listdir(d)):
                    if f.endswith(".json"):
                        self._kf += json.load(open(os.path.join(d, f))).get("findings", [])
        return self._kf

    def finish(self, level, coverage, assumptions=None, extra=None):
        """Classify, write evidence, print verdict lines, return exit code."""
        if self.replay and self.replay_key and not self.replay_handled and self.prop in ("C04", "C05", "C06", "C12", "C19"):
            self.violations = [v for v in self.violations if v["key"] == self.replay_key]
        kf_open = [k for k in self.known_findings() if k["property"] == self.prop and k.get("status") == "open"]
        known_hits = {}
        unlisted = []
        for v in self.violations:
            hit = None
            for k in kf_open:
                if re.search(k["match"], v["key"]):
                    hit = k
                    break
            if hit:
                known_hits.setdefault(hit["id"], []).append(v)
            else:
                unlisted.append(v)
        rdir = os.path.join(VERIF, "evidence", "replays")
        lines = []
        for k in kf_open:
            if k["id"] in known_hits:
                lines.append("KNOWN-FINDING: property=%s %s (%d occurrence(s) this run; e.g. %s)" % (
                    self.prop, k["what"], len(known_hits[k["id"]]), known_hits[k["id"]][0]["key"]))
            elif k.get("always_report", True):
                # listed but not re-observed this run: say so, still listed (tier may not reach it)
                lines.append("KNOWN-FINDING: property=%s %s (listed; not re-observed in this %s run)" % (
                    self.prop, k["what"], self.tier))
        seen = set()
        for v in unlisted:
            h = hashlib.sha1(v["key"].encode()).hexdigest()[:12]
            if h in seen:
                continue
            seen.add(h)
            os.makedirs(rdir, exist_ok=True)
            rp = os.path.join(rdir, "%s-%s.json" % (self.prop, h))
            with open(rp, "w") as f:
                json.dump({"property": self.prop, "key": v["key"], "what": v["what"], "seed": self.seed,
                           "tier": self.tier, "replay": v["replay"]}, f, indent=1, default=str)
            lines.append("VIOLATION property=%s replay=%s" % (self.prop, rp))
            self.log("violation:", v["key"], "--", v["what"])
        cov = dict(coverage)
        cov.setdefault("tlc_runs", self.tlc_runs)
        cov.setdefault("engine_runs", self.engine_runs)
        cov["known_findings_observed"] = sorted(known_hits.keys())
        if self.inconclusive:
            cov["inconclusive"] = self.inconclusive[:20]
        if extra:
            cov.update(extra)
        ev = {"property_id": self.prop, "tier": self.tier, "seed": self.seed, "level": level,
              "coverage": cov, "assumptions": assumptions or [], "wall_s": round(time.time() - self.t0, 2),
              "violations": len(seen)}
        os.makedirs(os.path.join(VERIF, "evidence"), exist_ok=True)
        if not self.replay:      # a replay does not overwrite the evidence of the last real run
            with open(os.path.join(VERIF, "evidence", "%s.json" % self.prop), "w") as f:
                json.dump(ev, f, indent=1, default=str)
        for l in lines:
            print(l, flush=True)
        if seen:
            return 1
        if self.inconclusive:
            for s in self.inconclusive[:20]:
                print("INCONCLUSIVE property=%s %s" % (self.prop, s), flush=True)
            return 2
        print("OK property=%s tier=%s seed=%d wall=%.1fs" % (self.prop, self.tier, self.seed, time.time() - self.t0), flush=True)
        return 0


# ---------------------------------------------------------------- TLA+ value parsing (small subset)
_tok = re.compile(r'\s*(<<|>>|\[|\]|\{|\}|\(|\)|\|->|:>|@@|,|"(?:[^"\\]|\\.)*"|-?\d+|[A-Za-z_][A-Za-z0-9_!]*)')


def parse_tla_value(s):
    """Parse a TLC-printed value (sequences, sets, records, functions, strings, ints, booleans)."""
    toks = _tok.findall(s)
    pos = [0]

    def peek():
        return toks[pos[0]] if pos[0] < len(toks) else None

    def nxt():
        t = toks[pos[0]]
        pos[0] += 1
        return t

    def val():
        t = nxt()
        if t == "<<":
            out = []
            while peek() != ">>":
                out.append(val())
                if peek() == ",":
                    nxt()
            nxt()
            return out
        if t == "{":
            out = []
            while peek() != "}":
                out.append(val())
                if peek() == ",":
                    nxt()
            nxt()
            return {"__set__": out}
        if t == "[":
            out = {}
            while peek() != "]":
                k = nxt()
                assert nxt() == "|->", "record expected"
                out[k] = val()
                if peek() == ",":
                    nxt()
            nxt()
            return out
        if t == "(":
            out = {}
            while peek() != ")":
                k = val()
                assert nxt() == ":>"
                out[k if not isinstance(k, list) else tuple(k)] = val()
                if peek() == "@@":
                    nxt()
            nxt()
            return out
        if t.startswith('"'):
            return t[1:-1]
        if t == "TRUE":
            return True
        if t == "FALSE":
            return False
        if re.fullmatch(r"-?\d+", t):
            return int(t)
        return t

    v = val()
    return v


def parse_action_label(label):
    """'RUnlink(1,2) line 10, col 3 to ... of module X' -> ('RUnlink', [1, 2])"""
    m = re.match(r"\s*([A-Za-z_][A-Za-z0-9_]*)\s*(\((.*?)\))?\s*(line|$)", label)
    if not m:
        return label.strip(), []
    args = []
    if m.group(3) is not None and m.group(3).strip() != "":
        args = parse_tla_value("<<" + m.group(3) + ">>")
    return m.group(1), args


def main(argv):
    import argparse
    import importlib
    ap = argparse.ArgumentParser()
    ap.add_argument("prop")
    ap.add_argument("--tier", default=os.environ.get("VERIF_TIER", "quick"), choices=["quick", "thorough"])
    ap.add_argument("--replay", default=None)
    a = ap.parse_args(argv)
    seed = int(os.environ.get("VERIF_SEED", "1") or "1")
    sys.path.insert(0, os.path.join(VERIF, "lib"))
    mod = importlib.import_module("checks.%s" % a.prop.lower())
    ctx = Ctx(a.prop, a.tier, seed, a.replay)
    code = 2
    try:
        code = mod.run(ctx)
        if code is None:
            code = 2
    except Inconclusive as ex:
        print("INCONCLUSIVE property=%s %s" % (a.prop, ex), flush=True)
        code = 2
    except Exception:
        import traceback
        traceback.print_exc()
        print("INCONCLUSIVE property=%s internal error in check" % a.prop, flush=True)
        code = 2
    finally:
        ctx.cleanup()
    return code
