------------------------------ MODULE Clnt9P ------------------------------
(* The go9p client (clnt_clnt.go, clnt_pool.go, clnt_tag.go, clnt_mount.go) at schedule-point grain.

   One action = one code segment between two verif hook points (or between a hook point and a
   blocking transport/channel operation), so that every action is exactly one step of the gate
   controller in harness/clnth:

     caller k     CAlloc      Rpc: ReqAlloc (cached Req keeps its tag, else tagpool.Get), pack,
                              SetTag                                  -> parks at rpcnb_enq
                  CEnq        under the client lock: refuse if clnt.err, else append to the list
                                                                      -> parks at rpcnb_handoff
                  CHandoff    clnt.reqout <- r  (rendezvous with the idle send goroutine), then
                              blocks in <-r.Done
                  CHandoffEscape   (repaired code only) the select in Rpcnb sees the closed `done`
     sender       SGrant      csend_got -> copies the packet and blocks in conn.Write (or the write
                              fails at once: conn.Close, back to the select)
                  PeerRead    the peer consumes the request: Write returns, sender back in select
     receiver     RRead       conn.Read returns one frame: Unpack, match (first list element with
                              the tag), unlink, type check        -> parks at crecv_deliver,
                              or the failure path                 -> parks at crecv_closed
                  RReadEOF    conn.Read returns EOF/error
                  RDeliver    r.Done <- r, the caller wakes up, ReqFree, Rpc returns
                  RClosed1    clnt.done <- true (as coded: rendezvous with the idle sender;
                              repaired: close(clnt.done)), takes the list
                  RFanout     r.Err = err; r.Done <- r   for the head of the taken list; r = r.next
     peer / app   PeerReply PeerFrame PeerCut PeerClose PeerHalfClose PeerWriteFail PeerGivesUp Unmount

   Rendezvous steps are enabled only when the partner is ready (the controller never releases a
   goroutine into a channel operation whose partner is busy, see docs/client.md); a goroutine that
   would block forever therefore shows up as a state in which its step is never enabled, i.e. as
   a TLC deadlock, and on the real code as a goroutine left in the synctest bubble after the final
   release of all gates.  Terminal states in which every call has returned stutter (Finished), so
   TLC's deadlock check is the NoHang property.

   Deliberate deviations of the code from the repaired design are named by constants:
     FixHandoff  FALSE = as coded at 09919e4: `done` is an unbuffered channel that only the sender
                 reads and Rpcnb does a bare `clnt.reqout <- r`
     FixLeak     FALSE = as coded: Rpc returns without ReqFree when Rpcnb refuses (tag lost)
     FixOversize FALSE = as coded: a frame announcing more than the buffer makes Read return
                 (0, nil) and recv dereferences the nil error
     FixTagNil   FALSE = as coded: Tag.reqproc dereferences r.Rc of a request failed by the fan-out
     FixFanNext  FALSE = as coded: the fan-out loop reads r.next after `r.Done <- r`; the woken caller's
                 ReqFree clears r.next concurrently, so the rest of the list may never be failed
                 (a race: both outcomes are possible, RFanout(lost))
     CloseOnFail (only with FixHandoff) FALSE = the failure path does not close the socket: a writer
                 blocked in Write towards a peer that ended its sending direction but no longer
                 reads ("halfclose") is never released and recv waits for it for ever
     WaitSender  (only with FixHandoff) FALSE = the naive repair `close(done)` alone: the fan-out
                 can then let a caller free a Req that the sender still holds (it dereferences
                 req.Tc after csend_got) -- kept in the model to show why the repair waits *)
EXTENDS Integers, Sequences, FiniteSets, TLC

CONSTANTS K,            \* callers
          NCalls,       \* calls per caller
          NTags,        \* size of the tag pool (the real one has 65535; tags are handed out FIFO)
          CacheCap,     \* capacity of clnt.reqchan (16 in the code)
          TagCallers,   \* callers that use the pipelined Tag interface (one private tag each)
          Kinds,        \* reply kinds the peer chooses from: "ok", "rerror", "wrongtype"
          Faults,       \* subset of {"close","cut","garbage","unknown","oversize","unmount","halfclose","wfail"}
          MaxFaults,
          FixHandoff, FixLeak, FixOversize, FixTagNil, FixFanNext,
          WaitSender,   \* repaired code: recv waits for the send goroutine to return before the fan-out
          CloseOnFail   \* repaired code: recv closes the socket before it stops the writer

Callers == 1..K
Calls == 1..(K * NCalls)
Owner(c) == ((c - 1) \div NCalls) + 1
CallId(k, i) == (k - 1) * NCalls + i
IsTag(k) == k \in TagCallers
NTagC == Cardinality(TagCallers)
PTag(k) == Cardinality({j \in TagCallers : j < k})   \* TagAlloc is done first, in caller order
UnknownTag == NTags                                    \* never handed out

VARIABLES pc, ncall, res, tag,      \* callers: control state, calls started, result and tag per call
          comp,                     \* Tag callers: completions in the order they come out of reqchan
          pool, cache, leaked,      \* tagpool (FIFO), cached Reqs (their tags, FIFO), lost tags
          list, cerr,               \* clnt.reqfirst..reqlast (call ids), clnt.err # nil
          spc, scur,                \* sender: idle | got | writing | exited
          rpc, rmsg, rcur, fan,     \* receiver: read | deliver | closed1 | closing | fanout | exited | panic
          doneClosed,               \* repaired code: clnt.done has been closed
          toPeer, nrecv,            \* requests the peer has received and not answered; count
          fromPeer, conn,           \* frames in flight to the client; open | peerclosed | rdclosed | clntclosed
                                    \* (rdclosed: the peer ended its sending direction and stopped reading)
          got,                      \* ghost: calls whose complete reply the client has read
          nfault

vars == <<pc, ncall, res, tag, comp, pool, cache, leaked, list, cerr, spc, scur, rpc, rmsg, rcur, fan,
          doneClosed, toPeer, nrecv, fromPeer, conn, got, nfault>>

NoMsg == [kind |-> "none", tag |-> -1, pay |-> 0]
NoRes == [st |-> "none", pay |-> 0]
ErrRes == [st |-> "error", pay |-> 0]

Init ==
  /\ pc = [k \in Callers |-> "idle"] /\ ncall = [k \in Callers |-> 0]
  /\ res = [c \in Calls |-> NoRes] /\ tag = [c \in Calls |-> -1]
  /\ comp = [k \in Callers |-> <<>>]
  /\ pool = [i \in 1..(NTags - NTagC) |-> NTagC + i - 1] /\ cache = <<>> /\ leaked = 0
  /\ list = <<>> /\ cerr = FALSE
  /\ spc = "idle" /\ scur = 0
  /\ rpc = "read" /\ rmsg = NoMsg /\ rcur = 0 /\ fan = <<>>
  /\ doneClosed = FALSE
  /\ toPeer = {} /\ nrecv = 0 /\ fromPeer = <<>> /\ conn = "open"
  /\ got = {} /\ nfault = 0

Alive == rpc # "panic"                     \* a panicking goroutine takes the process down
Cur(k) == CallId(k, ncall[k])
AfterCall(k) == IF ncall[k] = NCalls THEN "done" ELSE "idle"
(* The sender returns to its select.  If `done` is closed it returns for good, and a receiver
   that waits for it ("closing") goes on to take the request list.  r is the receiver state the
   enclosing action would otherwise produce. *)
SenderHome(r) ==
  /\ scur' = 0
  /\ IF doneClosed
       THEN /\ spc' = "exited"
            /\ IF r = "closing"
                 THEN fan' = list /\ list' = <<>> /\ rpc' = (IF list = <<>> THEN "exited" ELSE "fanout")
                 ELSE rpc' = r /\ UNCHANGED <<fan, list>>
       ELSE spc' = "idle" /\ rpc' = r /\ UNCHANGED <<fan, list>>
RecvWake(r) == IF r = "read" THEN "closed1" ELSE r   \* a local conn.Close fails a pending Read

(* ReqFree: the Req (with its tag) goes to reqchan if there is room, else the tag goes back *)
Release(t) ==
  IF Len(cache) < CacheCap THEN cache' = Append(cache, t) /\ UNCHANGED pool
                           ELSE pool' = Append(pool, t) /\ UNCHANGED cache

(* ------------------------------------------------------------------ callers *)
CAlloc(k) ==
  /\ Alive
  /\ pc[k] = "idle" /\ ncall[k] < NCalls
  /\ LET c == CallId(k, ncall[k] + 1) IN
     IF IsTag(k) THEN tag' = [tag EXCEPT ![c] = PTag(k)] /\ UNCHANGED <<pool, cache>>
     ELSE IF cache # <<>>
       THEN tag' = [tag EXCEPT ![c] = Head(cache)] /\ cache' = Tail(cache) /\ UNCHANGED pool
       ELSE /\ pool # <<>>                                   \* tagpool.Get blocks on an empty pool
            /\ tag' = [tag EXCEPT ![c] = Head(pool)] /\ pool' = Tail(pool) /\ UNCHANGED cache
  /\ ncall' = [ncall EXCEPT ![k] = @ + 1]
  /\ pc' = [pc EXCEPT ![k] = "enq"]
  /\ UNCHANGED <<res, comp, leaked, list, cerr, spc, scur, rpc, rmsg, rcur, fan, doneClosed,
                 toPeer, nrecv, fromPeer, conn, got, nfault>>

CEnq(k) ==
  /\ Alive
  /\ pc[k] = "enq"
  /\ LET c == Cur(k) IN
     IF cerr
       THEN /\ res' = [res EXCEPT ![c] = ErrRes]
            /\ pc' = [pc EXCEPT ![k] = AfterCall(k)]
            /\ IF IsTag(k) THEN UNCHANGED <<pool, cache, leaked>>
               ELSE IF FixLeak THEN Release(tag[c]) /\ UNCHANGED leaked
               ELSE leaked' = leaked + 1 /\ UNCHANGED <<pool, cache>>
            /\ UNCHANGED list
       ELSE /\ list' = Append(list, c)
            /\ pc' = [pc EXCEPT ![k] = "handoff"]
            /\ UNCHANGED <<res, pool, cache, leaked>>
  /\ UNCHANGED <<ncall, tag, comp, cerr, spc, scur, rpc, rmsg, rcur, fan, doneClosed,
                 toPeer, nrecv, fromPeer, conn, got, nfault>>

CHandoff(k) ==
  /\ Alive
  /\ pc[k] = "handoff" /\ spc = "idle"
  /\ spc' = "got" /\ scur' = Cur(k)
  /\ pc' = [pc EXCEPT ![k] = IF IsTag(k) THEN AfterCall(k) ELSE "wait"]
  /\ UNCHANGED <<ncall, res, tag, comp, pool, cache, leaked, list, cerr, rpc, rmsg, rcur, fan,
                 doneClosed, toPeer, nrecv, fromPeer, conn, got, nfault>>

CHandoffEscape(k) ==
  /\ Alive
  /\ FixHandoff /\ pc[k] = "handoff" /\ doneClosed
  /\ pc' = [pc EXCEPT ![k] = IF IsTag(k) THEN AfterCall(k) ELSE "wait"]
  /\ UNCHANGED <<ncall, res, tag, comp, pool, cache, leaked, list, cerr, spc, scur, rpc, rmsg, rcur,
                 fan, doneClosed, toPeer, nrecv, fromPeer, conn, got, nfault>>

(* ------------------------------------------------------------------ sender *)
SGrant ==
  /\ Alive
  /\ spc = "got"
  /\ IF res[scur].st # "none"
       THEN /\ rpc' = "panic"                    \* req.Tc of a Req its caller has already freed
            /\ UNCHANGED <<spc, scur, conn, fromPeer, cerr, fan, list>>
     ELSE IF conn \in {"open", "rdclosed"}
       THEN /\ spc' = "writing"
            /\ UNCHANGED <<scur, conn, fromPeer, rpc, cerr, fan, list>>
       ELSE /\ conn' = "clntclosed" /\ fromPeer' = <<>>     \* write error: conn.Close()
            /\ cerr' = (cerr \/ rpc = "read")
            /\ SenderHome(RecvWake(rpc))
  /\ UNCHANGED <<pc, ncall, res, tag, comp, pool, cache, leaked, rmsg, rcur, doneClosed,
                 toPeer, nrecv, got, nfault>>

PeerRead ==
  /\ Alive
  /\ spc = "writing" /\ conn = "open"
  /\ toPeer' = toPeer \cup {[call |-> scur, tag |-> tag[scur], seq |-> nrecv + 1]}
  /\ nrecv' = nrecv + 1
  /\ SenderHome(rpc)
  /\ UNCHANGED <<pc, ncall, res, tag, comp, pool, cache, leaked, cerr, rmsg, rcur,
                 doneClosed, fromPeer, conn, got, nfault>>

(* ------------------------------------------------------------------ receiver *)
FirstWithTag(t) ==
  IF \E i \in 1..Len(list) : tag[list[i]] = t
    THEN list[CHOOSE i \in 1..Len(list) : tag[list[i]] = t /\ \A j \in 1..(i - 1) : tag[list[j]] # t]
    ELSE 0
Without(s, x) == SelectSeq(s, LAMBDA y : y # x)
Result(m) == [st |-> IF m.kind = "wrongtype" THEN "badtype" ELSE m.kind, pay |-> m.pay]

RRead ==
  /\ Alive
  /\ rpc = "read" /\ fromPeer # <<>> /\ conn # "clntclosed"
  /\ LET m == Head(fromPeer)
         r == IF m.kind \in {"ok", "rerror", "wrongtype", "unknown"} THEN FirstWithTag(m.tag) ELSE 0 IN
     IF m.kind = "partial"
       THEN /\ fromPeer' = Tail(fromPeer)
            /\ UNCHANGED <<list, cerr, conn, rpc, rmsg, rcur, got, spc, scur>>
     ELSE IF m.kind = "oversize" /\ ~FixOversize
       THEN /\ rpc' = "panic" /\ fromPeer' = Tail(fromPeer)
            /\ UNCHANGED <<list, cerr, conn, rmsg, rcur, got, spc, scur>>
     ELSE IF r = 0
       THEN /\ cerr' = TRUE /\ conn' = "clntclosed" /\ fromPeer' = <<>>
            /\ rpc' = "closed1"
            /\ spc' = (IF spc = "writing" THEN "idle" ELSE spc)   \* its Write fails; `done` is still open
            /\ scur' = (IF spc = "writing" THEN 0 ELSE scur)
            /\ UNCHANGED <<list, rmsg, rcur, got>>
       ELSE /\ list' = Without(list, r) /\ rcur' = r /\ rmsg' = m /\ rpc' = "deliver"
            /\ got' = got \cup {m.pay} /\ fromPeer' = Tail(fromPeer)
            /\ UNCHANGED <<cerr, conn, spc, scur>>
  /\ UNCHANGED <<pc, ncall, res, tag, comp, pool, cache, leaked, fan, doneClosed, toPeer, nrecv, nfault>>

RReadEOF ==
  /\ Alive
  /\ rpc = "read" /\ fromPeer = <<>> /\ conn \in {"peerclosed", "rdclosed"}
  /\ cerr' = TRUE /\ rpc' = "closed1"
  /\ UNCHANGED <<pc, ncall, res, tag, comp, pool, cache, leaked, list, spc, scur, rmsg, rcur, fan,
                 doneClosed, toPeer, nrecv, fromPeer, conn, got, nfault>>

RDeliver ==
  /\ Alive
  /\ rpc = "deliver"
  /\ LET r == rcur
         k == Owner(rcur) IN
     IF IsTag(k)
       THEN /\ comp' = [comp EXCEPT ![k] = Append(@, [call |-> r, st |-> Result(rmsg).st, pay |-> rmsg.pay])]
            /\ res' = [res EXCEPT ![r] = Result(rmsg)]
            /\ UNCHANGED <<pc, pool, cache>>
       ELSE /\ pc[k] = "wait"
            /\ res' = [res EXCEPT ![r] = Result(rmsg)]
            /\ Release(tag[r])
            /\ pc' = [pc EXCEPT ![k] = AfterCall(k)]
            /\ UNCHANGED comp
  /\ rpc' = (IF conn = "clntclosed" THEN "closed1" ELSE "read")
  /\ cerr' = (cerr \/ conn = "clntclosed")
  /\ rcur' = 0 /\ rmsg' = NoMsg
  /\ UNCHANGED <<ncall, tag, leaked, list, spc, scur, fan, doneClosed, toPeer, nrecv, fromPeer, conn,
                 got, nfault>>

RClosed1 ==
  /\ Alive
  /\ rpc = "closed1"
  /\ IF ~FixHandoff
       THEN /\ spc = "idle"                 \* as coded: `clnt.done <- true` needs the sender in its select
            /\ spc' = "exited"
            /\ fan' = list /\ list' = <<>>
            /\ rpc' = (IF list = <<>> THEN "exited" ELSE "fanout")
            /\ UNCHANGED <<doneClosed, conn, fromPeer, scur>>
       ELSE \* repaired: conn.Close() (fails a Write the sender is blocked in), close(clnt.done),
            \* then wait for the sender to return before touching the list
            /\ doneClosed' = TRUE
            /\ conn' = (IF CloseOnFail THEN "clntclosed" ELSE conn)
            /\ fromPeer' = (IF CloseOnFail THEN <<>> ELSE fromPeer)
            /\ LET released == spc = "idle" \/ (spc = "writing" /\ CloseOnFail) IN
               IF WaitSender /\ ~released
                 THEN rpc' = "closing" /\ UNCHANGED <<spc, scur, fan, list>>
                 ELSE /\ spc' = (IF released THEN "exited" ELSE spc)
                      /\ scur' = (IF spc = "writing" /\ released THEN 0 ELSE scur)
                      /\ fan' = list /\ list' = <<>>
                      /\ rpc' = (IF list = <<>> THEN "exited" ELSE "fanout")
  /\ UNCHANGED <<pc, ncall, res, tag, comp, pool, cache, leaked, cerr, rmsg, rcur, toPeer, nrecv,
                 got, nfault>>

RFanout(lost) ==
  /\ Alive
  /\ rpc = "fanout"
  /\ LET r == Head(fan)
         k == Owner(Head(fan))
         nxt == IF lost \/ Tail(fan) = <<>> THEN "exited" ELSE "fanout" IN
     /\ lost => (~FixFanNext /\ ~IsTag(k) /\ Tail(fan) # <<>>)
     /\ IF IsTag(k)
          THEN IF FixTagNil
                 THEN /\ comp' = [comp EXCEPT ![k] = Append(@, [call |-> r, st |-> "error", pay |-> 0])]
                      /\ res' = [res EXCEPT ![r] = ErrRes]
                      /\ rpc' = nxt /\ fan' = Tail(fan)
                      /\ UNCHANGED <<pc, pool, cache>>
                 ELSE /\ rpc' = "panic"             \* reqproc: r.Rc.Type with r.Rc = nil
                      /\ UNCHANGED <<comp, res, fan, pc, pool, cache>>
          ELSE /\ pc[k] = "wait"
               /\ res' = [res EXCEPT ![r] = ErrRes]
               /\ Release(tag[r])
               /\ pc' = [pc EXCEPT ![k] = AfterCall(k)]
               /\ rpc' = nxt /\ fan' = (IF lost THEN <<>> ELSE Tail(fan))
               /\ UNCHANGED comp
  /\ UNCHANGED <<ncall, tag, leaked, list, cerr, spc, scur, rmsg, rcur, doneClosed, toPeer, nrecv,
                 fromPeer, conn, got, nfault>>

(* ------------------------------------------------------------------ peer and application *)
PeerReply(c, kind) ==
  /\ Alive
  /\ conn = "open" /\ kind \in Kinds
  /\ \E q \in toPeer :
       /\ q.call = c
       /\ \A q2 \in toPeer : q2.tag = q.tag => q2.seq >= q.seq     \* same-tag requests answered FIFO
       /\ fromPeer' = Append(fromPeer, [kind |-> kind, tag |-> q.tag, pay |-> c])
       /\ toPeer' = toPeer \ {q}
  /\ UNCHANGED <<pc, ncall, res, tag, comp, pool, cache, leaked, list, cerr, spc, scur, rpc, rmsg, rcur,
                 fan, doneClosed, nrecv, conn, got, nfault>>

PeerFrame(kind) ==          \* garbage | unknown (well-formed reply, tag nobody has) | oversize
  /\ Alive
  /\ conn = "open" /\ kind \in Faults \cap {"garbage", "unknown", "oversize"} /\ nfault < MaxFaults
  /\ fromPeer' = Append(fromPeer, [kind |-> kind, tag |-> UnknownTag, pay |-> 0])
  /\ nfault' = nfault + 1
  /\ UNCHANGED <<pc, ncall, res, tag, comp, pool, cache, leaked, list, cerr, spc, scur, rpc, rmsg, rcur,
                 fan, doneClosed, toPeer, nrecv, conn, got>>

(* the peer side of the connection dies; a Write the sender is blocked in fails, and the sender
   closes the socket, which in turn fails a pending Read *)
PeerDies ==
  IF spc = "writing"
    THEN /\ conn' = "clntclosed" /\ cerr' = (cerr \/ rpc = "read")
         /\ SenderHome(RecvWake(rpc))
    ELSE /\ conn' = "peerclosed" /\ UNCHANGED <<rpc, cerr, spc, scur, fan, list>>

PeerClose ==
  /\ Alive
  /\ conn = "open" /\ "close" \in Faults /\ nfault < MaxFaults
  /\ PeerDies
  /\ fromPeer' = (IF spc = "writing" THEN <<>> ELSE fromPeer)
  /\ nfault' = nfault + 1
  /\ UNCHANGED <<pc, ncall, res, tag, comp, pool, cache, leaked, rmsg, rcur, doneClosed,
                 toPeer, nrecv, got>>

PeerCut(c) ==               \* a proper prefix of the reply to c, then the connection dies
  /\ Alive
  /\ conn = "open" /\ "cut" \in Faults /\ nfault < MaxFaults
  /\ \E q \in toPeer :
       /\ q.call = c
       /\ \A q2 \in toPeer : q2.tag = q.tag => q2.seq >= q.seq
       /\ fromPeer' = (IF spc = "writing" THEN <<>>
                       ELSE Append(fromPeer, [kind |-> "partial", tag |-> q.tag, pay |-> c]))
       /\ toPeer' = toPeer \ {q}
  /\ PeerDies
  /\ nfault' = nfault + 1
  /\ UNCHANGED <<pc, ncall, res, tag, comp, pool, cache, leaked, rmsg, rcur, doneClosed,
                 nrecv, got>>

PeerHalfClose ==            \* the peer ends its sending direction and stops reading
  /\ Alive
  /\ conn = "open" /\ "halfclose" \in Faults /\ nfault < MaxFaults
  /\ conn' = "rdclosed" /\ nfault' = nfault + 1
  /\ UNCHANGED <<pc, ncall, res, tag, comp, pool, cache, leaked, list, cerr, spc, scur, rpc, rmsg, rcur,
                 fan, doneClosed, toPeer, nrecv, fromPeer, got>>

Unmount ==
  /\ Alive
  /\ conn # "clntclosed" /\ "unmount" \in Faults /\ nfault < MaxFaults
  /\ cerr' = TRUE /\ conn' = "clntclosed" /\ fromPeer' = <<>>
  /\ IF spc = "writing" THEN SenderHome(RecvWake(rpc))
     ELSE rpc' = RecvWake(rpc) /\ UNCHANGED <<spc, scur, fan, list>>
  /\ nfault' = nfault + 1
  /\ UNCHANGED <<pc, ncall, res, tag, comp, pool, cache, leaked, rmsg, rcur, doneClosed,
                 toPeer, nrecv, got>>

AllDone == /\ \A k \in Callers : pc[k] = "done"
           /\ \A c \in Calls : res[c].st # "none"
(* the client's writes start to fail while the peer neither reads nor sends any more (a reset seen only by writers, a
   local shutdown of the sending direction): a Write the sender is blocked in fails now -- it closes the socket, which
   fails the pending Read -- and every later Write fails the same way (SGrant).  Reads keep blocking: there is no EOF. *)
PeerWriteFail ==
  /\ Alive
  /\ conn = "open" /\ "wfail" \in Faults /\ nfault < MaxFaults
  /\ IF spc = "writing"
       THEN /\ conn' = "clntclosed" /\ fromPeer' = <<>> /\ cerr' = (cerr \/ rpc = "read")
            /\ SenderHome(RecvWake(rpc))
       ELSE /\ conn' = "wrfailed" /\ UNCHANGED <<fromPeer, rpc, cerr, spc, scur, fan, list>>
  /\ nfault' = nfault + 1
  /\ UNCHANGED <<pc, ncall, res, tag, comp, pool, cache, leaked, rmsg, rcur, doneClosed,
                 toPeer, nrecv, got>>
(* ... and as long as nobody writes, the calls outstanding wait for a peer that stays silent; in the end it goes away *)
PeerGivesUp ==
  /\ Alive
  /\ conn = "wrfailed"
  /\ conn' = "peerclosed"
  /\ UNCHANGED <<pc, ncall, res, tag, comp, pool, cache, leaked, list, cerr, spc, scur, rpc, rmsg, rcur,
                 fan, doneClosed, toPeer, nrecv, fromPeer, got, nfault>>

Finished == Alive /\ AllDone /\ UNCHANGED vars      \* stutter so that genuine deadlocks stand out

Next ==
  \/ \E k \in Callers : CAlloc(k) \/ CEnq(k) \/ CHandoff(k) \/ CHandoffEscape(k)
  \/ SGrant \/ PeerRead
  \/ RRead \/ RReadEOF \/ RDeliver \/ RClosed1
  \/ \E lost \in BOOLEAN : RFanout(lost)
  \/ \E c \in Calls, kind \in {"ok", "rerror", "wrongtype"} : PeerReply(c, kind)
  \/ \E kind \in {"garbage", "unknown", "oversize"} : PeerFrame(kind)
  \/ \E c \in Calls : PeerCut(c)
  \/ PeerClose \/ PeerHalfClose \/ Unmount
  \/ PeerWriteFail \/ PeerGivesUp
  \/ Finished

Spec == Init /\ [][Next]_vars

(* ------------------------------------------------------------------ properties *)
Range(s) == {s[i] : i \in 1..Len(s)}

(* C09: what a call returns is what the peer attached to that call's own request *)
OwnReply == \A c \in Calls : res[c].st \in {"ok", "rerror", "badtype"} => res[c].pay = c

(* C09: outstanding requests carry pairwise distinct tags (requests of one Tag share theirs) *)
DistinctTags ==
  \A i, j \in 1..Len(list) :
    (i # j /\ tag[list[i]] = tag[list[j]]) => (Owner(list[i]) = Owner(list[j]) /\ IsTag(Owner(list[i])))

HeldCallers == {k \in Callers : ~IsTag(k) /\ pc[k] \in {"enq", "handoff", "wait"}}
HeldTags == {tag[Cur(k)] : k \in HeldCallers}

(* C09: tags are conserved (free + cached + held + lost = constant) and never duplicated;
   nothing is lost while the connection is healthy, so an unbounded number of calls can be made *)
Recycling ==
  /\ Len(pool) + Len(cache) + Cardinality(HeldCallers) + leaked = NTags - NTagC
  /\ Cardinality(Range(pool) \cup Range(cache) \cup HeldTags) = Len(pool) + Len(cache) + Cardinality(HeldCallers)
  /\ (leaked > 0 => cerr)

(* C09: requests of one Tag complete in the order issued *)
FIFOPerTag == \A k \in TagCallers : \A i \in 1..Len(comp[k]) : comp[k][i].call = CallId(k, i)

(* C10 *)
NoFalseSuccess == \A c \in Calls : res[c].st = "ok" => (c \in got /\ res[c].pay = c)
CompleteReplyDelivered == \A c \in Calls : res[c].st = "error" => c \notin got
NoPanic == rpc # "panic"

(* sanity of the model itself *)
SenderSanity == doneClosed => spc # "idle"
TypeOK ==
  /\ \A k \in Callers : pc[k] \in {"idle", "enq", "handoff", "wait", "done"}
  /\ spc \in {"idle", "got", "writing", "exited"}
  /\ rpc \in {"read", "deliver", "closed1", "closing", "fanout", "exited", "panic"}
  /\ (rpc = "closing" => doneClosed /\ spc \in {"got", "writing"})
  /\ conn \in {"open", "peerclosed", "rdclosed", "wrfailed", "clntclosed"}
  /\ (conn = "clntclosed" => fromPeer = <<>>)

(* ------------------------------------------------------------------ abstraction seen by the controller *)
AlphaSpc == IF spc = "exited" THEN "idle" ELSE spc
AlphaRpc == IF rpc = "closing" THEN "exited" ELSE rpc   \* blocked on the sender's acknowledgement: at no gate, not reading
AlphaList == [i \in 1..Len(list) |-> tag[list[i]]]
AlphaUsed == NTags - NTagC - Len(pool)
AlphaRes == [c \in Calls |-> <<res[c].st, res[c].pay>>]
=============================================================================
