---------------------------- MODULE Clnt9PTrace ----------------------------
(* Trace validation for Clnt9P: every line of the ndjson file is one controller step of the real
   client (harness/clnth), named by the Clnt9P action it claims to be, with the abstraction of the
   implementation state observed after the step: the control state of every caller, of the
   receive and send goroutines (parked gate / blocked in Read / blocked in Write), the tags of the
   request list in list order, the sticky error flag, the cached tags, the number of tags taken
   out of the pool (all from VerifClntSnapshot), what every call has returned so far (class and
   the call whose request the returned payload was derived from), and the completion order of
   Tag requests.  A line is accepted iff the named action is enabled in the specification state
   reached so far and leads to a state with exactly that abstraction.

   Behaviours are concatenated; a "Reset" line starts the next one.  A line that cannot be
   matched is printed as REJECT and the rest of that case is skipped. *)
EXTENDS Clnt9P, Json, IOUtils

TraceFile == IF "TRACE_FILE" \in DOMAIN IOEnv THEN IOEnv.TRACE_FILE ELSE "trace.ndjson"
Trace == ndJsonDeserialize(TraceFile)

VARIABLES l, failed, case, done
tvars == <<l, failed, case, done>>

Line == Trace[l]
Arg(i) == Line.args[i]

ResetVars ==
  /\ pc' = [k \in Callers |-> "idle"] /\ ncall' = [k \in Callers |-> 0]
  /\ res' = [c \in Calls |-> NoRes] /\ tag' = [c \in Calls |-> -1]
  /\ comp' = [k \in Callers |-> <<>>]
  /\ pool' = [i \in 1..(NTags - NTagC) |-> NTagC + i - 1] /\ cache' = <<>> /\ leaked' = 0
  /\ list' = <<>> /\ cerr' = FALSE
  /\ spc' = "idle" /\ scur' = 0
  /\ rpc' = "read" /\ rmsg' = NoMsg /\ rcur' = 0 /\ fan' = <<>>
  /\ doneClosed' = FALSE
  /\ toPeer' = {} /\ nrecv' = 0 /\ fromPeer' = <<>> /\ conn' = "open"
  /\ got' = {} /\ nfault' = 0

TraceInit == Init /\ l = 1 /\ failed = FALSE /\ case = 0 /\ done = FALSE

PostMatches ==
  LET p == Line.post IN
  /\ \A k \in Callers : p.pc[k] = pc'[k]
  /\ p.rpc = AlphaRpc'
  /\ p.spc = AlphaSpc'
  /\ Len(p.list) = Len(list') /\ \A i \in 1..Len(list') : p.list[i] = tag'[list'[i]]
  /\ p.cerr = cerr'
  /\ Len(p.cache) = Len(cache') /\ \A i \in 1..Len(cache') : p.cache[i] = cache'[i]
  /\ p.used = AlphaUsed'
  /\ \A c \in Calls : p.res[c][1] = res'[c].st /\ p.res[c][2] = res'[c].pay
  /\ \A k \in Callers : /\ Len(p.comp[k]) = Len(comp'[k])
                        /\ \A i \in 1..Len(comp'[k]) : p.comp[k][i] = comp'[k][i].call
  /\ p.nrecv = nrecv'
  /\ p.conn = conn'
  /\ p.nq = Len(fromPeer')

Ev(name) == l <= Len(Trace) /\ ~failed /\ Line.act = name

Step ==
  \/ Ev("CAlloc") /\ CAlloc(Arg(1))
  \/ Ev("CEnq") /\ CEnq(Arg(1))
  \/ Ev("CHandoff") /\ (CHandoff(Arg(1)) \/ CHandoffEscape(Arg(1)))
  \/ Ev("SGrant") /\ SGrant
  \/ Ev("PeerRead") /\ PeerRead
  \/ Ev("RRead") /\ RRead
  \/ Ev("RReadEOF") /\ RReadEOF
  \/ Ev("RDeliver") /\ RDeliver
  \/ Ev("RClosed1") /\ RClosed1
  \/ Ev("RFanout") /\ \E lost \in BOOLEAN : RFanout(lost)
  \/ Ev("PeerReply") /\ PeerReply(Arg(1), Arg(2))
  \/ Ev("PeerFrame") /\ PeerFrame(Arg(1))
  \/ Ev("PeerCut") /\ PeerCut(Arg(1))
  \/ Ev("PeerClose") /\ PeerClose
  \/ Ev("PeerHalfClose") /\ PeerHalfClose
  \/ Ev("PeerWriteFail") /\ PeerWriteFail
  \/ Ev("PeerGivesUp") /\ PeerGivesUp
  \/ Ev("Unmount") /\ Unmount

Matched == Step /\ PostMatches /\ l' = l + 1 /\ UNCHANGED <<failed, case, done>>

ResetStep ==
  /\ l <= Len(Trace) /\ Line.act = "Reset"
  /\ ResetVars /\ l' = l + 1 /\ failed' = FALSE /\ case' = Line.case /\ UNCHANGED done

Reject ==
  /\ l <= Len(Trace) /\ ~failed /\ Line.act # "Reset"
  /\ ~ENABLED Matched
  /\ PrintT(<<"REJECT", case, l, Line.act, Line.args>>)
  /\ failed' = TRUE /\ l' = l + 1 /\ UNCHANGED <<vars, case, done>>

SkipStep ==
  /\ l <= Len(Trace) /\ failed /\ Line.act # "Reset"
  /\ l' = l + 1 /\ UNCHANGED <<vars, failed, case, done>>

Finish == /\ l = Len(Trace) + 1 /\ ~done /\ PrintT(<<"CONSUMED", Len(Trace)>>)
          /\ done' = TRUE /\ UNCHANGED <<vars, l, failed, case>>

TraceNext == Matched \/ ResetStep \/ Reject \/ SkipStep \/ Finish
TraceSpec == TraceInit /\ [][TraceNext]_<<vars, tvars>>

=============================================================================
